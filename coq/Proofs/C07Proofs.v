(* Proofs for Props/C07.v (model: Model/FlowSend.v).  Axiom-free. *)
From Coq Require Import String ZArith List Bool Lia ZifyBool PeanoNat.
From GV Require Import Lib.Str Gen.FactsC07 Model.FlowSend.
Import ListNotations.
Open Scope Z_scope.
#[local] Ltac Zify.zify_post_hook ::= Z.div_mod_to_equations.

(* ------------------------------------------------------------------------------------------ *)
(** * Lists *)

Lemma nth_error_upd_eq {A} (l : list A) i x y :
  nth_error l i = Some x -> nth_error (upd l i y) i = Some y.
Proof.
  revert i; induction l as [|a l IH]; intros [|i] H; cbn in *; try discriminate; auto.
Qed.

Lemma nth_error_upd_ne {A} (l : list A) i j y :
  i <> j -> nth_error (upd l i y) j = nth_error l j.
Proof.
  revert i j; induction l as [|a l IH]; intros [|i] [|j] H; cbn; auto; try congruence.
Qed.

Lemma nth_error_upd_none {A} (l : list A) i y :
  nth_error l i = None -> upd l i y = l.
Proof.
  revert i; induction l as [|a l IH]; intros [|i] H; cbn in *; try discriminate; auto.
  f_equal; auto.
Qed.

Lemma length_upd {A} (l : list A) i y : length (upd l i y) = length l.
Proof. revert i; induction l as [|a l IH]; intros [|i]; cbn; auto. Qed.

Lemma nth_error_map' {A B} (f : A -> B) l i :
  nth_error (map f l) i = option_map f (nth_error l i).
Proof. revert i; induction l as [|a l IH]; intros [|i]; cbn; auto. Qed.

Lemma Forall_upd {A} (P : A -> Prop) l i y :
  Forall P l -> P y -> Forall P (upd l i y).
Proof.
  intros H Hy; revert i; induction H as [|a l Ha Hl IH]; intros [|i]; cbn; auto.
Qed.

Lemma Forall_nth_error {A} (P : A -> Prop) l i x :
  Forall P l -> nth_error l i = Some x -> P x.
Proof.
  intros H; revert i; induction H as [|a l Ha Hl IH]; intros [|i] E; cbn in *; try discriminate.
  - now inversion E; subst.
  - eauto.
Qed.

Lemma Forall_map' {A B} (P : B -> Prop) (f : A -> B) l :
  Forall (fun x => P (f x)) l -> Forall P (map f l).
Proof. induction 1; cbn; auto. Qed.

(* ------------------------------------------------------------------------------------------ *)
(** * The invariant *)

(* what holds of every sender in every reachable state; cw = connection window, wr = write_ready *)
Definition sok (cw : Z) (wr : bool) (x : sender) : Prop :=
  0 <= s_pos x <= s_len x /\
  (s_pc x = WaitWindow -> s_wu x = false /\ Z.min cw (s_win x) <= 0) /\
  (s_pc x = WaitWrite -> wr = false) /\
  (s_pc x = Done -> s_pos x = s_len x) /\
  s_pc x <> Failed /\
  (s_pc x <> Done -> s_pos x < s_len x \/ (s_pos x = 0 /\ s_len x = 0)).

Definition Inv (s : state) : Prop :=
  1 <= mfs s /\ Forall (sok (cwin s) (wready s)) (senders s).

Ltac sok_fin :=
  repeat match goal with |- _ /\ _ => split end;
  try lia; try discriminate; try congruence; try tauto;
  try (intros; match goal with H : _ <> Done -> _ |- _ => apply H; discriminate end);
  try (intros; match goal with H : ?p = ?p -> _ |- _ => destruct (H eq_refl); auto; lia end).

Lemma sok_mono cw cw' wr x : sok cw wr x -> cw' <= cw -> sok cw' wr x.
Proof.
  unfold sok; intros (A & B & C & D & E & F) H.
  split; [lia|]. split; [|tauto].
  intros G; destruct (B G); split; auto; lia.
Qed.

Lemma sok_wu_set cw cw' wr d x : sok cw wr x -> sok cw' wr (wu_set (add_win d x)).
Proof.
  destruct x as [p pos len win wu]; unfold sok, wu_set, add_win; cbn.
  intros (A & B & C & D & E & F).
  destruct wu; cbn.
  - sok_fin.
  - destruct p; cbn in *; sok_fin.
Qed.

Lemma sok_pause cw wr x : sok cw wr x -> sok cw false x.
Proof. unfold sok; intuition. Qed.

Lemma sok_resume cw wr x :
  sok cw wr x -> sok cw true (match s_pc x with WaitWrite => with_pc x CheckWindow | _ => x end).
Proof.
  destruct x as [p pos len win wu]; unfold sok, with_pc; cbn.
  intros (A & B & C & D & E & F).
  destruct p; cbn in *; sok_fin.
Qed.

Lemma Inv_break s : Inv s -> Inv (break s).
Proof. auto. Qed.

(* the chunk computed at CheckWindow, under the invariant *)
Lemma chunk_bounds window mf rem :
  0 < window -> 1 <= mf -> 0 <= rem ->
  let c := bio_read (Z.min (Z.min window mf) rem) rem in
  c = Z.min (Z.min window mf) rem /\ 0 <= c /\ c <= window /\ c <= mf /\ c <= rem /\
  (1 <= rem -> 1 <= c).
Proof.
  intros; unfold c, bio_read.
  destruct (Z.min (Z.min window mf) rem <? 0) eqn:E; lia.
Qed.

Lemma Inv_step s o : Inv s -> Inv (fst (step s o)).
Proof.
  intros [Hm Hs]. unfold step.
  destruct (broken s); [split; auto|].
  destruct o as [i k|k|v|m| | |i]; cbn [fst].
  - (* WinStream *)
    unfold do_win_stream. destruct (nth_error (senders s) i) as [x|] eqn:Ex; [|split; auto].
    destruct (_ || _ || _); [split; auto|]. split; cbn; auto.
    apply Forall_upd; auto. eapply sok_wu_set, Forall_nth_error; eauto.
  - unfold do_win_conn. destruct (_ || _ || _); [split; auto|]. split; cbn; auto.
    apply Forall_map'. eapply Forall_impl; [|exact Hs]. intros x Hx.
    replace x with (add_win 0 x) at 1 by (destruct x; unfold add_win; cbn; f_equal; lia).
    eapply sok_wu_set; eauto.
  - unfold do_init_win. destruct (_ || _ || _); [split; auto|]. split; cbn; auto.
    apply Forall_map'. eapply Forall_impl; [|exact Hs]. intros x Hx. eapply sok_wu_set; eauto.
  - unfold do_max_frame, min_frame. destruct (_ || _) eqn:E; [split; auto|]. split; cbn; auto. lia.
  - split; cbn; auto. eapply Forall_impl; [|exact Hs]. intros x; apply sok_pause.
  - unfold do_resume. destruct (wready s) eqn:W; [split; [auto|rewrite W; auto]|]. split; cbn; auto.
    apply Forall_map'. eapply Forall_impl; [|exact Hs]. intros x; apply sok_resume.
  - (* Run *)
    unfold do_run. destruct (nth_error (senders s) i) as [x|] eqn:Ex; [|split; auto].
    pose proof (Forall_nth_error _ _ _ _ Hs Ex) as Hx.
    destruct x as [p pos len win wu]. destruct Hx as (A & B & C & D & E & F). cbn in *.
    destruct p; cbn [s_pc]; try (split; [exact Hm|exact Hs]).
    + (* Top *)
      destruct (wready s) eqn:W; (split; [exact Hm|]); cbn; rewrite ?W; (apply Forall_upd; [auto|]);
        unfold sok; cbn; sok_fin.
    + (* CheckWindow *)
      destruct (Z.min (cwin s) win <=? 0) eqn:Wz.
      * (split; [exact Hm|]); cbn. apply Forall_upd; auto.
        unfold sok; cbn; sok_fin.
      * pose proof (chunk_bounds (Z.min (cwin s) win) (mfs s) (len - pos)) as Hc.
        cbn zeta in Hc. destruct Hc as (Hc0 & Hc1 & Hc2 & Hc3 & Hc4 & Hc5); try lia.
        set (c := bio_read _ _) in *.
        destruct (_ || _) eqn:Hf; [exfalso; lia|].
        (split; [exact Hm|]); cbn. apply Forall_upd.
        -- eapply Forall_impl; [|exact Hs]. intros y Hy. eapply sok_mono; eauto. lia.
        -- unfold sok; cbn. destruct (pos + c =? len) eqn:Hfin; cbn; sok_fin.
Qed.

Definition wf_cfg (cfg : list (Z * Z)) (mf : Z) : Prop :=
  1 <= mf /\ Forall (fun lw => 0 <= fst lw) cfg.

Lemma Inv_init cfg cw iw mf : wf_cfg cfg mf -> Inv (init cfg cw iw mf).
Proof.
  intros [Hm Hc]. split; cbn; auto.
  apply Forall_map'. eapply Forall_impl; [|exact Hc]. intros [l w] H; cbn in *.
  unfold sok; cbn. sok_fin.
Qed.

Lemma run_app s ops1 ops2 :
  run s (ops1 ++ ops2) =
  let (s1, c1) := run s ops1 in let (s2, c2) := run s1 ops2 in (s2, c1 ++ c2).
Proof.
  revert s; induction ops1 as [|o r IH]; intros s; cbn.
  - destruct (run s ops2); reflexivity.
  - destruct (step s o) as [s1 c1]. rewrite IH.
    destruct (run s1 r) as [s2 c2]. destruct (run s2 ops2) as [s3 c3].
    now rewrite app_assoc.
Qed.

Lemma Inv_run s ops : Inv s -> Inv (fst (run s ops)).
Proof.
  revert s; induction ops as [|o r IH]; intros s H; cbn; auto.
  pose proof (Inv_step s o H) as H1. destruct (step s o) as [s1 c1]; cbn in H1.
  specialize (IH s1 H1). destruct (run s1 r) as [s2 c2]; auto.
Qed.

(* ------------------------------------------------------------------------------------------ *)
(** * What one `Run i` does, in a state satisfying the invariant *)

Definition emitted (s : state) (i : nat) (x : sender) (c : Z) (s' : state) : Prop :=
  c = Z.min (Z.min (Z.min (cwin s) (s_win x)) (mfs s)) (s_len x - s_pos x) /\
  0 <= c /\ (c = 0 -> s_len x = 0) /\
  cwin s' = cwin s - c /\
  senders s' = upd (senders s) i
     (mkSender (if s_pos x + c =? s_len x then Done else Top) (s_pos x + c) (s_len x)
               (s_win x - c) (s_wu x)).

Lemma run_spec s i x s' out :
  Inv s -> broken s = false -> nth_error (senders s) i = Some x ->
  step s (Run i) = (s', out) ->
  iws s' = iws s /\ mfs s' = mfs s /\ wready s' = wready s /\ broken s' = false /\
  ( (s_pc x = Top /\ wready s = true /\ out = [] /\ cwin s' = cwin s /\
     senders s' = upd (senders s) i (with_pc x CheckWindow))
  \/ (s_pc x = Top /\ wready s = false /\ out = [] /\ cwin s' = cwin s /\
     senders s' = upd (senders s) i (with_pc x WaitWrite))
  \/ (s_pc x = CheckWindow /\ Z.min (cwin s) (s_win x) <= 0 /\ out = [] /\ cwin s' = cwin s /\
     senders s' = upd (senders s) i (mkSender WaitWindow (s_pos x) (s_len x) (s_win x) false))
  \/ (s_pc x = CheckWindow /\ 0 < Z.min (cwin s) (s_win x) /\
      exists c, out = [mkChunk i (s_pos x) c] /\ emitted s i x c s')
  \/ (ready_pc (s_pc x) = false /\ out = [] /\ cwin s' = cwin s /\ senders s' = senders s)).
Proof.
  intros [Hm Hs] Hb Ex. unfold step. rewrite Hb. unfold do_run. rewrite Ex.
  pose proof (Forall_nth_error _ _ _ _ Hs Ex) as Hx.
  destruct x as [p pos len win wu]. destruct Hx as (A & B & C & D & E & F). cbn in *.
  destruct p; cbn [s_pc];
    try (intros [= <- <-]; cbn; repeat split; auto; right; right; right; right; repeat split; auto).
  - destruct (wready s) eqn:W; intros [= <- <-]; cbn; repeat split; auto.
    + left. repeat split; auto.
    + right; left. repeat split; auto.
  - destruct (Z.min (cwin s) win <=? 0) eqn:Wz.
    + intros [= <- <-]; cbn; repeat split; auto. right; right; left. repeat split; auto. lia.
    + pose proof (chunk_bounds (Z.min (cwin s) win) (mfs s) (len - pos)) as Hc.
      cbn zeta in Hc. destruct Hc as (Hc0 & Hc1 & Hc2 & Hc3 & Hc4 & Hc5); try lia.
      set (c := bio_read _ _) in *.
      destruct (_ || _) eqn:Hf; [exfalso; lia|].
      intros [= <- <-]; cbn; repeat split; auto. right; right; right; left.
      repeat split; auto; try lia. exists c. split; auto. unfold emitted; cbn.
      repeat split; auto; try lia.
      intros Hz. destruct F as [F|F]; [discriminate| |]; lia.
Qed.

(* ------------------------------------------------------------------------------------------ *)
(** * What a peer action does to a sender: it never touches position, length or completion *)

Definition peer_rel (x x' : sender) : Prop :=
  s_pos x' = s_pos x /\ s_len x' = s_len x /\
  (s_pc x' = s_pc x \/ (s_pc x = WaitWindow /\ s_pc x' = Top) \/
   (s_pc x = WaitWrite /\ s_pc x' = CheckWindow)).

Definition is_run (o : op) : bool := match o with Run _ => true | _ => false end.

Lemma peer_rel_refl x : peer_rel x x.
Proof. unfold peer_rel; auto. Qed.

Lemma peer_rel_wu d x : peer_rel x (wu_set (add_win d x)).
Proof.
  destruct x as [p pos len win wu]; unfold peer_rel, wu_set, add_win; cbn.
  destruct wu; cbn; auto. destruct p; cbn; tauto.
Qed.

Lemma peer_spec s o :
  is_run o = false ->
  snd (step s o) = [] /\
  forall j x, nth_error (senders s) j = Some x ->
    exists x', nth_error (senders (fst (step s o))) j = Some x' /\ peer_rel x x'.
Proof.
  intros Ho. unfold step. destruct (broken s).
  { split; auto. intros j x E; exists x; split; auto using peer_rel_refl. }
  destruct o as [i k|k|v|m| | |i]; try discriminate; cbn [fst snd]; split; auto; intros j x E.
  - unfold do_win_stream. destruct (nth_error (senders s) i) as [y|] eqn:Ey;
      [|exists x; split; auto using peer_rel_refl].
    destruct (_ || _ || _); [exists x; split; auto using peer_rel_refl|]. cbn.
    destruct (Nat.eq_dec i j) as [->|N].
    + rewrite (nth_error_upd_eq _ _ _ _ Ey). rewrite E in Ey; inversion Ey; subst.
      eexists; split; eauto using peer_rel_wu.
    + rewrite nth_error_upd_ne by auto. exists x; split; auto using peer_rel_refl.
  - unfold do_win_conn. destruct (_ || _ || _); [exists x; split; auto using peer_rel_refl|]. cbn.
    rewrite nth_error_map', E; cbn. eexists; split; eauto.
    replace (wu_set x) with (wu_set (add_win 0 x)); [apply peer_rel_wu|].
    destruct x; unfold add_win; cbn; do 2 f_equal; lia.
  - unfold do_init_win. destruct (_ || _ || _); [exists x; split; auto using peer_rel_refl|]. cbn.
    rewrite nth_error_map', E; cbn. eexists; split; eauto using peer_rel_wu.
  - unfold do_max_frame. destruct (_ || _); exists x; split; auto using peer_rel_refl.
  - cbn. exists x; split; auto using peer_rel_refl.
  - unfold do_resume. destruct (wready s); [exists x; split; auto using peer_rel_refl|]. cbn.
    rewrite nth_error_map', E; cbn. eexists; split; eauto.
    destruct x as [p pos len win wu]; unfold peer_rel, with_pc; destruct p; cbn; tauto.
Qed.

(* a Run leaves every other sender alone *)
Lemma run_other s i j x :
  i <> j -> nth_error (senders s) j = Some x ->
  nth_error (senders (fst (step s (Run i)))) j = Some x.
Proof.
  intros N E. unfold step. destruct (broken s); auto. unfold do_run.
  destruct (nth_error (senders s) i) as [y|] eqn:Ey; auto.
  destruct (s_pc y); auto; cbn.
  - destruct (wready s); cbn; rewrite nth_error_upd_ne; auto.
  - destruct (_ <=? 0); cbn; [rewrite nth_error_upd_ne; auto|].
    destruct (_ || _); cbn; rewrite nth_error_upd_ne; auto.
Qed.

Lemma length_senders_step s o : length (senders (fst (step s o))) = length (senders s).
Proof.
  unfold step. destruct (broken s); auto.
  destruct o as [i k|k|v|m| | |i]; cbn [fst].
  - unfold do_win_stream. destruct (nth_error _ _); auto. destruct (_ || _ || _); cbn; auto using length_upd.
  - unfold do_win_conn. destruct (_ || _ || _); cbn; auto using map_length.
  - unfold do_init_win. destruct (_ || _ || _); cbn; auto using map_length.
  - unfold do_max_frame. destruct (_ || _); auto.
  - auto.
  - unfold do_resume. destruct (wready s); cbn; auto using map_length.
  - unfold do_run. destruct (nth_error _ _) as [y|]; auto.
    destruct (s_pc y); auto; cbn.
    + destruct (wready s); cbn; auto using length_upd.
    + destruct (_ <=? 0); cbn; auto using length_upd.
      destruct (_ || _); cbn; auto using length_upd.
Qed.

(* ------------------------------------------------------------------------------------------ *)
(** * Order: the chunks of one stream are contiguous from 0 to its current position *)

Definition chunks_of (i : nat) (tr : list chunk) : list (Z * Z) :=
  map (fun c => (c_off c, c_len c)) (filter (fun c => Nat.eqb (c_sid c) i) tr).

(* l is a list of (offset, length) pieces that tile [a, b) from left to right *)
Fixpoint contig (a : Z) (l : list (Z * Z)) (b : Z) : Prop :=
  match l with
  | [] => a = b
  | (o, c) :: r => o = a /\ 0 <= c /\ contig (a + c) r b
  end.

Lemma contig_app a l1 b l2 c : contig a l1 b -> contig b l2 c -> contig a (l1 ++ l2) c.
Proof.
  revert a; induction l1 as [|[o n] r IH]; intros a; cbn.
  - now intros ->.
  - intros (-> & Hn & H) H2. repeat split; auto.
Qed.

Lemma chunks_of_app i l1 l2 : chunks_of i (l1 ++ l2) = chunks_of i l1 ++ chunks_of i l2.
Proof. unfold chunks_of. now rewrite filter_app, map_app. Qed.

Lemma run_out_sid s i ch : In ch (snd (step s (Run i))) -> c_sid ch = i.
Proof.
  unfold step. destruct (broken s); [intros []|]. unfold do_run.
  destruct (nth_error (senders s) i) as [y|]; [|intros []].
  destruct (s_pc y); try (intros []).
  - destruct (wready s); intros [].
  - destruct (_ <=? 0); [intros []|]. destruct (_ || _); [intros []|].
    intros [<-|[]]; reflexivity.
Qed.

Lemma chunks_of_other s i j : i <> j -> chunks_of j (snd (step s (Run i))) = [].
Proof.
  intros N. unfold chunks_of.
  assert (H : forall ch, In ch (snd (step s (Run i))) -> c_sid ch = i) by (intros; eapply run_out_sid; eauto).
  induction (snd (step s (Run i))) as [|c r IH]; cbn; auto.
  rewrite (H c) by (left; auto). destruct (Nat.eqb_spec i j); [contradiction|].
  apply IH. intros; apply H; right; auto.
Qed.

Lemma step_sender s o j x :
  Inv s -> nth_error (senders s) j = Some x ->
  exists x', nth_error (senders (fst (step s o))) j = Some x' /\ s_len x' = s_len x /\
             contig (s_pos x) (chunks_of j (snd (step s o))) (s_pos x').
Proof.
  intros HI E. destruct (is_run o) eqn:Ho.
  - destruct o as [| | | | | |i]; try discriminate.
    destruct (broken s) eqn:Hb.
    { unfold step; rewrite Hb; cbn. exists x; repeat split; auto. }
    destruct (Nat.eq_dec i j) as [->|N].
    + destruct (step s (Run j)) as [s' out] eqn:Es.
      destruct (run_spec s j x s' out HI Hb E Es) as (_ & _ & _ & _ & H). cbn [fst snd].
      destruct H as [H|[H|[H|[H|H]]]].
      * destruct H as (_ & _ & -> & _ & ->). rewrite (nth_error_upd_eq _ _ _ _ E).
        eexists; repeat split; eauto; cbn; auto.
      * destruct H as (_ & _ & -> & _ & ->). rewrite (nth_error_upd_eq _ _ _ _ E).
        eexists; repeat split; eauto; cbn; auto.
      * destruct H as (_ & _ & -> & _ & ->). rewrite (nth_error_upd_eq _ _ _ _ E).
        eexists; repeat split; eauto; cbn; auto.
      * destruct H as (_ & _ & c & -> & (_ & Hc & _ & _ & ->)).
        rewrite (nth_error_upd_eq _ _ _ _ E).
        eexists; repeat split; eauto; unfold chunks_of; cbn; rewrite Nat.eqb_refl; cbn; auto.
      * destruct H as (_ & -> & _ & ->). exists x; repeat split; auto; cbn; auto.
    + exists x. rewrite (run_other s i j x N E), chunks_of_other by auto. repeat split; auto; cbn; auto.
  - destruct (peer_spec s o Ho) as [H1 H2]. destruct (H2 j x E) as (x' & E' & (P & L & _)).
    exists x'. rewrite H1. repeat split; auto. cbn. auto.
Qed.

Lemma run_sender s ops j x :
  Inv s -> nth_error (senders s) j = Some x ->
  exists x', nth_error (senders (fst (run s ops))) j = Some x' /\ s_len x' = s_len x /\
             contig (s_pos x) (chunks_of j (snd (run s ops))) (s_pos x').
Proof.
  revert s x; induction ops as [|o r IH]; intros s x HI E; cbn.
  - exists x; repeat split; auto; cbn; auto.
  - destruct (step_sender s o j x HI E) as (x1 & E1 & L1 & C1).
    pose proof (Inv_step s o HI) as HI1.
    destruct (step s o) as [s1 c1]; cbn [fst snd] in *.
    destruct (IH s1 x1 HI1 E1) as (x2 & E2 & L2 & C2).
    destruct (run s1 r) as [s2 c2]; cbn [fst snd] in *.
    exists x2. repeat split; auto; try congruence.
    rewrite chunks_of_app. eapply contig_app; eauto.
Qed.

(* the same statement on bytes *)
Definition slice {A} (data : list A) (off len : Z) : list A :=
  firstn (Z.to_nat len) (skipn (Z.to_nat off) data).

Lemma firstn_plus {A} (l : list A) n m : firstn (n + m) l = firstn n l ++ firstn m (skipn n l).
Proof.
  revert l; induction n as [|n IH]; intros l; cbn; auto.
  destruct l; cbn; [now rewrite firstn_nil|]. now rewrite IH.
Qed.

Lemma skipn_plus {A} (l : list A) n m : skipn m (skipn n l) = skipn (n + m) l.
Proof.
  revert l; induction n as [|n IH]; intros l; cbn; auto.
  destruct l; cbn; auto. now rewrite skipn_nil.
Qed.

Lemma contig_bytes {A} (data : list A) l a b :
  0 <= a -> contig a l b ->
  a <= b /\ concat (map (fun oc => slice data (fst oc) (snd oc)) l) = slice data a (b - a).
Proof.
  revert a; induction l as [|[o c] r IH]; intros a Ha; cbn.
  - intros <-. split; [lia|]. unfold slice. now rewrite Z.sub_diag.
  - intros (-> & Hc & H). destruct (IH (a + c) ltac:(lia) H) as [Hle ->]. split; [lia|].
    unfold slice.
    replace (Z.to_nat (b - a)) with (Z.to_nat c + Z.to_nat (b - (a + c)))%nat by lia.
    rewrite firstn_plus, skipn_plus. do 3 f_equal. lia.
Qed.

(* ------------------------------------------------------------------------------------------ *)
(** * Safety: what is emitted never exceeds stream window, connection window or max frame *)

Lemma step_emits s o ch :
  Inv s -> In ch (snd (step s o)) ->
  exists x, o = Run (c_sid ch) /\ nth_error (senders s) (c_sid ch) = Some x /\
            s_pc x = CheckWindow /\
            c_off ch = s_pos x /\ 0 <= c_len ch /\
            c_len ch <= s_win x /\ c_len ch <= cwin s /\ c_len ch <= mfs s /\
            c_off ch + c_len ch <= s_len x /\ (c_len ch = 0 -> s_len x = 0).
Proof.
  intros HI Hin. destruct (is_run o) eqn:Ho.
  2:{ destruct (peer_spec s o Ho) as [H _]. rewrite H in Hin. destruct Hin. }
  destruct o as [| | | | | |i]; try discriminate.
  pose proof (run_out_sid s i ch Hin) as Hsid.
  destruct (broken s) eqn:Hb. { unfold step in Hin; rewrite Hb in Hin. destruct Hin. }
  destruct (nth_error (senders s) i) as [x|] eqn:Ex.
  2:{ unfold step, do_run in Hin. rewrite Hb, Ex in Hin. destruct Hin. }
  destruct (step s (Run i)) as [s' out] eqn:Es. cbn [snd] in Hin.
  destruct (run_spec s i x s' out HI Hb Ex Es) as (_ & _ & _ & _ & H).
  destruct H as [H|[H|[H|[H|H]]]];
    try (destruct H as (_ & _ & -> & _); destruct Hin);
    try (destruct H as (_ & -> & _); destruct Hin).
  destruct H as (Hp & Hw & c & -> & (Hc & Hc0 & Hz & _ & _)).
  destruct Hin as [<-|[]]. cbn in *.
  exists x. repeat split; auto; try lia.
Qed.

Lemma never_failed s : Inv s -> forall x, In x (senders s) -> s_pc x <> Failed.
Proof.
  intros [_ Hs] x Hx. rewrite Forall_forall in Hs. apply (Hs x Hx).
Qed.

(* a send lowers a window only within its non-negative part; peer actions other than SETTINGS
   INITIAL_WINDOW_SIZE never lower a window *)
Lemma run_windows s i j x x' :
  Inv s -> nth_error (senders s) j = Some x ->
  nth_error (senders (fst (step s (Run i)))) j = Some x' ->
  (s_win x' = s_win x \/ 0 <= s_win x' < s_win x) /\
  (cwin (fst (step s (Run i))) = cwin s \/ 0 <= cwin (fst (step s (Run i))) < cwin s).
Proof.
  intros HI E E'.
  destruct (broken s) eqn:Hb.
  { unfold step in *; rewrite Hb in *; cbn in *. rewrite E in E'; inversion E'; auto. }
  destruct (nth_error (senders s) i) as [y|] eqn:Ey.
  2:{ unfold step, do_run in *. rewrite Hb, Ey in *. cbn in *. rewrite E in E'; inversion E'; auto. }
  destruct (step s (Run i)) as [s' out] eqn:Es. cbn [fst] in *.
  destruct (run_spec s i y s' out HI Hb Ey Es) as (_ & _ & _ & _ & H).
  assert (Hsame : forall z, senders s' = upd (senders s) i z -> s_win z = s_win y ->
                            s_win x' = s_win x).
  { intros z Hz Hwz. rewrite Hz in E'. destruct (Nat.eq_dec i j) as [->|N].
    - rewrite (nth_error_upd_eq _ _ _ _ Ey) in E'. rewrite E in Ey. congruence.
    - rewrite nth_error_upd_ne in E' by auto. congruence. }
  destruct H as [H|[H|[H|[H|H]]]].
  - destruct H as (_ & _ & _ & -> & Hs'). split; auto. left. eapply Hsame; eauto.
  - destruct H as (_ & _ & _ & -> & Hs'). split; auto. left. eapply Hsame; eauto.
  - destruct H as (_ & _ & _ & -> & Hs'). split; auto. left. eapply Hsame; eauto.
  - destruct H as (_ & Hw & c & _ & (Hc & Hc0 & _ & -> & Hs')). split; [|lia].
    rewrite Hs' in E'. destruct (Nat.eq_dec i j) as [->|N].
    + rewrite (nth_error_upd_eq _ _ _ _ Ey) in E'. rewrite E in Ey.
      inversion Ey; inversion E'; subst; cbn. lia.
    + rewrite nth_error_upd_ne in E' by auto. left; congruence.
  - destruct H as (_ & _ & -> & Hs'). split; auto. rewrite Hs' in E'. left; congruence.
Qed.

Lemma cwin_nonneg_step s o : Inv s -> 0 <= cwin s -> 0 <= cwin (fst (step s o)).
Proof.
  intros HI H. unfold step. destruct (broken s) eqn:Hb; auto.
  destruct o as [i k|k|v|m| | |i]; cbn [fst]; auto.
  - unfold do_win_stream. destruct (nth_error _ _); auto. destruct (_ || _ || _); auto.
  - unfold do_win_conn. destruct (_ || _ || _) eqn:E; cbn; auto. lia.
  - unfold do_init_win. destruct (_ || _ || _); auto.
  - unfold do_max_frame. destruct (_ || _); auto.
  - unfold do_resume. destruct (wready s); auto.
  - destruct (nth_error (senders s) i) as [y|] eqn:Ey.
    2:{ unfold do_run. rewrite Ey. auto. }
    destruct (do_run s i) as [s' out] eqn:Es.
    assert (Es' : step s (Run i) = (s', out)) by (unfold step; rewrite Hb; auto).
    destruct (run_spec s i y s' out HI Hb Ey Es') as (_ & _ & _ & _ & H'). cbn.
    destruct H' as [H'|[H'|[H'|[H'|H']]]];
      try (destruct H' as (_ & _ & _ & -> & _); auto);
      try (destruct H' as (_ & _ & -> & _); auto).
    destruct H' as (_ & Hw & c & _ & (Hc & Hc0 & _ & -> & _)). lia.
Qed.

(* ------------------------------------------------------------------------------------------ *)
(** * No lost wake-up, progress *)

Lemma no_lost_wakeup s x :
  Inv s -> In x (senders s) ->
  (s_pc x = WaitWindow -> local_window s x <= 0) /\
  (s_pc x = WaitWrite -> wready s = false).
Proof.
  intros [_ Hs] Hx. rewrite Forall_forall in Hs. destruct (Hs x Hx) as (_ & B & C & _).
  split; auto. intros H; apply B in H. unfold local_window; tauto.
Qed.

Lemma quiescent_spec s :
  quiescent s = true <-> forall x, In x (senders s) -> ready_pc (s_pc x) = false.
Proof.
  unfold quiescent. rewrite forallb_forall. split; intros H x Hx; specialize (H x Hx).
  - now apply negb_true_iff in H.
  - now rewrite H.
Qed.

Lemma progress s x :
  Inv s -> quiescent s = true -> In x (senders s) -> s_pc x <> Done ->
  (s_pc x = WaitWrite /\ wready s = false) \/ (s_pc x = WaitWindow /\ local_window s x <= 0).
Proof.
  intros HI Hq Hx Hd. pose proof (no_lost_wakeup s x HI Hx) as [A B].
  rewrite quiescent_spec in Hq. specialize (Hq x Hx).
  pose proof (never_failed s HI x Hx).
  destruct (s_pc x); cbn in *; try discriminate; try congruence; auto.
Qed.

Lemma credit_makes_ready s x :
  Inv s -> In x (senders s) -> s_pc x <> Done ->
  wready s = true -> 0 < local_window s x -> ready_pc (s_pc x) = true.
Proof.
  intros HI Hx Hd Hw Hc. pose proof (no_lost_wakeup s x HI Hx) as [A B].
  pose proof (never_failed s HI x Hx).
  destruct (s_pc x); cbn in *; auto; try congruence.
  - specialize (B eq_refl). congruence.
  - specialize (A eq_refl). lia.
Qed.

(* ------------------------------------------------------------------------------------------ *)
(** * Measure: bytes still to send (+1 per unfinished sender, so that an empty message counts) *)

Definition mu (x : sender) : Z :=
  match s_pc x with Done => 0 | _ => s_len x - s_pos x + 1 end.
Fixpoint sumf (f : sender -> Z) (l : list sender) : Z :=
  match l with [] => 0 | x :: r => f x + sumf f r end.
Definition total (s : state) : Z := sumf mu (senders s).

Lemma sumf_upd f l i x y :
  nth_error l i = Some x -> sumf f (upd l i y) = sumf f l - f x + f y.
Proof.
  revert i; induction l as [|a l IH]; intros [|i] E; cbn in *; try discriminate.
  - inversion E; subst. lia.
  - rewrite (IH _ E). lia.
Qed.

Lemma sumf_pointwise f l l' :
  length l = length l' ->
  (forall j x x', nth_error l j = Some x -> nth_error l' j = Some x' -> f x' = f x) ->
  sumf f l' = sumf f l.
Proof.
  revert l'; induction l as [|a l IH]; intros [|a' l'] HL H; cbn in *; try discriminate; auto.
  rewrite (H 0%nat a a') by reflexivity. rewrite (IH l'); auto.
  intros j x x' E E'. apply (H (S j)); auto.
Qed.

Lemma sumf_nonneg f l : (forall x, In x l -> 0 <= f x) -> 0 <= sumf f l.
Proof.
  induction l as [|a l IH]; intros H; cbn; [lia|].
  pose proof (H a (or_introl eq_refl)). specialize (IH (fun x Hx => H x (or_intror Hx))). lia.
Qed.

Lemma mu_nonneg cw wr x : sok cw wr x -> 0 <= mu x.
Proof. intros (A & _). unfold mu. destruct (s_pc x); lia. Qed.

Lemma total_nonneg s : Inv s -> 0 <= total s.
Proof.
  intros [_ Hs]. apply sumf_nonneg. rewrite Forall_forall in Hs.
  intros x Hx. eapply mu_nonneg; eauto.
Qed.

Lemma mu_peer x x' : peer_rel x x' -> mu x' = mu x.
Proof.
  intros (P & L & [E|[[E E']|[E E']]]); unfold mu; rewrite P, L; try rewrite E, E'; auto.
  now rewrite E.
Qed.

Lemma total_peer s o : is_run o = false -> total (fst (step s o)) = total s.
Proof.
  intros Ho. destruct (peer_spec s o Ho) as [_ H].
  apply sumf_pointwise; [symmetry; apply length_senders_step|].
  intros j x x' E E'. destruct (H j x E) as (y & Ey & R). rewrite E' in Ey; inversion Ey; subst.
  now apply mu_peer.
Qed.

(* a Run that emits strictly decreases the measure; a Run that does not emit changes no window *)
Lemma total_run s i s' out :
  Inv s -> step s (Run i) = (s', out) ->
  (out <> [] -> total s' < total s) /\
  (out = [] -> total s' = total s /\ cwin s' = cwin s).
Proof.
  intros HI Es. destruct (broken s) eqn:Hb.
  { unfold step in Es; rewrite Hb in Es. inversion Es; subst. split; [congruence|auto]. }
  destruct (nth_error (senders s) i) as [x|] eqn:Ex.
  2:{ unfold step, do_run in Es; rewrite Hb, Ex in Es. inversion Es; subst. split; [congruence|auto]. }
  destruct (run_spec s i x s' out HI Hb Ex Es) as (_ & _ & _ & _ & H).
  destruct HI as [Hm Hs]. pose proof (Forall_nth_error _ _ _ _ Hs Ex) as (A & _ & _ & _ & _ & F).
  unfold total.
  destruct H as [H|[H|[H|[H|H]]]].
  - destruct H as (Hp & _ & -> & -> & ->). split; [congruence|]. intros _; split; auto.
    rewrite (sumf_upd _ _ _ _ _ Ex). unfold mu, with_pc; cbn. rewrite Hp. lia.
  - destruct H as (Hp & _ & -> & -> & ->). split; [congruence|]. intros _; split; auto.
    rewrite (sumf_upd _ _ _ _ _ Ex). unfold mu, with_pc; cbn. rewrite Hp. lia.
  - destruct H as (Hp & _ & -> & -> & ->). split; [congruence|]. intros _; split; auto.
    rewrite (sumf_upd _ _ _ _ _ Ex). unfold mu; cbn. rewrite Hp. lia.
  - destruct H as (Hp & Hw & c & -> & (Hc & Hc0 & Hz & _ & ->)). split; [|discriminate].
    intros _. rewrite (sumf_upd _ _ _ _ _ Ex). unfold mu at 2 3; cbn. rewrite Hp.
    destruct (s_pos x + c =? s_len x) eqn:Hfin; [lia|].
    assert (c <> 0) by (intros ->; specialize (Hz eq_refl); lia). lia.
  - destruct H as (_ & -> & -> & ->). split; [congruence|auto].
Qed.

Lemma total_step_le s o : Inv s -> total (fst (step s o)) <= total s.
Proof.
  intros HI. destruct (is_run o) eqn:Ho.
  - destruct o as [| | | | | |i]; try discriminate.
    destruct (step s (Run i)) as [s' out] eqn:Es. cbn.
    destruct (total_run s i s' out HI Es) as [H1 H2].
    destruct out; [destruct (H2 eq_refl); lia|]. specialize (H1 ltac:(discriminate)). lia.
  - rewrite total_peer; auto. lia.
Qed.

Lemma total_run_le s ops : Inv s -> total (fst (run s ops)) <= total s.
Proof.
  revert s; induction ops as [|o r IH]; intros s HI; cbn; [lia|].
  pose proof (total_step_le s o HI). pose proof (Inv_step s o HI) as HI1.
  destruct (step s o) as [s1 c1]; cbn in *. specialize (IH s1 HI1).
  destruct (run s1 r) as [s2 c2]; cbn in *. lia.
Qed.

(* ------------------------------------------------------------------------------------------ *)
(** * Completion *)

(* sender i is unfinished, writing is resumed and i has credit *)
Definition granted (s : state) (i : nat) : Prop :=
  broken s = false /\ wready s = true /\
  exists x, nth_error (senders s) i = Some x /\ s_pc x <> Done /\ 0 < local_window s x.

Lemma nth_error_In' {A} (l : list A) i x : nth_error l i = Some x -> In x l.
Proof. apply nth_error_In. Qed.

(* From a state where i is granted credit, ANY schedule that reaches quiescence has made some
   sender progress: either i itself, or a competitor that used the (connection) credit first. *)
Lemma round_progress i runs : forall s,
  Inv s -> granted s i -> forallb is_run runs = true ->
  quiescent (fst (run s runs)) = true -> total (fst (run s runs)) < total s.
Proof.
  induction runs as [|o r IH]; intros s HI (Hb & Hw & x & Ex & Hd & Hc) Hr Hq; cbn in *.
  - exfalso. rewrite quiescent_spec in Hq. pose proof (nth_error_In' _ _ _ Ex) as Hx.
    pose proof (credit_makes_ready s x HI Hx Hd Hw Hc). rewrite (Hq x Hx) in H. discriminate.
  - apply andb_prop in Hr as [Ho Hr]. destruct o as [| | | | | |j]; try discriminate.
    pose proof (Inv_step s (Run j) HI) as HI1.
    destruct (step s (Run j)) as [s1 out] eqn:Es. cbn [fst] in *.
    destruct (total_run s j s1 out HI Es) as [T1 T2].
    pose proof (total_run_le s1 r HI1) as Hle.
    destruct (run s1 r) as [s2 c2] eqn:Er. cbn [fst] in *.
    destruct out as [|ch out'].
    2:{ specialize (T1 ltac:(discriminate)). lia. }
    destruct (T2 eq_refl) as [Tt Tc].
    assert (G1 : granted s1 i).
    { destruct (nth_error (senders s) j) as [y|] eqn:Ey.
      2:{ unfold step, do_run in Es; rewrite Hb, Ey in Es. inversion Es; subst.
          repeat split; auto. exists x; auto. }
      destruct (run_spec s j y s1 [] HI Hb Ey Es) as (_ & _ & W1 & B1 & H).
      split; [auto|]. split; [congruence|].
      destruct (Nat.eq_dec j i) as [->|N].
      - rewrite Ex in Ey; inversion Ey; subst y.
        destruct H as [H|[H|[H|[H|H]]]].
        + destruct H as (Hp & _ & _ & _ & Hs1). rewrite Hs1, (nth_error_upd_eq _ _ _ _ Ex).
          eexists; split; eauto. unfold local_window in *; cbn. rewrite Tc. split; [discriminate|auto].
        + destruct H as (_ & Hf & _). congruence.
        + destruct H as (_ & Hz & _). unfold local_window in Hc. lia.
        + destruct H as (_ & _ & c & Hx & _). discriminate.
        + destruct H as (Hnr & _). pose proof (nth_error_In' _ _ _ Ex) as Hx.
          pose proof (credit_makes_ready s x HI Hx Hd Hw Hc). congruence.
      - exists x. split; [|split; auto].
        + pose proof (run_other s j i x N Ex) as R. rewrite Es in R. exact R.
        + unfold local_window in *. rewrite Tc. auto. }
    specialize (IH s1 HI1 G1 Hr). rewrite Er in IH. cbn in IH. specialize (IH Hq). lia.
Qed.

(* n rounds, each: arbitrary ops, then a point where i is granted credit, then any schedule of the
   senders up to quiescence *)
Inductive rounds (i : nat) : nat -> state -> state -> Prop :=
| rounds_0 s : rounds i 0 s s
| rounds_S n s pre runs s3 :
    granted (fst (run s pre)) i ->
    forallb is_run runs = true ->
    quiescent (fst (run (fst (run s pre)) runs)) = true ->
    rounds i n (fst (run (fst (run s pre)) runs)) s3 ->
    rounds i (S n) s s3.

Lemma rounds_measure i n s s' : Inv s -> rounds i n s s' -> total s' + Z.of_nat n <= total s.
Proof.
  intros HI R; induction R as [s|n s pre runs s3 G Hr Hq R IH]; [lia|].
  pose proof (Inv_run s pre HI) as HI1. pose proof (total_run_le s pre HI).
  pose proof (round_progress i runs _ HI1 G Hr Hq).
  specialize (IH (Inv_run _ runs HI1)). lia.
Qed.

Lemma rounds_Inv i n s s' : Inv s -> rounds i n s s' -> Inv s'.
Proof.
  intros HI R; induction R; auto. apply IHR. apply Inv_run. apply Inv_run. auto.
Qed.

Lemma rounds_bounded i n s s' : Inv s -> rounds i n s s' -> Z.of_nat n <= total s.
Proof.
  intros HI R. pose proof (rounds_measure i n s s' HI R).
  pose proof (total_nonneg s' (rounds_Inv i n s s' HI R)). lia.
Qed.

(* ---- ample credit: everybody completes in one run to quiescence, whatever the schedule ---- *)

Definition need (x : sender) : Z :=
  match s_pc x with Done => 0 | _ => Z.max 1 (s_len x - s_pos x) end.

Definition ample (s : state) : Prop :=
  broken s = false /\ wready s = true /\ sumf need (senders s) <= cwin s /\
  Forall (fun x => s_pc x <> Done -> need x <= s_win x) (senders s).

Lemma need_nonneg x : 0 <= need x.
Proof. unfold need; destruct (s_pc x); lia. Qed.

Lemma need_le_sum l x : In x l -> need x <= sumf need l.
Proof.
  induction l as [|a l IH]; intros []; cbn.
  - subst. pose proof (sumf_nonneg need l (fun y _ => need_nonneg y)). lia.
  - specialize (IH H). pose proof (need_nonneg a). lia.
Qed.

Lemma ample_ready s x :
  Inv s -> ample s -> In x (senders s) -> s_pc x <> Done ->
  ready_pc (s_pc x) = true /\ 0 < local_window s x.
Proof.
  intros HI (Hb & Hw & Hc & Hs) Hx Hd.
  rewrite Forall_forall in Hs. specialize (Hs x Hx Hd).
  pose proof (need_le_sum _ _ Hx).
  assert (1 <= need x) by (unfold need; destruct (s_pc x); try congruence; lia).
  assert (0 < local_window s x) by (unfold local_window; lia).
  split; auto. eapply credit_makes_ready; eauto.
Qed.

Lemma ample_step s j : Inv s -> ample s -> ample (fst (step s (Run j))).
Proof.
  intros HI Ha. pose proof Ha as (Hb & Hw & Hc & Hs).
  destruct (nth_error (senders s) j) as [y|] eqn:Ey.
  2:{ unfold step, do_run. rewrite Hb, Ey. cbn. repeat split; auto. }
  destruct (step s (Run j)) as [s1 out] eqn:Es. cbn [fst].
  destruct (run_spec s j y s1 out HI Hb Ey Es) as (_ & _ & W1 & B1 & H).
  pose proof (nth_error_In' _ _ _ Ey) as Hy.
  pose proof (Forall_nth_error _ _ _ _ Hs Ey) as Hny. cbn in Hny.
  destruct HI as [Hm HS]. pose proof (Forall_nth_error _ _ _ _ HS Ey) as (A & _ & _ & _ & _ & F).
  assert (HI : Inv s) by (split; auto).
  destruct H as [H|[H|[H|[H|H]]]].
  - destruct H as (Hp & _ & _ & Hcw & Hs1). split; [auto|]. split; [congruence|].
    rewrite Hs1, Hcw. split.
    + assert (Hn : need (with_pc y CheckWindow) = need y)
        by (unfold need, with_pc; cbn; rewrite Hp; auto).
      rewrite (sumf_upd _ _ _ _ _ Ey), Hn. lia.
    + apply Forall_upd; auto. intros _.
      assert (Hn : need (with_pc y CheckWindow) = need y)
        by (unfold need, with_pc; cbn; rewrite Hp; auto).
      rewrite Hn. cbn. apply Hny. rewrite Hp; discriminate.
  - destruct H as (_ & Hf & _). congruence.
  - destruct H as (Hp & Hz & _).
    assert (Hd : s_pc y <> Done) by (rewrite Hp; discriminate).
    destruct (ample_ready s y HI Ha Hy Hd) as [_ Hl]. unfold local_window in Hl. lia.
  - destruct H as (Hp & Hw0 & c & _ & (Hc0 & Hc1 & Hz & Hcw & Hs1)).
    assert (Hd : s_pc y <> Done) by (rewrite Hp; discriminate).
    specialize (Hny Hd). pose proof (need_le_sum _ _ Hy) as Hle.
    assert (Hn : need y = Z.max 1 (s_len y - s_pos y)) by (unfold need; rewrite Hp; auto).
    split; [auto|]. split; [congruence|]. rewrite Hs1, Hcw. split.
    + rewrite (sumf_upd _ _ _ _ _ Ey).
      match goal with |- _ - _ + need ?z <= _ =>
        assert (Hz' : need z = if s_pos y + c =? s_len y then 0 else Z.max 1 (s_len y - (s_pos y + c)))
          by (unfold need; cbn; destruct (s_pos y + c =? s_len y); auto);
        rewrite Hz' end.
      destruct (s_pos y + c =? s_len y) eqn:Hfin; lia.
    + apply Forall_upd; auto.
      match goal with |- _ -> need ?z <= _ =>
        assert (Hz' : need z = if s_pos y + c =? s_len y then 0 else Z.max 1 (s_len y - (s_pos y + c)))
          by (unfold need; cbn; destruct (s_pos y + c =? s_len y); auto);
        rewrite Hz' end. cbn.
      destruct (s_pos y + c =? s_len y) eqn:Hfin; [congruence|]. intros _. lia.
  - destruct H as (_ & _ & Hcw & Hs1). split; [auto|]. split; [congruence|].
    rewrite Hs1, Hcw. auto.
Qed.

Lemma ample_run runs : forall s,
  Inv s -> ample s -> forallb is_run runs = true -> ample (fst (run s runs)).
Proof.
  induction runs as [|o r IH]; intros s HI Ha Hr; cbn in *; auto.
  apply andb_prop in Hr as [Ho Hr]. destruct o as [| | | | | |j]; try discriminate.
  pose proof (Inv_step s (Run j) HI) as HI1. pose proof (ample_step s j HI Ha) as Ha1.
  destruct (step s (Run j)) as [s1 out]; cbn [fst] in *.
  specialize (IH s1 HI1 Ha1 Hr). destruct (run s1 r); auto.
Qed.

Lemma ample_completes s runs :
  Inv s -> ample s -> forallb is_run runs = true -> quiescent (fst (run s runs)) = true ->
  forall x, In x (senders (fst (run s runs))) -> s_pc x = Done.
Proof.
  intros HI Ha Hr Hq x Hx.
  pose proof (ample_run runs s HI Ha Hr) as Ha'. pose proof (Inv_run s runs HI) as HI'.
  destruct (s_pc x) eqn:Hp; auto; exfalso;
    (assert (Hd : s_pc x <> Done) by (rewrite Hp; discriminate));
    destruct (ample_ready _ x HI' Ha' Hx Hd) as [Hr' _];
    rewrite quiescent_spec in Hq; rewrite (Hq x Hx) in Hr'; discriminate.
Qed.

(* ------------------------------------------------------------------------------------------ *)
(** * The FIFO run to quiescence used by the correspondence is one of the schedules *)

Lemma iter_until_inv {A} (fin : A -> bool) (f : A -> A) (P : A -> Prop) :
  (forall x, P x -> P (f x)) -> forall p x, P x -> P (iter_until fin f p x).
Proof.
  intros Hf. induction p as [q IH|q IH|]; intros x Hx; cbn; destruct (fin x); auto.
Qed.

Lemma run_snoc s ops o :
  run s (ops ++ [o]) =
  let (s1, c1) := run s ops in let (s2, c2) := step s1 o in (s2, c1 ++ c2).
Proof.
  rewrite run_app. destruct (run s ops) as [s1 c1]. cbn.
  destruct (step s1 o) as [s2 c2]. now rewrite app_nil_r.
Qed.

Definition sched_op (o : op) : bool := match o with Run _ | Pause => true | _ => false end.

Definition fifo_ok (s0 : state) (x : fifo) : Prop :=
  run s0 (rev (f_sched x)) = (f_state x, rev (f_out x)) /\ forallb sched_op (f_sched x) = true.

Lemma fifo_step_ok s0 x : fifo_ok s0 x -> fifo_ok s0 (fifo_step x).
Proof.
  intros [Hr Hs]. unfold fifo_step. destruct (rq (f_state x)) as [|i q]; [split; auto|].
  destruct (step (f_state x) (Run i)) as [s1 out] eqn:Es.
  assert (H1 : run s0 (rev (Run i :: f_sched x)) = (s1, rev (rev out ++ f_out x))).
  { cbn [rev]. rewrite run_snoc, Hr, Es. now rewrite rev_app_distr, rev_involutive. }
  destruct out as [|ch out']; [|destruct (f_budget x) as [[|k]|]]; try (split; cbn; auto; fail).
  split; [|cbn; auto].
  cbn [f_sched f_state f_out]. change (rev (Pause :: Run i :: f_sched x)) with (rev (Run i :: f_sched x) ++ [Pause]).
  rewrite run_snoc, H1. destruct (step s1 Pause) as [s2 c2] eqn:Ep. cbn [fst].
  assert (c2 = []) as -> by (pose proof (peer_spec s1 Pause eq_refl) as [E _]; rewrite Ep in E; auto).
  now rewrite app_nil_r.
Qed.

Lemma fifo_is_schedule budget s :
  exists ops, forallb sched_op ops = true /\ run s ops = fifo_result budget s.
Proof.
  unfold fifo_result, fifo_quiesce.
  pose proof (iter_until_inv fifo_fin fifo_step (fifo_ok s) (fifo_step_ok s)
                (Z.to_pos (fifo_fuel s)) (mkFifo s budget [] [])) as H.
  destruct H as [Hr Hs]; [split; reflexivity|].
  eexists; split; [|exact Hr]. now rewrite forallb_forall in *; intros o Ho; apply Hs, in_rev.
Qed.

(* ------------------------------------------------------------------------------------------ *)
(** * ... and it ends in a quiescent state.  Book-keeping of the ready queue and of the waiters
      of write_ready: every ready sender is queued, every sender in WaitWrite is a waiter. *)

Definition RQW (s : state) : Prop :=
  (forall i x, nth_error (senders s) i = Some x -> ready_pc (s_pc x) = true -> In i (rq s)) /\
  (forall i x, nth_error (senders s) i = Some x -> s_pc x = WaitWrite -> In i (wwait s)).

Lemma In_remove_nat i j l : In j (remove_nat i l) <-> In j l /\ j <> i.
Proof.
  unfold remove_nat. rewrite filter_In. split; intros [A B]; split; auto.
  - intros ->. rewrite Nat.eqb_refl in B. discriminate.
  - destruct (Nat.eqb_spec j i); auto.
Qed.

Lemma length_remove_nat i l : (length (remove_nat i l) <= length l)%nat.
Proof. unfold remove_nat. induction l as [|a l IH]; cbn; auto. destruct (negb _); cbn; lia. Qed.

Lemma wu_woken_all_In l : forall k j x,
  nth_error l j = Some x -> s_wu x = false -> s_pc x = WaitWindow ->
  In (k + j)%nat (wu_woken_all l k).
Proof.
  induction l as [|a l IH]; intros k [|j] x E Hw Hp; cbn in *; try discriminate.
  - inversion E; subst. apply in_or_app; left. unfold wu_woken. rewrite Hw, Hp.
    rewrite Nat.add_0_r. left; auto.
  - apply in_or_app; right. replace (k + S j)%nat with (S k + j)%nat by lia. eapply IH; eauto.
Qed.

Lemma wu_set_ready d x :
  ready_pc (s_pc (wu_set (add_win d x))) = true ->
  ready_pc (s_pc x) = true \/ (s_wu x = false /\ s_pc x = WaitWindow).
Proof.
  destruct x as [p pos len win wu]; unfold wu_set, add_win; cbn.
  destruct wu; cbn; auto. destruct p; cbn; auto.
Qed.

Lemma wu_set_ww d x : s_pc (wu_set (add_win d x)) = WaitWrite -> s_pc x = WaitWrite.
Proof.
  destruct x as [p pos len win wu]; unfold wu_set, add_win; cbn.
  destruct wu; cbn; auto. destruct p; cbn; auto; discriminate.
Qed.

Lemma wu_set_0 x : wu_set x = wu_set (add_win 0 x).
Proof. destruct x; unfold add_win; cbn. do 2 f_equal. lia. Qed.

Lemma pc_eq_ww (p : pc) : p = WaitWrite \/ p <> WaitWrite.
Proof. destruct p; auto; right; discriminate. Qed.

Lemma RQW_step s o : RQW s -> RQW (fst (step s o)).
Proof.
  intros [HR HW]. unfold step. destruct (broken s); [split; auto|].
  destruct o as [i k|k|v|m| | |i]; cbn [fst].
  - unfold do_win_stream. destruct (nth_error (senders s) i) as [x|] eqn:Ex; [|split; auto].
    destruct (_ || _ || _); [split; auto|]. split; cbn; intros j y E Hy.
    + destruct (Nat.eq_dec i j) as [->|N].
      * rewrite (nth_error_upd_eq _ _ _ _ Ex) in E; inversion E; subst y.
        apply in_or_app. destruct (wu_set_ready _ _ Hy) as [H|[H1 H2]]; [left; eauto|].
        right. unfold wu_woken. rewrite H1, H2. left; auto.
      * rewrite nth_error_upd_ne in E by auto. apply in_or_app; left; eauto.
    + destruct (Nat.eq_dec i j) as [->|N].
      * rewrite (nth_error_upd_eq _ _ _ _ Ex) in E; inversion E; subst y.
        apply wu_set_ww in Hy. eauto.
      * rewrite nth_error_upd_ne in E by auto. eauto.
  - unfold do_win_conn. destruct (_ || _ || _); [split; auto|]. split; cbn; intros j y E Hy;
      rewrite nth_error_map' in E; destruct (nth_error (senders s) j) as [x|] eqn:Ex; try discriminate;
      inversion E; subst y; rewrite wu_set_0 in Hy.
    + apply in_or_app. destruct (wu_set_ready _ _ Hy) as [H|[H1 H2]]; [left; eauto|].
      right. apply (wu_woken_all_In _ 0%nat j x); auto.
    + apply wu_set_ww in Hy. eauto.
  - unfold do_init_win. destruct (_ || _ || _); [split; auto|]. split; cbn; intros j y E Hy;
      rewrite nth_error_map' in E; destruct (nth_error (senders s) j) as [x|] eqn:Ex; try discriminate;
      inversion E; subst y.
    + apply in_or_app. destruct (wu_set_ready _ _ Hy) as [H|[H1 H2]]; [left; eauto|].
      right. apply (wu_woken_all_In _ 0%nat j x); auto.
    + apply wu_set_ww in Hy. eauto.
  - unfold do_max_frame. destruct (_ || _); split; auto.
  - split; auto.
  - unfold do_resume. destruct (wready s); [split; auto|]. split; cbn; intros j y E Hy;
      rewrite nth_error_map' in E; destruct (nth_error (senders s) j) as [x|] eqn:Ex; try discriminate;
      inversion E; subst y.
    + apply in_or_app. destruct (s_pc x) eqn:Hp; cbn in Hy; try discriminate; try rewrite Hp in Hy;
        try discriminate; try (left; eapply HR; eauto; rewrite Hp; reflexivity).
      right. eauto.
    + destruct (s_pc x) eqn:Hp; cbn in Hy; try rewrite Hp in Hy; discriminate.
  - unfold do_run, set_sender. destruct (nth_error (senders s) i) as [x|] eqn:Ex.
    2:{ split; cbn; intros j y E Hy; eauto. apply In_remove_nat. split; eauto. congruence. }
    assert (Hdrop : RQW (drop_rq s i) \/ ready_pc (s_pc x) = true).
    { destruct (ready_pc (s_pc x)) eqn:Hr; auto. left. split; cbn; intros j y E Hy; eauto.
      apply In_remove_nat. split; eauto. intros ->. congruence. }
    assert (Hupd : forall z q w,
      (ready_pc (s_pc z) = true -> q = rq s /\ ready_pc (s_pc x) = true) ->
      (ready_pc (s_pc z) = false -> q = remove_nat i (rq s)) ->
      (s_pc z = WaitWrite -> w = wwait s ++ [i]) -> (s_pc z <> WaitWrite -> w = wwait s) ->
      forall cw, RQW (mkState (upd (senders s) i z) cw (iws s) (mfs s) (wready s) w q false)).
    { intros z q w Q1 Q2 W1 W2 cw. split; cbn; intros j y E Hy.
      - destruct (Nat.eq_dec i j) as [->|N].
        + rewrite (nth_error_upd_eq _ _ _ _ Ex) in E; inversion E; subst y.
          destruct (Q1 Hy) as [-> Hx]. eauto.
        + rewrite nth_error_upd_ne in E by auto.
          destruct (ready_pc (s_pc z)) eqn:Hz.
          * destruct (Q1 eq_refl) as [-> _]. eauto.
          * rewrite (Q2 eq_refl). apply In_remove_nat. split; eauto.
      - destruct (Nat.eq_dec i j) as [->|N].
        + rewrite (nth_error_upd_eq _ _ _ _ Ex) in E; inversion E; subst y.
          rewrite (W1 Hy). apply in_or_app; right; left; auto.
        + rewrite nth_error_upd_ne in E by auto.
          destruct (pc_eq_ww (s_pc z)) as [Hz|Hz].
          * rewrite (W1 Hz). apply in_or_app; left; eauto.
          * rewrite (W2 Hz). eauto. }
    destruct x as [p pos len win wu]; cbn [s_pc] in *.
    destruct p; cbn [fst]; try (destruct Hdrop as [H|H]; [exact H|discriminate H]).
    + destruct (wready s); cbn [fst].
      * apply Hupd; cbn; try tauto; try discriminate; auto.
      * apply Hupd; cbn; try tauto; try discriminate; auto.
    + destruct (_ <=? 0); cbn [fst].
      * apply Hupd; cbn; try tauto; try discriminate; auto.
      * destruct (_ || _); cbn [fst].
        -- apply Hupd; cbn; try tauto; try discriminate; auto.
        -- cbn [s_pos s_len s_win]. destruct (_ =? len); apply Hupd; cbn; try tauto; try discriminate; auto.
Qed.

Lemma RQW_init cfg cw iw mf : RQW (init cfg cw iw mf).
Proof.
  split; cbn; intros i x E Hx.
  - apply in_seq. split; [lia|]. cbn.
    rewrite <- (map_length (fun lw => mkSender Top 0 (fst lw) (snd lw) false) cfg).
    apply nth_error_Some. congruence.
  - rewrite nth_error_map' in E. destruct (nth_error cfg i); try discriminate.
    inversion E; subst; discriminate.
Qed.

Lemma RQW_run s ops : RQW s -> RQW (fst (run s ops)).
Proof.
  revert s; induction ops as [|o r IH]; intros s H; cbn; auto.
  pose proof (RQW_step s o H) as H1. destruct (step s o) as [s1 c1]; cbn in H1.
  specialize (IH s1 H1). destruct (run s1 r) as [s2 c2]; auto.
Qed.

(* generic: iter_until reaches `fin` when a measure drops by one per step and the fuel exceeds it *)
Lemma iter_until_fin_id {A} (fin : A -> bool) (f : A -> A) p x :
  fin x = true -> iter_until fin f p x = x.
Proof. intros H. destruct p; cbn; now rewrite H. Qed.

Lemma iter_until_measure {A} (fin : A -> bool) (f : A -> A) (P : A -> Prop) (m : A -> Z) :
  (forall x, P x -> P (f x)) ->
  (forall x, P x -> fin x = false -> m (f x) + 1 <= m x) ->
  forall p x, P x ->
    fin (iter_until fin f p x) = true \/ m (iter_until fin f p x) + Zpos p <= m x.
Proof.
  intros HP Hm. induction p as [q IH|q IH|]; intros x Hx; cbn [iter_until];
    destruct (fin x) eqn:Fx; auto.
  - pose proof (Hm x Hx Fx) as H0. pose proof (HP x Hx) as P0.
    destruct (IH (f x) P0) as [F1|M1].
    { rewrite (iter_until_fin_id fin f q _ F1). auto. }
    pose proof (iter_until_inv fin f P HP q (f x) P0) as P1.
    destruct (IH _ P1) as [F2|M2]; auto. right. lia.
  - destruct (IH x Hx) as [F1|M1].
    { rewrite (iter_until_fin_id fin f q _ F1). auto. }
    pose proof (iter_until_inv fin f P HP q x Hx) as P1.
    destruct (IH _ P1) as [F2|M2]; auto. right. lia.
Qed.

Definition phi (s : state) : Z := sumf sender_fuel (senders s) + Z.of_nat (length (rq s)).

Lemma fifo_fuel_phi s : fifo_fuel s = phi s + 1.
Proof.
  unfold fifo_fuel, phi. f_equal. f_equal. induction (senders s) as [|a l IH]; cbn; auto. now rewrite IH.
Qed.

Lemma sender_fuel_nonneg x : 0 <= sender_fuel x.
Proof. unfold sender_fuel. destruct (s_pc x); lia. Qed.

Lemma phi_nonneg s : 0 <= phi s.
Proof.
  unfold phi. pose proof (sumf_nonneg sender_fuel (senders s) (fun x _ => sender_fuel_nonneg x)). lia.
Qed.

Lemma length_remove_head i q : (length (remove_nat i (i :: q)) <= length q)%nat.
Proof.
  unfold remove_nat; cbn. rewrite Nat.eqb_refl; cbn. apply (length_remove_nat i q).
Qed.

(* running the head of the ready queue strictly decreases phi *)
Lemma phi_run_head s i q :
  Inv s -> broken s = false -> rq s = i :: q ->
  phi (fst (step s (Run i))) + 1 <= phi s /\ broken (fst (step s (Run i))) = false.
Proof.
  intros HI Hb Hq. unfold step. rewrite Hb. unfold do_run, set_sender.
  pose proof (length_remove_head i q) as Lh.
  destruct (nth_error (senders s) i) as [x|] eqn:Ex.
  2:{ cbn. split; auto. unfold phi; cbn. rewrite Hq. cbn [length]. lia. }
  destruct HI as [Hm Hs]. pose proof (Forall_nth_error _ _ _ _ Hs Ex) as (A & _ & _ & _ & _ & F).
  assert (Hdrop : ready_pc (s_pc x) = false ->
                  phi (drop_rq s i) + 1 <= phi s /\ broken (drop_rq s i) = false).
  { intros _. split; auto. unfold phi; cbn. rewrite Hq. cbn [length]. lia. }
  assert (Hupd : forall z cw w rq',
     (rq' = rq s /\ sender_fuel z + 1 <= sender_fuel x) \/
     (rq' = remove_nat i (rq s) /\ sender_fuel z <= sender_fuel x) ->
     phi (mkState (upd (senders s) i z) cw (iws s) (mfs s) (wready s) w rq' false) + 1 <= phi s).
  { intros z cw w rq' H. unfold phi; cbn. rewrite (sumf_upd _ _ _ _ _ Ex).
    destruct H as [[-> H]|[-> H]]; rewrite Hq; cbn [length]; lia. }
  destruct x as [p pos len win wu]; cbn [s_pc s_pos s_len s_win s_wu] in *.
  destruct p; cbn [fst]; try (apply Hdrop; reflexivity).
  - destruct (wready s); cbn [fst]; (split; [|reflexivity]); apply Hupd; unfold sender_fuel, with_pc; cbn [s_pc s_pos s_len].
    + left; split; auto; lia.
    + right; split; auto; lia.
  - destruct (_ <=? 0) eqn:Wz; cbn [fst].
    { split; [|reflexivity]. apply Hupd; unfold sender_fuel, with_pc; cbn [s_pc s_pos s_len]. right; split; auto; lia. }
    pose proof (chunk_bounds (Z.min (cwin s) win) (mfs s) (len - pos)) as Hc.
    cbn zeta in Hc. destruct Hc as (Hc0 & Hc1 & Hc2 & Hc3 & Hc4 & Hc5); try lia.
    set (c := bio_read _ _) in *.
    destruct (_ || _) eqn:Hf; [exfalso; lia|]. cbn [fst].
    split; [|reflexivity].
    destruct (pos + c =? len) eqn:Hfin; apply Hupd; unfold sender_fuel, with_pc; cbn [s_pc s_pos s_len].
    + right; split; auto; lia.
    + left; split; auto. destruct F as [F|F]; [discriminate| |]; lia.
Qed.

Definition fifo_P (x : fifo) : Prop :=
  Inv (f_state x) /\ RQW (f_state x) /\ broken (f_state x) = false.

Lemma fifo_step_P x : fifo_P x -> fifo_P (fifo_step x).
Proof.
  intros (HI & HR & Hb). unfold fifo_step.
  destruct (rq (f_state x)) as [|i q] eqn:Hq; [exact (conj HI (conj HR Hb))|].
  pose proof (Inv_step (f_state x) (Run i) HI) as HI1.
  pose proof (RQW_step (f_state x) (Run i) HR) as HR1.
  destruct (phi_run_head _ i q HI Hb Hq) as [_ Hb1].
  destruct (step (f_state x) (Run i)) as [s1 out]; cbn [fst] in *.
  destruct out as [|ch out']; [|destruct (f_budget x) as [[|k]|]];
    try exact (conj HI1 (conj HR1 Hb1)).
  split; [|split]; cbn [f_state].
  - apply (Inv_step s1 Pause HI1).
  - apply (RQW_step s1 Pause HR1).
  - unfold step. rewrite Hb1. reflexivity.
Qed.

Lemma fifo_step_measure x :
  fifo_P x -> fifo_fin x = false -> phi (f_state (fifo_step x)) + 1 <= phi (f_state x).
Proof.
  intros (HI & HR & Hb) Hf. unfold fifo_fin in Hf. unfold fifo_step.
  destruct (rq (f_state x)) as [|i q] eqn:Hq; [discriminate|].
  destruct (phi_run_head _ i q HI Hb Hq) as [Hphi Hb1].
  destruct (step (f_state x) (Run i)) as [s1 out]; cbn [fst] in *.
  destruct out as [|ch out']; [|destruct (f_budget x) as [[|k]|]]; cbn [f_state]; auto.
  unfold step. rewrite Hb1. cbn. unfold phi in *; cbn. exact Hphi.
Qed.

Lemma fifo_quiescent budget s :
  Inv s -> RQW s -> broken s = false -> quiescent (fst (fifo_result budget s)) = true.
Proof.
  intros HI HR Hb. unfold fifo_result, fifo_quiesce. cbn [fst].
  set (x0 := mkFifo s budget [] []).
  assert (P0 : fifo_P x0) by exact (conj HI (conj HR Hb)).
  pose proof (iter_until_measure fifo_fin fifo_step fifo_P (fun x => phi (f_state x))
                fifo_step_P fifo_step_measure (Z.to_pos (fifo_fuel s)) x0 P0) as H.
  pose proof (iter_until_inv fifo_fin fifo_step fifo_P fifo_step_P (Z.to_pos (fifo_fuel s)) x0 P0)
    as (HI' & [HR' _] & _).
  set (r := iter_until fifo_fin fifo_step (Z.to_pos (fifo_fuel s)) x0) in *.
  destruct H as [Hfin|Hm].
  - apply quiescent_spec. intros y Hy. destruct (ready_pc (s_pc y)) eqn:Hr; auto. exfalso.
    destruct (In_nth_error _ _ Hy) as [j Ej]. specialize (HR' j y Ej Hr).
    unfold fifo_fin in Hfin. destruct (rq (f_state r)); [destruct HR'|discriminate].
  - exfalso. cbn in Hm. rewrite fifo_fuel_phi in Hm. pose proof (phi_nonneg s).
    pose proof (phi_nonneg (f_state r)). lia.
Qed.

(* ------------------------------------------------------------------------------------------ *)
(** * Back-pressure: a sender that reaches the loop top while writing is paused blocks without
      emitting; after a pause a sender emits at most the one chunk it was already woken for *)

Lemma at_most_one_chunk_while_paused s i s1 out1 s2 out2 :
  Inv s -> wready s = false ->
  step s (Run i) = (s1, out1) -> step s1 (Run i) = (s2, out2) ->
  out1 = [] \/ out2 = [].
Proof.
  intros HI Hw E1 E2.
  destruct (broken s) eqn:Hb. { unfold step in E1; rewrite Hb in E1. inversion E1; auto. }
  destruct (nth_error (senders s) i) as [x|] eqn:Ex.
  2:{ unfold step, do_run in E1; rewrite Hb, Ex in E1. inversion E1; auto. }
  destruct (run_spec s i x s1 out1 HI Hb Ex E1) as (_ & _ & W1 & B1 & H).
  destruct H as [H|[H|[H|[H|H]]]];
    try (destruct H as (_ & _ & -> & _); auto; fail); try (destruct H as (_ & -> & _); auto; fail).
  destruct H as (Hp & _ & c & -> & (_ & _ & _ & _ & Hs1)). right.
  pose proof (Inv_step s (Run i) HI) as HI1. rewrite E1 in HI1. cbn in HI1.
  assert (Ex1 : nth_error (senders s1) i = Some
     (mkSender (if s_pos x + c =? s_len x then Done else Top) (s_pos x + c) (s_len x) (s_win x - c) (s_wu x)))
    by (rewrite Hs1; eapply nth_error_upd_eq; eauto).
  destruct (run_spec s1 i _ s2 out2 HI1 B1 Ex1 E2) as (_ & _ & _ & _ & H).
  cbn [s_pc] in H. rewrite W1, Hw in H.
  destruct H as [H|[H|[H|[H|H]]]];
    try (destruct H as (_ & _ & -> & _); auto; fail); try (destruct H as (_ & -> & _); auto; fail).
  destruct H as (Hp' & _). destruct (_ =? _); discriminate.
Qed.

(* ------------------------------------------------------------------------------------------ *)
(** * Statements over reachable states (what Props/C07.v exports) *)

Definition reachable (cfg : list (Z * Z)) (cw iw mf : Z) (s : state) : Prop :=
  wf_cfg cfg mf /\ exists ops, s = fst (run (init cfg cw iw mf) ops).

Lemma reachable_Inv cfg cw iw mf s : reachable cfg cw iw mf s -> Inv s.
Proof. intros [W [ops ->]]. apply Inv_run, Inv_init; auto. Qed.

Lemma reachable_RQW cfg cw iw mf s : reachable cfg cw iw mf s -> RQW s.
Proof. intros [W [ops ->]]. apply RQW_run, RQW_init. Qed.

Lemma reachable_step cfg cw iw mf s o :
  reachable cfg cw iw mf s -> reachable cfg cw iw mf (fst (step s o)).
Proof.
  intros [W [ops ->]]. split; auto. exists (ops ++ [o]). rewrite run_snoc.
  destruct (run _ ops) as [s1 c1]. cbn. destruct (step s1 o); auto.
Qed.

Lemma reachable_run cfg cw iw mf s ops :
  reachable cfg cw iw mf s -> reachable cfg cw iw mf (fst (run s ops)).
Proof.
  intros [W [ops0 ->]]. split; auto. exists (ops0 ++ ops). rewrite run_app.
  destruct (run _ ops0) as [s1 c1]. cbn. destruct (run s1 ops); auto.
Qed.

Lemma safety cfg cw iw mf s o ch :
  reachable cfg cw iw mf s -> In ch (snd (step s o)) ->
  exists x, o = Run (c_sid ch) /\ nth_error (senders s) (c_sid ch) = Some x /\
            s_pc x = CheckWindow /\
            c_off ch = s_pos x /\ 0 <= c_len ch /\
            c_len ch <= s_win x /\ c_len ch <= cwin s /\ c_len ch <= mfs s /\
            c_off ch + c_len ch <= s_len x /\ (c_len ch = 0 -> s_len x = 0).
Proof. intros R. apply step_emits. eapply reachable_Inv; eauto. Qed.

Lemma h2_never_raises cfg cw iw mf s x :
  reachable cfg cw iw mf s -> In x (senders s) -> s_pc x <> Failed.
Proof. intros R. apply never_failed. eapply reachable_Inv; eauto. Qed.

Lemma send_respects_windows cfg cw iw mf s i j x x' :
  reachable cfg cw iw mf s -> nth_error (senders s) j = Some x ->
  nth_error (senders (fst (step s (Run i)))) j = Some x' ->
  (s_win x' = s_win x \/ 0 <= s_win x' < s_win x) /\
  (cwin (fst (step s (Run i))) = cwin s \/ 0 <= cwin (fst (step s (Run i))) < cwin s).
Proof. intros R. apply run_windows. eapply reachable_Inv; eauto. Qed.

Lemma cwin_never_negative cfg cw iw mf s : 0 <= cw -> reachable cfg cw iw mf s -> 0 <= cwin s.
Proof.
  intros Hc [W [ops ->]].
  assert (G : forall ops s0, Inv s0 -> 0 <= cwin s0 -> 0 <= cwin (fst (run s0 ops))).
  { clear. induction ops as [|o r IH]; intros s0 HI H; cbn; auto.
    pose proof (cwin_nonneg_step s0 o HI H). pose proof (Inv_step s0 o HI).
    destruct (step s0 o) as [s1 c1]; cbn in *. specialize (IH s1 H1 H0).
    destruct (run s1 r); auto. }
  apply G; auto. apply Inv_init; auto.
Qed.

Lemma chunks_in_order cfg cw iw mf ops i lw x :
  wf_cfg cfg mf -> nth_error cfg i = Some lw ->
  nth_error (senders (fst (run (init cfg cw iw mf) ops))) i = Some x ->
  s_len x = fst lw /\
  contig 0 (chunks_of i (snd (run (init cfg cw iw mf) ops))) (s_pos x) /\
  s_pos x <= s_len x /\ (s_pc x = Done -> s_pos x = s_len x).
Proof.
  intros W E Ex.
  assert (E0 : nth_error (senders (init cfg cw iw mf)) i = Some (mkSender Top 0 (fst lw) (snd lw) false))
    by (cbn; rewrite nth_error_map', E; reflexivity).
  destruct (run_sender _ ops i _ (Inv_init cfg cw iw mf W) E0) as (x' & E' & L & C).
  rewrite Ex in E'; inversion E'; subst x'. cbn in *.
  pose proof (Inv_run _ ops (Inv_init cfg cw iw mf W)) as [_ Hs].
  pose proof (Forall_nth_error _ _ _ _ Hs Ex) as (A & _ & _ & D & _).
  repeat split; auto; lia.
Qed.

Lemma bytes_in_order {A} (data : list A) cfg cw iw mf ops i lw x :
  wf_cfg cfg mf -> nth_error cfg i = Some lw -> Z.of_nat (length data) = fst lw ->
  nth_error (senders (fst (run (init cfg cw iw mf) ops))) i = Some x ->
  let received := concat (map (fun oc => slice data (fst oc) (snd oc))
                              (chunks_of i (snd (run (init cfg cw iw mf) ops)))) in
  received = firstn (Z.to_nat (s_pos x)) data /\ (s_pc x = Done -> received = data).
Proof.
  intros W E HL Ex received.
  destruct (chunks_in_order cfg cw iw mf ops i lw x W E Ex) as (L & C & P & D).
  destruct (contig_bytes data _ 0 (s_pos x) ltac:(lia) C) as [Hp Hc].
  assert (R : received = firstn (Z.to_nat (s_pos x)) data).
  { unfold received. rewrite Hc. unfold slice. cbn. now rewrite Z.sub_0_r. }
  split; auto. intros Hd. rewrite R, (D Hd), L, <- HL, Nat2Z.id. apply firstn_all.
Qed.

Lemma no_lost_wakeup_r cfg cw iw mf s x :
  reachable cfg cw iw mf s -> In x (senders s) ->
  (s_pc x = WaitWindow -> local_window s x <= 0) /\ (s_pc x = WaitWrite -> wready s = false).
Proof. intros R. apply no_lost_wakeup. eapply reachable_Inv; eauto. Qed.

Lemma progress_r cfg cw iw mf s x :
  reachable cfg cw iw mf s -> quiescent s = true -> In x (senders s) -> s_pc x <> Done ->
  (s_pc x = WaitWrite /\ wready s = false) \/ (s_pc x = WaitWindow /\ local_window s x <= 0).
Proof. intros R. apply progress. eapply reachable_Inv; eauto. Qed.

Lemma credit_wakes_r cfg cw iw mf s x :
  reachable cfg cw iw mf s -> In x (senders s) -> s_pc x <> Done ->
  wready s = true -> 0 < local_window s x -> ready_pc (s_pc x) = true.
Proof. intros R. apply credit_makes_ready. eapply reachable_Inv; eauto. Qed.

Lemma round_progress_r cfg cw iw mf s i runs :
  reachable cfg cw iw mf s -> granted s i -> forallb is_run runs = true ->
  quiescent (fst (run s runs)) = true -> total (fst (run s runs)) < total s.
Proof. intros R. apply round_progress. eapply reachable_Inv; eauto. Qed.

Lemma rounds_bounded_r cfg cw iw mf s i n s' :
  reachable cfg cw iw mf s -> rounds i n s s' -> Z.of_nat n <= total s.
Proof. intros R. apply rounds_bounded. eapply reachable_Inv; eauto. Qed.

Lemma ample_completes_r cfg cw iw mf s runs :
  reachable cfg cw iw mf s -> ample s -> forallb is_run runs = true ->
  quiescent (fst (run s runs)) = true ->
  forall x, In x (senders (fst (run s runs))) -> s_pc x = Done.
Proof. intros R. apply ample_completes. eapply reachable_Inv; eauto. Qed.

Lemma fifo_quiescent_r cfg cw iw mf s budget :
  reachable cfg cw iw mf s -> broken s = false -> quiescent (fst (fifo_result budget s)) = true.
Proof. intros R. apply fifo_quiescent; [eapply reachable_Inv|eapply reachable_RQW]; eauto. Qed.

Lemma one_chunk_while_paused_r cfg cw iw mf s i s1 out1 s2 out2 :
  reachable cfg cw iw mf s -> wready s = false ->
  step s (Run i) = (s1, out1) -> step s1 (Run i) = (s2, out2) -> out1 = [] \/ out2 = [].
Proof. intros R. apply at_most_one_chunk_while_paused. eapply reachable_Inv; eauto. Qed.

(* the model's error branch: what h2 rejects breaks the connection and nothing is sent afterwards *)
Lemma broken_is_final s o : broken s = true -> step s o = (s, []).
Proof. intros H. unfold step. now rewrite H. Qed.

Lemma invalid_peer_action_breaks s :
  broken s = false ->
  (forall k, (k < 1 \/ max_window < cwin s + k) -> broken (fst (step s (WinConn k))) = true) /\
  (forall m, (m < min_frame \/ max_frame < m) -> broken (fst (step s (SetMaxFrame m))) = true) /\
  (forall v, (v < 0 \/ max_window < v) -> broken (fst (step s (SetInitWin v))) = true) /\
  (forall i x k, nth_error (senders s) i = Some x -> (k < 1 \/ max_window < s_win x + k) ->
                 broken (fst (step s (WinStream i k))) = true).
Proof.
  intros Hb. unfold step. rewrite Hb. cbn [fst]. repeat split.
  - intros k H. unfold do_win_conn.
    destruct ((k <? 1) || (max_window <? k) || (max_window <? cwin s + k)) eqn:E; auto. exfalso; lia.
  - intros m H. unfold do_max_frame. destruct ((m <? min_frame) || (max_frame <? m)) eqn:E; auto. exfalso; lia.
  - intros v H. unfold do_init_win.
    destruct ((v <? 0) || (max_window <? v)) eqn:E; cbn; auto. exfalso; lia.
  - intros i x k Ex H. unfold do_win_stream. rewrite Ex.
    destruct ((k <? 1) || (max_window <? k) || (max_window <? s_win x + k)) eqn:E; auto. exfalso; lia.
Qed.

(* ------------------------------------------------------------------------------------------ *)
(** * What the source does (Gen/FactsC07.v, regenerated from /repo on every run by
      tools/facts_C07.py): the control-flow paths of the flow-control functions, private helpers
      inlined, one loop iteration deep, as sequences of effects on objects named by ROLE.  Spelling
      (names of locals and private attributes, helpers, if/else versus early return, temporaries)
      does not enter; these are the facts the model Model/FlowSend.v transcribes. *)

Definition P (l : list (list string)) : list (list (list Z)) := map (map s2z) l.

(* Stream.send_data, one iteration of its loop:
   - it starts by awaiting write_ready (pc Top), then reads the window (pc CheckWindow);
   - window <= 0: clear window_updated, await it, and go round the loop again (the wait is re-checked);
   - window > 0: chunk = min(window, max frame, rest) with window and max frame read since the last
     suspension point; h2.send_data; data_to_send; transport.write -- no await anywhere after the
     window was read -- then either the function returns or it loops;
   - whichever loop takes the back edge (`->loop`), what follows is again await write_ready and a fresh
     read of the window (`->recheck`): nothing is decided on a window read before a suspension. *)
Definition expected_send_data : list (list string) :=
  [ [ "await:write_ready"; "h2:window_read"; "window<=0";
      "clear:window_updated(self)"; "await:window_updated(self)";
      "->loop"; "await:write_ready"; "h2:window_read"; "->recheck" ];
    [ "await:write_ready"; "h2:window_read"; "window>0"; "chunk:min{max_frame,other,window}";
      "h2:send_data"; "h2:data_to_send"; "transport:write(h2data)"; "->exit" ];
    [ "await:write_ready"; "h2:window_read"; "window>0"; "chunk:min{max_frame,other,window}";
      "h2:send_data"; "h2:data_to_send"; "transport:write(h2data)";
      "->loop"; "await:write_ready"; "h2:window_read"; "->recheck" ] ]%string.

(* process_window_updated: stream id 0 sets the event of EVERY registered stream; otherwise the event of
   the addressed stream, if it is registered *)
Definition expected_window_updated : list (list string) :=
  [ [ "sid!=0"; "addressed:absent"; "->exit" ];
    [ "sid!=0"; "addressed:present"; "set:window_updated(addressed)"; "->exit" ];
    [ "sid==0"; "set:window_updated(all)"; "->exit" ] ]%string.

(* process_remote_settings_changed: INITIAL_WINDOW_SIZE among the changed settings (whatever else the
   frame carries) sets the event of every registered stream *)
Definition expected_settings_changed : list (list string) :=
  [ [ "has:INITIAL_WINDOW_SIZE"; "set:window_updated(all)"; "->exit" ];
    [ "lacks:INITIAL_WINDOW_SIZE"; "->exit" ] ]%string.

(* Connection.resume_writing: write_ready.set() FIRST, then (unless closing) flush what h2 has queued;
   Connection.flush: data_to_send, written to the transport if there is any *)
Definition expected_resume_writing : list (list string) :=
  [ [ "set:write_ready"; "closing"; "->exit" ];
    [ "set:write_ready"; "not-closing"; "call:self.flush"; "->exit" ] ]%string.
Definition expected_flush : list (list string) :=
  [ [ "h2:data_to_send"; "->exit" ];
    [ "h2:data_to_send"; "transport:write(h2data)"; "->exit" ] ]%string.

Lemma source_paths :
  paths_send_data = P expected_send_data /\
  paths_process_window_updated = P expected_window_updated /\
  paths_process_remote_settings_changed = P expected_settings_changed /\
  paths_connection_pause_writing = P [["clear:write_ready"; "->exit"]]%string /\
  paths_connection_resume_writing = P expected_resume_writing /\
  paths_connection_flush = P expected_flush /\
  paths_protocol_pause_writing = P [["call:connection.pause_writing"; "->exit"]]%string /\
  paths_protocol_resume_writing = P [["call:connection.resume_writing"; "->exit"]]%string.
Proof. vm_compute. repeat split; reflexivity. Qed.

(* the same content, as the individual facts the proofs lean on, checked on the generated paths *)
Definition tok_is (s : string) (t : list Z) : bool := zlist_eqb t (s2z s).
Definition is_await (t : list Z) : bool := starts_with (s2z "await:") t.
Fixpoint after (s : string) (p : list (list Z)) : list (list Z) :=
  match p with [] => [] | t :: r => if tok_is s t then r else after s r end.
Definition has (s : string) (p : list (list Z)) : bool := existsb (tok_is s) p.

(* the part of a path before its first back edge *)
Fixpoint upto_loop (p : list (list Z)) : list (list Z) :=
  match p with [] => [] | t :: r => if tok_is "->loop" t then [] else t :: upto_loop r end.
(* (a) between reading the window and the h2 send + transport write there is no suspension point *)
Definition no_await_after_window_read (p : list (list Z)) : bool :=
  negb (has "h2:send_data" p) || negb (existsb is_await (after "h2:window_read" (upto_loop p))).
(* (b) every h2.send_data is handed to the transport at once *)
Fixpoint send_written_at_once (p : list (list Z)) : bool :=
  match p with
  | [] => true
  | t :: r => (if tok_is "h2:send_data" t then
                 match r with a :: b :: _ => tok_is "h2:data_to_send" a && tok_is "transport:write(h2data)" b
                            | _ => false end
               else true) && send_written_at_once r
  end.
(* (c) the only suspension points are write_ready (first thing in an iteration) and the stream's own
   window_updated (right after clear(), with no send on that path), and a path that waited for credit
   goes round the loop again: the wait is re-checked *)
Definition waits_ok (p : list (list Z)) : bool :=
  match p with
  | w :: r =>
      tok_is "await:write_ready" w &&
      forallb (fun t => negb (is_await t) || tok_is "await:window_updated(self)" t
                        || tok_is "await:write_ready" t) r &&
      (negb (has "await:window_updated(self)" p) ||
       (match after "clear:window_updated(self)" p with
        | a :: e :: _ => tok_is "await:window_updated(self)" a && tok_is "->loop" e
        | _ => false end && has "window<=0" p && negb (has "h2:send_data" p))) &&
      (* after any back edge: write_ready is awaited and the window read again before anything else *)
      (negb (has "->loop" p) ||
       match after "->loop" p with
       | a :: b :: c :: [] => tok_is "await:write_ready" a && tok_is "h2:window_read" b && tok_is "->recheck" c
       | _ => false end)
  | [] => false
  end.
(* (d) a positive window is never waited on, a non-positive one never sent on *)
Definition window_branches_ok (p : list (list Z)) : bool :=
  (negb (has "window>0" p) || (has "h2:send_data" p && negb (has "clear:window_updated(self)" p)
                               && has "chunk:min{max_frame,other,window}" p)) &&
  (negb (has "window<=0" p) || negb (has "h2:send_data" p)) &&
  (has "window>0" p || has "window<=0" p).

Lemma source_send_data_facts :
  forallb no_await_after_window_read paths_send_data = true /\
  forallb send_written_at_once paths_send_data = true /\
  forallb waits_ok paths_send_data = true /\
  forallb window_branches_ok paths_send_data = true /\
  existsb (has "window<=0") paths_send_data = true /\
  existsb (fun p => has "h2:send_data" p && has "->loop" p) paths_send_data = true /\
  existsb (fun p => has "h2:send_data" p && has "->exit" p) paths_send_data = true.
Proof. vm_compute. repeat split; reflexivity. Qed.

(* (e) wake-ups: every path for stream id 0 / for an INITIAL_WINDOW_SIZE change sets the event of every
   registered stream; every path for a registered addressed stream sets that stream's event *)
Definition wakeups_ok : bool :=
  forallb (fun p => negb (has "sid==0" p) || has "set:window_updated(all)" p) paths_process_window_updated &&
  forallb (fun p => negb (has "addressed:present" p) || has "set:window_updated(addressed)" p)
          paths_process_window_updated &&
  forallb (fun p => has "sid==0" p || has "sid!=0" p) paths_process_window_updated &&
  forallb (fun p => negb (has "has:INITIAL_WINDOW_SIZE" p) || has "set:window_updated(all)" p)
          paths_process_remote_settings_changed &&
  forallb (fun p => has "has:INITIAL_WINDOW_SIZE" p || has "lacks:INITIAL_WINDOW_SIZE" p)
          paths_process_remote_settings_changed.
(* (f) pause clears write_ready; resume sets it before anything is flushed *)
Definition pause_resume_ok : bool :=
  forallb (has "clear:write_ready") paths_connection_pause_writing &&
  forallb (fun p => match p with t :: _ => tok_is "set:write_ready" t | [] => false end)
          paths_connection_resume_writing &&
  forallb (has "call:connection.pause_writing") paths_protocol_pause_writing &&
  forallb (has "call:connection.resume_writing") paths_protocol_resume_writing.

Lemma source_wakeup_facts : wakeups_ok = true /\ pause_resume_ok = true.
Proof. vm_compute. split; reflexivity. Qed.

(* ------------------------------------------------------------------------------------------ *)
(** * The connection layer (transport state, frames queued in h2, reset_nowait, re-pause inside
      the flush of resume_writing) *)

(* every step of the connection is a (possibly empty) list of steps of the sender system: all the
   theorems above hold along every history of the connection *)
Lemma cstep_projects c o :
  exists ops, run (core c) ops = (core (fst (cstep c o)), snd (cstep c o)).
Proof.
  unfold cstep. destruct (broken (core c)) eqn:Hb; [exists []; reflexivity|].
  assert (P1 : forall s p, is_run p = false -> run s [p] = (fst (step s p), [])).
  { intros s p Hp. cbn. destruct (peer_spec s p Hp) as [E _].
    destruct (step s p) as [s1 x1]; cbn in *. now subst. }
  destruct o as [o| | |].
  - destruct o as [i k|k|v|m| | |i].
    + exists [WinStream i k]. now rewrite P1.
    + exists [WinConn k]. now rewrite P1.
    + exists [SetInitWin v]. now rewrite P1.
    + exists [SetMaxFrame m]. now rewrite P1.
    + destruct (tpaused c); [exists []; reflexivity|]. exists [Pause]. now rewrite P1.
    + destruct (tpaused c); [|exists []; reflexivity]. exists [Resume]. now rewrite P1.
    + exists [Run i]. cbn. destruct (step (core c) (Run i)) as [s1 out]. cbn. now rewrite app_nil_r.
  - exists []. reflexivity.
  - destruct (tpaused c); [|exists []; reflexivity]. destruct (hq c).
    + exists [Resume; Pause]. change [Resume; Pause] with ([Resume] ++ [Pause]).
      rewrite run_app, P1 by reflexivity. rewrite P1 by reflexivity. reflexivity.
    + exists [Resume]. now rewrite P1.
  - exists []. reflexivity.
Qed.

Lemma crun_projects ops : forall c,
  exists l, run (core c) l = (core (fst (crun c ops)), snd (crun c ops)).
Proof.
  induction ops as [|o r IH]; intros c; cbn; [exists []; reflexivity|].
  destruct (cstep_projects c o) as [l1 H1].
  destruct (cstep c o) as [c1 x1]; cbn [fst snd] in *.
  destruct (IH c1) as [l2 H2]. destruct (crun c1 r) as [c2 x2]; cbn [fst snd] in *.
  exists (l1 ++ l2). now rewrite run_app, H1, H2.
Qed.

Definition creachable (cfg : list (Z * Z)) (cw iw mf : Z) (c : conn) : Prop :=
  wf_cfg cfg mf /\ exists ops, c = fst (crun (cinit cfg cw iw mf) ops).

Lemma creachable_core cfg cw iw mf c :
  creachable cfg cw iw mf c -> reachable cfg cw iw mf (core c).
Proof.
  intros [W [ops ->]]. split; auto.
  destruct (crun_projects ops (cinit cfg cw iw mf)) as [l H]. exists l. cbn in H. now rewrite H.
Qed.

(* write_ready is set exactly when the transport is not paused; frames stay queued in h2 only while
   it is paused *)
Definition WT (c : conn) : Prop :=
  wready (core c) = negb (tpaused c) /\ (hq c = true -> tpaused c = true).

Lemma wready_frame_op s o : is_frame_op o = true -> wready (fst (step s o)) = wready s.
Proof.
  intros Ho. unfold step. destruct (broken s); auto.
  destruct o as [i k|k|v|m| | |i]; try discriminate; cbn [fst].
  - unfold do_win_stream. destruct (nth_error _ _); auto. destruct (_ || _ || _); auto.
  - unfold do_win_conn. destruct (_ || _ || _); auto.
  - unfold do_init_win. destruct (_ || _ || _); auto.
  - unfold do_max_frame. destruct (_ || _); auto.
Qed.

Lemma wready_run s i : wready (fst (step s (Run i))) = wready s.
Proof.
  unfold step. destruct (broken s); auto. unfold do_run.
  destruct (nth_error _ _) as [x|]; auto. destruct (s_pc x); auto; cbn.
  - destruct (wready s) eqn:W; cbn; auto.
  - destruct (_ <=? 0); cbn; auto. destruct (_ || _); cbn; auto.
Qed.

Lemma WT_cstep c o : WT c -> WT (fst (cstep c o)).
Proof.
  intros H. unfold cstep. destruct (broken (core c)) eqn:Hb; [exact H|].
  assert (Hp : forall s, broken s = false -> wready (fst (step s Pause)) = false)
    by (intros s Hs; unfold step; rewrite Hs; reflexivity).
  assert (Hr : forall s, broken s = false -> wready (fst (step s Resume)) = true).
  { intros s Hs; unfold step; rewrite Hs; cbn. unfold do_resume. destruct (wready s) eqn:W; auto. }
  assert (Hrb : forall s, broken s = false -> broken (fst (step s Resume)) = false).
  { intros s Hs; unfold step; rewrite Hs; cbn. unfold do_resume. destruct (wready s) eqn:W; auto. }
  destruct o as [o| | |].
  - destruct o as [i k|k|v|m| | |i]; cbn [fst];
      try (destruct H as [H1 H2]; split; cbn [core tpaused hq];
           [rewrite wready_frame_op by reflexivity; auto|discriminate]).
    + destruct (tpaused c) eqn:T; [exact H|]. split; cbn; [apply Hp; auto|auto].
    + destruct (tpaused c) eqn:T; [|exact H]. split; cbn; [apply Hr; auto|discriminate].
    + destruct H as [H1 H2]. pose proof (wready_run (core c) i) as W.
      destruct (step (core c) (Run i)) as [s1 out].
      cbn in *. split; cbn; [congruence|]. destruct out; auto; discriminate.
  - destruct H as [H1 H2]. cbn. split; auto. rewrite H1. now rewrite negb_involutive.
  - destruct (tpaused c) eqn:T; [|exact H]. destruct (hq c); cbn.
    + split; auto. apply Hp. apply Hrb; auto.
    + split; [apply Hr; auto|discriminate].
  - destruct H as [H1 H2]. split; cbn; [auto|discriminate].
Qed.

Lemma WT_crun ops : forall c, WT c -> WT (fst (crun c ops)).
Proof.
  induction ops as [|o r IH]; intros c H; cbn; auto.
  pose proof (WT_cstep c o H) as H1. destruct (cstep c o) as [c1 x1]; cbn in H1.
  specialize (IH c1 H1). destruct (crun c1 r); auto.
Qed.

Lemma write_ready_tracks_transport cfg cw iw mf c :
  creachable cfg cw iw mf c ->
  wready (core c) = negb (tpaused c) /\ (hq c = true -> tpaused c = true).
Proof. intros [W [ops ->]]. apply WT_crun. split; [reflexivity|discriminate]. Qed.

(* back-pressure on the connection: while the TRANSPORT is paused a sender emits at most the one
   chunk it had already been woken for -- also after reset_nowait + a resume that re-paused *)
Lemma paused_transport_suspends cfg cw iw mf c i s1 out1 s2 out2 :
  creachable cfg cw iw mf c -> tpaused c = true ->
  step (core c) (Run i) = (s1, out1) -> step s1 (Run i) = (s2, out2) -> out1 = [] \/ out2 = [].
Proof.
  intros R T. pose proof (write_ready_tracks_transport _ _ _ _ _ R) as [W _].
  rewrite T in W. eapply one_chunk_while_paused_r; eauto using creachable_core.
Qed.

(* a sender starved of credit on a paused transport that is then granted credit: it is woken, runs
   to the loop top, finds write_ready clear and suspends without writing anything *)
Lemma starved_sender_on_paused_transport cfg cw iw mf c i x s1 out1 :
  creachable cfg cw iw mf c -> tpaused c = true -> broken (core c) = false ->
  nth_error (senders (core c)) i = Some x -> s_pc x = Top ->
  step (core c) (Run i) = (s1, out1) ->
  out1 = [] /\ nth_error (senders s1) i = Some (with_pc x WaitWrite).
Proof.
  intros R T Hb Ex Hp Es. pose proof (write_ready_tracks_transport _ _ _ _ _ R) as [W _].
  rewrite T in W. cbn in W.
  pose proof (reachable_Inv _ _ _ _ _ (creachable_core _ _ _ _ _ R)) as HI.
  destruct (run_spec _ i x s1 out1 HI Hb Ex Es) as (_ & _ & _ & _ & H).
  destruct H as [H|[H|[H|[H|H]]]].
  - destruct H as (_ & Hw & _). congruence.
  - destruct H as (_ & _ & -> & _ & ->). split; auto. eapply nth_error_upd_eq; eauto.
  - destruct H as (Hc & _). congruence.
  - destruct H as (Hc & _). congruence.
  - destruct H as (Hr & _). rewrite Hp in Hr. discriminate.
Qed.

(* the FIFO run on the connection (what the correspondence executes) is a history of the connection *)
Lemma wready_sched_mono ops : forall s,
  forallb sched_op ops = true -> wready s = false -> wready (fst (run s ops)) = false.
Proof.
  induction ops as [|o r IH]; intros s Hs Hw; cbn in *; auto.
  apply andb_prop in Hs as [Ho Hs].
  assert (H1 : wready (fst (step s o)) = false).
  { destruct o; try discriminate.
    - unfold step. destruct (broken s); auto.
    - now rewrite wready_run. }
  destruct (step s o) as [s1 x1]; cbn in *. specialize (IH s1 Hs H1).
  destruct (run s1 r); auto.
Qed.

Lemma crun_sched ops : forall c,
  WT c -> forallb sched_op ops = true ->
  core (fst (crun c (map Op ops))) = fst (run (core c) ops) /\
  snd (crun c (map Op ops)) = snd (run (core c) ops) /\
  hq (fst (crun c (map Op ops))) = match snd (run (core c) ops) with [] => hq c | _ => false end.
Proof.
  induction ops as [|o r IH]; intros c HW Hs; cbn [map crun run]; [cbn; auto|].
  cbn in Hs. apply andb_prop in Hs as [Ho Hs].
  pose proof (WT_cstep c (Op o) HW) as HW1.
  assert (E : core (fst (cstep c (Op o))) = fst (step (core c) o) /\
              snd (cstep c (Op o)) = snd (step (core c) o) /\
              hq (fst (cstep c (Op o))) = match snd (step (core c) o) with [] => hq c | _ => false end).
  { unfold cstep. destruct (broken (core c)) eqn:Hb.
    { unfold step; rewrite Hb; cbn; auto. }
    destruct o; try discriminate.
    - destruct HW as [H1 H2]. destruct (tpaused c) eqn:T; cbn.
      + unfold step. rewrite Hb. cbn. repeat split; auto.
        destruct (core c); cbn in *. subst. reflexivity.
      + unfold step. rewrite Hb. cbn. auto.
    - destruct (step (core c) (Run i)) as [s1 out]; cbn. auto. }
  destruct E as (E1 & E2 & E3).
  destruct (cstep c (Op o)) as [c1 x1]; cbn [fst snd] in *.
  destruct (IH c1 HW1 Hs) as (I1 & I2 & I3).
  destruct (crun c1 (map Op r)) as [c2 x2]; cbn [fst snd] in *.
  destruct (step (core c) o) as [s1 y1]; cbn [fst snd] in *. subst.
  destruct (run (core c1) r) as [s2 y2]; cbn [fst snd] in *.
  repeat split; auto. rewrite I3, E3. destruct y1, y2; auto.
Qed.

Lemma cfifo_is_history budget c :
  WT c -> exists ops, crun c ops = cfifo budget c.
Proof.
  intros HW. destruct (fifo_is_schedule budget (core c)) as [ops [Hs Hr]].
  exists (map Op ops). destruct (crun_sched ops c HW Hs) as (A & B & C).
  pose proof (WT_crun (map Op ops) c HW) as [W1 _].
  unfold cfifo. rewrite <- Hr. destruct (run (core c) ops) as [s1 out] eqn:Er. cbn [fst snd] in *.
  destruct (crun c (map Op ops)) as [c2 x2]; cbn [fst snd] in *. subst x2.
  f_equal. destruct c2 as [k t h]; cbn in *. subst k h. f_equal.
  destruct HW as [H1 _]. rewrite H1. destruct (tpaused c) eqn:T; cbn.
  - cbn in H1. pose proof (wready_sched_mono ops (core c) Hs H1) as M. rewrite Er in M; cbn in M.
    rewrite M in W1. destruct t; auto; discriminate.
  - destruct t, (wready s1); cbn in *; auto; discriminate.
Qed.
