(* Proofs for Props/C01.v: framing, Buffer refinement to a byte queue, in-order/intact delivery for
   every fragmentation and schedule, truncation, sender chunking, end-to-end composition.
   Axiom-free. *)
From Coq Require Import ZArith List Bool Lia ZifyBool.
From GV Require Import Model.Framing Model.RecvBuffer Model.SendChunk.
Import ListNotations.
Open Scope Z_scope.

#[local] Ltac Zify.zify_post_hook ::= Z.div_mod_to_equations.

(* ------------------------------------------------------------------------------------------ *)
(** * Lists and lengths *)

Lemma zlen_nil {A} : zlen (@nil A) = 0.
Proof. reflexivity. Qed.

Lemma zlen_cons {A} (a : A) l : zlen (a :: l) = 1 + zlen l.
Proof. unfold zlen. cbn [length]. lia. Qed.

Lemma zlen_app {A} (l1 l2 : list A) : zlen (l1 ++ l2) = zlen l1 + zlen l2.
Proof. unfold zlen. rewrite app_length. lia. Qed.

Lemma zlen_nonneg {A} (l : list A) : 0 <= zlen l.
Proof. unfold zlen. lia. Qed.

Lemma zlen_zero_nil {A} (l : list A) : zlen l = 0 -> l = [].
Proof. destruct l; [reflexivity|]. rewrite zlen_cons. pose proof (zlen_nonneg l). lia. Qed.

Lemma to_nat_zlen {A} (l : list A) : Z.to_nat (zlen l) = length l.
Proof. unfold zlen. lia. Qed.

Lemma firstn_zlen_app {A} (l1 l2 : list A) : firstn (Z.to_nat (zlen l1)) (l1 ++ l2) = l1.
Proof.
  rewrite to_nat_zlen, firstn_app, Nat.sub_diag, firstn_all. cbn. apply app_nil_r.
Qed.

Lemma skipn_zlen_app {A} (l1 l2 : list A) : skipn (Z.to_nat (zlen l1)) (l1 ++ l2) = l2.
Proof.
  rewrite to_nat_zlen, skipn_app, Nat.sub_diag, skipn_all. reflexivity.
Qed.

(* a prefix of length n of q ++ p when q is long enough *)
Lemma firstn_app_le {A} (n : Z) (q p : list A) :
  0 <= n <= zlen q -> firstn (Z.to_nat n) (q ++ p) = firstn (Z.to_nat n) q.
Proof.
  intros H. rewrite firstn_app.
  replace (Z.to_nat n - length q)%nat with 0%nat by (unfold zlen in H; lia).
  cbn. apply app_nil_r.
Qed.

Lemma skipn_app_le {A} (n : Z) (q p : list A) :
  0 <= n <= zlen q -> skipn (Z.to_nat n) (q ++ p) = skipn (Z.to_nat n) q ++ p.
Proof.
  intros H. rewrite skipn_app.
  replace (Z.to_nat n - length q)%nat with 0%nat by (unfold zlen in H; lia).
  reflexivity.
Qed.

Lemma zlen_firstn {A} (n : Z) (l : list A) : 0 <= n <= zlen l -> zlen (firstn (Z.to_nat n) l) = n.
Proof. intros H. unfold zlen in *. rewrite firstn_length. lia. Qed.

Lemma zlen_skipn {A} (n : Z) (l : list A) : 0 <= n <= zlen l -> zlen (skipn (Z.to_nat n) l) = zlen l - n.
Proof. intros H. unfold zlen in *. rewrite skipn_length. lia. Qed.

(* if q ++ p = a ++ b and |a| <= |q| then a is the prefix of q *)
Lemma app_eq_prefix {A} (q p a b : list A) :
  q ++ p = a ++ b -> zlen a <= zlen q ->
  firstn (Z.to_nat (zlen a)) q = a /\ skipn (Z.to_nat (zlen a)) q ++ p = b.
Proof.
  intros E L.
  pose proof (zlen_nonneg a).
  split.
  - rewrite <- (firstn_app_le (zlen a) q p) by lia. rewrite E. apply firstn_zlen_app.
  - rewrite <- (skipn_app_le (zlen a) q p) by lia. rewrite E. apply skipn_zlen_app.
Qed.

(* ------------------------------------------------------------------------------------------ *)
(** * (T1) Framing *)

Lemma be32_sum n : 0 <= n < max_len ->
  (((n / 16777216) mod 256 * 256 + (n / 65536) mod 256) * 256 + (n / 256) mod 256) * 256
  + n mod 256 = n.
Proof.
  unfold max_len. intros H.
  replace 16777216 with (256 * 256 * 256) by reflexivity.
  replace 65536 with (256 * 256) by reflexivity.
  rewrite <- !Z.div_div by lia.
  pose proof (Z.div_mod n 256 ltac:(lia)).
  pose proof (Z.div_mod (n/256) 256 ltac:(lia)).
  pose proof (Z.div_mod (n/256/256) 256 ltac:(lia)).
  assert (n / 256 / 256 / 256 < 256).
  { apply Z.div_lt_upper_bound; [lia|]. apply Z.div_lt_upper_bound; [lia|].
    apply Z.div_lt_upper_bound; lia. }
  assert (0 <= n / 256 / 256 / 256) by (repeat apply Z.div_pos; lia).
  rewrite (Z.mod_small (n/256/256/256) 256) by lia.
  lia.
Qed.

Lemma be32_decode_be32 n : 0 <= n < max_len -> be32_decode (be32 n) = Some n.
Proof.
  intros H. unfold be32, be32_decode. f_equal. apply be32_sum; assumption.
Qed.

Lemma be32_length n : zlen (be32 n) = 4.
Proof. reflexivity. Qed.

Lemma frame_length m : zlen (frame m) = 5 + zlen m.
Proof. unfold frame. rewrite zlen_cons, zlen_app, be32_length. lia. Qed.

Lemma be32_byte_range n : Forall (fun b => 0 <= b <= 255) (be32 n).
Proof. unfold be32. repeat constructor; lia. Qed.

Lemma parse_frames_aux_frames ms :
  Forall (fun m => zlen m < max_len) ms ->
  forall fuel, (length ms <= fuel)%nat ->
  parse_frames_aux fuel (concat (map frame ms)) = Some ms.
Proof.
  induction 1 as [|m ms Hm Hms IH]; intros fuel Hf.
  - destruct fuel; reflexivity.
  - cbn [map concat]. destruct fuel as [|fuel]; [cbn in Hf; lia|].
    unfold frame at 1. unfold be32.
    cbn [app parse_frames_aux]. cbn [Z.eqb].
    pose proof (zlen_nonneg m) as Hn.
    assert (E : (((zlen m / 16777216) mod 256 * 256 + (zlen m / 65536) mod 256) * 256 +
                 (zlen m / 256) mod 256) * 256 + zlen m mod 256 = zlen m)
      by (apply be32_sum; lia).
    rewrite E.
    replace (zlen m <=? zlen (m ++ concat (map frame ms))) with true
      by (rewrite zlen_app; pose proof (zlen_nonneg (concat (map frame ms))); lia).
    rewrite skipn_zlen_app, firstn_zlen_app.
    rewrite IH by (cbn in Hf; lia). reflexivity.
Qed.

Lemma concat_frames_length ms : (length ms <= length (concat (map frame ms)))%nat.
Proof.
  induction ms as [|m ms IH]; [cbn; lia|].
  cbn [map concat]. rewrite app_length. unfold frame at 1. cbn [length]. lia.
Qed.

Lemma parse_frames_roundtrip ms :
  Forall (fun m => zlen m < max_len) ms ->
  parse_frames (concat (map frame ms)) = Some ms.
Proof.
  intros H. unfold parse_frames. apply parse_frames_aux_frames; [assumption|].
  apply concat_frames_length.
Qed.

Lemma send_frame_ok m : zlen m < max_len -> send_frame m = Some (frame m).
Proof. intros H. unfold send_frame. replace (zlen m <? max_len) with true by lia. reflexivity. Qed.

Lemma send_frame_too_long m : max_len <= zlen m -> send_frame m = None.
Proof. intros H. unfold send_frame. replace (zlen m <? max_len) with false by lia. reflexivity. Qed.

(* ------------------------------------------------------------------------------------------ *)
(** * (T2) Buffer: commutation of a blocked read with add / eof (schedule independence) *)

Definition prepend_cr (c0 : list Z) (r : fill_res) : fill_res :=
  match r with
  | FBlocked ak asz cr => FBlocked ak asz (c0 ++ cr)
  | FDone un ak asz cr => FDone un ak asz (c0 ++ cr)
  end.

Lemma fill_get_cr n un : forall ak asz c0 cr,
  fill_get n un ak asz (c0 ++ cr) = prepend_cr c0 (fill_get n un ak asz cr).
Proof.
  induction un as [|it un IH]; intros ak asz c0 cr; cbn [fill_get].
  - reflexivity.
  - destruct (i_ack it =? 0) eqn:Ea; [reflexivity|].
    destruct (asz + zlen (i_data it) <? n) eqn:El.
    + rewrite <- app_assoc. apply IH.
    + cbn [prepend_cr]. rewrite <- app_assoc. reflexivity.
Qed.

Lemma fill_get_blocked_app n un : forall more ak asz cr ak' asz' cr',
  fill_get n un ak asz cr = FBlocked ak' asz' cr' ->
  fill_get n (un ++ more) ak asz cr = fill_get n more ak' asz' cr'.
Proof.
  induction un as [|it un IH]; intros more ak asz cr ak' asz' cr' H; cbn [fill_get app] in *.
  - inversion H; subst. reflexivity.
  - destruct (i_ack it =? 0) eqn:Ea; [discriminate|].
    destruct (asz + zlen (i_data it) <? n) eqn:El; [|discriminate].
    apply IH. assumption.
Qed.

Definition prepend_out (c0 : list Z) (r : buf * rd_out * list Z) : buf * rd_out * list Z :=
  let '(s, o, c) := r in (s, o, c0 ++ c).

Lemma finish_cr n un ak asz e c0 cr :
  finish n un ak asz e (c0 ++ cr) = prepend_out c0 (finish n un ak asz e cr).
Proof.
  unfold finish.
  destruct (e && (asz =? 0)); [reflexivity|].
  destruct (asz <? n); [reflexivity|].
  destruct (take_chunks n ak) as [[o ak']|]; reflexivity.
Qed.

Lemma after_fill_cr n e c0 r :
  after_fill n e (prepend_cr c0 r) = prepend_out c0 (after_fill n e r).
Proof.
  destruct r; cbn [prepend_cr after_fill].
  - reflexivity.
  - apply finish_cr.
Qed.

(* what read_start looks like when it blocks *)
Lemma read_start_blocked n s s1 c1 :
  read_start n s = (s1, RBlocked, c1) ->
  0 < n /\ acked_size s < n /\
  (eof_flag s = false \/ unacked s <> []) /\
  exists ak asz, fill_get n (unacked s) (acked s) (acked_size s) [] = FBlocked ak asz c1 /\
                 s1 = mk_buf [] ak asz (eof_flag s).
Proof.
  unfold read_start. intros H.
  destruct (n <? 0) eqn:E0; [discriminate|].
  destruct (n =? 0) eqn:E1; [discriminate|].
  assert (Hfin : forall un ak asz e cr, finish n un ak asz e cr <> (s1, RBlocked, c1)).
  { intros un ak asz e cr. unfold finish.
    destruct (e && (asz =? 0)); [discriminate|].
    destruct (asz <? n); [discriminate|].
    destruct (take_chunks n ak) as [[o ak']|]; discriminate. }
  destruct (negb (eof_flag s) || negb (is_nil (unacked s))) eqn:Et.
  2:{ exfalso. eapply Hfin; eassumption. }
  destruct (acked_size s <? n) eqn:El.
  2:{ exfalso. eapply Hfin; eassumption. }
  destruct (fill_get n (unacked s) (acked s) (acked_size s) []) as [ak asz cr|un ak asz cr] eqn:Ef;
    cbn [after_fill] in H.
  2:{ exfalso. eapply Hfin; eassumption. }
  inversion H; subst.
  repeat split; try lia.
  - destruct (eof_flag s); [right|left; reflexivity].
    destruct (unacked s); [discriminate|discriminate].
  - eauto.
Qed.

Lemma blocked_commutes_add n s s1 c1 d a :
  read_start n s = (s1, RBlocked, c1) ->
  read_start n (add d a s) = prepend_out c1 (read_resume n (add d a s1)).
Proof.
  intros H. destruct (read_start_blocked _ _ _ _ H) as (Hn & Hl & Ht & ak & asz & Hf & ->).
  unfold add. destruct (a =? 0) eqn:Ea.
  - (* frame ignored *)
    rewrite H. unfold read_resume. cbn [unacked acked acked_size eof_flag fill_get after_fill prepend_out].
    rewrite app_nil_r. reflexivity.
  - unfold read_start, read_resume.
    cbn [unacked acked acked_size eof_flag].
    replace (n <? 0) with false by lia. replace (n =? 0) with false by lia.
    replace (negb (eof_flag s) || negb (is_nil (unacked s ++ [mk_item d a]))) with true.
    2:{ destruct (unacked s); cbn; [|rewrite orb_true_r; reflexivity]. rewrite orb_true_r. reflexivity. }
    replace (acked_size s <? n) with true by lia.
    rewrite (fill_get_blocked_app _ _ _ _ _ _ _ _ _ Hf).
    change (fill_get n [mk_item d a] ak asz c1) with (fill_get n ([] ++ [mk_item d a]) ak asz c1).
    rewrite <- (app_nil_r c1) at 1. rewrite fill_get_cr, after_fill_cr. reflexivity.
Qed.

Lemma blocked_commutes_eof n s s1 c1 :
  read_start n s = (s1, RBlocked, c1) ->
  read_start n (eof s) = prepend_out c1 (read_resume n (eof s1)).
Proof.
  intros H. destruct (read_start_blocked _ _ _ _ H) as (Hn & Hl & Ht & ak & asz & Hf & ->).
  unfold eof, read_start, read_resume.
  cbn [unacked acked acked_size eof_flag].
  replace (n <? 0) with false by lia. replace (n =? 0) with false by lia.
  replace (negb true || negb (is_nil (unacked s ++ [eof_marker]))) with true.
  2:{ destruct (unacked s); reflexivity. }
  replace (acked_size s <? n) with true by lia.
  rewrite (fill_get_blocked_app _ _ _ _ _ _ _ _ _ Hf).
  change (fill_get n [eof_marker] ak asz c1) with (fill_get n ([] ++ [eof_marker]) ak asz c1).
  rewrite <- (app_nil_r c1) at 1. rewrite fill_get_cr, after_fill_cr. reflexivity.
Qed.

(* ------------------------------------------------------------------------------------------ *)
(** * (T2) Buffer: invariant and refinement to the abstract byte queue *)

(* the queue holds live items (ack_size <> 0), followed -- exactly when the eof flag is set and the
   marker has not been consumed yet -- by the EOF marker as its last element *)
Fixpoint qshape (e : bool) (un : list item) : Prop :=
  match un with
  | [] => True
  | it :: un' => (i_ack it <> 0 /\ qshape e un' /\ (e = true -> un' <> [])) \/
                 (e = true /\ i_ack it = 0 /\ i_data it = [] /\ un' = [])
  end.

Definition inv (s : buf) : Prop :=
  acked_size s = zlen (concat (acked s)) /\ qshape (eof_flag s) (unacked s).

Lemma inv_init : inv buf_init.
Proof. split; [reflexivity|exact I]. Qed.

Lemma qshape_false_app un it :
  qshape false un -> i_ack it <> 0 -> qshape false (un ++ [it]).
Proof.
  induction un as [|x un IH]; cbn [qshape app]; intros H Hit.
  - left. repeat split; [assumption|discriminate].
  - destruct H as [(Hx & H & _)|[H _]]; [|discriminate].
    left. repeat split; [assumption|apply IH; assumption|discriminate].
Qed.

Lemma qshape_false_eof un : qshape false un -> qshape true (un ++ [eof_marker]).
Proof.
  induction un as [|x un IH]; cbn [qshape app]; intros H.
  - right. repeat split.
  - destruct H as [(Hx & H & _)|[H _]]; [|discriminate].
    left. repeat split; [assumption|apply IH; assumption|]. intros _. destruct un; discriminate.
Qed.

Lemma inv_add d a s : inv s -> eof_flag s = false -> inv (add d a s).
Proof.
  intros [H1 H2] He. unfold add. destruct (a =? 0) eqn:Ea; [split; assumption|].
  split; cbn [acked acked_size eof_flag unacked]; [assumption|].
  rewrite He in *. apply qshape_false_app; [assumption|cbn; lia].
Qed.

Lemma inv_eof s : inv s -> eof_flag s = false -> inv (eof s).
Proof.
  intros [H1 H2] He. split; cbn [eof acked acked_size eof_flag unacked]; [assumption|].
  rewrite He in *. apply qshape_false_eof; assumption.
Qed.

Lemma concat_app1 (l : list (list Z)) (x : list Z) : concat (l ++ [x]) = concat l ++ x.
Proof. rewrite concat_app. cbn. rewrite app_nil_r. reflexivity. Qed.

Lemma abs_q_add d a s : zlen d <= a -> abs_q (add d a s) = abs_q s ++ d.
Proof.
  intros H. unfold add. destruct (a =? 0) eqn:Ea.
  - assert (d = []) as -> by (apply zlen_zero_nil; pose proof (zlen_nonneg d); lia).
    rewrite app_nil_r. reflexivity.
  - unfold abs_q. cbn [acked unacked]. rewrite map_app. cbn [map i_data]. rewrite concat_app1.
    rewrite app_assoc. reflexivity.
Qed.

Lemma abs_q_eof s : abs_q (eof s) = abs_q s.
Proof.
  unfold abs_q, eof. cbn [acked unacked]. rewrite map_app. cbn [map eof_marker i_data].
  rewrite concat_app1. rewrite !app_nil_r. reflexivity.
Qed.

(* the chunk loop returns exactly the first `need` bytes of the deque contents *)
Lemma take_chunks_spec ak : forall need,
  0 <= need <= zlen (concat ak) ->
  exists ak', take_chunks need ak = Some (firstn (Z.to_nat need) (concat ak), ak') /\
              concat ak' = skipn (Z.to_nat need) (concat ak).
Proof.
  induction ak as [|c ak IH]; intros need H.
  - cbn in H. assert (need = 0) as -> by lia. cbn. eauto.
  - cbn [take_chunks].
    destruct (0 <? need) eqn:E0.
    2:{ assert (need = 0) as -> by lia. cbn. eauto. }
    cbn [concat] in *. rewrite zlen_app in H.
    destruct (zlen c <=? need) eqn:Ec.
    + destruct (IH (need - zlen c)) as (ak' & Ht & Hc); [lia|].
      rewrite Ht. eexists. split.
      * f_equal. f_equal. rewrite firstn_app.
        rewrite (@firstn_all2 _ (Z.to_nat need) c) by (unfold zlen in *; lia).
        f_equal. f_equal. unfold zlen in *. lia.
      * rewrite Hc. rewrite skipn_app.
        rewrite (@skipn_all2 _ (Z.to_nat need) c) by (unfold zlen in *; lia).
        cbn [app]. f_equal. unfold zlen in *. lia.
    + eexists. split.
      * f_equal. f_equal. rewrite firstn_app_le by lia. reflexivity.
      * cbn [concat]. rewrite skipn_app_le by lia. reflexivity.
Qed.

(* the fill loop moves a prefix of the queue to the deque; it blocks only if no marker is queued *)
Lemma fill_get_spec n e un : forall ak asz cr,
  qshape e un -> asz = zlen (concat ak) -> asz < n ->
  match fill_get n un ak asz cr with
  | FBlocked ak' asz' _ =>
      asz' = zlen (concat ak') /\ asz' < n /\
      concat ak' = concat ak ++ concat (map i_data un) /\
      (e = true -> un = [])
  | FDone un' ak' asz' _ =>
      asz' = zlen (concat ak') /\
      concat ak' ++ concat (map i_data un') = concat ak ++ concat (map i_data un) /\
      qshape e un' /\
      (n <= asz' \/ (e = true /\ un' = []))
  end.
Proof.
  induction un as [|it un IH]; intros ak asz cr Hq Ha Hl; cbn [fill_get].
  - cbn. rewrite app_nil_r. auto.
  - cbn [qshape] in Hq. destruct Hq as [(Hit & Hq & Hne)|(He & Hit & Hd & ->)].
    + replace (i_ack it =? 0) with false by lia.
      assert (Ha' : asz + zlen (i_data it) = zlen (concat (ak ++ [i_data it])))
        by (rewrite concat_app1, zlen_app; lia).
      destruct (asz + zlen (i_data it) <? n) eqn:El.
      * match goal with |- context [fill_get n un ?c ?d ?f] =>
          specialize (IH c d f Hq Ha' ltac:(lia));
          destruct (fill_get n un c d f) as [ak' asz' cr'|un' ak' asz' cr']
        end.
        -- destruct IH as (H1 & H2 & H3 & H4). repeat split; try assumption.
           ++ rewrite H3, concat_app1. cbn [map concat]. rewrite app_assoc. reflexivity.
           ++ intros He. exfalso. apply (Hne He). apply H4. assumption.
        -- destruct IH as (H1 & H2 & H3 & H4). repeat split; try assumption.
           rewrite H2, concat_app1. cbn [map concat]. rewrite app_assoc. reflexivity.
      * repeat split; try assumption.
        -- rewrite concat_app1. cbn [map concat]. rewrite app_assoc. reflexivity.
        -- left. lia.
    + replace (i_ack it =? 0) with true by lia.
      split; [assumption|]. split; [cbn [map concat]; rewrite Hd; reflexivity|].
      split; [exact I|]. right. auto.
Qed.

(* finish, when the bookkeeping is right and nothing is queued behind a short deque *)
Lemma finish_spec n un ak asz e cr :
  0 < n -> asz = zlen (concat ak) -> qshape e un ->
  (n <= asz \/ (e = true /\ un = [])) ->
  exists s' o, finish n un ak asz e cr = (s', o, cr) /\ inv s' /\ eof_flag s' = e /\
    aread n (concat ak ++ concat (map i_data un)) e = (abs_q s', o) /\ o <> RBlocked /\
    o <> RErr EIndex.
Proof.
  intros Hn Ha Hq Hc. unfold finish, aread.
  replace (n <? 0) with false by lia. replace (n =? 0) with false by lia.
  pose proof (zlen_nonneg (concat ak)) as Hnn.
  pose proof (zlen_nonneg (concat (map i_data un))) as Hnn2.
  rewrite zlen_app.
  destruct (e && (asz =? 0)) eqn:E1.
  - (* b'' : eof and nothing buffered *)
    apply andb_true_iff in E1. destruct E1 as [-> E1].
    destruct Hc as [Hc|[_ ->]]; [lia|].
    cbn [map concat]. rewrite zlen_nil.
    replace (n <=? zlen (concat ak) + 0) with false by lia.
    replace (zlen (concat ak) + 0 =? 0) with true by lia.
    do 2 eexists. split; [reflexivity|].
    split; [split; [assumption|exact I]|]. split; [reflexivity|].
    split; [reflexivity|]. split; discriminate.
  - destruct (asz <? n) eqn:E2.
    + (* less data than expected *)
      destruct Hc as [Hc|[-> ->]]; [lia|].
      cbn [map concat]. rewrite zlen_nil.
      replace (n <=? zlen (concat ak) + 0) with false by lia.
      replace (zlen (concat ak) + 0 =? 0) with false by (cbn in E1; lia).
      do 2 eexists. split; [reflexivity|].
      split; [split; [assumption|exact I]|]. split; [reflexivity|].
      split; [reflexivity|]. split; discriminate.
    + destruct (take_chunks_spec ak n ltac:(lia)) as (ak' & Ht & Hk).
      rewrite Ht.
      replace (n <=? zlen (concat ak) + zlen (concat (map i_data un))) with true by lia.
      do 2 eexists. split; [reflexivity|]. split; [|split; [reflexivity|split; [|split; discriminate]]].
      * split; cbn [acked acked_size unacked eof_flag]; [|assumption].
        rewrite Hk, zlen_skipn by lia. lia.
      * unfold abs_q. cbn [acked unacked]. rewrite Hk.
        rewrite firstn_app_le, skipn_app_le by lia. reflexivity.
Qed.

(* (T2) every outcome of Buffer.read equals the read of the abstract byte queue *)
Lemma read_start_refines n s s' o cr :
  inv s -> read_start n s = (s', o, cr) ->
  inv s' /\ eof_flag s' = eof_flag s /\
  aread n (abs_q s) (eof_flag s) = (abs_q s', o) /\
  o <> RErr EIndex /\
  (o = RBlocked -> eof_flag s = false /\ unacked s' = [] /\ acked_size s' < n).
Proof.
  intros [Ha Hq] H. unfold read_start in H.
  destruct (n <? 0) eqn:E0.
  { inversion H; subst. unfold aread. rewrite E0.
    split; [split; assumption|]. repeat split; try reflexivity; discriminate. }
  destruct (n =? 0) eqn:E1.
  { inversion H; subst. unfold aread. rewrite E0, E1.
    split; [split; assumption|]. repeat split; try reflexivity; discriminate. }
  assert (Hn : 0 < n) by lia.
  assert (Hdirect : (n <= acked_size s \/ (eof_flag s = true /\ unacked s = [])) ->
          finish n (unacked s) (acked s) (acked_size s) (eof_flag s) [] = (s', o, cr) ->
          inv s' /\ eof_flag s' = eof_flag s /\ aread n (abs_q s) (eof_flag s) = (abs_q s', o) /\
          o <> RErr EIndex /\
          (o = RBlocked -> eof_flag s = false /\ unacked s' = [] /\ acked_size s' < n)).
  { intros Hc Hf.
    destruct (finish_spec n (unacked s) (acked s) (acked_size s) (eof_flag s) [] Hn Ha Hq Hc)
      as (s2 & o2 & Hf2 & Hi & He & Hr & Hnb & Hni).
    rewrite Hf2 in Hf. inversion Hf; subst.
    split; [assumption|]. split; [assumption|]. split; [assumption|]. split; [assumption|].
    intros ->. contradiction. }
  destruct (negb (eof_flag s) || negb (is_nil (unacked s))) eqn:Et.
  2:{ apply Hdirect; [|assumption]. right.
      apply orb_false_iff in Et. destruct Et as [Et1 Et2].
      split; [destruct (eof_flag s); [reflexivity|discriminate]|].
      destruct (unacked s); [reflexivity|discriminate]. }
  destruct (acked_size s <? n) eqn:El.
  2:{ apply Hdirect; [left; lia|assumption]. }
  pose proof (fill_get_spec n (eof_flag s) (unacked s) (acked s) (acked_size s) [] Hq Ha ltac:(lia))
    as Hs.
  destruct (fill_get n (unacked s) (acked s) (acked_size s) []) as [ak asz c|un ak asz c] eqn:Ef;
    cbn [after_fill] in H.
  - (* blocked in get(): the queue held no marker, so by the entry test the flag is off *)
    destruct Hs as (H1 & H2 & H3 & H4). inversion H; subst.
    assert (He : eof_flag s = false).
    { destruct (eof_flag s) eqn:Ee; [|reflexivity]. exfalso.
      rewrite (H4 eq_refl) in Et. discriminate. }
    split; [split; cbn [acked acked_size unacked eof_flag]; [reflexivity|exact I]|].
    split; [reflexivity|].
    split.
    { unfold abs_q. cbn [acked unacked map concat]. rewrite <- H3, app_nil_r, He.
      unfold aread. replace (n <? 0) with false by lia. replace (n =? 0) with false by lia.
      replace (n <=? zlen (concat ak)) with false by lia. reflexivity. }
    split; [discriminate|].
    intros _. cbn [acked_size unacked]. auto.
  - destruct Hs as (H1 & H2 & H3 & H4).
    destruct (finish_spec n un ak asz (eof_flag s) c Hn H1 H3 H4)
      as (s2 & o2 & Hf2 & Hi & He & Hr & Hnb & Hni).
    rewrite Hf2 in H. inversion H; subst.
    split; [assumption|]. split; [assumption|].
    split; [unfold abs_q at 1; rewrite <- H2; assumption|].
    split; [assumption|]. intros ->. contradiction.
Qed.

(* ------------------------------------------------------------------------------------------ *)
(** * recv_message over the Buffer refines recv_message over the byte queue *)

(* a reader suspended in get() for a read of n bytes: fewer than n bytes are in the deque and the
   queue was empty when it suspended (so it is empty, or something was put since) *)
Definition blocked_ok (n : Z) (s : buf) : Prop :=
  acked_size s < n /\ (eof_flag s = false \/ unacked s <> []).

Lemma read_resume_is_start n s : inv s -> blocked_ok n s -> read_resume n s = read_start n s.
Proof.
  intros [Ha _] [Hl Ht]. unfold read_start, read_resume.
  pose proof (zlen_nonneg (concat (acked s))).
  replace (n <? 0) with false by lia. replace (n =? 0) with false by lia.
  replace (acked_size s <? n) with true by lia.
  replace (negb (eof_flag s) || negb (is_nil (unacked s))) with true; [reflexivity|].
  destruct Ht as [->|Ht]; [reflexivity|].
  destruct (unacked s); [contradiction|]. cbn. rewrite orb_true_r. reflexivity.
Qed.

Lemma blocked_ok_add n d a s : blocked_ok n s -> blocked_ok n (add d a s).
Proof.
  intros [Hl Ht]. unfold add. destruct (a =? 0); [split; assumption|].
  split; cbn [acked_size eof_flag unacked]; [assumption|].
  destruct Ht as [Ht|Ht]; [left; assumption|right]. destruct (unacked s); discriminate.
Qed.

Lemma blocked_ok_eof n s : blocked_ok n s -> blocked_ok n (eof s).
Proof.
  intros [Hl Ht]. split; cbn [eof acked_size eof_flag unacked]; [assumption|].
  right. destruct (unacked s); discriminate.
Qed.

Definition phase_ok (ph : phase) (s : buf) : Prop :=
  match ph with
  | PIdle => True
  | PMeta => blocked_ok 5 s
  | PBody len => blocked_ok len s
  end.

Lemma body_done_not_index len b : body_done len b <> RFail EIndex.
Proof. unfold body_done. destruct (zlen b =? len); discriminate. Qed.

Ltac conj_split := repeat match goal with |- _ /\ _ => split end.
Ltac easy_side := first [assumption | reflexivity | exact I | discriminate | idtac].

Lemma recv_body_refines len cr0 s s' ph' res cr :
  inv s -> recv_body len cr0 (read_start len s) = (s', ph', res, cr) ->
  inv s' /\ phase_ok ph' s' /\ eof_flag s' = eof_flag s /\
  arecv_body len (aread len (abs_q s) (eof_flag s)) = (abs_q s', ph', res) /\
  res <> Some (RFail EIndex).
Proof.
  intros Hi H.
  destruct (read_start len s) as [[s1 o1] c1] eqn:Er.
  destruct (read_start_refines _ _ _ _ _ Hi Er) as (Hi1 & He1 & Ha1 & Hx1 & Hb1).
  rewrite Ha1. cbn [recv_body arecv_body] in *.
  destruct o1 as [b| |e]; inversion H; subst; conj_split; easy_side.
  - intros E. inversion E as [E']. apply (body_done_not_index _ _ E').
  - destruct (Hb1 eq_refl) as (Hf & Hu & Hl). cbn [phase_ok]. split; [assumption|].
    left. rewrite He1. assumption.
  - intros E. inversion E. subst. contradiction.
Qed.

Lemma recv_meta_refines s s' ph' res cr :
  inv s -> recv_meta (read_start 5 s) = (s', ph', res, cr) ->
  inv s' /\ phase_ok ph' s' /\ eof_flag s' = eof_flag s /\
  arecv_meta (eof_flag s) (aread 5 (abs_q s) (eof_flag s)) = (abs_q s', ph', res) /\
  res <> Some (RFail EIndex).
Proof.
  intros Hi H.
  destruct (read_start 5 s) as [[s1 o1] c1] eqn:Er.
  destruct (read_start_refines _ _ _ _ _ Hi Er) as (Hi1 & He1 & Ha1 & Hx1 & Hb1).
  rewrite Ha1. cbn [recv_meta arecv_meta] in *.
  destruct o1 as [b| |e].
  - destruct b as [|flag lenb].
    + inversion H; subst; conj_split; easy_side.
    + destruct (negb (flag =? 0)).
      * inversion H; subst; conj_split; easy_side.
      * destruct (be32_decode lenb) as [len|].
        -- destruct (recv_body_refines _ _ _ _ _ _ _ Hi1 H) as (A & B & C & D & E).
           rewrite <- He1. conj_split; easy_side; try congruence.
        -- inversion H; subst; conj_split; easy_side.
  - inversion H; subst. destruct (Hb1 eq_refl) as (Hf & Hu & Hl).
    conj_split; easy_side. cbn [phase_ok]. split; [assumption|].
    left. rewrite He1. assumption.
  - inversion H; subst; conj_split; easy_side. intros E. inversion E. subst. contradiction.
Qed.

Lemma recv_step_refines ph s s' ph' res cr :
  inv s -> phase_ok ph s -> recv_step ph s = (s', ph', res, cr) ->
  inv s' /\ phase_ok ph' s' /\ eof_flag s' = eof_flag s /\
  arecv ph (abs_q s) (eof_flag s) = (abs_q s', ph', res) /\
  res <> Some (RFail EIndex).
Proof.
  intros Hi Hp H. destruct ph as [| |len]; cbn [recv_step arecv phase_ok] in *.
  - eapply recv_meta_refines; eassumption.
  - rewrite read_resume_is_start in H by assumption. eapply recv_meta_refines; eassumption.
  - rewrite read_resume_is_start in H by assumption. eapply recv_body_refines; eassumption.
Qed.

Definition rinv (st : rstate) : Prop := inv (r_buf st) /\ phase_ok (r_phase st) (r_buf st).

Lemma rinv_init : rinv rstate_init.
Proof. split; [apply inv_init|exact I]. Qed.

Lemma phase_ok_add ph d a s : phase_ok ph s -> phase_ok ph (add d a s).
Proof. destruct ph; cbn; auto using blocked_ok_add. Qed.

Lemma phase_ok_eof ph s : phase_ok ph s -> phase_ok ph (eof s).
Proof. destruct ph; cbn; auto using blocked_ok_eof. Qed.

Lemma eof_flag_add d a s : eof_flag (add d a s) = eof_flag s.
Proof. unfold add. destruct (a =? 0); reflexivity. Qed.

(* one step of a legal history: the concrete machine and the byte-queue machine agree *)
Lemma step_sim o st st' rs :
  rinv st -> wf_ops (eof_flag (r_buf st)) [o] -> step o st = (st', rs) ->
  rinv st' /\ astep o (absr st) = (absr st', rs) /\
  ~ In (RFail EIndex) rs.
Proof.
  intros [Hi Hp] Hw H. destruct st as [s ph dn]. cbn [r_buf r_phase r_done] in *.
  destruct o as [d a| |]; cbn [step step_raw r_buf r_phase r_done] in H.
  - cbn [wf_ops] in Hw. destruct Hw as (Hc & Hda & _). inversion H; subst.
    split; [split; cbn [r_buf r_phase]; [apply inv_add; assumption|apply phase_ok_add; assumption]|].
    split; [|intros []].
    unfold absr. cbn [astep r_buf r_phase r_done a_q a_closed a_phase a_done].
    rewrite abs_q_add, eof_flag_add by assumption. reflexivity.
  - cbn [wf_ops] in Hw. destruct Hw as (Hc & _). inversion H; subst.
    split; [split; cbn [r_buf r_phase]; [apply inv_eof; assumption|apply phase_ok_eof; assumption]|].
    split; [|intros []].
    unfold absr. cbn [astep r_buf r_phase r_done a_q a_closed a_phase a_done].
    rewrite abs_q_eof. reflexivity.
  - unfold absr. cbn [astep r_buf r_phase r_done a_q a_closed a_phase a_done].
    destruct dn.
    + inversion H; subst. split; [split; assumption|]. split; [reflexivity|intros []].
    + destruct (recv_step ph s) as [[[s1 ph1] res1] c1] eqn:Er.
      destruct (recv_step_refines _ _ _ _ _ _ Hi Hp Er) as (A & B & C & D & E).
      rewrite D.
      destruct res1 as [[m| |e| ]|]; inversion H; subst; cbn [r_buf r_phase r_done];
        (split; [split; assumption|]); rewrite C; (split; [reflexivity|]).
      * intros [F|[]]. discriminate.
      * intros [F|[]]. discriminate.
      * intros [F|[]]. apply E. rewrite F. reflexivity.
      * intros [F|[]]. discriminate.
      * intros [].
Qed.

Lemma eof_flag_step o st st' rs :
  step o st = (st', rs) -> rinv st ->
  eof_flag (r_buf st') = match o with OAdd _ _ => eof_flag (r_buf st) | OEof => true
                         | ORecv => eof_flag (r_buf st) end.
Proof.
  intros H [Hi Hp]. destruct st as [s ph dn]. cbn [r_buf r_phase] in *.
  destruct o as [d a| |]; cbn [step step_raw r_buf r_phase r_done] in H.
  - inversion H; subst. cbn [r_buf]. apply eof_flag_add.
  - inversion H; subst. reflexivity.
  - destruct dn; [inversion H; subst; reflexivity|].
    destruct (recv_step ph s) as [[[s1 ph1] res1] c1] eqn:Er.
    destruct (recv_step_refines _ _ _ _ _ _ Hi Hp Er) as (A & B & C & D & E).
    destruct res1 as [[m| |e| ]|]; inversion H; subst; cbn [r_buf]; assumption.
Qed.

Lemma run_sim ops : forall st st' rs,
  rinv st -> wf_ops (eof_flag (r_buf st)) ops -> run ops st = (st', rs) ->
  rinv st' /\ arun ops (absr st) = (absr st', rs) /\ ~ In (RFail EIndex) rs.
Proof.
  induction ops as [|o ops IH]; intros st st' rs Hr Hw H.
  - inversion H; subst. split; [assumption|]. split; [reflexivity|intros []].
  - unfold run in H. cbn [run_with] in H. fold run in H.
    destruct (step o st) as [st1 r1] eqn:E1.
    destruct (run ops st1) as [st2 r2] eqn:E2.
    inversion H; subst.
    assert (Hw1 : wf_ops (eof_flag (r_buf st)) [o]).
    { destruct o; cbn [wf_ops] in *; intuition. }
    destruct (step_sim _ _ _ _ Hr Hw1 E1) as (Hr1 & Ha1 & Hn1).
    assert (Hw2 : wf_ops (eof_flag (r_buf st1)) ops).
    { rewrite (eof_flag_step _ _ _ _ E1 Hr).
      destruct o; cbn [wf_ops] in Hw.
      - destruct Hw as (Hc & _ & Hw). rewrite Hc. assumption.
      - destruct Hw as (_ & Hw). assumption.
      - assumption. }
    destruct (IH _ _ _ Hr1 Hw2 E2) as (Hr2 & Ha2 & Hn2).
    split; [assumption|]. split.
    + cbn [arun]. rewrite Ha1, Ha2. reflexivity.
    + intros Hin. apply in_app_or in Hin. tauto.
Qed.

(* ------------------------------------------------------------------------------------------ *)
(** * (T3)/(T4) recv_message over the byte queue: in order, intact, truncation detected *)

Lemma aread_zero q c : aread 0 q c = (q, RBytes []).
Proof. reflexivity. Qed.

Lemma aread_enough n q c :
  0 < n -> n <= zlen q -> aread n q c = (skipn (Z.to_nat n) q, RBytes (firstn (Z.to_nat n) q)).
Proof.
  intros. unfold aread.
  replace (n <? 0) with false by lia. replace (n =? 0) with false by lia.
  replace (n <=? zlen q) with true by lia. reflexivity.
Qed.

Lemma aread_short n q c :
  zlen q < n ->
  aread n q c = (q, if c then (if zlen q =? 0 then RBytes [] else RErr EAssert) else RBlocked).
Proof.
  intros. pose proof (zlen_nonneg q). unfold aread.
  replace (n <? 0) with false by lia. replace (n =? 0) with false by lia.
  replace (n <=? zlen q) with false by lia. destruct c; [destruct (zlen q =? 0)|]; reflexivity.
Qed.

Lemma frame_split m R : frame m ++ R = (0 :: be32 (zlen m)) ++ (m ++ R).
Proof. unfold frame. cbn [app]. rewrite <- app_assoc. reflexivity. Qed.

Lemma header_length (m : bytes) : zlen (0 :: be32 (zlen m)) = 5.
Proof. reflexivity. Qed.

(* the 5-byte read when fewer than 5 bytes are there *)
Lemma meta_short q c :
  zlen q < 5 ->
  arecv_meta c (aread 5 q c) =
  if c then (q, PIdle, Some (if zlen q =? 0 then REos else RFail EAssert)) else (q, PMeta, None).
Proof.
  intros H. rewrite aread_short by assumption.
  destruct c; [|reflexivity]. destruct (zlen q =? 0); reflexivity.
Qed.

(* the 5-byte read when the queue starts with the header of frame m *)
Lemma meta_header q X m c :
  q ++ X = (0 :: be32 (zlen m)) ++ m -> zlen m < max_len -> 5 <= zlen q ->
  arecv_meta c (aread 5 q c) = arecv_body (zlen m) (aread (zlen m) (skipn 5 q) c) /\
  skipn 5 q ++ X = m.
Proof.
  intros E Hm Hq.
  destruct (app_eq_prefix q X (0 :: be32 (zlen m)) m E) as [Hf Hs];
    [rewrite header_length; assumption|].
  rewrite header_length in Hf, Hs. change (Z.to_nat 5) with 5%nat in Hf, Hs.
  split; [|assumption].
  rewrite aread_enough by lia. change (Z.to_nat 5) with 5%nat. rewrite Hf.
  cbn [arecv_meta]. cbn [Z.eqb negb].
  rewrite be32_decode_be32 by (pose proof (zlen_nonneg m); lia). reflexivity.
Qed.

(* the body read when the whole body is there *)
Lemma body_full q X m R c :
  q ++ X = m ++ R -> zlen m <= zlen q ->
  arecv_body (zlen m) (aread (zlen m) q c) = (skipn (Z.to_nat (zlen m)) q, PIdle, Some (RMsg m)) /\
  skipn (Z.to_nat (zlen m)) q ++ X = R.
Proof.
  intros E Hq. destruct (app_eq_prefix q X m R E Hq) as [Hf Hs]. split; [|assumption].
  pose proof (zlen_nonneg m) as Hn.
  destruct (Z.eq_dec (zlen m) 0) as [Hz|Hz].
  - assert (m = []) as -> by (apply zlen_zero_nil; assumption). reflexivity.
  - rewrite aread_enough by lia. rewrite Hf. cbn [arecv_body]. unfold body_done.
    rewrite Z.eqb_refl. reflexivity.
Qed.

(* the body read when the body is not all there *)
Lemma body_short q len c :
  zlen q < len ->
  arecv_body len (aread len q c) =
  if c then (q, PIdle, Some (RFail EAssert)) else (q, PBody len, None).
Proof.
  intros H. rewrite aread_short by assumption. destruct c; [|reflexivity].
  destruct (zlen q =? 0) eqn:E; [|reflexivity].
  cbn [arecv_body]. unfold body_done. rewrite zlen_nil.
  replace (0 =? len) with false by lia. reflexivity.
Qed.

(* what may follow the complete frames: nothing, or a non-empty proper prefix of a frame *)
Definition trunc_tail (tail : bytes) : Prop :=
  tail = [] \/
  exists m' rest, zlen m' < max_len /\ tail <> [] /\ rest <> [] /\ tail ++ rest = frame m'.

Definition terminal (tail : bytes) : result :=
  match tail with [] => REos | _ :: _ => RFail EAssert end.

(* a: state of the byte-queue receiver; pending: bytes of the stream not delivered yet; c: END_STREAM
   delivered.  The unread stream (queue ++ pending) is what remains of frames ms ++ tail. *)
Definition AInv (ms : list bytes) (tail pending : bytes) (c : bool) (a : astate) : Prop :=
  a_done a = false /\ a_closed a = c /\ (c = true -> pending = []) /\
  match a_phase a with
  | PIdle | PMeta => a_q a ++ pending = concat (map frame ms) ++ tail
  | PBody len =>
      (exists m ms', ms = m :: ms' /\ len = zlen m /\
                     a_q a ++ pending = m ++ concat (map frame ms') ++ tail) \/
      (ms = [] /\ tail <> [] /\
       exists m' rest, len = zlen m' /\ rest <> [] /\ (a_q a ++ pending) ++ rest = m')
  end.

Lemma zlen_pos_of_nonnil {A} (l : list A) : l <> [] -> 0 < zlen l.
Proof. destruct l; [contradiction|]. intros _. rewrite zlen_cons. pose proof (zlen_nonneg l). lia. Qed.

Lemma terminal_nonnil tail : tail <> [] -> terminal tail = RFail EAssert.
Proof. destruct tail; [contradiction|reflexivity]. Qed.

(* body step shared by the idle and the body phase: q ++ pending = m ++ R *)
Lemma body_step q pending m ms' tail c :
  (c = true -> pending = []) ->
  q ++ pending = m ++ concat (map frame ms') ++ tail ->
  (exists q', arecv_body (zlen m) (aread (zlen m) q c) = (q', PIdle, Some (RMsg m)) /\
              q' ++ pending = concat (map frame ms') ++ tail) \/
  (c = false /\ arecv_body (zlen m) (aread (zlen m) q c) = (q, PBody (zlen m), None)).
Proof.
  intros Hc E.
  destruct (Z_le_gt_dec (zlen m) (zlen q)) as [Hle|Hgt].
  - left. destruct (body_full q pending m _ c E Hle) as [H1 H2]. eauto.
  - right. destruct c.
    + exfalso. rewrite (Hc eq_refl), app_nil_r in E. rewrite E, zlen_app in Hgt.
      pose proof (zlen_nonneg (concat (map frame ms') ++ tail)). lia.
    + split; [reflexivity|]. rewrite body_short by lia. reflexivity.
Qed.

(* truncated body: (q ++ pending) ++ rest = m', rest <> [] *)
Lemma trunc_body_step q pending m' rest c :
  (c = true -> pending = []) -> rest <> [] -> (q ++ pending) ++ rest = m' ->
  arecv_body (zlen m') (aread (zlen m') q c) =
  if c then (q, PIdle, Some (RFail EAssert)) else (q, PBody (zlen m'), None).
Proof.
  intros Hc Hr E. apply body_short.
  rewrite <- E, !zlen_app. pose proof (zlen_pos_of_nonnil rest Hr).
  pose proof (zlen_nonneg pending). lia.
Qed.

Definition mk_a (q : bytes) (c : bool) (ph : phase) (d : bool) := mk_astate q c ph d.

(* one scheduling of the receiver *)
Lemma arecv_step_inv ms tail pending c a a' rs :
  Forall (fun m => zlen m < max_len) ms -> trunc_tail tail ->
  AInv ms tail pending c a -> astep ORecv a = (a', rs) ->
  (rs = [] /\ c = false /\ AInv ms tail pending c a') \/
  (exists m ms', ms = m :: ms' /\ rs = [RMsg m] /\ AInv ms' tail pending c a') \/
  (ms = [] /\ c = true /\ rs = [terminal tail] /\ a_done a' = true).
Proof.
  intros Hms Ht (Hd & Hcl & Hc & Hph) H.
  destruct a as [q cl ph dn]. cbn [a_q a_closed a_phase a_done] in *. subst dn cl.
  cbn [astep a_done a_q a_closed a_phase] in H.
  assert (Hmeta : forall ph0, (ph0 = PIdle \/ ph0 = PMeta) ->
            q ++ pending = concat (map frame ms) ++ tail ->
            forall q1 ph1 res1, arecv_meta c (aread 5 q c) = (q1, ph1, res1) ->
            (res1 = None /\ c = false /\ AInv ms tail pending c (mk_astate q1 c ph1 false)) \/
            (exists m ms', ms = m :: ms' /\ res1 = Some (RMsg m) /\
                           AInv ms' tail pending c (mk_astate q1 c ph1 false)) \/
            (ms = [] /\ c = true /\ res1 = Some (terminal tail))).
  { intros ph0 _ E q1 ph1 res1 Hr.
    destruct ms as [|m ms'].
    - (* no complete frame left: the stream is the tail *)
      cbn [map concat app] in E.
      destruct Ht as [->|(m' & rest & Hm' & Hne & Hre & Hfr)].
      + (* clean end *)
        apply app_eq_nil in E. destruct E as [-> ->].
        rewrite meta_short in Hr by (cbn; lia). destruct c.
        * inversion Hr; subst q1 ph1 res1. right. right. auto.
        * inversion Hr; subst q1 ph1 res1. left. split; [reflexivity|]. split; [reflexivity|].
          unfold AInv. cbn [a_done a_closed a_phase a_q]. conj_split; easy_side.
      + (* truncated frame *)
        destruct (Z_lt_ge_dec (zlen q) 5) as [Hlt|Hge].
        * rewrite meta_short in Hr by assumption. destruct c.
          -- inversion Hr; subst q1 ph1 res1. right. right.
             rewrite (Hc eq_refl), app_nil_r in E. subst q.
             replace (zlen tail =? 0) with false
               by (pose proof (zlen_pos_of_nonnil tail Hne); lia).
             rewrite terminal_nonnil by assumption. auto.
          -- inversion Hr; subst q1 ph1 res1. left. split; [reflexivity|]. split; [reflexivity|].
             unfold AInv. cbn [a_done a_closed a_phase a_q]. conj_split; easy_side.
        * assert (E2 : q ++ (pending ++ rest) = (0 :: be32 (zlen m')) ++ m').
          { rewrite app_assoc, E, Hfr. unfold frame. reflexivity. }
          destruct (meta_header q _ m' c E2 Hm' ltac:(lia)) as [Hr2 Hs2].
          rewrite Hr2 in Hr. rewrite app_assoc in Hs2.
          rewrite (trunc_body_step _ _ _ _ c Hc Hre Hs2) in Hr. destruct c.
          -- inversion Hr; subst q1 ph1 res1. right. right. rewrite terminal_nonnil by assumption. auto.
          -- inversion Hr; subst q1 ph1 res1. left. split; [reflexivity|]. split; [reflexivity|].
             unfold AInv. cbn [a_done a_closed a_phase a_q]. conj_split; easy_side.
             right. split; [reflexivity|]. split; [assumption|]. eauto.
    - (* a complete frame is next *)
      inversion Hms as [|? ? Hm Hms']; subst.
      cbn [map concat] in E.
      destruct (Z_lt_ge_dec (zlen q) 5) as [Hlt|Hge].
      + rewrite meta_short in Hr by assumption. destruct c.
        * exfalso. rewrite (Hc eq_refl), app_nil_r in E. rewrite E, !zlen_app, frame_length in Hlt.
          pose proof (zlen_nonneg m). pose proof (zlen_nonneg (concat (map frame ms'))).
          pose proof (zlen_nonneg tail). lia.
        * inversion Hr; subst q1 ph1 res1. left. split; [reflexivity|]. split; [reflexivity|].
          unfold AInv. cbn [a_done a_closed a_phase a_q map concat]. conj_split; easy_side.
      + assert (E2 : q ++ pending = (0 :: be32 (zlen m)) ++ (m ++ concat (map frame ms') ++ tail)).
        { rewrite E, <- app_assoc. apply frame_split. }
        destruct (app_eq_prefix q pending _ _ E2) as [Hf Hs]; [rewrite header_length; lia|].
        rewrite header_length in Hf, Hs. change (Z.to_nat 5) with 5%nat in Hf, Hs.
        rewrite aread_enough in Hr by lia. change (Z.to_nat 5) with 5%nat in Hr. rewrite Hf in Hr.
        cbn [arecv_meta] in Hr. cbn [Z.eqb negb] in Hr.
        rewrite be32_decode_be32 in Hr by (pose proof (zlen_nonneg m); lia).
        destruct (body_step _ _ _ _ _ c Hc Hs) as [(q' & Hb & Hq')|(Hcf & Hb)]; rewrite Hb in Hr.
        * inversion Hr; subst q1 ph1 res1. right. left. exists m, ms'. split; [reflexivity|]. split; [reflexivity|].
          unfold AInv. cbn [a_done a_closed a_phase a_q]. conj_split; easy_side.
        * inversion Hr; subst q1 ph1 res1. left. split; [reflexivity|]. split; [assumption|].
          unfold AInv. cbn [a_done a_closed a_phase a_q]. conj_split; easy_side.
          left. exists m, ms'. auto. }
  assert (Hfin : forall q1 ph1 res1,
            (res1 = None /\ c = false /\ AInv ms tail pending c (mk_astate q1 c ph1 false)) \/
            (exists m ms', ms = m :: ms' /\ res1 = Some (RMsg m) /\
                           AInv ms' tail pending c (mk_astate q1 c ph1 false)) \/
            (ms = [] /\ c = true /\ res1 = Some (terminal tail)) ->
            match res1 with
            | Some (RMsg m) => (mk_astate q1 c ph1 false, [RMsg m])
            | Some r => (mk_astate q1 c ph1 true, [r])
            | None => (mk_astate q1 c ph1 false, [])
            end = (a', rs) ->
            (rs = [] /\ c = false /\ AInv ms tail pending c a') \/
            (exists m ms', ms = m :: ms' /\ rs = [RMsg m] /\ AInv ms' tail pending c a') \/
            (ms = [] /\ c = true /\ rs = [terminal tail] /\ a_done a' = true)).
  { intros q1 ph1 res1 [(-> & Hcf & Hi)|[(m & ms' & -> & -> & Hi)|(-> & Hct & ->)]] Hr.
    - inversion Hr; subst. left. auto.
    - inversion Hr; subst. right. left. eauto.
    - right. right.
      destruct Ht as [->|(m' & rest & _ & Hne & _)].
      + cbn [terminal] in Hr. inversion Hr; subst. auto.
      + rewrite terminal_nonnil in Hr |- * by assumption. inversion Hr; subst. auto. }
  destruct ph as [| |len]; cbn [arecv] in H.
  - destruct (arecv_meta c (aread 5 q c)) as [[q1 ph1] res1] eqn:Er.
    apply (Hfin q1 ph1 res1); [|assumption]. eapply (Hmeta PIdle); eauto.
  - destruct (arecv_meta c (aread 5 q c)) as [[q1 ph1] res1] eqn:Er.
    apply (Hfin q1 ph1 res1); [|assumption]. eapply (Hmeta PMeta); eauto.
  - destruct (arecv_body len (aread len q c)) as [[q1 ph1] res1] eqn:Er.
    apply (Hfin q1 ph1 res1); [|assumption].
    destruct Hph as [(m & ms' & -> & -> & E)|(-> & Hne & m' & rest & -> & Hre & E)].
    + destruct (body_step _ _ _ _ _ c Hc E) as [(q' & Hb & Hq')|(Hcf & Hb)]; rewrite Hb in Er.
      * inversion Er; subst q1 ph1 res1. right. left. exists m, ms'. split; [reflexivity|]. split; [reflexivity|].
        unfold AInv. cbn [a_done a_closed a_phase a_q]. conj_split; easy_side.
      * inversion Er; subst q1 ph1 res1. left. split; [reflexivity|]. split; [assumption|].
        unfold AInv. cbn [a_done a_closed a_phase a_q]. conj_split; easy_side.
        left. exists m, ms'. auto.
    + rewrite (trunc_body_step _ _ _ _ c Hc Hre E) in Er. destruct c.
      * inversion Er; subst q1 ph1 res1. right. right. rewrite terminal_nonnil by assumption. auto.
      * inversion Er; subst q1 ph1 res1. left. split; [reflexivity|]. split; [reflexivity|].
        unfold AInv. cbn [a_done a_closed a_phase a_q]. conj_split; easy_side.
        right. split; [reflexivity|]. split; [assumption|]. eauto.
Qed.

(* ---- histories over the byte queue ---- *)

(* feeds ops pending c pending' c': the Add operations of ops deliver, in order, a prefix of
   `pending` (leaving pending'), and END_STREAM is delivered only after the last byte *)
Inductive feeds : list op -> bytes -> bool -> bytes -> bool -> Prop :=
| F_nil p c : feeds [] p c p c
| F_add d a r p p' c' : feeds r p false p' c' -> feeds (OAdd d a :: r) (d ++ p) false p' c'
| F_eof r p' c' : feeds r [] true p' c' -> feeds (OEof :: r) [] false p' c'
| F_recv r p c p' c' : feeds r p c p' c' -> feeds (ORecv :: r) p c p' c'.

Lemma wf_closed_no_payload ops : wf_ops true ops -> payloads ops = [] /\ ended ops = false.
Proof.
  induction ops as [|o ops IH]; intros Hw; [split; reflexivity|].
  destruct o as [d a| |]; cbn [wf_ops payloads ended] in *.
  - destruct Hw as [Hw _]. discriminate.
  - destruct Hw as [Hw _]. discriminate.
  - apply IH. assumption.
Qed.

Lemma feeds_of_wf ops : forall c rest,
  wf_ops c ops -> (ended ops = true -> rest = []) ->
  feeds ops (concat (payloads ops) ++ rest) c rest (c || ended ops).
Proof.
  induction ops as [|o ops IH]; intros c rest Hw He.
  - cbn. rewrite orb_false_r. constructor.
  - destruct o as [d a| |]; cbn [wf_ops payloads ended concat] in *.
    + destruct Hw as (-> & _ & Hw). rewrite <- app_assoc. constructor.
      apply (IH false rest Hw He).
    + destruct Hw as (-> & Hw). rewrite (He eq_refl) in *.
      destruct (wf_closed_no_payload ops Hw) as [Hp _].
      specialize (IH true [] Hw (fun _ => eq_refl)). rewrite Hp in *. cbn [orb concat app] in *.
      constructor. assumption.
    + constructor. apply IH; assumption.
Qed.

Lemma arun_app o1 : forall o2 a,
  arun (o1 ++ o2) a =
  let '(a1, r1) := arun o1 a in let '(a2, r2) := arun o2 a1 in (a2, r1 ++ r2).
Proof.
  induction o1 as [|o o1 IH]; intros o2 a; cbn [app arun].
  - destruct (arun o2 a). reflexivity.
  - destruct (astep o a) as [a1 r1]. rewrite IH.
    destruct (arun o1 a1) as [a2 r2]. destruct (arun o2 a2) as [a3 r3].
    rewrite app_assoc. reflexivity.
Qed.

(* once the consumer has stopped nothing more is returned *)
Lemma arun_done ops : forall a a' rs,
  a_done a = true -> arun ops a = (a', rs) -> rs = [] /\ a_done a' = true.
Proof.
  induction ops as [|o ops IH]; intros a a' rs Hd H; cbn [arun] in H.
  - inversion H; subst. auto.
  - destruct (astep o a) as [a1 r1] eqn:E1. destruct (arun ops a1) as [a2 r2] eqn:E2.
    inversion H; subst.
    assert (r1 = [] /\ a_done a1 = true) as [-> Hd1].
    { destruct o; cbn [astep] in E1; [inversion E1; subst; auto|inversion E1; subst; auto|].
      rewrite Hd in E1. inversion E1; subst. auto. }
    apply (IH _ _ _ Hd1 E2).
Qed.

Lemma feeds_closed ops p c p' c' : feeds ops p c p' c' -> c = true -> c' = true.
Proof. induction 1; intros Hc; try discriminate; auto. Qed.

(* (T3)+(T4), safety half: whatever has been returned so far is a prefix of the messages sent, in
   order, possibly followed by the terminal outcome *)
Lemma arun_prefix ops pending c pending' c' :
  feeds ops pending c pending' c' ->
  forall ms tail a a' rs,
  Forall (fun m => zlen m < max_len) ms -> trunc_tail tail ->
  AInv ms tail pending c a -> arun ops a = (a', rs) ->
  exists ms1 ms2, ms = ms1 ++ ms2 /\
    ((rs = map RMsg ms1 /\ AInv ms2 tail pending' c' a') \/
     (ms2 = [] /\ c' = true /\ rs = map RMsg ms1 ++ [terminal tail] /\ a_done a' = true)).
Proof.
  induction 1 as [p c|d a0 r p p' c' F IH|r p' c' F IH|r p c p' c' F IH];
    intros ms tail a a' rs Hms Ht Hi H.
  - inversion H; subst. exists [], ms. split; [reflexivity|]. left. auto.
  - cbn [arun astep] in H.
    match type of H with context [arun r ?x] => destruct (arun r x) as [a2 r2] eqn:E2 end.
    inversion H; subst. cbn [app].
    eapply (IH ms tail); [assumption|assumption| |eassumption].
    destruct Hi as (Hd & Hcl & Hc & Hph). unfold AInv. cbn [a_done a_closed a_phase a_q].
    conj_split; easy_side.
    destruct (a_phase a); rewrite <- ?app_assoc in *; assumption.
  - cbn [arun astep] in H.
    match type of H with context [arun r ?x] => destruct (arun r x) as [a2 r2] eqn:E2 end.
    inversion H; subst. cbn [app].
    eapply (IH ms tail); [assumption|assumption| |eassumption].
    destruct Hi as (Hd & Hcl & Hc & Hph). unfold AInv. cbn [a_done a_closed a_phase a_q].
    conj_split; easy_side.
  - cbn [arun] in H.
    destruct (astep ORecv a) as [a1 r1] eqn:E1. destruct (arun r a1) as [a2 r2] eqn:E2.
    inversion H; subst.
    destruct (arecv_step_inv _ _ _ _ _ _ _ Hms Ht Hi E1)
      as [(-> & Hcf & Hi1)|[(m & ms' & -> & -> & Hi1)|(-> & Hct & -> & Hd1)]].
    + apply (IH ms tail _ _ _ Hms Ht Hi1 E2).
    + inversion Hms as [|? ? Hm Hms']; subst.
      destruct (IH ms' tail _ _ _ Hms' Ht Hi1 E2) as (ms1 & ms2 & -> & Hr).
      exists (m :: ms1), ms2. split; [reflexivity|].
      destruct Hr as [(-> & Hi2)|(-> & Hc' & -> & Hd2)]; [left|right]; cbn [map app]; auto.
    + destruct (arun_done _ _ _ _ Hd1 E2) as [-> Hd2].
      exists [], []. split; [reflexivity|]. right. conj_split; easy_side.
      (* END_STREAM was delivered before this step, and stays delivered *)
      eapply feeds_closed; eassumption.
Qed.

(* liveness half: once everything and END_STREAM have been delivered, every scheduling of the
   receiver returns something; length ms + 1 calls return all of it *)
Lemma arun_drain ms : forall tail a k,
  Forall (fun m => zlen m < max_len) ms -> trunc_tail tail ->
  AInv ms tail [] true a -> (length ms < k)%nat ->
  exists a', arun (repeat ORecv k) a = (a', map RMsg ms ++ [terminal tail]) /\ a_done a' = true.
Proof.
  induction ms as [|m ms IH]; intros tail a k Hms Ht Hi Hk;
    (destruct k as [|k]; [cbn in Hk; lia|]); cbn [repeat arun];
    destruct (astep ORecv a) as [a1 r1] eqn:E1;
    destruct (arecv_step_inv _ _ _ _ _ _ _ Hms Ht Hi E1)
      as [(_ & Hcf & _)|[(m0 & ms' & Hm & -> & Hi1)|(Hm & _ & -> & Hd1)]]; try discriminate.
  - destruct (arun (repeat ORecv k) a1) as [a2 r2] eqn:E2.
    destruct (arun_done _ _ _ _ Hd1 E2) as [-> Hd2]. exists a2. auto.
  - inversion Hm; subst m0 ms'. inversion Hms as [|? ? Hm0 Hms']; subst.
    destruct (IH tail a1 k Hms' Ht Hi1 ltac:(cbn in Hk; lia)) as (a2 & E2 & Hd2).
    rewrite E2. exists a2. auto.
Qed.

Lemma wf_ops_app_recv ops k : forall c, wf_ops c ops -> wf_ops c (ops ++ repeat ORecv k).
Proof.
  induction ops as [|o ops IH]; intros c Hw; cbn [app].
  - induction k; cbn; auto.
  - destruct o; cbn [wf_ops] in *; intuition.
Qed.

Lemma AInv_init ms tail :
  AInv ms tail (concat (map frame ms) ++ tail) false (absr rstate_init).
Proof. unfold AInv. cbn. conj_split; easy_side. Qed.

Lemma firstn_map_app {A B} (f : A -> B) (l1 l2 : list A) (t : list B) :
  map f l1 = firstn (length l1) (map f (l1 ++ l2) ++ t).
Proof.
  rewrite map_app, <- app_assoc. rewrite firstn_app, map_length, Nat.sub_diag.
  rewrite <- (map_length f l1) at 1. rewrite firstn_all. cbn. rewrite app_nil_r. reflexivity.
Qed.

(* (T3)/(T4) safety on the real Buffer: for every legal history delivering a prefix of the stream *)
Lemma run_prefix ms tail ops rest st' rs :
  Forall (fun m => zlen m < max_len) ms -> trunc_tail tail ->
  wf_ops false ops ->
  concat (payloads ops) ++ rest = concat (map frame ms) ++ tail ->
  (ended ops = true -> rest = []) ->
  run ops rstate_init = (st', rs) ->
  exists k, rs = firstn k (map RMsg ms ++ [terminal tail]).
Proof.
  intros Hms Ht Hw Hs He H.
  destruct (run_sim _ _ _ _ rinv_init Hw H) as (_ & Ha & _).
  pose proof (feeds_of_wf ops false rest Hw He) as F. rewrite Hs in F.
  destruct (arun_prefix _ _ _ _ _ F ms tail _ _ _ Hms Ht (AInv_init ms tail) Ha)
    as (ms1 & ms2 & -> & [(-> & _)|(-> & _ & -> & _)]).
  - exists (length ms1). apply firstn_map_app.
  - exists (S (length ms1)). rewrite app_nil_r.
    rewrite firstn_all2; [reflexivity|]. rewrite app_length, map_length. cbn [length]. lia.
Qed.

(* (T3)/(T4) completeness: everything delivered, END_STREAM delivered, enough calls *)
Lemma run_complete ms tail ops k st' rs :
  Forall (fun m => zlen m < max_len) ms -> trunc_tail tail ->
  wf_ops false ops ->
  concat (payloads ops) = concat (map frame ms) ++ tail ->
  ended ops = true -> (length ms < k)%nat ->
  run (ops ++ repeat ORecv k) rstate_init = (st', rs) ->
  rs = map RMsg ms ++ [terminal tail].
Proof.
  intros Hms Ht Hw Hs He Hk H.
  destruct (run_sim _ _ _ _ rinv_init (wf_ops_app_recv _ k _ Hw) H) as (_ & Ha & _).
  rewrite arun_app in Ha.
  destruct (arun ops (absr rstate_init)) as [a1 r1] eqn:E1.
  destruct (arun (repeat ORecv k) a1) as [a2 r2] eqn:E2.
  inversion Ha; subst.
  pose proof (feeds_of_wf ops false [] Hw (fun _ => eq_refl)) as F.
  rewrite app_nil_r, Hs, He in F. cbn [orb] in F.
  destruct (arun_prefix _ _ _ _ _ F ms tail _ _ _ Hms Ht (AInv_init ms tail) E1)
    as (ms1 & ms2 & -> & [(-> & Hi)|(-> & _ & -> & Hd)]).
  - apply Forall_app in Hms. destruct Hms as [_ Hms2].
    destruct (arun_drain ms2 tail a1 k Hms2 Ht Hi) as (a' & E & _).
    { rewrite app_length in Hk. lia. }
    rewrite E in E2. inversion E2; subst. rewrite map_app, <- app_assoc. reflexivity.
  - destruct (arun_done _ _ _ _ Hd E2) as [-> _]. rewrite !app_nil_r. reflexivity.
Qed.

(* never a message that was not sent *)
Lemma run_no_fabrication ms tail ops rest st' rs m :
  Forall (fun m => zlen m < max_len) ms -> trunc_tail tail ->
  wf_ops false ops ->
  concat (payloads ops) ++ rest = concat (map frame ms) ++ tail ->
  (ended ops = true -> rest = []) ->
  run ops rstate_init = (st', rs) ->
  In (RMsg m) rs -> In m ms.
Proof.
  intros Hms Ht Hw Hs He H Hin.
  destruct (run_prefix _ _ _ _ _ _ Hms Ht Hw Hs He H) as [k ->].
  assert (Hin2 : In (RMsg m) (map RMsg ms ++ [terminal tail])).
  { clear - Hin. revert Hin. generalize (map RMsg ms ++ [terminal tail]). intros l. revert k.
    induction l as [|x l IH]; intros [|k] Hin; cbn in *; try contradiction.
    destruct Hin; [left; assumption|right; eapply IH; eassumption]. }
  apply in_app_or in Hin2. destruct Hin2 as [Hin2|[Hin2|[]]].
  - apply in_map_iff in Hin2. destruct Hin2 as (x & Hx & Hi). inversion Hx; subst. assumption.
  - destruct tail; discriminate.
Qed.

(* every cut of a stream of frames is: complete frames, then nothing or a proper prefix of a frame *)
Lemma cut_anywhere ms : forall pre suf,
  Forall (fun m => zlen m < max_len) ms ->
  pre ++ suf = concat (map frame ms) ->
  exists ms1 ms2 tail, ms = ms1 ++ ms2 /\ pre = concat (map frame ms1) ++ tail /\
                       trunc_tail tail /\ (suf = [] -> ms2 = [] /\ tail = []).
Proof.
  induction ms as [|m ms IH]; intros pre suf Hms E.
  - cbn in E. apply app_eq_nil in E. destruct E as [-> ->].
    exists [], [], []. cbn. conj_split; easy_side; [left; reflexivity|auto].
  - inversion Hms as [|? ? Hm Hms']; subst. cbn [map concat] in E.
    destruct (Z_le_gt_dec (zlen (frame m)) (zlen pre)) as [Hle|Hgt].
    + destruct (app_eq_prefix pre suf (frame m) _ E Hle) as [Hf Hs].
      destruct (IH _ _ Hms' Hs) as (ms1 & ms2 & tail & -> & Hp & Ht & Hsuf).
      exists (m :: ms1), ms2, tail. conj_split; easy_side.
      cbn [map concat]. rewrite <- app_assoc, <- Hp, <- Hf at 1. apply eq_sym, firstn_skipn.
    + destruct pre as [|b pre].
      * exists [], (m :: ms), []. cbn. conj_split; easy_side; [left; reflexivity|].
        intros ->. cbn in E. exfalso. unfold frame in E. cbn in E. discriminate.
      * symmetry in E.
        destruct (app_eq_prefix (frame m) (concat (map frame ms)) (b :: pre) suf E ltac:(lia))
          as [Hf Hs].
        exists [], (m :: ms), (b :: pre). cbn [map concat app]. conj_split; easy_side.
        -- right. exists m, (skipn (Z.to_nat (zlen (b :: pre))) (frame m)).
           conj_split; easy_side.
           ++ intros Hn. pose proof (zlen_nonneg (b :: pre)).
              pose proof (zlen_skipn (zlen (b :: pre)) (frame m) ltac:(lia)) as Hl.
              rewrite Hn, zlen_nil in Hl. lia.
           ++ rewrite <- Hf at 1. apply firstn_skipn.
        -- intros ->. rewrite app_nil_r in E. exfalso. rewrite <- E, zlen_app in Hgt.
           pose proof (zlen_nonneg (concat (map frame ms))). lia.
Qed.

(* (T4) general form: END_STREAM after ANY prefix of the stream *)
Lemma run_any_truncation ms pre suf ops k st' rs :
  Forall (fun m => zlen m < max_len) ms ->
  pre ++ suf = concat (map frame ms) ->
  wf_ops false ops -> concat (payloads ops) = pre -> ended ops = true ->
  (length ms < k)%nat ->
  run (ops ++ repeat ORecv k) rstate_init = (st', rs) ->
  exists ms1 ms2 t, ms = ms1 ++ ms2 /\ rs = map RMsg ms1 ++ [t] /\
    ((t = REos /\ pre = concat (map frame ms1)) \/
     (t = RFail EAssert /\ pre <> concat (map frame ms1))) /\
    (suf = [] -> t = REos /\ ms2 = []).
Proof.
  intros Hms E Hw Hp He Hk H.
  destruct (cut_anywhere ms pre suf Hms E) as (ms1 & ms2 & tail & -> & Hpre & Ht & Hsuf).
  apply Forall_app in Hms. destruct Hms as [Hms1 _].
  assert (Hk1 : (length ms1 < k)%nat) by (rewrite app_length in Hk; lia).
  rewrite Hpre in Hp.
  pose proof (run_complete ms1 tail ops k st' rs Hms1 Ht Hw Hp He Hk1 H) as ->.
  exists ms1, ms2, (terminal tail). conj_split; easy_side.
  - destruct tail as [|b tail]; [left|right]; cbn [terminal].
    + rewrite app_nil_r in Hpre. auto.
    + split; [reflexivity|]. rewrite Hpre. intros Hx.
      rewrite <- (app_nil_r (concat (map frame ms1))) in Hx at 2.
      apply app_inv_head in Hx. discriminate.
  - intros Hs. destruct (Hsuf Hs) as [-> ->]. auto.
Qed.

(* ------------------------------------------------------------------------------------------ *)
(** * (T5) Sender: the chunk loop of Stream.send_data *)

Definition chunk_ok (e : emitted) : Prop :=
  0 < e_window e /\
  (0 < e_maxframe e -> zlen (e_chunk e) <= e_window e /\ zlen (e_chunk e) <= e_maxframe e).

Definition unsent (r : option bytes) : bytes := match r with None => [] | Some rest => rest end.

Lemma send_loop_spec obs : forall data cs r,
  send_loop obs data = (cs, r) ->
  concat (map e_chunk cs) ++ unsent r = data /\
  Forall chunk_ok cs /\
  (data <> [] -> Forall (fun e => 0 < e_maxframe e -> e_chunk e <> []) cs).
Proof.
  induction obs as [|[w mf] obs IH]; intros data cs r H; cbn [send_loop] in H.
  - inversion H; subst. cbn. auto.
  - destruct (0 <? w) eqn:Ew; [|apply IH; assumption].
    pose proof (zlen_nonneg data) as Hn.
    set (k := Z.min (Z.min w mf) (zlen data)) in *.
    destruct (k <? 0) eqn:Ek.
    + (* BytesIO.read(negative) returns everything *)
      inversion H; subst. cbn [map concat e_chunk unsent]. rewrite !app_nil_r.
      split; [reflexivity|]. split.
      * constructor; [|constructor]. split; cbn [e_window e_maxframe e_chunk]; lia.
      * intros Hd. constructor; [|constructor]. intros _. assumption.
    + assert (Hk : 0 <= k <= zlen data) by lia.
      assert (Hck : chunk_ok (mk_emitted (firstn (Z.to_nat k) data) w mf)).
      { split; cbn [e_window e_maxframe e_chunk]; [lia|]. intros Hmf.
        rewrite zlen_firstn by lia. lia. }
      assert (Hne : data <> [] -> 0 < mf -> firstn (Z.to_nat k) data <> []).
      { intros Hd Hmf Hf. pose proof (zlen_pos_of_nonnil data Hd).
        pose proof (zlen_firstn k data Hk) as Hl. rewrite Hf, zlen_nil in Hl. lia. }
      destruct (skipn (Z.to_nat k) data) as [|b rest] eqn:Es.
      * inversion H; subst. cbn [map concat e_chunk unsent]. rewrite !app_nil_r.
        split; [|split].
        -- rewrite <- (firstn_skipn (Z.to_nat k) data) at 2. rewrite Es, app_nil_r. reflexivity.
        -- constructor; [assumption|constructor].
        -- intros Hd. constructor; [|constructor]. cbn [e_maxframe e_chunk]. auto.
      * destruct (send_loop obs (b :: rest)) as [cs' r'] eqn:El. inversion H; subst.
        destruct (IH _ _ _ El) as (H1 & H2 & H3).
        cbn [map concat e_chunk]. split; [|split].
        -- rewrite <- app_assoc, H1, <- Es. apply firstn_skipn.
        -- constructor; assumption.
        -- intros Hd. constructor; [cbn [e_maxframe e_chunk]; auto|]. apply H3. discriminate.
Qed.

Definition positive_obs (obs : list (Z * Z)) : nat :=
  length (filter (fun o => 0 <? fst o) obs).

(* termination: every iteration that sees credit sends at least one byte *)
Lemma send_loop_terminates obs : forall data,
  Forall (fun o => 0 < snd o) obs ->
  (Nat.max 1 (length data) <= positive_obs obs)%nat ->
  snd (send_loop obs data) = None.
Proof.
  induction obs as [|[w mf] obs IH]; intros data Hmf Hc.
  - unfold positive_obs in Hc. cbn [filter length] in Hc. lia.
  - inversion Hmf as [|? ? Hmf1 Hmf']; subst. cbn [snd] in Hmf1.
    cbn [send_loop]. unfold positive_obs in Hc. cbn [filter fst] in Hc.
    destruct (0 <? w) eqn:Ew.
    2:{ apply IH; assumption. }
    cbn [length] in Hc.
    pose proof (zlen_nonneg data) as Hn.
    set (k := Z.min (Z.min w mf) (zlen data)) in *.
    replace (k <? 0) with false by lia.
    destruct (skipn (Z.to_nat k) data) as [|b rest] eqn:Es; [reflexivity|].
    destruct (send_loop obs (b :: rest)) as [cs' r'] eqn:El. cbn [snd].
    change r' with (snd (cs', r')). rewrite <- El. apply IH; [assumption|].
    assert (Hl : length (skipn (Z.to_nat k) data) = (length data - Z.to_nat k)%nat)
      by apply skipn_length.
    rewrite Es in Hl. cbn [length] in Hl.
    assert (1 <= k) by (unfold zlen in *; cbn [length] in *; lia).
    unfold positive_obs. cbn [length]. lia.
Qed.

(* the loop on lengths only is the loop on bytes *)
Lemma send_sizes_spec obs : forall data,
  map (fun e => zlen (e_chunk e)) (fst (send_loop obs data)) = fst (send_sizes obs (zlen data)) /\
  option_map (@zlen Z) (snd (send_loop obs data)) = snd (send_sizes obs (zlen data)).
Proof.
  induction obs as [|[w mf] obs IH]; intros data; cbn [send_loop send_sizes].
  - cbn. auto.
  - destruct (0 <? w) eqn:Ew; [|apply IH].
    pose proof (zlen_nonneg data) as Hn.
    set (k := Z.min (Z.min w mf) (zlen data)) in *.
    destruct (k <? 0) eqn:Ek.
    + replace (zlen data - zlen data =? 0) with true by lia. cbn. auto.
    + assert (Hk : 0 <= k <= zlen data) by lia.
      pose proof (zlen_skipn k data Hk) as Hs.
      destruct (skipn (Z.to_nat k) data) as [|b rest] eqn:Es.
      * rewrite zlen_nil in Hs. replace (zlen data - k =? 0) with true by lia.
        cbn. rewrite zlen_firstn by lia. auto.
      * assert (0 < zlen (b :: rest)) by (apply zlen_pos_of_nonnil; discriminate).
        replace (zlen data - k =? 0) with false by lia.
        rewrite <- Hs. specialize (IH (b :: rest)).
        destruct (send_loop obs (b :: rest)) as [cs' r'].
        destruct (send_sizes obs (zlen (b :: rest))) as [cs2 r2].
        cbn [fst snd map e_chunk] in *. destruct IH as [IH1 IH2].
        rewrite zlen_firstn by lia. rewrite IH1, IH2. auto.
Qed.

(* ------------------------------------------------------------------------------------------ *)
(** * (T6) End to end: sender chunking composed with the receiver *)

Inductive all_sent : list (list (Z * Z)) -> list bytes -> Prop :=
| AS_nil : all_sent [] []
| AS_cons obs obss m ms :
    snd (send_loop obs (frame m)) = None -> all_sent obss ms -> all_sent (obs :: obss) (m :: ms).

Lemma send_all_concat obss ms :
  all_sent obss ms -> concat (send_all obss ms) = concat (map frame ms).
Proof.
  induction 1 as [|obs obss m ms Hs Ha IH]; [reflexivity|].
  cbn [send_all map concat]. rewrite concat_app, IH. f_equal.
  destruct (send_loop obs (frame m)) as [cs r] eqn:E. cbn [snd fst] in *. subst r.
  destruct (send_loop_spec _ _ _ _ E) as (H1 & _). cbn [unsent] in H1.
  rewrite app_nil_r in H1. rewrite <- H1. rewrite <- map_map with (f := e_chunk) (g := fun x => x).
  rewrite map_id. reflexivity.
Qed.

Lemma end_to_end ms obss ops k st' rs :
  Forall (fun m => zlen m < max_len) ms ->
  all_sent obss ms ->
  wf_ops false ops ->
  concat (payloads ops) = concat (send_all obss ms) ->
  ended ops = true -> (length ms < k)%nat ->
  run (ops ++ repeat ORecv k) rstate_init = (st', rs) ->
  rs = map RMsg ms ++ [REos].
Proof.
  intros Hms Ha Hw Hp He Hk H.
  rewrite (send_all_concat _ _ Ha) in Hp.
  rewrite <- (app_nil_r (concat (map frame ms))) in Hp.
  apply (run_complete ms [] ops k st' rs Hms (or_introl eq_refl) Hw Hp He Hk H).
Qed.

(* ------------------------------------------------------------------------------------------ *)
(** * Statements in the form used by Props/C01.v *)

Definition sizes_ok (ms : list bytes) : Prop := Forall (fun m => zlen m < max_len) ms.

(* a non-empty proper prefix of the frame of some message: "the stream ends inside a message" *)
Definition inside_a_frame (p : bytes) : Prop :=
  exists m' rest, zlen m' < max_len /\ p <> [] /\ rest <> [] /\ p ++ rest = frame m'.

Lemma send_frame_domain m :
  (zlen m < max_len -> send_frame m = Some (frame m)) /\
  (max_len <= zlen m -> send_frame m = None).
Proof. split; [apply send_frame_ok|apply send_frame_too_long]. Qed.

Lemma in_order_prefix ms ops rest st' rs :
  sizes_ok ms -> wf_ops false ops ->
  concat (payloads ops) ++ rest = concat (map frame ms) ->
  (ended ops = true -> rest = []) ->
  run ops rstate_init = (st', rs) ->
  exists k, rs = firstn k (map RMsg ms ++ [REos]).
Proof.
  intros Hms Hw Hs He H.
  apply (run_prefix ms [] ops rest st' rs Hms (or_introl eq_refl) Hw); try assumption.
  rewrite app_nil_r. assumption.
Qed.

Lemma in_order_complete ms ops k st' rs :
  sizes_ok ms -> wf_ops false ops ->
  concat (payloads ops) = concat (map frame ms) ->
  ended ops = true -> (length ms < k)%nat ->
  run (ops ++ repeat ORecv k) rstate_init = (st', rs) ->
  rs = map RMsg ms ++ [REos].
Proof.
  intros Hms Hw Hs He Hk H.
  apply (run_complete ms [] ops k st' rs Hms (or_introl eq_refl) Hw); try assumption.
  rewrite app_nil_r. assumption.
Qed.

Lemma inside_trunc p : inside_a_frame p -> trunc_tail p /\ terminal p = RFail EAssert.
Proof.
  intros (m' & rest & H1 & H2 & H3 & H4). split.
  - right. exists m', rest. auto.
  - apply terminal_nonnil. assumption.
Qed.

Lemma truncation_prefix ms p ops rest st' rs :
  sizes_ok ms -> inside_a_frame p -> wf_ops false ops ->
  concat (payloads ops) ++ rest = concat (map frame ms) ++ p ->
  (ended ops = true -> rest = []) ->
  run ops rstate_init = (st', rs) ->
  exists k, rs = firstn k (map RMsg ms ++ [RFail EAssert]).
Proof.
  intros Hms Hp Hw Hs He H. destruct (inside_trunc p Hp) as [Ht <-].
  eapply run_prefix; eassumption.
Qed.

Lemma truncation_complete ms p ops k st' rs :
  sizes_ok ms -> inside_a_frame p -> wf_ops false ops ->
  concat (payloads ops) = concat (map frame ms) ++ p ->
  ended ops = true -> (length ms < k)%nat ->
  run (ops ++ repeat ORecv k) rstate_init = (st', rs) ->
  rs = map RMsg ms ++ [RFail EAssert].
Proof.
  intros Hms Hp Hw Hs He Hk H. destruct (inside_trunc p Hp) as [Ht <-].
  eapply run_complete; eassumption.
Qed.

Lemma no_fabrication ms p ops rest st' rs m :
  sizes_ok ms -> (p = [] \/ inside_a_frame p) -> wf_ops false ops ->
  concat (payloads ops) ++ rest = concat (map frame ms) ++ p ->
  (ended ops = true -> rest = []) ->
  run ops rstate_init = (st', rs) ->
  In (RMsg m) rs -> In m ms.
Proof.
  intros Hms Hp Hw Hs He H Hin.
  assert (Ht : trunc_tail p).
  { destruct Hp as [->|Hp]; [left; reflexivity|apply inside_trunc; assumption]. }
  eapply run_no_fabrication; eassumption.
Qed.

(* the legal histories keep the Buffer inside its invariant and the concrete machine equal to the
   byte-queue machine; the IndexError branch of the chunk loop is never taken *)
Lemma history_refines ops st' rs :
  wf_ops false ops -> run ops rstate_init = (st', rs) ->
  inv (r_buf st') /\ arun ops (absr rstate_init) = (absr st', rs) /\ ~ In (RFail EIndex) rs.
Proof.
  intros Hw H. destruct (run_sim _ _ _ _ rinv_init Hw H) as ([Hi _] & Ha & Hn). auto.
Qed.

(* struct.error cannot come out of recv_message either: read(5) returns 0 or 5 bytes *)
Lemma aread_length n q c q' b :
  0 <= n -> aread n q c = (q', RBytes b) -> b = [] \/ zlen b = n.
Proof.
  intros Hn H. unfold aread in H.
  replace (n <? 0) with false in H by lia.
  destruct (n =? 0); [inversion H; auto|].
  destruct (n <=? zlen q) eqn:E.
  - inversion H; subst. right. apply zlen_firstn. lia.
  - destruct c; [|discriminate]. destruct (zlen q =? 0); inversion H; auto.
Qed.

Lemma aread_err n q c q' e : aread n q c = (q', RErr e) -> e = EAssert.
Proof.
  unfold aread. intros H.
  destruct (n <? 0); [inversion H; reflexivity|].
  destruct (n =? 0); [discriminate|].
  destruct (n <=? zlen q); [discriminate|].
  destruct c; [|discriminate]. destruct (zlen q =? 0); inversion H; reflexivity.
Qed.

Lemma arecv_body_no_struct len q c q' ph' :
  arecv_body len (aread len q c) <> (q', ph', Some (RFail EStruct)).
Proof.
  destruct (aread len q c) as [q1 [b| |e]] eqn:E; cbn [arecv_body]; try discriminate.
  - unfold body_done. destruct (zlen b =? len); discriminate.
  - rewrite (aread_err _ _ _ _ _ E). discriminate.
Qed.

Lemma arecv_no_struct ph q c q' ph' :
  arecv ph q c <> (q', ph', Some (RFail EStruct)).
Proof.
  assert (Hm : arecv_meta c (aread 5 q c) <> (q', ph', Some (RFail EStruct))).
  { destruct (aread 5 q c) as [q1 [b| |e]] eqn:E; cbn [arecv_meta]; try discriminate.
    - destruct b as [|flag lenb]; [discriminate|].
      destruct (negb (flag =? 0)); [discriminate|].
      destruct (aread_length 5 _ _ _ _ ltac:(lia) E) as [Hb|Hb]; [discriminate|].
      destruct lenb as [|b3 [|b2 [|b1 [|b0 [|x lenb]]]]];
        try (exfalso; unfold zlen in Hb; cbn [length] in Hb; lia).
      cbn [be32_decode]. apply arecv_body_no_struct.
    - rewrite (aread_err _ _ _ _ _ E). discriminate. }
  destruct ph; cbn [arecv]; try assumption. apply arecv_body_no_struct.
Qed.

Lemma arun_no_struct ops : forall a a' rs, arun ops a = (a', rs) -> ~ In (RFail EStruct) rs.
Proof.
  induction ops as [|o ops IH]; intros a a' rs H; cbn [arun] in H.
  - inversion H; subst. intros [].
  - destruct (astep o a) as [a1 r1] eqn:E1. destruct (arun ops a1) as [a2 r2] eqn:E2.
    inversion H; subst. intros Hin. apply in_app_or in Hin. destruct Hin as [Hin|Hin].
    + destruct o; cbn [astep] in E1; try (inversion E1; subst; destruct Hin).
      destruct (a_done a); [inversion E1; subst; destruct Hin|].
      destruct (arecv (a_phase a) (a_q a) (a_closed a)) as [[q1 ph1] res1] eqn:Er.
      destruct res1 as [[m| |e| ]|]; inversion E1; subst; cbn [In] in Hin;
        try contradiction; (destruct Hin as [Hin|[]]; try discriminate).
      inversion Hin; subst. apply (arecv_no_struct _ _ _ _ _ Er).
    + apply (IH _ _ _ E2 Hin).
Qed.

(* the legal histories keep the Buffer inside its invariant and the concrete machine equal to the
   byte-queue machine; the IndexError / struct.error branches of the model are never taken *)
Lemma history_refines_total ops st' rs :
  wf_ops false ops -> run ops rstate_init = (st', rs) ->
  inv (r_buf st') /\ arun ops (absr rstate_init) = (absr st', rs) /\
  ~ In (RFail EIndex) rs /\ ~ In (RFail EStruct) rs.
Proof.
  intros Hw H. destruct (history_refines _ _ _ Hw H) as (Hi & Ha & Hn).
  conj_split; easy_side. apply (arun_no_struct _ _ _ _ Ha).
Qed.

(* end of stream is sticky: once returned it is returned again by every further call *)
Lemma eos_sticky s :
  inv s -> eof_flag s = true -> abs_q s = [] ->
  exists s' cr, recv_step PIdle s = (s', PIdle, Some REos, cr) /\
                inv s' /\ eof_flag s' = true /\ abs_q s' = [].
Proof.
  intros Hi He Hq.
  destruct (recv_step PIdle s) as [[[s' ph'] res] cr] eqn:Er.
  destruct (recv_step_refines PIdle _ _ _ _ _ Hi I Er) as (A & B & C & D & E).
  rewrite Hq, He in D. cbn in D. inversion D; subst.
  exists s', cr. rewrite C. auto.
Qed.

(* ------------------------------------------------------------------------------------------ *)
(** * A boundary of the property: recv_message called again AFTER it raised on a truncated stream

   Full-strength statement (FALSE for the code as it is):
     for every legal history whose stream is complete frames ms followed by a truncated frame,
     every message returned by ANY sequence of recv_message calls -- including calls made after an
     earlier call raised -- is one of ms.
   The error is not sticky: Buffer.read leaves the bytes of the truncated body in the deque, and the
   next recv_message parses them as a fresh 5-byte prefix.  What holds (truncation_prefix /
   truncation_complete / no_fabrication above) is the statement for a consumer that stops at the
   first exception. *)
Definition fab_msg : bytes := [0; 0; 0; 0; 2; 7; 7; 8; 8; 8].
Definition fab_ops : list op := [OAdd (firstn 12 (frame fab_msg)) 12; OEof; ORecv; ORecv].

Lemma read_after_error_refuted :
  exists ms p ops m,
    sizes_ok ms /\ inside_a_frame p /\ wf_ops false ops /\
    concat (payloads ops) = concat (map frame ms) ++ p /\ ended ops = true /\
    snd (run_raw ops rstate_init) = [RFail EAssert; RMsg m] /\ ~ In m ms.
Proof.
  exists [], (firstn 12 (frame fab_msg)), fab_ops, [7; 7].
  split; [constructor|]. split.
  { exists fab_msg, [8; 8; 8]. split; [reflexivity|]. split; [discriminate|].
    split; [discriminate|]. reflexivity. }
  split. { cbn. split; [reflexivity|]. split; [discriminate|]. split; [reflexivity|exact I]. }
  split; [reflexivity|]. split; [reflexivity|]. split; [vm_compute; reflexivity|intros []].
Qed.
