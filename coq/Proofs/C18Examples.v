(* Non-vacuity examples for C18: the hypotheses of the theorems are satisfiable by concrete,
   non-trivial listener lists on the real event classes, and the model computes on them what the
   property says.  Everything here is decided by vm_compute. *)
From Coq Require Import String ZArith List Bool.
From GV Require Import Lib.Str Gen.Facts Gen.FactsC18 Model.Events.
Import ListNotations.
Open Scope Z_scope.

(* the RecvRequest hook of the server as the source defines it *)
Definition ex_hook : hook :=
  match find_hook (side_hooks Server) (s2z "recv_request") with
  | Some h => h
  | None => {| h_cls := []; h_meth := []; h_event := []; h_pos := []; h_kw := []; h_ctor := [] |}
  end.

Example ex_hook_found : In ex_hook (side_hooks Server) /\ h_event ex_hook = s2z "RecvRequest".
Proof. vm_compute. split; [tauto|reflexivity]. Qed.

(* dispatch.recv_request(md, func, method_name=.., deadline=.., content_type=.., user_agent=.., peer=..)
   as request_handler calls it: metadata = [1;2], method_func = [7] *)
Definition ex_pos : list value := [[1; 2]; [7]].
Definition ex_kw : list (name * value) :=
  [ (s2z "method_name", [100]); (s2z "deadline", []); (s2z "content_type", [101]);
    (s2z "user_agent", [102]); (s2z "peer", [103]) ].

Example ex_good_call : good_call ex_hook ex_pos ex_kw = true.
Proof. vm_compute; reflexivity. Qed.

(* five listeners: #10 appends to the metadata; #11 replaces the handler, tries (guarded) to assign
   the read-only method_name and an attribute that does not exist; #12 overwrites the metadata,
   appends to it and interrupts; #13 and #14 would change both fields again *)
Definition ex_listeners : list listener :=
  [ {| l_id := 10; l_acts := [AApp (s2z "metadata") [3] false] |};
    {| l_id := 11; l_acts := [ASet (s2z "method_func") [8] false;
                              ASet (s2z "method_name") [9] true;
                              ASet (s2z "nope") [9] true] |};
    {| l_id := 12; l_acts := [ASet (s2z "metadata") [4] false; AApp (s2z "metadata") [5] true;
                              AInterrupt] |};
    {| l_id := 13; l_acts := [ASet (s2z "metadata") [6] false] |};
    {| l_id := 14; l_acts := [ASet (s2z "method_func") [66] false; AInterrupt] |} ].

Definition ex_regs : list (name * listener) :=
  map (fun l => (s2z "RecvRequest", l)) ex_listeners
  ++ [ (s2z "SendRequest", {| l_id := 99; l_acts := [] |}) ].     (* not a server event: KeyError *)

Definition ex_obj : dobj := register (obj_for Server) ex_regs.

(* listeners 10, 11, 12 run, in that order, once; 12 interrupts; the handler and the metadata that
   the server uses next are what they left; the two refused assignments are reported *)
Example ex_call :
  call_hook ex_obj (s2z "recv_request") ex_pos ex_kw
  = HRes {| d_log := [10; 11; 12]; d_errs := [(11, 1); (11, 2)]; d_out := inl [[4; 5]; [8]] |}.
Proof. vm_compute; reflexivity. Qed.

(* the foreign registration was refused and changed nothing; other hooks of the same object still
   take the identity shadow; a second object sees none of the listeners *)
Example ex_foreign_refused :
  add_listener (obj_for Server) (s2z "SendRequest") {| l_id := 99; l_acts := [] |} = None.
Proof. vm_compute; reflexivity. Qed.

Example ex_other_hook_fast :
  mem_str (s2z "send_message") (do_fast ex_obj) = true
  /\ mem_str (s2z "recv_request") (do_fast ex_obj) = false
  /\ call_hook ex_obj (s2z "send_message") [[42]] [] = HRes {| d_log := []; d_errs := []; d_out := inl [[42]] |}.
Proof. vm_compute. repeat split; reflexivity. Qed.

Example ex_second_object_untouched :
  call_hook (obj_for Server) (s2z "recv_request") ex_pos ex_kw
  = HRes {| d_log := []; d_errs := []; d_out := inl ex_pos |}.
Proof. vm_compute; reflexivity. Qed.

(* the event the slow path builds satisfies the hypotheses of the dispatch theorems *)
Definition ex_event : event :=
  match bind_args ex_hook ex_pos ex_kw with
  | Some env => match mk_event ex_hook env with
                | Some ev => ev
                | None => {| ev_cls := mk_eclass ([], [], []); ev_vals := []; ev_int := true |}
                end
  | None => {| ev_cls := mk_eclass ([], [], []); ev_vals := []; ev_int := true |}
  end.

Example ex_event_hyps :
  wf_event ex_event = true /\ ev_int ex_event = false /\ class_ok (ev_cls ex_event) = true
  /\ ec_name (ev_cls ex_event) = s2z "RecvRequest".
Proof. vm_compute. repeat split; reflexivity. Qed.

Example ex_stops :
  map (l_stops (ev_cls ex_event)) ex_listeners = [false; false; true; false; true]
  /\ map l_id (upto (l_stops (ev_cls ex_event)) ex_listeners) = [10; 11; 12]
  /\ first_raise (ev_cls ex_event) ex_listeners = None.
Proof. vm_compute. repeat split; reflexivity. Qed.

(* an unguarded assignment of a read-only field escapes: the listener after it does not run, the
   hook raises AttributeError instead of returning *)
Definition ex_raising : list listener :=
  [ {| l_id := 1; l_acts := [AApp (s2z "metadata") [3] false] |};
    {| l_id := 2; l_acts := [ASet (s2z "peer") [1] false; ASet (s2z "metadata") [9] false] |};
    {| l_id := 3; l_acts := [] |} ].

Example ex_raise :
  dispatch ex_raising ex_event = {| d_log := [1; 2]; d_errs := []; d_out := inr XAttr |}
  /\ l_raises (ev_cls ex_event) (nth 1 ex_raising {| l_id := 0; l_acts := [] |}) = Some XAttr.
Proof. vm_compute. split; reflexivity. Qed.

(* plain listeners (interrupt / payload assignments only) and inert ones *)
Definition ex_plain : list listener :=
  [ {| l_id := 1; l_acts := [ASet (s2z "metadata") [1] false] |};
    {| l_id := 2; l_acts := [ASet (s2z "metadata") [2] false; AInterrupt;
                             ASet (s2z "method_func") [5] false] |};
    {| l_id := 3; l_acts := [ASet (s2z "metadata") [3] false] |} ].

Example ex_plain_hyp :
  forallb (plain (ev_cls ex_event)) ex_plain = true
  /\ no_app (acts_of (upto calls_interrupt ex_plain)) = true
  /\ d_out (dispatch ex_plain ex_event) = inl [[2]; [5]]
  /\ last_set (s2z "metadata") (acts_of (upto calls_interrupt ex_plain)) = Some [2].
Proof. vm_compute. repeat split; reflexivity. Qed.

Definition ex_inert : list listener :=
  [ {| l_id := 1; l_acts := [] |};
    {| l_id := 2; l_acts := [ASet (s2z "peer") [1] true; AApp (s2z "deadline") [2] true;
                             ASet (s2z "whatever") [3] true] |} ].

Example ex_inert_hyp :
  forallb (inert (ev_cls ex_event)) ex_inert = true
  /\ dispatch ex_inert ex_event
     = {| d_log := [1; 2]; d_errs := [(2, 0); (2, 1); (2, 2)]; d_out := inl ex_pos |}.
Proof. vm_compute. split; reflexivity. Qed.

(* __interrupted__ is not read-only: assigning it through __setattr__ sets / clears the flag *)
Example ex_flag :
  d_log (dispatch [ {| l_id := 1; l_acts := [AInterrupt; ASet (s2z "__interrupted__") [] false] |};
                    {| l_id := 2; l_acts := [ASet (s2z "__interrupted__") [1] false] |};
                    {| l_id := 3; l_acts := [] |} ] ex_event) = [1; 2].
Proof. vm_compute; reflexivity. Qed.

(* a non-payload field and a payload field of a client event *)
Example ex_readonly_field :
  option_map (fun c => (field_kind c (s2z "deadline"), field_kind c (s2z "metadata"),
                        field_kind c (s2z "__interrupted__"), field_kind c (s2z "x")))
             (find_class (s2z "SendRequest"))
  = Some (FReadOnly, FSlot, FFlag, FNone).
Proof. vm_compute; reflexivity. Qed.

(* the use-site table is not empty and names every hook *)
Example ex_sites : Nat.leb 10 (length hook_sites) = true /\ sites_all_ok = true.
Proof. vm_compute. split; reflexivity. Qed.
