(* C04 -- non-vacuity examples (all by vm_compute on the GENERATED client operations). *)
From Coq Require Import List Bool Arith ZArith.
From GV Require Import Model.StreamIR Model.StreamSem Model.GuardKernel Model.Termination
  Gen.StreamOps Proofs.C04Proofs.
Import ListNotations.

Definition mk o r e d dl stt v : cell :=
  {| c_op := o; c_reason := r; c_event := e; c_during := d; c_deadline := dl; c_status := stt;
     c_variant := v |}.

Definition path_of (o : cop) (c : cell) (fl : flags) : path :=
  match op_program client_ops o with
  | Some prog => match trace TRACE_FUEL client_ops (cell_cx c false false) 0 prog fl false with
                 | Some r => t_path r | None => [] end
  | None => []
  end.

Definition flags_after (o : cop) (c : cell) (fl : flags) : flags :=
  match op_program client_ops o with
  | Some prog => match trace TRACE_FUEL client_ops (cell_cx c false false) 0 prog fl false with
                 | Some r => t_fl r | None => fl end
  | None => fl
  end.

(* a history satisfying the hypotheses of registered_client_call_ops_complete: send_request runs to
   completion (the call is registered), send_message blocks for flow-control credit, recv_message
   blocks for the peer, the connection is lost, the two are rescheduled, then cancel() is started *)
Definition c0 : cell := mk KSm RWindow VLost true false StNone VaBase.
Definition fl1 : flags := flags_after KSr c0 no_flags.
Definition p_sr : path := path_of KSr c0 no_flags.
Definition p_sm : path := path_of KSm c0 fl1.
Definition p_rm : path := path_of KRm c0 fl1.
Definition p_ca : path := path_of KCa c0 fl1.

Definition history : list slabel :=
  [LNewCall false;
   LK 0 (Spawn p_sr); LK 0 (Run 0 (all_go p_sr));
   LK 0 (Spawn p_sm); LK 0 (Run 1 (decisions c0 p_sm));
   LK 0 (Spawn p_rm); LK 0 (Run 2 (decisions c0 p_rm));
   LConn CLost;
   LK 0 (Run 2 []); LK 0 (Run 1 []);
   LK 0 (Spawn p_ca); LK 0 (Run 3 (decisions c0 p_ca))].

Example history_ok : Forall (slabel_ok client_ops) history.
Proof.
  unfold history.
  repeat (constructor; [first [exact I | apply in_paths_In; vm_compute; reflexivity]|]).
  constructor.
Qed.

Example history_before_event :
  match nth_error (srun (firstn 7 history) []) 0 with
  | Some cl => (registered cl, map st (tasks (ck cl)), members (ck cl))
  | None => (false, [], [])
  end = (true, [Done RNormal; Blocked; Blocked], [2; 1]).
Proof. vm_compute. reflexivity. Qed.

Example history_result :
  match nth_error (srun history []) 0 with
  | Some cl => (hit cl, quiescent (ck cl), map (fun tk => (st tk, mark tk)) (tasks (ck cl)),
                members (ck cl))
  | None => (false, false, [], [])
  end = (true, true,
         [(Done RNormal, MBefore);
          (Done (RRaise (XWrap ETerminated)), MAtCancel);
          (Done (RRaise (XWrap ETerminated)), MAtCancel);
          (Done (RRaise (XWrap ETerminated)), MAfter)], []).
Proof. vm_compute. reflexivity. Qed.

Example ca_reaches_guard : first_enter p_ca = true.
Proof. vm_compute. reflexivity. Qed.

(* the regression input of the repaired defect D5: end() on a paused transport, then connection_lost *)
Example d5_end_paused_lost :
  let p := predict client_ops (mk KEn RPaused VLost true false StNone VaBase) in
  (p_setup p, p_blocked p, p_registered p, p_op p, p_ctx p)
  = (SOk, Some (SPrim PEnd), true, OTerminated, OTerminated).
Proof. vm_compute. reflexivity. Qed.

(* D6 through the two blocking reasons, and through send_message's implicit send_request *)
Example d6_write_ready :
  let p := predict client_ops (mk KSr RPaused VGoaway true false StNone VaBase) in
  (p_setup p, p_registered p, p_werr p, p_op p, p_late p) = (SOk, false, OOk, OPending, OPending).
Proof. vm_compute. reflexivity. Qed.

Example d6_stream_slot_deadline :
  let p := predict client_ops (mk KSr RSlot VClose true true StNone VaBase) in
  (p_setup p, p_registered p, p_werr p, p_op p, p_late p) = (SOk, false, OOk, OPending, OTimeout).
Proof. vm_compute. reflexivity. Qed.

Example d6_implicit :
  let p := predict client_ops (mk KSm RSlot VLost true false StNone VaImplicit) in
  (p_setup p, p_registered p, p_op p, d6_class (mk KSm RSlot VLost true false StNone VaImplicit) p)
  = (SOk, false, OPending, true).
Proof. vm_compute. reflexivity. Qed.

(* error upgrade: trailers with NOT_FOUND had arrived, then RST_STREAM: the blocked send_message gets
   StreamTerminatedError, the call gets GRPCError(5); nothing had arrived: StreamTerminatedError *)
Example upgrade_with_status :
  let p := predict client_ops (mk KSm RWindow VRst true false (StTrailers 5) VaBase) in
  (p_op p, p_ctx p) = (OTerminated, OGrpc 5).
Proof. vm_compute. reflexivity. Qed.

Example no_upgrade_without_status :
  let p := predict client_ops (mk KSm RWindow VRst true false StNone VaBase) in
  (p_op p, p_ctx p) = (OTerminated, OTerminated).
Proof. vm_compute. reflexivity. Qed.

Example upgrade_http_status :
  maybe_raise (Some {| h_ok := false; h_mapped := 14; h_gs := GMissing |}) None = Some 14%Z.
Proof. reflexivity. Qed.

Example ok_trailers_do_not_upgrade :
  aexit_outcome OTerminated (Some {| h_ok := true; h_mapped := 0; h_gs := GMissing |}) (Some (GCode 0))
  = OTerminated.
Proof. reflexivity. Qed.

(* context exit: blocked in the implicit finish when GOAWAY arrives; started after a reset *)
Example context_exit_blocked :
  let p := predict client_ops (mk KAx RSilent VGoaway true false StNone VaBase) in
  (p_blocked p, p_op p) = (Some (SPrim PRecvHeaders), OTerminated).
Proof. vm_compute. reflexivity. Qed.

Example context_exit_after_reset_with_status :
  let p := predict client_ops (mk KAx RSilent VRst false false StH503 VaBase) in
  p_ctx p = OGrpc 14.
Proof. vm_compute. reflexivity. Qed.

(* the number of syntactic paths the theorems range over *)
Example path_count : 80 <=? length (call_paths client_ops) = true.
Proof. vm_compute. reflexivity. Qed.
