(* Non-vacuity examples for C12: concrete non-trivial histories satisfy the hypotheses of the
   totality theorems and end in the states the real code ends in; tolerated events leave a state
   with live calls unchanged; a violation shuts everything down.  Decided by vm_compute. *)
From Coq Require Import String ZArith List Bool.
From GV Require Import Lib.Str Gen.Facts Model.Dispatch Proofs.C12Proofs.
Import ListNotations.
Open Scope Z_scope.

(* ---- a server connection: settings, two requests, data, an unknown frame, ALTSVC, PING, a reset
   of stream 3 followed by late DATA for it, handlers finishing, DATA for the finished stream 1
   (credit returned), two GOAWAYs in one batch, a private h2 event, and input after the close *)
Definition ex_server_history : list input :=
  [ IData (H2Events [RemoteSettingsChanged true true; RequestReceived 1; DataReceived 1 5 5;
                     UnknownFrameReceived 11 0; StreamEnded 1]);
    ISetWrapper 1;
    IData (H2Events [RequestReceived 3; StreamReset 3 8 true; DataReceived 3 4 4; PingReceived;
                     AlternativeServiceAvailable; PriorityUpdated 9]);
    IFinish 3; IRead 1; IFinish 1;
    IData (H2Events [DataReceived 1 7 7; WindowUpdated 1 10; StreamReset 1 0 true; StreamEnded 3]);
    IData (H2Events [RequestReceived 5]); ISetWrapper 5;
    IData (H2Events [ConnectionTerminated 0; ConnectionTerminated 0; OtherEvent (s2z "_ResponseSent");
                     RequestReceived 7]);
    IData (H2Events [RequestReceived 9]) ].

Example ex_server_wf : forallb input_wf ex_server_history = true.
Proof. vm_compute; reflexivity. Qed.

(* the final state: closed; stream 5 (the only one still registered) terminated by the GOAWAY, its
   task cancelled and in _cancelled; credit for the late DATA on the finished stream 1;
   streams 7 and 9 never accepted *)
Example ex_server_result :
  run (init Server) ex_server_history =
  Ok (mk_state Server true true
        (mk_hstate true [mk_trec 5 true true])
        [(5, mk_srec true (Some (RGoaway 0)) false false false false false 0 false 0)]
        16 2 2 true false [(1, 7)] []).
Proof. vm_compute; reflexivity. Qed.

(* ---- a client connection with two calls: 1xx, response, padded/empty data, trailers, end; PUSH_PROMISE,
   unknown frames; a protocol violation closes it while call 3 is pending *)
Definition ex_client_history : list input :=
  [ IRegister 1; IRegister 3;
    IData (H2Events [InformationalResponseReceived 1; ResponseReceived 1; DataReceived 1 0 0;
                     DataReceived 1 10 14; PushedStreamReceived 1 2; UnknownFrameReceived 79 1]);
    IRead 1;
    IData (H2Events [TrailersReceived 1; StreamEnded 1; SettingsAcknowledged; PingAckReceived;
                     ResponseReceived 2; DataReceived 2 3 3]);
    IRelease 1;
    IData (H2Events [WindowUpdated 0 100; StreamReset 1 8 true; DataReceived 1 2 2]);
    IData (H2Events [RequestReceived 4; DataReceived 4 6 6; RequestReceived 6; StreamReset 6 8 true]);
    IData H2UnicodeDecodeError;
    IData (H2Events [ResponseReceived 3]);
    IConnLost ].

Example ex_client_wf : forallb input_wf ex_client_history = true.
Proof. vm_compute; reflexivity. Qed.

(* call 3 is still registered; it was terminated with 'Protocol error' (undecodable header block) and
   then, by the second close(), with 'Connection lost' (the last error wins); the data of the pushed
   stream 2, of the released stream 1 and of the refused stream 4 was credited back; stream 4 was
   refused with RST_STREAM, stream 6 (already reset by the peer in the same batch) without *)
Example ex_client_result :
  run (init Client) ex_client_history =
  Ok (mk_state Client true true (mk_hstate true [])
        [(3, mk_srec true (Some RConnLost) false false false false true 0 false 0)]
        21 1 2 true false [(2, 3); (1, 2); (4, 6)] [4]).
Proof. vm_compute; reflexivity. Qed.

(* ---- tolerance on a state with live calls *)
Definition ex_live_client : state :=
  mk_state Client false false (mk_hstate false [])
    [(3, mk_srec true None true false true false false 2 false 37);
     (5, mk_srec true None false false false false false 0 false 0)]
    37 4 1 false true [] [].

Definition ex_tolerated : list event :=
  [ UnknownFrameReceived 11 0; UnknownFrameReceived 255 3; AlternativeServiceAvailable;
    PriorityUpdated 3; PriorityUpdated 2147483647; PingReceived; InformationalResponseReceived 3;
    PushedStreamReceived 3 2; SettingsAcknowledged; OtherEvent (s2z "_TrailersSent") ].

Example ex_tolerated_hyp :
  forallb tolerated ex_tolerated = true /\ forallb event_wf ex_tolerated = true.
Proof. split; vm_compute; reflexivity. Qed.

Example ex_tolerated_unchanged : run_events ex_live_client ex_tolerated = Ok ex_live_client.
Proof. vm_compute; reflexivity. Qed.

(* events for the finished stream 1: nothing but statistics and the returned credit changes *)
Example ex_unregistered :
  run_events ex_live_client
    [ResponseReceived 1; DataReceived 1 9 12; TrailersReceived 1; WindowUpdated 1 5; StreamEnded 1;
     StreamReset 1 5 true] =
  Ok (mk_state Client false false (mk_hstate false [])
        [(3, mk_srec true None true false true false false 2 false 37);
         (5, mk_srec true None false false false false false 0 false 0)]
        46 5 2 false true [(1, 12)] []).
Proof. vm_compute; reflexivity. Qed.

(* ---- orderly shutdown: a protocol violation with two calls pending *)
Example ex_violation :
  data_received ex_live_client H2ProtocolError =
  Ok (mk_state Client true true (mk_hstate true [])
        [(3, mk_srec true (Some RProtocolError) true false true false false 2 false 37);
         (5, mk_srec true (Some RProtocolError) false false false false false 0 false 0)]
        37 4 1 false false [] []).
Proof. vm_compute; reflexivity. Qed.

Example ex_violation_shut :
  match data_received ex_live_client H2ProtocolError with
  | Ok s' => shut_down RProtocolError s' = true /\ st_closed ex_live_client = false
  | Raises _ => False
  end.
Proof. vm_compute; auto. Qed.

(* the server side: a handler whose stream has no wrapper yet is still cancelled by handler.close() *)
Definition ex_live_server : state :=
  mk_state Server false false
    (mk_hstate false [mk_trec 1 true false; mk_trec 3 false true; mk_trec 5 true false])
    [(1, mk_srec true None false false false false false 1 false 8);
     (3, mk_srec true (Some (RRemoteReset 8)) false false false false false 0 false 0);
     (5, fresh_srec false)]
    8 0 1 false false [] [].

Example ex_live_server_inv : inv_b ex_live_server = true.
Proof. vm_compute; reflexivity. Qed.

Example ex_server_goaway :
  run_events ex_live_server [DataReceived 1 4 4; ConnectionTerminated 2; StreamReset 3 8 true] =
  Ok (mk_state Server true true
        (mk_hstate true [mk_trec 1 true true; mk_trec 3 false true; mk_trec 5 true true])
        [(1, mk_srec true (Some (RGoaway 2)) false false false false false 2 false 12);
         (3, mk_srec true (Some (RGoaway 2)) false false false false false 0 false 0);
         (5, fresh_srec false)]
        12 0 1 false false [] []).
Proof. vm_compute; reflexivity. Qed.

(* the inputs that used to raise out of data_received on a client (D21 and its residue) now end in
   ordinary states: the stream is refused (RST_STREAM only while it is still closable) and released *)
Example ex_client_witness :
  run (init Client) client_witness =
  Ok (mk_state Client false false (mk_hstate false [])
        [(1, fresh_srec true)] 0 0 0 true false [] [2]).
Proof. vm_compute; reflexivity. Qed.
Example ex_client_witness_goaway :
  run (init Client) client_witness_goaway =
  Ok (mk_state Client true true (mk_hstate true [])
        [(1, mk_srec true (Some (RGoaway 0)) false false false false false 0 false 0)]
        0 0 0 true false [] []).
Proof. vm_compute; reflexivity. Qed.
Example ex_client_witness_reset :
  run (init Client) client_witness_reset =
  Ok (mk_state Client false false (mk_hstate false [])
        [(1, fresh_srec true)] 0 0 1 true false [] []).
Proof. vm_compute; reflexivity. Qed.
(* the same prefix behaves differently depending on what h2 has already seen of the batch *)
Example ex_lookahead :
  run_events_in [ConnectionTerminated 0] (init Client) [RequestReceived 2] <>
  run_events_in [] (init Client) [RequestReceived 2].
Proof. vm_compute. discriminate. Qed.

(* a repeated StreamReset (was a KeyError in server.Handler.cancel) is tolerated: the second one only
   terminates the wrapper again; the task row is unchanged (popped and cancelled once) *)
Example ex_server_witness :
  run (init Server) server_witness =
  Ok (mk_state Server false false (mk_hstate false [mk_trec 1 false true])
        [(1, fresh_srec false)] 0 0 2 false false [] []).
Proof. vm_compute; reflexivity. Qed.

(* a stream that ends WITHOUT trailers (DATA with END_STREAM): __ended__ queues the eof marker and
   sets trailers_received, so a call waiting for trailers wakes up (recv_trailers returns []) *)
Example ex_end_without_trailers :
  run_events ex_live_client [StreamEnded 5] =
  Ok (mk_state Client false false (mk_hstate false [])
        [(3, mk_srec true None true false true false false 2 false 37);
         (5, mk_srec true None false false false true false 1 true 0)]
        37 5 1 false true [] []).
Proof. vm_compute; reflexivity. Qed.
