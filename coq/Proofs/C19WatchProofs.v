(* Proofs for Props/C19.v, part 2: ServiceStatus.set / _reset_waits / Health.Watch.
   Invariant "a check changed since this watcher last read it -> its event is set and its wait task
   is runnable or done", for every reachable state under ANY op list (all interleavings of set calls,
   new watchers, cancellations, blocked sends and the steps of the wait tasks and Watch tasks);
   termination measure for the internal steps; the FIFO scheduler is one of the schedules. *)
From Coq Require Import ZArith List Bool Lia ZifyBool Arith.
From GV Require Import Gen.FactsC19 Model.Health Proofs.C19Proofs.
Import ListNotations.
Open Scope Z_scope.

(* ------------------------------------------------------------------------------------------------ *)
(** * list helpers *)

Lemma upd_nth_length {A} k (f : A -> A) l : length (upd_nth k f l) = length l.
Proof. revert k. induction l as [|x r IH]; intros [|k]; simpl; auto. Qed.

Lemma nth_error_upd_nth {A} k (f : A -> A) l j :
  nth_error (upd_nth k f l) j =
  if Nat.eqb j k then option_map f (nth_error l j) else nth_error l j.
Proof.
  revert k j. induction l as [|x r IH]; intros k j.
  - destruct k, j; simpl; try reflexivity; destruct (Nat.eqb j k); reflexivity.
  - destruct k, j; simpl; try reflexivity. apply IH.
Qed.

Lemma Forall_upd_nth {A} (P : A -> Prop) k f l :
  Forall P l -> (forall x, P x -> P (f x)) -> Forall P (upd_nth k f l).
Proof.
  intros H Hf. revert k. induction H as [|x r Hx Hr IH]; intros [|k]; simpl; constructor; auto.
Qed.

Lemma upd_nth_id {A} k (f : A -> A) l :
  (forall x, nth_error l k = Some x -> f x = x) -> upd_nth k f l = l.
Proof.
  revert k. induction l as [|x r IH]; intros [|k] H; simpl; try reflexivity.
  - rewrite (H x eq_refl). reflexivity.
  - rewrite IH; [reflexivity|]. intros y Hy. apply H. exact Hy.
Qed.

Lemma In_upd_nth {A} k (f : A -> A) l y :
  In y (upd_nth k f l) -> In y l \/ exists x, nth_error l k = Some x /\ y = f x.
Proof.
  revert k. induction l as [|x r IH]; intros [|k] H; simpl in *; try tauto.
  - destruct H as [H|H]; [right; exists x; auto | left; auto].
  - destruct H as [H|H]; [left; auto|]. destruct (IH k H) as [H'|H']; [left; auto | right; auto].
Qed.

Lemma val_of_set_nth vals i v j :
  (i < length vals)%nat ->
  val_of (set_nth i v vals) j = if Nat.eqb j i then v else val_of vals j.
Proof.
  unfold val_of. revert i j. induction vals as [|x r IH]; intros i j Hi; simpl in Hi; [lia|].
  destruct i, j; simpl; try reflexivity. apply IH. lia.
Qed.

Lemma set_nth_length {A} k (x : A) l : length (set_nth k x l) = length l.
Proof. revert k. induction l as [|y r IH]; intros [|k]; simpl; auto. Qed.

(* ------------------------------------------------------------------------------------------------ *)
(** * the invariant *)

Definition slot_ok (vals : list st) (sl : slot) : Prop :=
  (val_of vals (sl_check sl) <> sl_seen sl -> sl_ev sl = true) /\
  (sl_wait sl = WBlocked -> sl_ev sl = false).

Definition watcher_ok (vals : list st) (w : watcher) : Prop :=
  active (w_pc w) = true ->
  Forall (slot_ok vals) (w_slots w) /\
  hd_error (w_sent w) = Some (agg_status (map sl_seen (w_slots w))) /\
  (w_pc w = PWaking -> any_done (w_slots w) = true).

Definition sys_ok (s : wsys) : Prop := Forall (watcher_ok (s_vals s)) (s_ws s).

Lemma facts_notifies : notifies = true.
Proof. reflexivity. Qed.

Lemma ev_set_check sl : sl_check (ev_set sl) = sl_check sl.
Proof. unfold ev_set. destruct (sl_ev sl); reflexivity. Qed.

Lemma ev_set_seen sl : sl_seen (ev_set sl) = sl_seen sl.
Proof. unfold ev_set. destruct (sl_ev sl); reflexivity. Qed.

Lemma ev_set_ev sl : sl_ev (ev_set sl) = true.
Proof. unfold ev_set. destruct (sl_ev sl) eqn:E; [exact E | reflexivity]. Qed.

Lemma ev_set_done sl : wait_done (sl_wait (ev_set sl)) = wait_done (sl_wait sl).
Proof. unfold ev_set. destruct (sl_ev sl); [reflexivity|]. simpl. destruct (sl_wait sl); reflexivity. Qed.

Lemma ev_set_ok vals sl :
  (sl_wait sl = WBlocked -> sl_ev sl = false) -> slot_ok vals (ev_set sl).
Proof.
  intro H. split.
  - intros _. apply ev_set_ev.
  - unfold ev_set. destruct (sl_ev sl) eqn:E.
    + intro W. specialize (H W). discriminate.
    + simpl. destruct (sl_wait sl); discriminate.
Qed.

Lemma map_seen_on_set i sls :
  map sl_seen (map (fun sl => if Nat.eqb (sl_check sl) i then ev_set sl else sl) sls) = map sl_seen sls.
Proof.
  rewrite map_map. apply map_ext. intro sl. destruct (Nat.eqb (sl_check sl) i); [apply ev_set_seen | reflexivity].
Qed.

Lemma any_done_on_set i sls :
  any_done (map (fun sl => if Nat.eqb (sl_check sl) i then ev_set sl else sl) sls) = any_done sls.
Proof.
  unfold any_done. induction sls as [|sl r IH]; [reflexivity|]. cbn [map existsb]. rewrite IH. f_equal.
  destruct (Nat.eqb (sl_check sl) i); [apply ev_set_done | reflexivity].
Qed.

(* ServiceStatus.set / a ServiceCheck result on check i *)
Lemma on_set_ok vals i v w :
  (i < length vals)%nat ->
  watcher_ok vals w ->
  watcher_ok (set_nth i v vals) (on_set i (negb (st_eqb (val_of vals i) v)) w).
Proof.
  intros Hi Hw. unfold on_set. rewrite facts_notifies, andb_true_r.
  destruct (active (w_pc w)) eqn:Ha; cbn [andb].
  - destruct (negb (st_eqb (val_of vals i) v)) eqn:Hc.
    + (* changed: the events of check i are set *)
      intros _. cbn [w_pc w_slots w_sent]. destruct (Hw Ha) as [Hs [Hh Hk]].
      split; [|split].
      * apply Forall_forall. intros sl' Hin. apply in_map_iff in Hin. destruct Hin as [sl [E Hin]].
        rewrite Forall_forall in Hs. specialize (Hs sl Hin). destruct Hs as [H1 H2].
        destruct (Nat.eqb (sl_check sl) i) eqn:Ei; subst sl'.
        -- apply ev_set_ok. exact H2.
        -- split; [|exact H2]. rewrite val_of_set_nth by exact Hi. rewrite Ei. exact H1.
      * rewrite map_seen_on_set. exact Hh.
      * intro P. rewrite any_done_on_set. apply Hk, P.
    + (* same value assigned again *)
      apply negb_false_iff, st_eqb_eq in Hc. intros _. destruct (Hw Ha) as [Hs [Hh Hk]].
      split; [|split; assumption].
      apply Forall_forall. intros sl Hin. rewrite Forall_forall in Hs. destruct (Hs sl Hin) as [H1 H2].
      split; [|exact H2]. rewrite val_of_set_nth by exact Hi.
      destruct (Nat.eqb (sl_check sl) i) eqn:Ei; [|exact H1].
      apply Nat.eqb_eq in Ei. rewrite Ei in H1. rewrite <- Hc. exact H1.
  - intro Ha'. rewrite Ha in Ha'. discriminate.
Qed.

Lemma wait_run_ok vals sl : slot_ok vals sl -> slot_ok vals (wait_run sl).
Proof.
  intros H. pose proof H as [H1 H2]. unfold wait_run. destruct (sl_wait sl) eqn:W; try exact H.
  - split; cbn [sl_check sl_seen sl_ev sl_wait]; [exact H1|].
    destruct (sl_ev sl) eqn:E; [discriminate | reflexivity].
  - split; cbn [sl_check sl_seen sl_ev sl_wait]; [exact H1 | discriminate].
Qed.

Lemma wait_run_seen sl : sl_seen (wait_run sl) = sl_seen sl.
Proof. unfold wait_run. destruct (sl_wait sl); reflexivity. Qed.

Lemma wait_run_done_mono sl : wait_done (sl_wait sl) = true -> wait_done (sl_wait (wait_run sl)) = true.
Proof. unfold wait_run. destruct (sl_wait sl) eqn:W; simpl; try discriminate; rewrite W; auto. Qed.

Lemma map_seen_upd_wait_run p sls : map sl_seen (upd_nth p wait_run sls) = map sl_seen sls.
Proof.
  revert p. induction sls as [|sl r IH]; intros [|p]; simpl; try reflexivity.
  - rewrite wait_run_seen. reflexivity.
  - rewrite IH. reflexivity.
Qed.

Lemma any_done_upd_wait_run p sls : any_done sls = true -> any_done (upd_nth p wait_run sls) = true.
Proof.
  unfold any_done. revert p. induction sls as [|sl r IH]; intros [|p] H; simpl in *; try discriminate.
  - apply orb_true_iff in H. apply orb_true_iff. destruct H as [H|H]; [left; apply wait_run_done_mono, H | right; exact H].
  - apply orb_true_iff in H. apply orb_true_iff. destruct H as [H|H]; [left; exact H | right; apply IH, H].
Qed.

Lemma facts_reset : reset_when_absent_or_done = true /\ reset_clears_then_waits = true /\ watch_first_completed = true.
Proof. repeat split. Qed.

Lemma local_step_eq vals op w :
  local_step vals op w =
  if negb (active (w_pc w)) then w else
  match op with
  | LWaitRun p => mkW (w_pc w) (w_slow w) (upd_nth p wait_run (w_slots w)) (w_sent w)
  | LCompl =>
    if pc_eqb (w_pc w) PWaiting && wait_returns (w_slots w)
    then mkW PWaking (w_slow w) (w_slots w) (w_sent w) else w
  | LRunW =>
    if pc_eqb (w_pc w) PWaking then
      let sls := map (reset_slot vals) (w_slots w) in
      mkW (if w_slow w then PSending else PWaiting) (w_slow w) sls (cur_status vals sls :: w_sent w)
    else w
  | LSendDone =>
    if pc_eqb (w_pc w) PSending then mkW PWaiting (w_slow w) (w_slots w) (w_sent w) else w
  | LSetSlow b => mkW (w_pc w) b (w_slots w) (w_sent w)
  | LCancel => mkW PEnded (w_slow w) (map cancel_slot (w_slots w)) (w_sent w)
  end.
Proof.
  unfold local_step. change watch_segment_atomic with true.
  destruct (negb (active (w_pc w))); [reflexivity|]. destruct op; try reflexivity.
  rewrite andb_true_r. reflexivity.
Qed.

Lemma reset_slot_eq vals sl :
  reset_slot vals sl =
  if wait_done (sl_wait sl) then mkSlot (sl_check sl) false WNew (val_of vals (sl_check sl))
  else mkSlot (sl_check sl) (sl_ev sl) (sl_wait sl) (val_of vals (sl_check sl)).
Proof. reflexivity. Qed.

Lemma reset_slot_ok vals sl : slot_ok vals sl -> slot_ok vals (reset_slot vals sl).
Proof.
  intros [H1 H2]. rewrite reset_slot_eq. destruct (wait_done (sl_wait sl)); split;
    cbn [sl_check sl_seen sl_ev sl_wait]; try congruence; try discriminate; exact H2.
Qed.

Lemma reset_slot_seen vals sls :
  map sl_seen (map (reset_slot vals) sls) =
  map (fun sl => val_of vals (sl_check sl)) (map (reset_slot vals) sls).
Proof.
  rewrite !map_map. apply map_ext. intro sl. rewrite reset_slot_eq.
  destruct (wait_done (sl_wait sl)); reflexivity.
Qed.

Lemma local_step_ok vals op w : watcher_ok vals w -> watcher_ok vals (local_step vals op w).
Proof.
  intro Hw. rewrite local_step_eq. destruct (active (w_pc w)) eqn:Ha; cbn [negb]; [|exact Hw].
  destruct (Hw Ha) as [Hs [Hh Hk]].
  destruct op as [p| | | |b|].
  - (* LWaitRun *) intros _. cbn [w_pc w_slots w_sent]. split; [|split].
    + apply Forall_upd_nth; [exact Hs | apply wait_run_ok].
    + rewrite map_seen_upd_wait_run. exact Hh.
    + intro P. apply any_done_upd_wait_run, Hk, P.
  - (* LCompl *) destruct (pc_eqb (w_pc w) PWaiting && wait_returns (w_slots w)) eqn:E; [|exact Hw].
    intros _. cbn [w_pc w_slots w_sent]. split; [exact Hs | split; [exact Hh|]].
    intros _. apply andb_true_iff in E. destruct E as [_ E]. exact E.
  - (* LRunW *) destruct (pc_eqb (w_pc w) PWaking) eqn:E; [|exact Hw].
    intros _. cbn [w_pc w_slots w_sent]. split; [|split].
    + apply Forall_forall. intros sl' Hin. apply in_map_iff in Hin. destruct Hin as [sl [E' Hin]]. subst sl'.
      apply reset_slot_ok. rewrite Forall_forall in Hs. apply Hs, Hin.
    + cbn [hd_error]. unfold cur_status. rewrite reset_slot_seen. reflexivity.
    + destruct (w_slow w); discriminate.
  - (* LSendDone *) destruct (pc_eqb (w_pc w) PSending) eqn:E; [|exact Hw].
    intros _. cbn [w_pc w_slots w_sent]. split; [exact Hs | split; [exact Hh | discriminate]].
  - (* LSetSlow *) intros _. cbn [w_pc w_slots w_sent]. split; [exact Hs | split; [exact Hh | exact Hk]].
  - (* LCancel *) cbn [w_pc active]. discriminate.
Qed.

Lemma new_watcher_ok reg vals name slow : watcher_ok vals (new_watcher reg vals name slow).
Proof.
  unfold new_watcher. destruct (lookup reg name) as [[|c cs]|]; try (cbn [w_pc active]; discriminate).
  intros _. cbn [w_pc w_slots w_sent]. split; [|split].
  - apply Forall_forall. intros sl Hin. apply in_map_iff in Hin. destruct Hin as [i [E _]]. subst sl.
    split; cbn [sl_check sl_seen sl_ev sl_wait]; [congruence | discriminate].
  - cbn [hd_error]. unfold cur_status. rewrite !map_map. reflexivity.
  - destruct slow; discriminate.
Qed.

Lemma wstep_ok s op : sys_ok s -> sys_ok (wstep s op).
Proof.
  intro H. unfold sys_ok in *. destruct op as [i v|name slow|k op]; cbn [wstep].
  - destruct (Nat.ltb i (length (s_vals s))) eqn:Hi; [|exact H].
    apply Nat.ltb_lt in Hi. cbn [s_vals s_ws].
    apply Forall_forall. intros w' Hin. apply in_map_iff in Hin. destruct Hin as [w [E Hin]]. subst w'.
    apply on_set_ok; [exact Hi|]. rewrite Forall_forall in H. apply H, Hin.
  - cbn [s_vals s_ws]. apply Forall_app. split; [exact H|]. constructor; [|constructor].
    apply new_watcher_ok.
  - cbn [s_vals s_ws]. apply Forall_upd_nth; [exact H|]. intros w Hw. apply local_step_ok, Hw.
Qed.

Lemma wrun_ok s ops : sys_ok s -> sys_ok (wrun s ops).
Proof.
  revert s. induction ops as [|op r IH]; intros s H; [exact H|]. apply IH, wstep_ok, H.
Qed.

Lemma winit_ok reg vals : sys_ok (winit reg vals).
Proof. constructor. Qed.

(* ------------------------------------------------------------------------------------------------ *)
(** * no missed update *)

Lemma quiet_watcher_is_current vals w :
  watcher_ok vals w -> w_pc w = PWaiting -> forallb slot_quiet (w_slots w) = true ->
  hd_error (w_sent w) = Some (cur_status vals (w_slots w)).
Proof.
  intros Hw Hpc Hq. assert (Ha : active (w_pc w) = true) by (rewrite Hpc; reflexivity).
  destruct (Hw Ha) as [Hs [Hh _]]. rewrite Hh. unfold cur_status. do 2 f_equal.
  apply map_ext_in. intros sl Hin.
  rewrite Forall_forall in Hs. destruct (Hs sl Hin) as [H1 H2].
  rewrite forallb_forall in Hq. specialize (Hq sl Hin). unfold slot_quiet in Hq.
  destruct (sl_wait sl) eqn:W; try discriminate.
  specialize (H2 eq_refl).
  destruct (st_eqb (val_of vals (sl_check sl)) (sl_seen sl)) eqn:E.
  - apply st_eqb_eq in E. symmetry. exact E.
  - assert (val_of vals (sl_check sl) <> sl_seen sl) as N.
    { intro X. apply st_eqb_eq in X. congruence. }
    rewrite (H1 N) in H2. discriminate.
Qed.

(* every reachable state, any schedule: a watcher for which nothing is pending (Watch task suspended in
   asyncio.wait, every wait task suspended on its event) has delivered the current aggregate last *)
Theorem watch_no_missed_update reg vals0 ops w :
  let s := wrun (winit reg vals0) ops in
  In w (s_ws s) -> w_pc w = PWaiting -> forallb slot_quiet (w_slots w) = true ->
  hd_error (w_sent w) = Some (cur_status (s_vals s) (w_slots w)).
Proof.
  intros s Hin Hpc Hq. assert (H : sys_ok s) by (apply wrun_ok, winit_ok).
  unfold sys_ok in H. rewrite Forall_forall in H. apply quiet_watcher_is_current; auto.
Qed.

(* what Watch must report for a service *)
Definition watch_status (reg : registry) (vals : list st) (name : Z) : resp :=
  match lookup reg name with
  | None => R_SERVICE_UNKNOWN
  | Some [] => R_SERVING
  | Some cs => agg_status (map (val_of vals) cs)
  end.

(* the first message is the status at subscription time *)
Theorem watch_first_message s name slow :
  exists w, s_ws (wstep s (OWatch name slow)) = s_ws s ++ [w] /\
            w_sent w = [watch_status (s_reg s) (s_vals s) name].
Proof.
  exists (new_watcher (s_reg s) (s_vals s) name slow). split; [reflexivity|].
  unfold new_watcher, watch_status. destruct (lookup (s_reg s) name) as [[|c cs]|]; try reflexivity.
  cbn [w_sent]. unfold cur_status. rewrite map_map. reflexivity.
Qed.

(* every message is the aggregate at the moment it is passed to send_message; messages are only
   appended *)
Lemma local_step_sent vals op w :
  w_sent (local_step vals op w) = w_sent w \/
  w_sent (local_step vals op w) = cur_status vals (w_slots (local_step vals op w)) :: w_sent w.
Proof.
  rewrite !local_step_eq. destruct (active (w_pc w)); cbn [negb]; [|left; reflexivity].
  destruct op as [p| | | |b|]; try (left; reflexivity).
  - destruct (pc_eqb (w_pc w) PWaiting && wait_returns (w_slots w)); left; reflexivity.
  - destruct (pc_eqb (w_pc w) PWaking); [right; reflexivity | left; reflexivity].
  - destruct (pc_eqb (w_pc w) PSending); left; reflexivity.
Qed.

Lemma on_set_sent i c w : w_sent (on_set i c w) = w_sent w.
Proof. unfold on_set. destruct (active (w_pc w) && c && notifies); reflexivity. Qed.

Theorem watch_messages_truthful s op k w w' :
  nth_error (s_ws s) k = Some w -> nth_error (s_ws (wstep s op)) k = Some w' ->
  w_sent w' = w_sent w \/ w_sent w' = cur_status (s_vals s) (w_slots w') :: w_sent w.
Proof.
  intros H H'. destruct op as [i v|name slow|j op]; cbn [wstep] in H'.
  - destruct (Nat.ltb i (length (s_vals s))); [|left; congruence].
    cbn [s_ws] in H'. rewrite nth_error_map, H in H'. cbn in H'. injection H' as <-.
    left. apply on_set_sent.
  - cbn [s_ws] in H'. rewrite nth_error_app1 in H' by (apply nth_error_Some; congruence).
    left. congruence.
  - cbn [s_ws] in H'. rewrite nth_error_upd_nth, H in H'. destruct (Nat.eqb k j).
    + cbn in H'. injection H' as <-. apply local_step_sent.
    + left. congruence.
Qed.

(* ------------------------------------------------------------------------------------------------ *)
(** * the internal steps terminate, in a quiescent state, under every schedule *)

Definition slot_mu (sl : slot) : nat :=
  match sl_wait sl with
  | WNew => if sl_ev sl then 6 else 1
  | WBlocked => 0
  | WWoken => 6
  | WDone | WCancelled => 5
  end.

Definition pc_mu (pc : wpc) : nat :=
  match pc with PSending => 4 | PWaiting => 3 | PWaking => 2 | _ => 0 end.

Definition slots_mu (sls : list slot) : nat := fold_right (fun sl n => (slot_mu sl + n)%nat) O sls.

Definition w_mu (w : watcher) : nat :=
  if active (w_pc w) then (pc_mu (w_pc w) + slots_mu (w_slots w))%nat else O.

Definition sys_mu (s : wsys) : nat := fold_right (fun w n => (w_mu w + n)%nat) O (s_ws s).

Definition runnable (x : wst) : bool := match x with WNew | WWoken => true | _ => false end.

Definition lenabled (op : lop) (w : watcher) : bool :=
  active (w_pc w) &&
  match op with
  | LWaitRun p => match nth_error (w_slots w) p with Some sl => runnable (sl_wait sl) | None => false end
  | LCompl => pc_eqb (w_pc w) PWaiting && wait_returns (w_slots w)
  | LRunW => pc_eqb (w_pc w) PWaking
  | LSendDone => pc_eqb (w_pc w) PSending
  | _ => false
  end.

Definition enabled (s : wsys) (op : wop) : bool :=
  match op with
  | OLocal k lop => match nth_error (s_ws s) k with Some w => lenabled lop w | None => false end
  | _ => false
  end.

Lemma slots_mu_upd_wait_run p sls sl :
  nth_error sls p = Some sl -> runnable (sl_wait sl) = true ->
  (slots_mu (upd_nth p wait_run sls) < slots_mu sls)%nat.
Proof.
  revert p. induction sls as [|x r IH]; intros [|p] H R; simpl in *; try discriminate.
  - injection H as ->. unfold wait_run, slot_mu. destruct (sl_wait sl) eqn:W; try discriminate; simpl.
    + destruct (sl_ev sl); simpl; lia.
    + lia.
  - specialize (IH p H R). lia.
Qed.

Lemma slots_mu_reset vals sls :
  (slots_mu (map (reset_slot vals) sls) <= slots_mu sls)%nat /\
  (any_done sls = true -> (slots_mu (map (reset_slot vals) sls) + 4 <= slots_mu sls)%nat).
Proof.
  induction sls as [|sl r [IH1 IH2]]; [split; [simpl; lia | discriminate]|].
  cbn [map slots_mu fold_right]. fold (slots_mu (map (reset_slot vals) r)). fold (slots_mu r).
  assert (A : (slot_mu (reset_slot vals sl) <= slot_mu sl)%nat /\
              (wait_done (sl_wait sl) = true -> (slot_mu (reset_slot vals sl) + 4 <= slot_mu sl)%nat)).
  { rewrite reset_slot_eq. unfold slot_mu. destruct (sl_wait sl); simpl; split; try discriminate; try lia;
      destruct (sl_ev sl); lia. }
  destruct A as [A1 A2]. split; [lia|].
  unfold any_done. cbn [existsb]. intro H. apply orb_true_iff in H. destruct H as [H|H].
  - specialize (A2 H). lia.
  - specialize (IH2 H). lia.
Qed.

Lemma local_step_decreases vals op w :
  watcher_ok vals w -> lenabled op w = true -> (w_mu (local_step vals op w) < w_mu w)%nat.
Proof.
  intros Hw He. unfold lenabled in He. apply andb_true_iff in He. destruct He as [Ha He].
  destruct (Hw Ha) as [_ [_ Hk]].
  rewrite local_step_eq. unfold w_mu. rewrite Ha. cbn [negb].
  destruct op as [p| | | |b|]; try discriminate.
  - cbn [w_pc w_slots]. rewrite Ha. destruct (nth_error (w_slots w) p) as [sl|] eqn:N; [|discriminate].
    pose proof (slots_mu_upd_wait_run p (w_slots w) sl N He). lia.
  - rewrite He. cbn [w_pc w_slots active]. apply andb_true_iff in He. destruct He as [E _].
    destruct (w_pc w); try discriminate. simpl. lia.
  - rewrite He. cbn [w_pc w_slots]. destruct (w_pc w) eqn:P; try discriminate.
    specialize (Hk eq_refl).
    destruct (slots_mu_reset vals (w_slots w)) as [_ R]. specialize (R Hk).
    destruct (w_slow w); simpl; lia.
  - rewrite He. cbn [w_pc w_slots active]. destruct (w_pc w); try discriminate. simpl. lia.
Qed.

Lemma sys_mu_upd k f ws w :
  nth_error ws k = Some w -> (w_mu (f w) < w_mu w)%nat ->
  (fold_right (fun w n => (w_mu w + n)%nat) O (upd_nth k f ws) <
   fold_right (fun w n => (w_mu w + n)%nat) O ws)%nat.
Proof.
  revert k. induction ws as [|x r IH]; intros [|k] H L; simpl in *; try discriminate.
  - injection H as ->. lia.
  - specialize (IH k H L). lia.
Qed.

Lemma wstep_decreases s op :
  sys_ok s -> internal op = true -> enabled s op = true -> (sys_mu (wstep s op) < sys_mu s)%nat.
Proof.
  intros Hs Hi He. destruct op as [i v|name slow|k op]; try discriminate.
  cbn [enabled] in He. destruct (nth_error (s_ws s) k) as [w|] eqn:N; [|discriminate].
  unfold sys_mu. cbn [wstep s_ws]. apply (sys_mu_upd k _ _ w N).
  apply local_step_decreases; [|exact He].
  unfold sys_ok in Hs. rewrite Forall_forall in Hs. apply Hs. eapply nth_error_In, N.
Qed.

(* a disabled internal step changes nothing *)
Lemma wait_run_id sl : runnable (sl_wait sl) = false -> wait_run sl = sl.
Proof. unfold wait_run. destruct (sl_wait sl); try reflexivity; discriminate. Qed.

Lemma local_step_disabled vals op w :
  match op with LSetSlow _ | LCancel => False | _ => True end ->
  lenabled op w = false -> local_step vals op w = w.
Proof.
  intros Hop He. unfold lenabled in He. rewrite local_step_eq.
  destruct (active (w_pc w)) eqn:Ha; cbn [negb andb] in *; [|reflexivity].
  destruct op as [p| | | |b|]; try contradiction.
  - destruct w as [pc slow sls sent]. cbn [w_pc w_slow w_slots w_sent] in *. f_equal.
    apply upd_nth_id. intros sl N. rewrite N in He. apply wait_run_id, He.
  - rewrite He. reflexivity.
  - rewrite He. reflexivity.
  - rewrite He. reflexivity.
Qed.

Lemma wstep_disabled s op : internal op = true -> enabled s op = false -> wstep s op = s.
Proof.
  intros Hi He. destruct op as [i v|name slow|k op]; try discriminate.
  cbn [wstep]. destruct s as [reg vals ws]. cbn [s_reg s_vals s_ws] in *. f_equal.
  apply upd_nth_id. intros w N. cbn [enabled s_ws] in He. rewrite N in He.
  apply local_step_disabled; [|exact He]. destruct op; try exact I; discriminate.
Qed.

(* quiescent = no internal step is enabled *)
Lemma quiet_no_step w op :
  watcher_quiet w = true -> match op with LSetSlow _ | LCancel => False | _ => True end ->
  lenabled op w = false.
Proof.
  intros Hq Hop. unfold watcher_quiet in Hq. unfold lenabled.
  destruct (w_pc w) eqn:P; try discriminate; try reflexivity.
  cbn [active andb]. destruct op as [p| | | |b|]; try contradiction; try reflexivity.
  - destruct (nth_error (w_slots w) p) as [sl|] eqn:N; [|reflexivity].
    rewrite forallb_forall in Hq. specialize (Hq sl (nth_error_In _ _ N)).
    unfold slot_quiet in Hq. destruct (sl_wait sl); try discriminate; reflexivity.
  - cbn [pc_eqb andb]. unfold wait_returns. cbn. unfold any_done.
    destruct (existsb (fun sl => wait_done (sl_wait sl)) (w_slots w)) eqn:E; [|reflexivity].
    apply existsb_exists in E. destruct E as [sl [Hin D]].
    rewrite forallb_forall in Hq. specialize (Hq sl Hin). unfold slot_quiet in Hq.
    destruct (sl_wait sl); discriminate.
Qed.

Lemma quiescent_no_step s op : quiescent s = true -> internal op = true -> enabled s op = false.
Proof.
  intros Hq Hi. destruct op as [i v|name slow|k op]; try discriminate.
  cbn [enabled]. destruct (nth_error (s_ws s) k) as [w|] eqn:N; [|reflexivity].
  apply quiet_no_step.
  - unfold quiescent in Hq. rewrite forallb_forall in Hq. apply Hq. eapply nth_error_In, N.
  - destruct op; try exact I; discriminate.
Qed.

Lemma unquiet_can_step w :
  watcher_quiet w = false ->
  exists op, match op with LSetSlow _ | LCancel => False | _ => True end /\ lenabled op w = true.
Proof.
  intro Hq. unfold watcher_quiet in Hq. destruct (w_pc w) eqn:P; try discriminate.
  - exists LSendDone. split; [exact I|]. unfold lenabled. rewrite P. reflexivity.
  - (* PWaiting: some slot is not WBlocked *)
    assert (exists p sl, nth_error (w_slots w) p = Some sl /\ slot_quiet sl = false) as [p [sl [N Q]]].
    { clear P. induction (w_slots w) as [|x r IH]; [discriminate|]. cbn [forallb] in Hq.
      destruct (slot_quiet x) eqn:E.
      - cbn [andb] in Hq. destruct (IH Hq) as [p [sl [N Q]]]. exists (S p), sl. split; assumption.
      - exists O, x. split; [reflexivity | exact E]. }
    unfold slot_quiet in Q. destruct (runnable (sl_wait sl)) eqn:R.
    + exists (LWaitRun p). split; [exact I|]. unfold lenabled. rewrite P, N. exact R.
    + exists LCompl. split; [exact I|]. unfold lenabled. rewrite P. cbn [active pc_eqb andb].
      unfold wait_returns. cbn. unfold any_done. apply existsb_exists. exists sl.
      split; [eapply nth_error_In, N|]. destruct (sl_wait sl); try discriminate; reflexivity.
  - exists LRunW. split; [exact I|]. unfold lenabled. rewrite P. reflexivity.
Qed.

Lemma unquiescent_can_step s :
  quiescent s = false -> exists op, internal op = true /\ enabled s op = true.
Proof.
  unfold quiescent. intro Hq.
  assert (exists k w, nth_error (s_ws s) k = Some w /\ watcher_quiet w = false) as [k [w [N Q]]].
  { induction (s_ws s) as [|x r IH]; [discriminate|]. cbn [forallb] in Hq.
    destruct (watcher_quiet x) eqn:E.
    - cbn [andb] in Hq. destruct (IH Hq) as [k [w [N Q]]]. exists (S k), w. split; assumption.
    - exists O, x. split; [reflexivity | exact E]. }
  destruct (unquiet_can_step w Q) as [op [Hop He]].
  exists (OLocal k op). split.
  - destruct op; try reflexivity; contradiction.
  - cbn [enabled]. rewrite N. exact He.
Qed.

Lemma wstep_internal_vals s op : internal op = true -> s_vals (wstep s op) = s_vals s.
Proof. destruct op as [i v|name slow|k op]; try discriminate. reflexivity. Qed.

(* from every state of the invariant some schedule of at most sys_mu internal steps reaches a
   quiescent state, the check values untouched ... *)
Theorem watch_settles s :
  sys_ok s ->
  exists ops, forallb internal ops = true /\ (length ops <= sys_mu s)%nat /\
              quiescent (wrun s ops) = true /\ s_vals (wrun s ops) = s_vals s.
Proof.
  remember (sys_mu s) as n eqn:E. revert s E.
  induction n as [n IH] using lt_wf_ind. intros s E Hs.
  destruct (quiescent s) eqn:Q.
  - exists []. repeat split; simpl; auto. lia.
  - destruct (unquiescent_can_step s Q) as [op [Hi He]].
    pose proof (wstep_decreases s op Hs Hi He) as L.
    destruct (IH (sys_mu (wstep s op)) ltac:(lia) (wstep s op) eq_refl (wstep_ok s op Hs))
      as [ops [A [B [C D]]]].
    exists (op :: ops). cbn [forallb length wrun fold_left]. fold (wrun (wstep s op) ops).
    rewrite Hi, A, C, D, (wstep_internal_vals s op Hi). repeat split. lia.
Qed.

(* ... and EVERY schedule of enabled internal steps is at most that long: no live-lock, no flood *)
Fixpoint all_enabled (s : wsys) (ops : list wop) : bool :=
  match ops with
  | [] => true
  | op :: r => internal op && enabled s op && all_enabled (wstep s op) r
  end.

Theorem watch_schedules_terminate s ops :
  sys_ok s -> all_enabled s ops = true -> (length ops + sys_mu (wrun s ops) <= sys_mu s)%nat.
Proof.
  revert s. induction ops as [|op r IH]; intros s Hs H; cbn [length wrun fold_left]; [simpl; lia|].
  cbn [all_enabled] in H. apply andb_true_iff in H. destruct H as [H H3].
  apply andb_true_iff in H. destruct H as [H1 H2].
  pose proof (wstep_decreases s op Hs H1 H2).
  specialize (IH (wstep s op) (wstep_ok s op Hs) H3). unfold wrun in IH. lia.
Qed.

(* the FIFO ready queue used by the correspondence runs is one of the schedules *)
Lemma fifo_pass_is_run s q : fst (fifo_pass s q) = wrun s q.
Proof.
  revert s. induction q as [|op r IH]; intros s; [reflexivity|].
  cbn [fifo_pass wrun fold_left]. specialize (IH (wstep s op)).
  destruct (fifo_pass (wstep s op) r) as [s' n]. cbn [fst] in *. exact IH.
Qed.

Lemma fifo_iters_is_run n sq : exists ops, fst (fifo_iters n sq) = wrun (fst sq) ops.
Proof.
  revert sq. induction n as [|n IH]; intros sq; [exists []; reflexivity|].
  cbn [fifo_iters]. destruct (IH (fifo_pass (fst sq) (snd sq))) as [ops H].
  exists (snd sq ++ ops). rewrite H, fifo_pass_is_run. unfold wrun. rewrite fold_left_app. reflexivity.
Qed.

Lemma fifo_settle_is_run n sq : exists ops, fst (fifo_settle n sq) = wrun (fst sq) ops.
Proof.
  revert sq. induction n as [|n IH]; intros sq; [exists []; reflexivity|].
  cbn [fifo_settle]. destruct (snd sq) as [|op r] eqn:E; [exists []; reflexivity|].
  destruct (IH (fifo_pass (fst sq) (snd sq))) as [ops H]. rewrite E in H.
  exists (snd sq ++ ops). rewrite H, E, fifo_pass_is_run. unfold wrun. rewrite fold_left_app. reflexivity.
Qed.

Theorem fifo_is_schedule fuel s q c :
  exists ops, fst (run_cmd fuel (s, q) c) = wrun s ops.
Proof.
  destruct c as [op|op|k|n|]; cbn [run_cmd].
  - exists [op]. reflexivity.
  - exists []. reflexivity.
  - destruct (nth_error (s_ws s) k) as [w|]; [destruct (pc_eqb (w_pc w) PSending)|]; exists []; reflexivity.
  - apply (fifo_iters_is_run n (s, q)).
  - apply (fifo_settle_is_run fuel (s, q)).
Qed.

(* ------------------------------------------------------------------------------------------------ *)
(** * stated for reachable states *)

Definition wreach (s : wsys) : Prop := exists reg vals ops, s = wrun (winit reg vals) ops.

Lemma wreach_ok s : wreach s -> sys_ok s.
Proof. intros [reg [vals [ops ->]]]. apply wrun_ok, winit_ok. Qed.

Lemma r_watch_settles s :
  wreach s ->
  exists ops, forallb internal ops = true /\ (length ops <= sys_mu s)%nat /\
              quiescent (wrun s ops) = true /\ s_vals (wrun s ops) = s_vals s /\
              (forall w, In w (s_ws (wrun s ops)) -> w_pc w = PWaiting ->
                         hd_error (w_sent w) = Some (cur_status (s_vals s) (w_slots w))).
Proof.
  intro H. destruct (watch_settles s (wreach_ok s H)) as [ops [A [B [C D]]]].
  exists ops. repeat split; auto. intros w Hin Hpc. rewrite <- D.
  assert (Hs : sys_ok (wrun s ops)) by (apply wrun_ok, wreach_ok, H).
  unfold sys_ok in Hs. rewrite Forall_forall in Hs.
  apply quiet_watcher_is_current; auto.
  unfold quiescent in C. rewrite forallb_forall in C. specialize (C w Hin).
  unfold watcher_quiet in C. rewrite Hpc in C. exact C.
Qed.

Lemma r_watch_schedules_terminate s ops :
  wreach s -> all_enabled s ops = true -> (length ops + sys_mu (wrun s ops) <= sys_mu s)%nat.
Proof. intro H. apply watch_schedules_terminate, wreach_ok, H. Qed.

Lemma quiescent_stays s ops :
  quiescent s = true -> forallb internal ops = true -> wrun s ops = s.
Proof.
  revert s. induction ops as [|op r IH]; intros s Q H; [reflexivity|].
  cbn [forallb] in H. apply andb_true_iff in H. destruct H as [H1 H2].
  cbn [wrun fold_left]. rewrite (wstep_disabled s op H1 (quiescent_no_step s op Q H1)). apply IH; assumption.
Qed.
