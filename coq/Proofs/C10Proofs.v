(* C10 -- lemmas about Model/Registry.v.  Everything is by induction over op lists (all histories) with
   a per-call invariant, a registry invariant and a waiter invariant. *)
From Coq Require Import ZArith List Bool Arith Lia.
From GV Require Import Model.Registry.
Import ListNotations.

(* ------------------------------------------------------------------------------------------ *)
(* list helpers *)

Lemma nth_upd_same {A} (f : A -> A) l c k :
  nth_error l c = Some k -> nth_error (upd c f l) c = Some (f k).
Proof.
  revert c; induction l as [|x r IH]; intros [|c] H; simpl in *; try discriminate.
  - inversion H; reflexivity.
  - apply IH; assumption.
Qed.

Lemma nth_upd_other {A} (f : A -> A) l c d : c <> d -> nth_error (upd c f l) d = nth_error l d.
Proof.
  revert c d; induction l as [|x r IH]; intros [|c] [|d] H; simpl; try reflexivity.
  - contradiction.
  - apply IH; congruence.
Qed.

Lemma nth_upd_none {A} (f : A -> A) l c : nth_error l c = None -> upd c f l = l.
Proof.
  revert c; induction l as [|x r IH]; intros [|c] H; simpl in *; try reflexivity; try discriminate.
  f_equal; apply IH; assumption.
Qed.

Lemma nth_upd {A} (f : A -> A) l c d :
  nth_error (upd c f l) d =
  if Nat.eqb c d then option_map f (nth_error l d) else nth_error l d.
Proof.
  destruct (Nat.eqb_spec c d) as [->|N].
  - destruct (nth_error l d) eqn:E.
    + simpl; apply nth_upd_same; assumption.
    + rewrite nth_upd_none by assumption. rewrite E; reflexivity.
  - apply nth_upd_other; assumption.
Qed.

Lemma count_upd {A} (p : A -> bool) f l c k :
  nth_error l c = Some k ->
  count p (upd c f l) + (if p k then 1 else 0) = count p l + (if p (f k) then 1 else 0).
Proof.
  revert c; induction l as [|x r IH]; intros [|c] H; simpl in *; try discriminate.
  - inversion H; subst. destruct (p k), (p (f k)); lia.
  - specialize (IH _ H). lia.
Qed.

Lemma count_upd_same {A} (p : A -> bool) f l c :
  (forall k, nth_error l c = Some k -> p (f k) = p k) -> count p (upd c f l) = count p l.
Proof.
  intros H. destruct (nth_error l c) eqn:E.
  - pose proof (count_upd p f l c a E) as C. rewrite (H _ eq_refl) in C. lia.
  - rewrite nth_upd_none by assumption; reflexivity.
Qed.

Lemma count_map_same {A} (p : A -> bool) f l :
  (forall k, p (f k) = p k) -> count p (map f l) = count p l.
Proof. intros H; induction l; simpl; [reflexivity|]. rewrite H, IHl; reflexivity. Qed.

Lemma count_zero {A} (p : A -> bool) l :
  count p l = 0 <-> (forall c k, nth_error l c = Some k -> p k = false).
Proof.
  induction l as [|x r IH]; simpl.
  - split; [intros _ [|c] k H; discriminate | reflexivity].
  - split.
    + intros H [|c] k E; simpl in E.
      * inversion E; subst. destruct (p k); [lia|reflexivity].
      * apply (proj1 IH) with c; [destruct (p x); lia | assumption].
    + intros H. rewrite (H 0 x eq_refl). simpl. apply IH. intros c k E. apply (H (S c)); assumption.
Qed.

Lemma count_pos {A} (p : A -> bool) l :
  0 < count p l -> exists c k, nth_error l c = Some k /\ p k = true.
Proof.
  induction l as [|x r IH]; simpl; [lia|].
  destruct (p x) eqn:E.
  - intros _. exists 0, x; auto.
  - intros H. destruct IH as (c & k & E1 & E2); [lia|]. exists (S c), k; auto.
Qed.

Lemma count_le_length {A} (p : A -> bool) l : count p l <= length l.
Proof. induction l; simpl; [lia|]. destruct (p a); lia. Qed.

Lemma nth_map {A B} (f : A -> B) l c : nth_error (map f l) c = option_map f (nth_error l c).
Proof. revert c; induction l; intros [|c]; simpl; auto. Qed.

Lemma upd_length {A} (f : A -> A) l c : length (upd c f l) = length l.
Proof. revert c; induction l; intros [|c]; simpl; auto. Qed.

Lemma in_remove_nat c x l : In x (remove_nat c l) <-> In x l /\ x <> c.
Proof.
  induction l as [|y r IH]; simpl; [tauto|].
  destruct (Nat.eqb_spec y c) as [->|N]; simpl; rewrite IH.
  - split; [tauto|]. intros [[->|H] Hn]; [contradiction|tauto].
  - split; [intros [->|[H Hn]]; tauto|]. intros [[->|H] Hn]; tauto.
Qed.

Lemma nodup_remove_nat c l : NoDup l -> NoDup (remove_nat c l).
Proof.
  induction 1 as [|y r Hn Hd IH]; simpl; [constructor|].
  destruct (Nat.eqb y c); [assumption|]. constructor; [|assumption].
  rewrite in_remove_nat; tauto.
Qed.

Lemma length_remove_nat_notin c l : ~ In c l -> remove_nat c l = l.
Proof.
  induction l as [|y r IH]; simpl; [reflexivity|]. intros H.
  destruct (Nat.eqb_spec y c) as [->|N]; [tauto|]. f_equal; tauto.
Qed.

(* ------------------------------------------------------------------------------------------ *)
(* h2 abstraction: small facts *)

Lemma open_is_op h : h2_open h = true -> h_op h = true /\ h2_closed h = false.
Proof. unfold h2_open. destruct (h_op h), (h2_closed h); simpl; intuition discriminate. Qed.

Lemma not_open_op_closed h : h2_open h = false -> h_op h = true -> h2_closed h = true.
Proof. unfold h2_open. intros H O; rewrite O in H; simpl in H. destruct (h2_closed h); auto. Qed.

Lemma closed_not_open h : h2_closed h = true -> h2_open h = false.
Proof. unfold h2_open; intros ->; destruct (h_op h); reflexivity. Qed.

Lemma idle_not_open : h2_open h2_idle = false.
Proof. reflexivity. Qed.

Definition no_hdr (q : list fk) : Prop := forall es, ~ In (KHeaders es) q.

(* ------------------------------------------------------------------------------------------ *)
(* the per-call invariant *)

Record PC (k : call) : Prop := {
  f0c : h_op (k_ch k) = false -> k_ch k = h2_idle;
  f0s : h_op (k_sh k) = false -> k_sh k = h2_idle;
  f1a : is_pending k = true -> h_op (k_ch k) = false;
  f1b : k_cph k = COpened -> h_op (k_ch k) = true;
  f1c : k_cph k = CExited -> h2_open (k_ch k) = false;
  f2 : h_op (k_ch k) = false -> k_qc k = [] /\ h_op (k_sh k) = false;
  f3 : h_op (k_sh k) = false ->
       k_qs k = [] /\ k_sph k = SNone /\
       (h_op (k_ch k) = true -> exists es r, k_qc k = KHeaders es :: r /\ no_hdr r);
  f4 : h_op (k_sh k) = true -> no_hdr (k_qc k) /\ k_sph k <> SNone;
  f5 : h_se (k_ch k) = true ->
       In KEnd (k_qc k) \/ In (KHeaders true) (k_qc k) \/ h_re (k_sh k) = true \/
       h2_closed (k_sh k) = true;
  f6 : h_sr (k_ch k) = true -> k_held k = true \/ In KRst (k_qc k) \/ h2_closed (k_sh k) = true;
  f7 : h_rr (k_ch k) = true -> h_sr (k_sh k) = true;
  f8 : h_re (k_ch k) = true -> h_se (k_sh k) = true;
  f9 : In KRst (k_qs k) -> h_sr (k_sh k) = true;
  f10 : In KEnd (k_qs k) -> h_se (k_sh k) = true;
  f12 : k_sph k = SExited false -> h_se (k_sh k) = true \/ h2_closed (k_sh k) = true;
  f13 : h_se (k_sh k) = true -> k_trail k = true;
  f14 : k_trail k = true -> h_se (k_sh k) = true;
  f15 : k_cancel k = true -> h_sr (k_sh k) = true;
  f16 : k_held k = true -> h_sr (k_ch k) = true
}.

Lemma PC_call0 : PC call0.
Proof.
  constructor; simpl; intros; try discriminate; try tauto; try contradiction.
  repeat split; auto; discriminate.
Qed.

Ltac dk k :=
  let cph := fresh "cph" in let co := fresh "co" in let cse := fresh "cse" in
  let cre := fresh "cre" in let csr := fresh "csr" in let crr := fresh "crr" in
  let sph := fresh "sph" in let so := fresh "so" in let sse := fresh "sse" in
  let sre := fresh "sre" in let ssr := fresh "ssr" in let srr := fresh "srr" in
  let tr := fresh "tr" in let cn := fresh "cn" in let qc := fresh "qc" in let qs := fresh "qs" in
  let hd := fresh "hd" in
  destruct k as [cph [co cse cre csr crr] sph [so sse sre ssr srr] tr cn qc qs hd].

Ltac inv_idle :=
  repeat match goal with
         | H : Build_h2s _ _ _ _ _ = h2_idle |- _ => inversion H; clear H; subst
         end.

(* open the old invariant into its fields *)
Ltac open_pc H :=
  let a0 := fresh "F0c" in let a1 := fresh "F0s" in let a2 := fresh "F1a" in let a3 := fresh "F1b" in
  let a4 := fresh "F1c" in let a5 := fresh "F2" in let a6 := fresh "F3" in let a7 := fresh "F4" in
  let a8 := fresh "F5" in let a9 := fresh "F6" in let b0 := fresh "F7" in let b1 := fresh "F8" in
  let b2 := fresh "F9" in let b3 := fresh "F10" in let b4 := fresh "F12" in let b5 := fresh "F13" in
  let b6 := fresh "F14" in let b7 := fresh "F15" in let b8 := fresh "F16" in
  destruct H as [a0 a1 a2 a3 a4 a5 a6 a7 a8 a9 b0 b1 b2 b3 b4 b5 b6 b7 b8].

(* ------------------------------------------------------------------------------------------ *)
(* every local action preserves the per-call invariant *)

Lemma PC_phase k p :
  PC k -> is_pending k = true -> (p = CWaiting \/ p = CWoken \/ p = CExited) -> PC (set_cph p k).
Proof.
  intros H P Hp. pose proof (f1a k H P) as O. open_pc H.
  constructor; cbn; auto; intros; try assumption.
  - subst p; intuition discriminate.
  - unfold h2_open. rewrite O. reflexivity.
Qed.

Lemma PC_wake k : PC k -> PC (wake k).
Proof.
  intros H. unfold wake. destruct (k_cph k) eqn:E; try assumption.
  apply PC_phase; auto. unfold is_pending; rewrite E; reflexivity.
Qed.

Lemma no_hdr_nil : no_hdr [].
Proof. intros es H; inversion H. Qed.

Lemma no_hdr_app q f : no_hdr q -> (forall es, f <> KHeaders es) -> no_hdr (q ++ [f]).
Proof.
  intros H N es I. apply in_app_or in I. destruct I as [I|[I|[]]]; [exact (H es I)|exact (N es I)].
Qed.

Lemma no_hdr_tl f q : no_hdr (f :: q) -> no_hdr q.
Proof. intros H es I. apply (H es). right; assumption. Qed.

Lemma PC_open k es :
  PC k -> is_pending k = true ->
  PC (set_cph COpened (cl_act (h2_new es false) [KHeaders es] k)).
Proof.
  intros H P. pose proof (f1a k H P) as O.
  destruct (f2 k H O) as [Q SO]. destruct (f3 k H SO) as (QS & SP & _).
  pose proof (f0s k H SO) as SI. pose proof (f0c k H O) as CI. open_pc H.
  dk k; cbn in *; subst. inv_idle.
  constructor; cbn; intros; try discriminate; auto.
  - repeat split; auto. intros _. exists es, []. split; [reflexivity|apply no_hdr_nil].
  - subst es. right; left; left; reflexivity.
Qed.

Ltac inl := apply in_or_app; left; assumption.
Ltac inr := apply in_or_app; right; simpl; auto.

(* the client sends END_STREAM / RST_STREAM on a stream that still counts *)
Lemma PC_csend k (rst : bool) :
  PC k -> h2_open (k_ch k) = true -> (rst = false -> h_se (k_ch k) = false) ->
  PC (cl_act (if rst then h2_send_rst (k_ch k) else h2_send_end (k_ch k))
             [if rst then KRst else KEnd] k).
Proof.
  intros H OP SE. destruct (open_is_op _ OP) as [O CL]. open_pc H.
  unfold h2_send_end, h2_send_rst. rewrite OP.
  dk k; cbn in *; subst.
  destruct rst; (constructor; cbn; intros; try discriminate; auto).
  all: try (specialize (F1a H); discriminate).
  all: try (specialize (F1c H); unfold h2_open in *; cbn in *; rewrite F1c in OP; discriminate).
  all: try (destruct (F3 H) as (A & B & C); repeat split; auto; intros _;
            destruct (C eq_refl) as (es & r & E & N); subst qc;
            eexists es, (r ++ [_]); split; [reflexivity|]; apply no_hdr_app; auto; discriminate).
  all: try (destruct (F4 H) as [A B]; split; auto; apply no_hdr_app; auto; discriminate).
  - destruct (F5 H) as [A|[A|A]]; [left; inl|right; left; inl|right; right; assumption].
  - right; left; inr.
  - left; inr.
  - destruct (F6 H) as [A|[A|A]]; [left; assumption|right; left; inl|right; right; assumption].
Qed.

Lemma PC_set_exited k :
  PC k -> h2_open (k_ch k) = false -> k_cph k = COpened -> PC (set_cph CExited k).
Proof.
  intros H NO E. open_pc H. dk k; cbn in *; subst.
  constructor; cbn; intros; try discriminate; auto.
Qed.

Lemma cl_act_nil k : cl_act (k_ch k) [] k = k.
Proof. destruct k; unfold cl_act; cbn. rewrite app_nil_r. reflexivity. Qed.

Lemma send_rst_not_open h : h2_open (h2_send_rst h) = false.
Proof.
  unfold h2_send_rst. destruct (h2_open h) eqn:E; [|assumption].
  unfold h2_open, h2_closed; cbn. destruct (h_op h); reflexivity.
Qed.

Lemma set_held_id k : set_held (k_held k) k = k.
Proof. destruct k; reflexivity. Qed.

(* reset_nowait while writing is paused: h2 closes the stream, the frame waits in h2's buffer *)
Lemma PC_hold k :
  PC k -> h2_open (k_ch k) = true -> PC (set_held true (cl_act (h2_send_rst (k_ch k)) [] k)).
Proof.
  intros H OP. destruct (open_is_op _ OP) as [O CL]. open_pc H.
  unfold h2_send_rst. rewrite OP.
  dk k; cbn in *; subst.
  constructor; cbn; intros; rewrite ?app_nil_r; try discriminate; auto.
  all: try (specialize (F1a H); discriminate).
  all: try (specialize (F1c H); unfold h2_open in *; cbn in *; rewrite F1c in OP; discriminate).
Qed.

(* the held frame is written *)
Lemma PC_flush1 k : PC k -> PC (flush1 k).
Proof.
  intros H. unfold flush1. destruct (k_held k) eqn:HD; [|assumption].
  pose proof (f16 k H HD) as SR.
  assert (CO : h_op (k_ch k) = true).
  { destruct (h_op (k_ch k)) eqn:E; auto. rewrite (f0c k H E) in SR. discriminate. }
  open_pc H. dk k; cbn in *; subst.
  constructor; cbn; intros; try discriminate; auto.
  - destruct (F3 H) as (A & B & C). repeat split; auto. intros _.
    destruct (C eq_refl) as (es & r & E & N); subst qc.
    eexists es, (r ++ [_]); split; [reflexivity|]; apply no_hdr_app; auto; discriminate.
  - destruct (F4 H) as [A B]; split; auto; apply no_hdr_app; auto; discriminate.
  - destruct (F5 H) as [A|[A|A]]; [left; inl|right; left; inl|right; right; assumption].
  - right; left; inr.
Qed.

Lemma PC_cexit k (paused : bool) :
  PC k -> k_cph k = COpened ->
  PC (set_held (k_held k || (h2_open (k_ch k) && paused))
        (set_cph CExited (cl_act (h2_send_rst (k_ch k))
                                 (if h2_open (k_ch k) && negb paused then [KRst] else []) k))).
Proof.
  intros H E. destruct (h2_open (k_ch k)) eqn:OP; cbn [andb].
  - destruct paused; cbn [negb].
    + rewrite orb_true_r.
      replace (set_held true (set_cph CExited (cl_act (h2_send_rst (k_ch k)) [] k)))
        with (set_cph CExited (set_held true (cl_act (h2_send_rst (k_ch k)) [] k)))
        by (destruct k; reflexivity).
      apply PC_set_exited.
      * apply PC_hold; assumption.
      * cbn. apply send_rst_not_open.
      * destruct k; assumption.
    + rewrite orb_false_r.
      replace (set_held (k_held k) (set_cph CExited (cl_act (h2_send_rst (k_ch k)) [KRst] k)))
        with (set_cph CExited (cl_act (h2_send_rst (k_ch k)) [KRst] k)) by (destruct k; reflexivity).
      apply PC_set_exited.
      * apply (PC_csend k true H OP). discriminate.
      * cbn. apply send_rst_not_open.
      * destruct k; assumption.
  - rewrite orb_false_r. unfold h2_send_rst. rewrite OP. rewrite cl_act_nil.
    replace (set_held (k_held k) (set_cph CExited k)) with (set_cph CExited k) by (destruct k; reflexivity).
    apply PC_set_exited; assumption.
Qed.

Lemma closed_mono_re o se re sr rr :
  h2_closed (Build_h2s o se re sr rr) = true -> h2_closed (Build_h2s o se true sr rr) = true.
Proof. unfold h2_closed; cbn. destruct se, re, sr, rr; auto. Qed.

(* what receiving END_STREAM / RST_STREAM does to an endpoint's view *)
Lemma recv_end_facts h :
  h_op (h2_recv_end h) = h_op h /\ h_se (h2_recv_end h) = h_se h /\ h_sr (h2_recv_end h) = h_sr h /\
  h_rr (h2_recv_end h) = h_rr h /\ (h_re h = true -> h_re (h2_recv_end h) = true) /\
  (h2_closed h = true -> h2_closed (h2_recv_end h) = true) /\
  (h_op h = true -> h_re (h2_recv_end h) = true \/ h2_closed (h2_recv_end h) = true) /\
  (h_re (h2_recv_end h) = true -> h_re h = true \/ h2_open h = true).
Proof.
  unfold h2_recv_end, h2_open, h2_closed. destruct h as [o se re sr rr]; cbn.
  destruct o, se, re, sr, rr; cbn; intuition.
Qed.

Lemma recv_rst_facts h :
  h_op (h2_recv_rst h) = h_op h /\ h_se (h2_recv_rst h) = h_se h /\ h_sr (h2_recv_rst h) = h_sr h /\
  h_re (h2_recv_rst h) = h_re h /\
  (h2_closed h = true -> h2_closed (h2_recv_rst h) = true) /\
  (h_op h = true -> h2_closed (h2_recv_rst h) = true) /\
  (h_rr (h2_recv_rst h) = true -> h_rr h = true \/ h2_open h = true).
Proof.
  unfold h2_recv_rst, h2_open, h2_closed. destruct h as [o se re sr rr]; cbn.
  destruct o, se, re, sr, rr; cbn; intuition.
Qed.

(* a frame of this call arrives at the server *)
Lemma PC_srv_recv k f r : PC k -> k_qc k = f :: r -> PC (fst (srv_recv f k)).
Proof.
  intros H Q.
  assert (CO : h_op (k_ch k) = true).
  { destruct (h_op (k_ch k)) eqn:E; auto. destruct (f2 k H E) as [A _]. rewrite A in Q; discriminate. }
  destruct (h_op (k_sh k)) eqn:SO.
  - (* the stream is known to the server *)
    destruct (f4 k H SO) as [NH SP].
    destruct f as [es| |].
    + exfalso. rewrite Q in NH. apply (NH es). left; reflexivity.
    + destruct (recv_end_facts (k_sh k)) as (E1 & E2 & E3 & E4 & E5 & E6 & E7 & _).
      open_pc H. unfold srv_recv. cbn -[h2_recv_end h2_closed h2_open].
      rewrite Q in *. cbn [tl].
      constructor; cbn -[h2_recv_end h2_closed h2_open]; intros; auto;
        rewrite ?E1, ?E2, ?E3, ?E4 in *; try congruence; auto.
      * split; [eapply no_hdr_tl; eauto|auto].
      * destruct (F6 H) as [A|[[A|A]|A]]; try discriminate; auto.
      * destruct (F12 H) as [A|A]; auto.
    + destruct (recv_rst_facts (k_sh k)) as (E1 & E2 & E3 & E4 & E5 & E6 & _).
      open_pc H. unfold srv_recv. cbn -[h2_recv_rst h2_closed h2_open].
      rewrite Q in *. cbn [tl].
      constructor; cbn -[h2_recv_rst h2_closed h2_open]; intros; auto;
        rewrite ?E1, ?E2, ?E3, ?E4 in *; try congruence; auto.
      * split; [eapply no_hdr_tl; eauto|auto].
  - (* the stream is new to the server: only the request HEADERS can be first *)
    destruct (f3 k H SO) as (QS & SP & HD). destruct (HD CO) as (es & r0 & E & NH).
    rewrite Q in E. inversion E; subst f r0. pose proof (f0s k H SO) as SI.
    open_pc H. unfold srv_recv. rewrite SO. cbn. rewrite Q in *. cbn [tl].
    dk k; cbn in *; subst. inv_idle.
    constructor; cbn; intros; try discriminate; auto.
    + split; [assumption|discriminate].
    + destruct (F5 H) as [[A|A]|[[A|A]|[A|A]]]; try discriminate; auto.
      inversion A; auto.
    + destruct (F6 H) as [A|[[A|A]|A]]; try discriminate; auto.
Qed.

Lemma recv_end_id h : h2_open h = false -> h2_recv_end h = h.
Proof. unfold h2_recv_end; intros ->; reflexivity. Qed.
Lemma recv_rst_id h : h2_open h = false -> h2_recv_rst h = h.
Proof. unfold h2_recv_rst; intros ->; reflexivity. Qed.
Lemma op_false_not_open h : h_op h = false -> h2_open h = false.
Proof. unfold h2_open; intros ->; reflexivity. Qed.

(* a frame of this call arrives at the client *)
Lemma PC_cl_recv k f r : PC k -> k_qs k = f :: r -> PC (cl_recv f k).
Proof.
  intros H Q.
  assert (SO : h_op (k_sh k) = true).
  { destruct (h_op (k_sh k)) eqn:E; auto. destruct (f3 k H E) as [A _]. rewrite A in Q; discriminate. }
  assert (CO : h_op (k_ch k) = true).
  { destruct (h_op (k_ch k)) eqn:E; auto. destruct (f2 k H E) as [_ A]. congruence. }
  destruct f as [es| |].
  - open_pc H. unfold cl_recv. rewrite Q in *. cbn [tl].
    constructor; cbn; intros; auto; try congruence.
    + apply F9; right; assumption.
    + apply F10; right; assumption.
  - assert (SE : h_se (k_sh k) = true) by (apply (f10 k H); rewrite Q; left; reflexivity).
    destruct (recv_end_facts (k_ch k)) as (E1 & E2 & E3 & E4 & E5 & E6 & E7 & E8).
    open_pc H. unfold cl_recv. rewrite Q in *. cbn [tl].
    constructor; cbn -[h2_recv_end h2_closed h2_open]; intros; auto;
      rewrite ?E1, ?E2, ?E3, ?E4 in *; try congruence; auto.
    + rewrite recv_end_id; auto.
    + apply F9; right; assumption.
  - assert (SR : h_sr (k_sh k) = true) by (apply (f9 k H); rewrite Q; left; reflexivity).
    destruct (recv_rst_facts (k_ch k)) as (E1 & E2 & E3 & E4 & E5 & E6 & E7).
    open_pc H. unfold cl_recv. rewrite Q in *. cbn [tl].
    constructor; cbn -[h2_recv_rst h2_closed h2_open]; intros; auto;
      rewrite ?E1, ?E2, ?E3, ?E4 in *; try congruence; auto.
    + rewrite recv_rst_id; auto.
    + apply F10; right; assumption.
Qed.

(* the server endpoint sends something (or nothing) and moves its handler phase *)
Lemma PC_sv k p h tr cn fs :
  PC k -> h_op (k_sh k) = true ->
  h_op h = true -> h_re h = h_re (k_sh k) -> h_rr h = h_rr (k_sh k) ->
  (h_se (k_sh k) = true -> h_se h = true) -> (h_sr (k_sh k) = true -> h_sr h = true) ->
  (h2_closed (k_sh k) = true -> h2_closed h = true) ->
  (In KEnd fs -> h_se h = true) -> (In KRst fs -> h_sr h = true) ->
  (h_se h = true -> tr = true) -> (tr = true -> h_se h = true) -> (cn = true -> h_sr h = true) ->
  p <> SNone -> (p = SExited false -> h_se h = true \/ h2_closed h = true) ->
  PC (sv_act p h tr cn fs k).
Proof.
  intros H SO HO HRE HRR HSE HSR HCL FE FR HT HT2 HCN PN PX. open_pc H.
  constructor; cbn -[h2_closed h2_open]; intros; auto; try congruence.
  - destruct (F2 H) as [_ A]; congruence.
  - split; [apply F4; assumption|assumption].
  - destruct (F5 H) as [A|[A|[A|A]]]; auto. right; right; left; congruence.
  - destruct (F6 H) as [A|[A|A]]; auto.
  - apply in_app_or in H; destruct H; auto.
  - apply in_app_or in H; destruct H; auto.
Qed.

Lemma srv_trailers_facts nonok sh h fs :
  h2_open sh = true -> h_se sh = false -> srv_trailers nonok sh = (h, fs) ->
  h_op h = true /\ h_re h = h_re sh /\ h_rr h = h_rr sh /\ h_se h = true /\
  (h_sr sh = true -> h_sr h = true) /\ (h2_closed sh = true -> h2_closed h = true) /\
  (In KRst fs -> h_sr h = true) /\
  (nonok = true -> h2_open h = false) /\ (nonok = false -> fs = [KEnd]) /\ In KEnd fs.
Proof.
  unfold srv_trailers, h2_send_end, h2_send_rst. intros OP SE. rewrite OP.
  destruct sh as [o se re sr rr]; cbn in *; subst.
  unfold h2_open, h2_closed in *; cbn in *.
  destruct nonok, o, re, sr, rr; cbn in *; try discriminate; intros E; inversion E; subst; cbn;
    repeat split; auto; try discriminate; try (intros I; simpl in I; intuition discriminate);
    simpl; auto.
Qed.

(* ------------------------------------------------------------------------------------------ *)
(* global invariant *)

Definition all_pc (l : list call) : Prop := forall c k, nth_error l c = Some k -> PC k.

Definition has (p : call -> bool) (l : list call) (c : nat) : Prop :=
  exists k, nth_error l c = Some k /\ p k = true.

Definition creg_ok (s : state) : Prop :=
  NoDup (creg s) /\ forall c, In c (creg s) <-> has is_opened (calls s) c.
Definition sreg_ok (s : state) : Prop :=
  NoDup (sreg s) /\ forall c, In c (sreg s) <-> has is_running (calls s) c.
Definition closed_opened (k : call) : bool := is_opened k && h2_closed (k_ch k).
Definition waiter_ok (s : state) : Prop :=
  (exists c, has is_waiting (calls s) c) ->
  (maxc s <= Z.of_nat (open_out s))%Z \/ exists c, has closed_opened (calls s) c.

(* nothing is held back in the client's h2 buffer unless writing is paused *)
Definition held_ok (s : state) : Prop := cpaused s = false -> count k_held (calls s) = 0.

Record Inv (s : state) : Prop := {
  i_calls : all_pc (calls s);
  i_creg : creg_ok s;
  i_sreg : sreg_ok s;
  i_wait : waiter_ok s;
  i_held : held_ok s
}.

Lemma all_pc_upd l c f :
  all_pc l -> (forall k, nth_error l c = Some k -> PC (f k)) -> all_pc (upd c f l).
Proof.
  intros A F d k. rewrite nth_upd. destruct (Nat.eqb_spec c d) as [->|N].
  - destruct (nth_error l d) eqn:E; simpl; intros X; inversion X; subst. apply F; reflexivity.
  - apply A.
Qed.

Lemma all_pc_map_wake l : all_pc l -> all_pc (map wake l).
Proof.
  intros A d k. rewrite nth_map. destruct (nth_error l d) eqn:E; simpl; intros X; inversion X.
  apply PC_wake. apply (A d); assumption.
Qed.

Lemma all_pc_map l g : (forall k, PC k -> PC (g k)) -> all_pc l -> all_pc (map g l).
Proof.
  intros G A d k. rewrite nth_map. destruct (nth_error l d) eqn:E; simpl; intros X; inversion X.
  apply G. apply (A d); assumption.
Qed.

Lemma flush1_cph k : k_cph (flush1 k) = k_cph k.
Proof. unfold flush1. destruct (k_held k); reflexivity. Qed.
Lemma flush1_sph k : k_sph (flush1 k) = k_sph k.
Proof. unfold flush1. destruct (k_held k); reflexivity. Qed.
Lemma flush1_ch k : k_ch (flush1 k) = k_ch k.
Proof. unfold flush1. destruct (k_held k); reflexivity. Qed.
Lemma flush1_sh k : k_sh (flush1 k) = k_sh k.
Proof. unfold flush1. destruct (k_held k); reflexivity. Qed.

Lemma has_upd_same p l c f d :
  (forall k, p (f k) = p k) -> (has p (upd c f l) d <-> has p l d).
Proof.
  intros Hp. unfold has. rewrite nth_upd. destruct (Nat.eqb c d).
  - destruct (nth_error l d); simpl.
    + split; intros (k & E & P); inversion E; subst; eexists; split; eauto; congruence.
    + split; intros (k & E & _); discriminate.
  - tauto.
Qed.

Lemma has_upd_other p l c f d : c <> d -> (has p (upd c f l) d <-> has p l d).
Proof. intros N. unfold has. rewrite nth_upd_other by assumption. tauto. Qed.

Lemma has_upd_at p l c f k :
  nth_error l c = Some k -> (has p (upd c f l) c <-> p (f k) = true).
Proof.
  intros E. unfold has. rewrite (nth_upd_same f l c k E). split.
  - intros (k' & X & P); inversion X; subst; assumption.
  - intros P; eexists; split; eauto.
Qed.

Lemma has_map p l g d : (forall k, p (g k) = p k) -> (has p (map g l) d <-> has p l d).
Proof.
  intros Hp. unfold has. rewrite nth_map. destruct (nth_error l d); simpl.
  - split; intros (k & E & P); inversion E; subst; eexists; split; eauto; congruence.
  - split; intros (k & E & _); discriminate.
Qed.

Lemma wake_opened k : is_opened (wake k) = is_opened k.
Proof. unfold wake. destruct k as [[] ? ? ? ? ? ? ? ?]; reflexivity. Qed.
Lemma wake_running k : is_running (wake k) = is_running k.
Proof. unfold wake. destruct k as [[] ? ? ? ? ? ? ? ?]; reflexivity. Qed.
Lemma wake_not_waiting k : is_waiting (wake k) = false.
Proof. unfold wake. destruct k as [[] ? ? ? ? ? ? ? ?]; reflexivity. Qed.
Lemma wake_ch k : k_ch (wake k) = k_ch k.
Proof. unfold wake. destruct k as [[] ? ? ? ? ? ? ? ?]; reflexivity. Qed.
Lemma wake_sh k : k_sh (wake k) = k_sh k.
Proof. unfold wake. destruct k as [[] ? ? ? ? ? ? ? ?]; reflexivity. Qed.
Lemma wake_closed_opened k : closed_opened (wake k) = closed_opened k.
Proof. unfold wake, closed_opened. destruct k as [[] ? ? ? ? ? ? ? ?]; reflexivity. Qed.

Lemma no_waiting_after_wake l : ~ exists c, has is_waiting (map wake l) c.
Proof.
  intros (c & k & E & P). rewrite nth_map in E. destruct (nth_error l c); simpl in E; inversion E; subst.
  rewrite wake_not_waiting in P; discriminate.
Qed.

Lemma pending_of_phase k :
  (k_cph k = CNew \/ k_cph k = CWaiting \/ k_cph k = CWoken) -> is_pending k = true.
Proof. unfold is_pending; intros [->|[->| ->]]; reflexivity. Qed.

Lemma running_op k : PC k -> k_sph k = SRunning -> h_op (k_sh k) = true.
Proof.
  intros H R. destruct (h_op (k_sh k)) eqn:E; auto.
  destruct (f3 k H E) as (_ & A & _). congruence.
Qed.

Lemma trail_false_se k : PC k -> k_trail k = false -> h_se (k_sh k) = false.
Proof. intros H T. destruct (h_se (k_sh k)) eqn:E; auto. rewrite (f13 k H E) in T; discriminate. Qed.

Lemma step_all_pc s o : all_pc (calls s) -> all_pc (calls (fst (step s o))).
Proof.
  intros A. destruct o as [c es|c|c|c|c|c| |c nonok|c|c x|n| | | ]; simpl.
  - (* COpenTry *)
    destruct (nth_error (calls s) c) as [k|] eqn:E; [|exact A].
    assert (P := A _ _ E).
    destruct (k_cph k) eqn:Ph; try exact A;
      (destruct (Z.of_nat (open_out s) <? maxc s)%Z; simpl;
       apply all_pc_upd; auto; intros k0 E0; rewrite E in E0; inversion E0; subst k0;
       [apply PC_open|apply PC_phase]; auto; apply pending_of_phase; auto).
  - (* CSendEnd *)
    destruct (nth_error (calls s) c) as [k|] eqn:E; [|exact A].
    destruct (k_cph k) eqn:Ph; try exact A.
    destruct (h2_open (k_ch k) && negb (h_se (k_ch k))) eqn:G; [|exact A].
    apply andb_prop in G; destruct G as [G1 G2]. apply negb_true_iff in G2.
    simpl. apply all_pc_upd; auto. intros k0 E0; rewrite E in E0; inversion E0; subst k0.
    apply (PC_csend k false); auto. apply (A _ _ E).
  - (* CCancel *)
    destruct (nth_error (calls s) c) as [k|] eqn:E; [|exact A].
    destruct (k_cph k) eqn:Ph; try exact A.
    destruct (h2_open (k_ch k)) eqn:G; [|exact A].
    simpl. apply all_pc_upd; auto. intros k0 E0; rewrite E in E0; inversion E0; subst k0.
    apply (PC_csend k true); auto. apply (A _ _ E). discriminate.
  - (* CExit *)
    destruct (nth_error (calls s) c) as [k|] eqn:E; [|exact A].
    assert (P := A _ _ E).
    destruct (k_cph k) eqn:Ph; try exact A; simpl.
    1-3: apply all_pc_upd; auto; intros k0 E0; rewrite E in E0; inversion E0; subst k0;
      apply PC_phase; auto; apply pending_of_phase; auto.
    apply all_pc_map_wake. apply all_pc_upd; auto.
    intros k0 E0; rewrite E in E0; inversion E0; subst k0. apply PC_cexit; auto.
  - (* DeliverC2S *)
    destruct (nth_error (calls s) c) as [k|] eqn:E; [|exact A].
    destruct (k_qc k) as [|f r] eqn:Q; [exact A|].
    destruct (srv_recv f k) as [k' reg] eqn:R. simpl.
    apply all_pc_upd; auto. intros k0 E0.
    replace k' with (fst (srv_recv f k)) by (rewrite R; reflexivity).
    apply PC_srv_recv with r; auto. apply (A _ _ E).
  - (* DeliverS2C *)
    destruct (nth_error (calls s) c) as [k|] eqn:E; [|exact A].
    destruct (k_qs k) as [|f r] eqn:Q; [exact A|]. simpl.
    apply all_pc_upd; auto. intros k0 E0; rewrite E in E0; inversion E0; subst k0.
    apply PC_cl_recv with r; auto. apply (A _ _ E).
  - (* DeliverSettings *)
    destruct (sq s); [exact A|]. simpl. apply all_pc_map_wake; assumption.
  - (* STrailers *)
    destruct (nth_error (calls s) c) as [k|] eqn:E; [|exact A].
    assert (P := A _ _ E).
    destruct (k_sph k) eqn:Ph; try exact A.
    destruct (k_trail k) eqn:T; [exact A|].
    destruct (h2_open (k_sh k)) eqn:OP; [|exact A]. simpl.
    destruct (srv_trailers nonok (k_sh k)) as [h fs] eqn:ST. simpl.
    apply all_pc_upd; auto. intros k0 E0; rewrite E in E0; inversion E0; subst k0.
    destruct (srv_trailers_facts _ _ _ _ OP (trail_false_se k P T) ST)
      as (B1 & B2 & B3 & B4 & B5 & B6 & B7 & B8 & B9 & B10).
    apply PC_sv; auto; try discriminate.
    + apply running_op; auto.
    + intros X. apply B5. apply (f15 k P X).
  - (* SCancel *)
    destruct (nth_error (calls s) c) as [k|] eqn:E; [|exact A].
    assert (P := A _ _ E).
    destruct (k_sph k) eqn:Ph; try exact A.
    destruct (k_cancel k) eqn:T; [exact A|].
    destruct (h2_open (k_sh k)) eqn:OP; [|exact A]. simpl.
    apply all_pc_upd; auto. intros k0 E0; rewrite E in E0; inversion E0; subst k0.
    destruct (open_is_op _ OP) as [O CL].
    apply PC_sv; auto; try discriminate; unfold h2_send_rst; rewrite OP; cbn; auto.
    + intros [X|[]]; discriminate.
    + apply (f13 k P).
    + apply (f14 k P).
  - (* SExit *)
    destruct (nth_error (calls s) c) as [k|] eqn:E; [|exact A].
    assert (P := A _ _ E).
    destruct (k_sph k) eqn:Ph; try exact A.
    set (silent := match x with KBase => true | _ => k_trail k || k_cancel k || negb (h2_open (k_sh k)) end).
    assert (SO := running_op k P Ph).
    destruct silent eqn:SI; simpl.
    + apply all_pc_upd; auto. intros k1 E0; rewrite E in E0; inversion E0; subst k1.
      apply PC_sv; auto; try discriminate.
      * intros X. rewrite (f13 k P X). reflexivity.
      * rewrite orb_false_r. apply (f14 k P).
      * apply (f15 k P).
      * intros X. inversion X as [L]. apply andb_false_iff in L. destruct L as [L|L].
        -- right. apply not_open_op_closed; auto.
        -- left. apply negb_false_iff in L; assumption.
    + destruct (srv_trailers match x with KErr => true | _ => false end (k_sh k)) as [h fs] eqn:ST.
      simpl. apply all_pc_upd; auto. intros k1 E0; rewrite E in E0; inversion E0; subst k1.
      assert (G : k_trail k = false /\ h2_open (k_sh k) = true).
      { unfold silent in SI. destruct x; try discriminate;
          apply orb_false_iff in SI; destruct SI as [SI1 SI2]; apply orb_false_iff in SI1;
          destruct SI1 as [SI1 SI3]; apply negb_false_iff in SI2; auto. }
      destruct G as [T OP].
      destruct (srv_trailers_facts _ _ _ _ OP (trail_false_se k P T) ST)
        as (B1 & B2 & B3 & B4 & B5 & B6 & B7 & B8 & B9 & B10).
      apply PC_sv; auto; try discriminate.
      * intros _. rewrite T; reflexivity.
      * intros X. apply B5. apply (f15 k P X).
  - (* SSettings *) exact A.
  - exact A.
  - apply all_pc_map; [apply PC_flush1|exact A].
  - apply all_pc_map; [apply PC_flush1|exact A].
Qed.

Lemma has_upd_eq p l c f k d :
  nth_error l c = Some k -> p (f k) = p k -> (has p (upd c f l) d <-> has p l d).
Proof.
  intros E Hp. destruct (Nat.eq_dec c d) as [->|N].
  - rewrite (has_upd_at p l d f k E). unfold has. rewrite E. split.
    + intros X; eexists; split; eauto; congruence.
    + intros (k' & X & Y); inversion X; subst; congruence.
  - apply has_upd_other; assumption.
Qed.

Lemma has_at p l c k : nth_error l c = Some k -> (has p l c <-> p k = true).
Proof.
  intros E; unfold has; rewrite E. split.
  - intros (k' & X & Y); inversion X; subst; assumption.
  - intros X; eexists; eauto.
Qed.

(* registries *)
Lemma step_creg s o : creg_ok s -> creg_ok (fst (step s o)).
Proof.
  intros [ND R]. unfold creg_ok.
  destruct o as [c es|c|c|c|c|c| |c nonok|c|c x|n| | | ]; simpl.
  - destruct (nth_error (calls s) c) as [k|] eqn:E; [|split; assumption].
    assert (NI : is_opened k = false -> ~ In c (creg s)).
    { intros X I. apply R in I. apply (has_at _ _ _ _ E) in I. congruence. }
    assert (G : is_pending k = true -> is_opened k = false) by (unfold is_pending, is_opened; destruct (k_cph k); auto; discriminate).
    assert (CASE : is_pending k = true ->
      (NoDup (c :: creg s) /\ forall d, In d (c :: creg s) <->
         has is_opened (upd c (fun k => set_cph COpened (cl_act (h2_new es false) [KHeaders es] k)) (calls s)) d) /\
      (NoDup (creg s) /\ forall d, In d (creg s) <-> has is_opened (upd c (set_cph CWaiting) (calls s)) d)).
    { intros PP. split; split; auto.
      - constructor; auto.
      - intros d. destruct (Nat.eq_dec c d) as [->|N].
        + rewrite (has_upd_at _ _ _ _ _ E). cbn. tauto.
        + rewrite has_upd_other by assumption. rewrite <- R. simpl. intuition congruence.
      - intros d. rewrite (has_upd_eq is_opened _ c _ k d E); [apply R|]. rewrite (G PP). reflexivity. }
    destruct (k_cph k) eqn:Ph; try (split; assumption);
      (destruct (Z.of_nat (open_out s) <? maxc s)%Z; simpl;
       [apply CASE|apply CASE]; unfold is_pending; rewrite Ph; reflexivity).
  - destruct (nth_error (calls s) c) as [k|] eqn:E; [|split; assumption].
    destruct (k_cph k) eqn:Ph; try (split; assumption).
    destruct (h2_open (k_ch k) && negb (h_se (k_ch k))); [|split; assumption].
    simpl; split; auto. intros d. rewrite (has_upd_eq is_opened _ c _ k d E); auto.
  - destruct (nth_error (calls s) c) as [k|] eqn:E; [|split; assumption].
    destruct (k_cph k) eqn:Ph; try (split; assumption).
    destruct (h2_open (k_ch k)); [|split; assumption].
    simpl; split; auto. intros d. rewrite (has_upd_eq is_opened _ c _ k d E); auto.
  - destruct (nth_error (calls s) c) as [k|] eqn:E; [|split; assumption].
    destruct (k_cph k) eqn:Ph; try (split; assumption); simpl.
    1-3: split; auto; intros d; rewrite (has_upd_eq is_opened _ c _ k d E); auto;
      unfold is_opened; cbn; rewrite Ph; reflexivity.
    split; [apply nodup_remove_nat; assumption|].
    intros d. rewrite in_remove_nat. rewrite (has_map _ _ _ _ wake_opened).
    destruct (Nat.eq_dec c d) as [->|N].
    + rewrite (has_upd_at _ _ _ _ _ E). cbn. intuition discriminate.
    + rewrite has_upd_other by assumption. rewrite R. intuition congruence.
  - destruct (nth_error (calls s) c) as [k|] eqn:E; [|split; assumption].
    destruct (k_qc k) as [|f r] eqn:Q; [split; assumption|].
    destruct (srv_recv f k) as [k' reg] eqn:SR. simpl. split; auto.
    intros d. rewrite (has_upd_eq is_opened _ c _ k d E); auto.
    unfold srv_recv in SR. destruct f; [destruct (h_op (k_sh k))| |]; inversion SR; reflexivity.
  - destruct (nth_error (calls s) c) as [k|] eqn:E; [|split; assumption].
    destruct (k_qs k) as [|f r] eqn:Q; [split; assumption|].
    simpl. split; auto. intros d. rewrite (has_upd_eq is_opened _ c _ k d E); auto.
  - destruct (sq s); [split; assumption|]. simpl. split; auto.
    intros d. rewrite (has_map _ _ _ _ wake_opened). apply R.
  - destruct (nth_error (calls s) c) as [k|] eqn:E; [|split; assumption].
    destruct (k_sph k) eqn:Ph; try (split; assumption).
    destruct (k_trail k); [split; assumption|].
    destruct (negb (h2_open (k_sh k))); [split; assumption|].
    destruct (srv_trailers nonok (k_sh k)) as [h fs]. simpl. split; auto.
    intros d. rewrite (has_upd_eq is_opened _ c _ k d E); auto.
  - destruct (nth_error (calls s) c) as [k|] eqn:E; [|split; assumption].
    destruct (k_sph k) eqn:Ph; try (split; assumption).
    destruct (k_cancel k); [split; assumption|].
    destruct (negb (h2_open (k_sh k))); [split; assumption|].
    simpl. split; auto. intros d. rewrite (has_upd_eq is_opened _ c _ k d E); auto.
  - destruct (nth_error (calls s) c) as [k|] eqn:E; [|split; assumption].
    destruct (k_sph k) eqn:Ph; try (split; assumption).
    match goal with |- context[if ?b then _ else _] => destruct b end;
    [|destruct (srv_trailers _ _) as [h fs]]; simpl; (split; auto);
      intros d; rewrite (has_upd_eq is_opened _ c _ k d E); auto.
  - split; assumption.
  - split; assumption.
  - simpl. split; auto. intros d. rewrite has_map; [apply R|]. intros k0. unfold is_opened. rewrite flush1_cph. reflexivity.
  - simpl. split; auto. intros d. rewrite has_map; [apply R|]. intros k0. unfold is_opened. rewrite flush1_cph. reflexivity.
Qed.

Lemma step_sreg s o : all_pc (calls s) -> sreg_ok s -> sreg_ok (fst (step s o)).
Proof.
  intros A [ND R]. unfold sreg_ok.
  destruct o as [c es|c|c|c|c|c| |c nonok|c|c x|n| | | ]; simpl.
  - destruct (nth_error (calls s) c) as [k|] eqn:E; [|split; assumption].
    destruct (k_cph k) eqn:Ph; try (split; assumption);
      (destruct (Z.of_nat (open_out s) <? maxc s)%Z; simpl; (split; auto);
       intros d; rewrite (has_upd_eq is_running _ c _ k d E); auto).
  - destruct (nth_error (calls s) c) as [k|] eqn:E; [|split; assumption].
    destruct (k_cph k) eqn:Ph; try (split; assumption).
    destruct (h2_open (k_ch k) && negb (h_se (k_ch k))); [|split; assumption].
    simpl; split; auto. intros d. rewrite (has_upd_eq is_running _ c _ k d E); auto.
  - destruct (nth_error (calls s) c) as [k|] eqn:E; [|split; assumption].
    destruct (k_cph k) eqn:Ph; try (split; assumption).
    destruct (h2_open (k_ch k)); [|split; assumption].
    simpl; split; auto. intros d. rewrite (has_upd_eq is_running _ c _ k d E); auto.
  - destruct (nth_error (calls s) c) as [k|] eqn:E; [|split; assumption].
    destruct (k_cph k) eqn:Ph; try (split; assumption); simpl; (split; auto); intros d;
      try rewrite (has_map _ _ _ _ wake_running);
      rewrite (has_upd_eq is_running _ c _ k d E); auto.
  - destruct (nth_error (calls s) c) as [k|] eqn:E; [|split; assumption].
    destruct (k_qc k) as [|f r] eqn:Q; [split; assumption|].
    destruct (srv_recv f k) as [k' reg] eqn:SR. simpl.
    unfold srv_recv in SR.
    destruct f as [es| |]; [destruct (h_op (k_sh k)) eqn:SO| |]; inversion SR; subst k' reg; clear SR.
    2: { (* a new request: register *)
      destruct (f3 k (A _ _ E) SO) as (_ & SN & _).
      assert (NI : ~ In c (sreg s)).
      { intros I. apply R in I. apply (has_at _ _ _ _ E) in I. unfold is_running in I.
        rewrite SN in I; discriminate. }
      split; [constructor; auto|]. intros d. destruct (Nat.eq_dec c d) as [->|N].
      - rewrite (has_upd_at _ _ _ _ _ E). cbn. tauto.
      - rewrite has_upd_other by assumption. rewrite <- R. simpl. intuition congruence. }
    all: split; auto; intros d; rewrite (has_upd_eq is_running _ c _ k d E); auto.
  - destruct (nth_error (calls s) c) as [k|] eqn:E; [|split; assumption].
    destruct (k_qs k) as [|f r] eqn:Q; [split; assumption|].
    simpl. split; auto. intros d. rewrite (has_upd_eq is_running _ c _ k d E); auto.
  - destruct (sq s); [split; assumption|]. simpl. split; auto.
    intros d. rewrite (has_map _ _ _ _ wake_running). apply R.
  - destruct (nth_error (calls s) c) as [k|] eqn:E; [|split; assumption].
    destruct (k_sph k) eqn:Ph; try (split; assumption).
    destruct (k_trail k); [split; assumption|].
    destruct (negb (h2_open (k_sh k))); [split; assumption|].
    destruct (srv_trailers nonok (k_sh k)) as [h fs]. simpl. split; auto.
    intros d. rewrite (has_upd_eq is_running _ c _ k d E); auto.
    unfold is_running; cbn; rewrite Ph; reflexivity.
  - destruct (nth_error (calls s) c) as [k|] eqn:E; [|split; assumption].
    destruct (k_sph k) eqn:Ph; try (split; assumption).
    destruct (k_cancel k); [split; assumption|].
    destruct (negb (h2_open (k_sh k))); [split; assumption|].
    simpl. split; auto. intros d. rewrite (has_upd_eq is_running _ c _ k d E); auto.
    unfold is_running; cbn; rewrite Ph; reflexivity.
  - destruct (nth_error (calls s) c) as [k|] eqn:E; [|split; assumption].
    destruct (k_sph k) eqn:Ph; try (split; assumption).
    match goal with |- context[if ?b then _ else _] => destruct b end;
    [|destruct (srv_trailers _ _) as [h fs]]; simpl;
      (split; [apply nodup_remove_nat; assumption|]);
      intros d; rewrite in_remove_nat;
      (destruct (Nat.eq_dec c d) as [->|N];
       [ rewrite (has_upd_at _ _ _ _ _ E); cbn; intuition discriminate
       | rewrite has_upd_other by assumption; rewrite R; intuition congruence ]).
  - split; assumption.
  - split; assumption.
  - simpl. split; auto. intros d. rewrite has_map; [apply R|]. intros k0. unfold is_running. rewrite flush1_sph. reflexivity.
  - simpl. split; auto. intros d. rewrite has_map; [apply R|]. intros k0. unfold is_running. rewrite flush1_sph. reflexivity.
Qed.

(* waiters *)
Definition open_cnt (l : list call) : nat := count (fun k => h2_open (k_ch k)) l.
Definition waiter_ok' (l : list call) (m : Z) : Prop :=
  (exists c, has is_waiting l c) ->
  (m <= Z.of_nat (open_cnt l))%Z \/ exists c, has closed_opened l c.

Lemma waiter_ok_eq s : waiter_ok s <-> waiter_ok' (calls s) (maxc s).
Proof. reflexivity. Qed.

Lemma open_is_opened k : PC k -> h2_open (k_ch k) = true -> k_cph k = COpened.
Proof.
  intros H OP. destruct (open_is_op _ OP) as [O _].
  destruct (k_cph k) eqn:Ph; auto.
  1-3: assert (X : is_pending k = true) by (unfold is_pending; rewrite Ph; reflexivity);
    rewrite (f1a k H X) in O; discriminate.
  rewrite (f1c k H Ph) in OP; discriminate.
Qed.

Lemma waiter_none l m : ~ (exists c, has is_waiting l c) -> waiter_ok' l m.
Proof. intros N W; contradiction. Qed.

(* an update of one call that keeps its client phase, keeps `opened' of its client h2 view and never
   re-opens a closed stream *)
Lemma waiter_upd_mono l m c f k :
  waiter_ok' l m -> nth_error l c = Some k -> PC k ->
  k_cph (f k) = k_cph k -> h_op (k_ch (f k)) = h_op (k_ch k) ->
  (h2_closed (k_ch k) = true -> h2_closed (k_ch (f k)) = true) ->
  waiter_ok' (upd c f l) m.
Proof.
  intros W E P HP HO HC [d Wd].
  assert (SW : forall d, has is_waiting (upd c f l) d <-> has is_waiting l d).
  { intros d'. apply (has_upd_eq is_waiting l c f k d' E). unfold is_waiting; rewrite HP; reflexivity. }
  assert (TR : forall d, has closed_opened l d -> has closed_opened (upd c f l) d).
  { intros d' Hd. destruct (Nat.eq_dec c d') as [->|N].
    - apply (has_at _ _ _ _ E) in Hd. apply (has_upd_at _ _ _ _ _ E).
      unfold closed_opened, is_opened in *. rewrite HP. apply andb_prop in Hd; destruct Hd as [A B].
      rewrite A, (HC B); reflexivity.
    - apply has_upd_other; assumption. }
  destruct W as [W|[d' W]].
  - exists d; apply SW; assumption.
  - pose proof (count_upd (fun k => h2_open (k_ch k)) f l c k E) as CU. fold (open_cnt (upd c f l)) in CU.
    fold (open_cnt l) in CU.
    destruct (h2_open (k_ch k)) eqn:O1; destruct (h2_open (k_ch (f k))) eqn:O2; try (left; lia).
    right. exists c. apply (has_upd_at _ _ _ _ _ E).
    unfold closed_opened, is_opened. rewrite HP, (open_is_opened k P O1). simpl.
    apply not_open_op_closed; auto. rewrite HO. apply (open_is_op _ O1).
  - right. exists d'. apply TR; assumption.
Qed.

(* an update of one call that does not touch the client side at all *)
Lemma waiter_upd_server l m c f k :
  waiter_ok' l m -> nth_error l c = Some k -> PC k ->
  k_cph (f k) = k_cph k -> k_ch (f k) = k_ch k -> waiter_ok' (upd c f l) m.
Proof.
  intros W E P HP HC. apply waiter_upd_mono with k; auto; rewrite HC; auto.
Qed.

Lemma waiter_map l m g :
  (forall k, k_cph (g k) = k_cph k) -> (forall k, k_ch (g k) = k_ch k) ->
  waiter_ok' l m -> waiter_ok' (map g l) m.
Proof.
  intros G1 G2 W [d Wd].
  assert (P1 : forall d, has is_waiting (map g l) d <-> has is_waiting l d)
    by (intros d'; apply has_map; intros k; unfold is_waiting; rewrite G1; reflexivity).
  assert (P2 : forall d, has closed_opened (map g l) d <-> has closed_opened l d)
    by (intros d'; apply has_map; intros k; unfold closed_opened, is_opened; rewrite G1, G2; reflexivity).
  destruct W as [W|[d' W]].
  - exists d. apply P1; assumption.
  - left. unfold open_cnt. rewrite count_map_same; auto. intros k. rewrite G2. reflexivity.
  - right. exists d'. apply P2; assumption.
Qed.

Lemma send_end_facts h :
  h_op (h2_send_end h) = h_op h /\ (h2_closed h = true -> h2_closed (h2_send_end h) = true).
Proof.
  unfold h2_send_end, h2_open, h2_closed. destruct h as [o se re sr rr]; cbn.
  destruct o, se, re, sr, rr; cbn; intuition.
Qed.
Lemma send_rst_facts h :
  h_op (h2_send_rst h) = h_op h /\ (h2_closed h = true -> h2_closed (h2_send_rst h) = true).
Proof.
  unfold h2_send_rst, h2_open, h2_closed. destruct h as [o se re sr rr]; cbn.
  destruct o, se, re, sr, rr; cbn; intuition.
Qed.

Lemma step_wait s o : all_pc (calls s) -> waiter_ok s -> waiter_ok (fst (step s o)).
Proof.
  intros A W. rewrite waiter_ok_eq in *.
  destruct o as [c es|c|c|c|c|c| |c nonok|c|c x|n| | | ]; simpl.
  - (* COpenTry *)
    destruct (nth_error (calls s) c) as [k|] eqn:E; [|exact W].
    assert (P := A _ _ E).
    assert (CASE : is_pending k = true ->
      waiter_ok' (upd c (fun k => set_cph COpened (cl_act (h2_new es false) [KHeaders es] k)) (calls s)) (maxc s) /\
      ((Z.of_nat (open_out s) <? maxc s)%Z = false -> waiter_ok' (upd c (set_cph CWaiting) (calls s)) (maxc s))).
    { intros PP. pose proof (f1a k P PP) as O. split.
      - intros [d Wd].
        assert (NC : d <> c).
        { intros ->. apply (has_upd_at _ _ _ _ _ E) in Wd. discriminate. }
        assert (Wd' : has is_waiting (calls s) d) by (rewrite has_upd_other in Wd; auto).
        pose proof (count_upd (fun k => h2_open (k_ch k)) (fun k => set_cph COpened (cl_act (h2_new es false) [KHeaders es] k)) _ c k E) as CU.
        fold (open_cnt (calls s)) in CU.
        match type of CU with count ?p ?l + _ = _ => fold (open_cnt l) in CU end.
        destruct W as [W|[d' W]]; [exists d; assumption| |].
        + left. cbn beta in CU. rewrite (op_false_not_open _ O) in CU. cbn in CU. lia.
        + right. exists d'. destruct (Nat.eq_dec c d') as [->|N].
          * apply (has_at _ _ _ _ E) in W. unfold closed_opened, is_opened, is_pending in *.
            destruct (k_cph k); discriminate.
          * apply has_upd_other; assumption.
      - intros LT _. left. apply Z.ltb_ge in LT. unfold open_out in LT.
        unfold open_cnt. rewrite count_upd_same; auto. }
    destruct (k_cph k) eqn:Ph; try exact W;
      (destruct (Z.of_nat (open_out s) <? maxc s)%Z eqn:LT; simpl;
       [apply CASE|apply CASE; auto]; unfold is_pending; rewrite Ph; reflexivity).
  - (* CSendEnd *)
    destruct (nth_error (calls s) c) as [k|] eqn:E; [|exact W].
    destruct (k_cph k) eqn:Ph; try exact W.
    destruct (h2_open (k_ch k) && negb (h_se (k_ch k))); [|exact W]. simpl.
    destruct (send_end_facts (k_ch k)). apply waiter_upd_mono with k; auto; try apply (A _ _ E).
  - (* CCancel *)
    destruct (nth_error (calls s) c) as [k|] eqn:E; [|exact W].
    destruct (k_cph k) eqn:Ph; try exact W.
    destruct (h2_open (k_ch k)); [|exact W]. simpl.
    destruct (send_rst_facts (k_ch k)). apply waiter_upd_mono with k; auto; try apply (A _ _ E).
  - (* CExit *)
    destruct (nth_error (calls s) c) as [k|] eqn:E; [|exact W].
    assert (P := A _ _ E).
    destruct (k_cph k) eqn:Ph; try exact W; simpl.
    4: apply waiter_none; apply no_waiting_after_wake.
    all: assert (PP : is_pending k = true) by (unfold is_pending; rewrite Ph; reflexivity);
      intros [d Wd];
      assert (NC : d <> c) by (intros ->; apply (has_upd_at _ _ _ _ _ E) in Wd; discriminate);
      assert (Wd' : has is_waiting (calls s) d) by (rewrite has_upd_other in Wd; auto);
      (destruct W as [W|[d' W]]; [exists d; assumption| |]);
      [ left; unfold open_cnt in *; rewrite count_upd_same; auto
      | right; exists d'; destruct (Nat.eq_dec c d') as [->|N];
        [ apply (has_at _ _ _ _ E) in W; unfold closed_opened, is_opened in W; rewrite Ph in W; discriminate
        | apply has_upd_other; assumption ] ].
  - (* DeliverC2S *)
    destruct (nth_error (calls s) c) as [k|] eqn:E; [|exact W].
    destruct (k_qc k) as [|f r] eqn:Q; [exact W|].
    destruct (srv_recv f k) as [k' reg] eqn:SR. simpl.
    assert (K : k_cph k' = k_cph k /\ k_ch k' = k_ch k).
    { unfold srv_recv in SR. destruct f as [es0| |]; [destruct (h_op (k_sh k))| |]; inversion SR;
        split; reflexivity. }
    destruct K. apply waiter_upd_server with k; auto; try apply (A _ _ E).
  - (* DeliverS2C *)
    destruct (nth_error (calls s) c) as [k|] eqn:E; [|exact W].
    destruct (k_qs k) as [|f r] eqn:Q; [exact W|]. simpl.
    destruct (recv_end_facts (k_ch k)) as (E1 & _ & _ & _ & _ & E6 & _).
    destruct (recv_rst_facts (k_ch k)) as (R1 & _ & _ & _ & R5 & _).
    apply waiter_upd_mono with k; auto; try apply (A _ _ E); destruct f; cbn; auto.
  - (* DeliverSettings *)
    destruct (sq s); [exact W|]. simpl. apply waiter_none; apply no_waiting_after_wake.
  - (* STrailers *)
    destruct (nth_error (calls s) c) as [k|] eqn:E; [|exact W].
    destruct (k_sph k) eqn:Ph; try exact W.
    destruct (k_trail k); [exact W|].
    destruct (negb (h2_open (k_sh k))); [exact W|].
    destruct (srv_trailers nonok (k_sh k)) as [h fs]. simpl.
    apply waiter_upd_server with k; auto; try apply (A _ _ E).
  - (* SCancel *)
    destruct (nth_error (calls s) c) as [k|] eqn:E; [|exact W].
    destruct (k_sph k) eqn:Ph; try exact W.
    destruct (k_cancel k); [exact W|].
    destruct (negb (h2_open (k_sh k))); [exact W|]. simpl.
    apply waiter_upd_server with k; auto; try apply (A _ _ E).
  - (* SExit *)
    destruct (nth_error (calls s) c) as [k|] eqn:E; [|exact W].
    destruct (k_sph k) eqn:Ph; try exact W.
    match goal with |- context[if ?b then _ else _] => destruct b end;
    [|destruct (srv_trailers _ _) as [h fs]]; simpl; apply waiter_upd_server with k; auto; try apply (A _ _ E).
  - exact W.
  - exact W.
  - simpl. apply waiter_map; auto using flush1_cph, flush1_ch.
  - simpl. apply waiter_map; auto using flush1_cph, flush1_ch.
Qed.

(* ------------------------------------------------------------------------------------------ *)
(* the invariant holds after every history *)

Lemma nth_repeat {A} (x : A) n c k : nth_error (repeat x n) c = Some k -> k = x.
Proof. revert c; induction n; intros [|c]; simpl; intros H; try discriminate; [inversion H; auto|eauto]. Qed.

Lemma count_upd_eq {A} (p : A -> bool) l c f k :
  nth_error l c = Some k -> p (f k) = p k -> count p (upd c f l) = count p l.
Proof. intros E H. pose proof (count_upd p f l c k E) as C. rewrite H in C. lia. Qed.

Lemma wake_held k : k_held (wake k) = k_held k.
Proof. unfold wake. destruct k as [[] ? ? ? ? ? ? ? ?]; reflexivity. Qed.

Lemma flush1_not_held k : k_held (flush1 k) = false.
Proof. unfold flush1. destruct (k_held k) eqn:E; cbn; auto. Qed.

Lemma step_held s o : held_ok s -> held_ok (fst (step s o)).
Proof.
  intros H. unfold held_ok in *.
  assert (FL : count k_held (map flush1 (calls s)) = 0).
  { apply count_zero. intros c k E. rewrite nth_map in E.
    destruct (nth_error (calls s) c); simpl in E; inversion E. apply flush1_not_held. }
  destruct o as [c es|c|c|c|c|c| |c nonok|c|c x|n| | | ]; simpl.
  - destruct (nth_error (calls s) c) as [k|] eqn:E; [|exact H].
    destruct (k_cph k); try exact H;
      (destruct (Z.of_nat (open_out s) <? maxc s)%Z; simpl; intros P;
       rewrite (count_upd_eq _ _ _ _ k E); auto).
  - destruct (nth_error (calls s) c) as [k|] eqn:E; [|exact H].
    destruct (k_cph k); try exact H.
    destruct (h2_open (k_ch k) && negb (h_se (k_ch k))); [|exact H]. simpl; intros P.
    rewrite (count_upd_eq _ _ _ _ k E); auto.
  - destruct (nth_error (calls s) c) as [k|] eqn:E; [|exact H].
    destruct (k_cph k); try exact H.
    destruct (h2_open (k_ch k)); [|exact H]. simpl; intros P.
    rewrite (count_upd_eq _ _ _ _ k E); auto.
  - destruct (nth_error (calls s) c) as [k|] eqn:E; [|exact H].
    destruct (k_cph k); try exact H; simpl; intros P.
    1-3: rewrite (count_upd_eq _ _ _ _ k E); auto.
    rewrite (count_map_same _ _ _ wake_held). rewrite (count_upd_eq _ _ _ _ k E); auto.
    cbn. rewrite P. rewrite andb_false_r. apply orb_false_r.
  - destruct (nth_error (calls s) c) as [k|] eqn:E; [|exact H].
    destruct (k_qc k) as [|f r] eqn:Q; [exact H|].
    destruct (srv_recv f k) as [k' reg] eqn:SR. simpl. intros P.
    rewrite (count_upd_eq _ _ _ _ k E); auto.
    unfold srv_recv in SR. destruct f; [destruct (h_op (k_sh k))| |]; inversion SR; reflexivity.
  - destruct (nth_error (calls s) c) as [k|] eqn:E; [|exact H].
    destruct (k_qs k) as [|f r] eqn:Q; [exact H|]. simpl. intros P.
    rewrite (count_upd_eq _ _ _ _ k E); auto.
  - destruct (sq s); [exact H|]. simpl. intros P. rewrite (count_map_same _ _ _ wake_held). auto.
  - destruct (nth_error (calls s) c) as [k|] eqn:E; [|exact H].
    destruct (k_sph k); try exact H.
    destruct (k_trail k); [exact H|]. destruct (negb (h2_open (k_sh k))); [exact H|].
    destruct (srv_trailers nonok (k_sh k)) as [h fs]. simpl. intros P.
    rewrite (count_upd_eq _ _ _ _ k E); auto.
  - destruct (nth_error (calls s) c) as [k|] eqn:E; [|exact H].
    destruct (k_sph k); try exact H.
    destruct (k_cancel k); [exact H|]. destruct (negb (h2_open (k_sh k))); [exact H|]. simpl. intros P.
    rewrite (count_upd_eq _ _ _ _ k E); auto.
  - destruct (nth_error (calls s) c) as [k|] eqn:E; [|exact H].
    destruct (k_sph k); try exact H.
    match goal with |- context[if ?b then _ else _] => destruct b end;
    [|destruct (srv_trailers _ _) as [h fs]]; simpl; intros P; rewrite (count_upd_eq _ _ _ _ k E); auto.
  - exact H.
  - intros P; discriminate.
  - intros _. exact FL.
  - intros _. exact FL.
Qed.

Lemma Inv_init n m : Inv (init n m).
Proof.
  constructor; simpl.
  - intros c k E. apply nth_repeat in E. subst. apply PC_call0.
  - split; [constructor|]. intros c. split; [intros []|].
    intros (k & E & P). apply nth_repeat in E. subst; discriminate.
  - split; [constructor|]. intros c. split; [intros []|].
    intros (k & E & P). apply nth_repeat in E. subst; discriminate.
  - intros (c & k & E & P). apply nth_repeat in E. subst; discriminate.
  - intros _. apply count_zero. intros c k E. apply nth_repeat in E. subst; reflexivity.
Qed.

Lemma Inv_step s o : Inv s -> Inv (fst (step s o)).
Proof.
  intros [A B C D F]. constructor.
  - apply step_all_pc; assumption.
  - apply step_creg; assumption.
  - apply step_sreg; assumption.
  - apply step_wait; assumption.
  - apply step_held; assumption.
Qed.

Lemma Inv_run ops s : Inv s -> Inv (run ops s).
Proof.
  revert s; induction ops as [|o r IH]; intros s H; simpl; [assumption|].
  apply IH. apply Inv_step; assumption.
Qed.

Definition reachable (s : state) : Prop := exists n m ops, s = run ops (init n m).

Lemma reachable_inv s : reachable s -> Inv s.
Proof. intros (n & m & ops & ->). apply Inv_run. apply Inv_init. Qed.

(* ------------------------------------------------------------------------------------------ *)
(* (1) tracked(side) = the calls of that side between successful open / accept and exit *)

Lemma tracked_invariant n m ops :
  let s := run ops (init n m) in
  (NoDup (creg s) /\ forall c, In c (creg s) <-> has is_opened (calls s) c) /\
  (NoDup (sreg s) /\ forall c, In c (sreg s) <-> has is_running (calls s) c).
Proof.
  intros s. destruct (Inv_run ops (init n m) (Inv_init n m)) as [_ B C _ _]. split; assumption.
Qed.

(* (2) nothing is left behind *)

Lemma nil_of_no_member (l : list nat) : (forall c, ~ In c l) -> l = [].
Proof. destruct l as [|x r]; auto. intros H. exfalso. apply (H x). left; reflexivity. Qed.

Definition all_calls (p : call -> bool) (s : state) : Prop :=
  forall c k, nth_error (calls s) c = Some k -> p k = true.

(* the client side alone: whatever the peer did *)
Lemma client_side_clean n m ops :
  let s := run ops (init n m) in
  all_calls is_cexited s -> creg s = [] /\ open_out s = 0.
Proof.
  intros s X. destruct (Inv_run ops (init n m) (Inv_init n m)) as [A [_ B] _ _ _]. fold s in A, B. split.
  - apply nil_of_no_member. intros c I. apply B in I. destruct I as (k & E & P).
    specialize (X _ _ E). unfold is_cexited, is_opened in *. destruct (k_cph k); discriminate.
  - apply count_zero. intros c k E. apply (f1c k (A _ _ E)).
    specialize (X _ _ E). unfold is_cexited in X. destruct (k_cph k); auto; discriminate.
Qed.

Lemma closed_cases h : h2_closed h = true -> h_sr h = true \/ h_rr h = true \/ (h_se h = true /\ h_re h = true).
Proof. unfold h2_closed. destruct (h_sr h), (h_rr h), (h_se h), (h_re h); simpl; auto; discriminate. Qed.

Lemma closed_of_sr h : h_sr h = true -> h2_closed h = true.
Proof. unfold h2_closed; intros ->; reflexivity. Qed.
Lemma closed_of_se_re h : h_se h = true -> h_re h = true -> h2_closed h = true.
Proof. unfold h2_closed; intros -> ->. destruct (h_sr h), (h_rr h); reflexivity. Qed.

Lemma srv_op_of_empty_wire k : PC k -> k_qc k = [] -> h_op (k_ch k) = true -> h_op (k_sh k) = true.
Proof.
  intros H Q CO. destruct (h_op (k_sh k)) eqn:SO; auto.
  destruct (f3 k H SO) as (_ & _ & X). destruct (X CO) as (es & r & E & _). congruence.
Qed.

(* once the client endpoint has closed the stream and its frames have been written and have arrived,
   the server's is closed *)
Lemma client_closed_closes_server k :
  PC k -> k_qc k = [] -> k_held k = false -> h2_open (k_ch k) = false -> h2_open (k_sh k) = false.
Proof.
  intros H Q HD NO. destruct (h_op (k_ch k)) eqn:CO.
  - pose proof (srv_op_of_empty_wire k H Q CO) as SO.
    apply closed_not_open.
    destruct (closed_cases _ (not_open_op_closed _ NO CO)) as [SR|[RR|[SE RE]]].
    + destruct (f6 k H SR) as [I|[I|C]]; auto; [congruence|]. rewrite Q in I; inversion I.
    + apply closed_of_sr. apply (f7 k H RR).
    + pose proof (f8 k H RE) as SSE.
      destruct (f5 k H SE) as [I|[I|[R|C]]]; auto; try (rewrite Q in I; inversion I).
      apply closed_of_se_re; assumption.
  - destruct (f2 k H CO) as [_ SO]. apply op_false_not_open; assumption.
Qed.

Lemma not_paused_not_held s c k :
  Inv s -> cpaused s = false -> nth_error (calls s) c = Some k -> k_held k = false.
Proof.
  intros I P E. pose proof (i_held s I P) as Z. rewrite count_zero in Z. apply (Z _ _ E).
Qed.

(* per call, whatever the handler does: the client has left the context, writing is possible and the
   client's frames have arrived => the stream counts on neither side (with the repaired D45: whatever
   reset_nowait could not write while paused is written by resume_writing) *)
Lemma client_exit_reaches_server n m ops c k :
  let s := run ops (init n m) in
  nth_error (calls s) c = Some k -> k_cph k = CExited -> k_qc k = [] -> cpaused s = false ->
  h2_open (k_ch k) = false /\ h2_open (k_sh k) = false.
Proof.
  intros s E X Q NP. pose proof (Inv_run ops (init n m) (Inv_init n m)) as I. fold s in I.
  pose proof (i_calls s I _ _ E) as P.
  pose proof (f1c k P X) as NO. split; auto.
  apply client_closed_closes_server; auto. apply (not_paused_not_held s c k I NP E).
Qed.

(* both sides: after any history in which all calls have exited (client contexts left, handlers ended),
   writing is not paused and the client's frames have arrived *)
Lemma no_open_streams n m ops :
  let s := run ops (init n m) in
  all_calls is_cexited s -> all_calls (fun k => negb (is_running k)) s ->
  all_calls (fun k => match k_qc k with [] => true | _ => false end) s ->
  cpaused s = false ->
  creg s = [] /\ sreg s = [] /\ open_out s = 0 /\ open_in s = 0.
Proof.
  intros s X Y Z NP. destruct (client_side_clean n m ops X) as [C1 C2]. fold s in C1, C2.
  pose proof (Inv_run ops (init n m) (Inv_init n m)) as I. fold s in I.
  pose proof (i_sreg s I) as [_ B].
  repeat split; auto.
  - apply nil_of_no_member. intros c I0. apply B in I0. destruct I0 as (k & E & P).
    specialize (Y _ _ E). cbn in Y. rewrite P in Y. discriminate.
  - apply count_zero. intros c k E.
    apply (client_exit_reaches_server n m ops c k E); auto.
    + specialize (X _ _ E). unfold is_cexited in X. destruct (k_cph k); auto; discriminate.
    + specialize (Z _ _ E). cbn in Z. destruct (k_qc k); auto; discriminate.
Qed.

(* while writing is paused the RST_STREAM of a context exit is held back; any write releases it, and
   resume_writing does so at the latest *)
Lemma flush_releases_held s :
  all_calls (fun k => negb (k_held k)) (fst (step s CFlush)) /\
  (all_calls (fun k => negb (k_held k)) (fst (step s CResume)) /\ cpaused (fst (step s CResume)) = false).
Proof.
  assert (F : all_calls (fun k => negb (k_held k)) (with_calls s (map flush1 (calls s)))).
  { intros c k E. simpl in E. rewrite nth_map in E.
    destruct (nth_error (calls s) c) as [k0|]; simpl in E; inversion E.
    unfold flush1. destruct (k_held k0) eqn:HD; cbn; [reflexivity|rewrite HD; reflexivity]. }
  split; [exact F|split; [exact F|reflexivity]].
Qed.

Definition held_example : list op := [COpenTry 0 false; DeliverC2S 0; CPause; CExit 0].

Lemma exit_while_paused_is_held_then_released :
  let s := run held_example (init 1 100%Z) in
  creg s = [] /\ open_out s = 0 /\ open_in s = 1 /\ idx_where k_held (calls s) = [0] /\
  let s' := run [CResume; DeliverC2S 0] s in
  idx_where k_held (calls s') = [] /\ open_in s' = 0.
Proof. cbn. repeat split; reflexivity. Qed.

(* the server side alone, against any client that has closed its half of every stream.
   FULL STATEMENT (false, see no_open_streams_server_refuted):
     forall history, every handler has ended -> the client's frames have arrived ->
     the client has closed its half of every stream -> sreg = [] /\ open_in = 0.
   The hypothesis `is_leak k = false' of the partial theorem excludes exactly the handlers that ended
   in a BaseException (KBase) while their stream was neither closed nor ended by the server -- D4. *)
Lemma finished_handler_closed k :
  PC k -> k_sph k = SExited false -> k_qc k = [] -> client_half_closed k = true ->
  h2_open (k_sh k) = false.
Proof.
  intros H X Q HC.
  assert (SO : h_op (k_sh k) = true).
  { destruct (h_op (k_sh k)) eqn:E; auto. destruct (f3 k H E) as (_ & N & _). congruence. }
  assert (CO : h_op (k_ch k) = true).
  { destruct (h_op (k_ch k)) eqn:E; auto. destruct (f2 k H E) as [_ N]. congruence. }
  unfold client_half_closed in HC. apply andb_prop in HC. destruct HC as [HD HC].
  apply negb_true_iff in HD. rewrite CO in HC. simpl in HC.
  apply orb_prop in HC. destruct HC as [SE|CL].
  - apply closed_not_open.
    destruct (f12 k H X) as [SSE|C]; auto.
    destruct (f5 k H SE) as [I|[I|[R|C]]]; auto; try (rewrite Q in I; inversion I).
    apply closed_of_se_re; assumption.
  - apply client_closed_closes_server; auto. apply closed_not_open; assumption.
Qed.

Lemma no_open_streams_server_partial n m ops :
  let s := run ops (init n m) in
  all_calls (fun k => negb (is_running k)) s ->
  all_calls (fun k => negb (is_leak k)) s ->
  all_calls (fun k => match k_qc k with [] => true | _ => false end) s ->
  all_calls client_half_closed s ->
  sreg s = [] /\ open_in s = 0.
Proof.
  intros s Y L Z HC.
  destruct (Inv_run ops (init n m) (Inv_init n m)) as [A _ [_ B] _ _]. fold s in A, B.
  split.
  - apply nil_of_no_member. intros c I. apply B in I. destruct I as (k & E & P).
    specialize (Y _ _ E). cbn in Y. rewrite P in Y. discriminate.
  - apply count_zero. intros c k E. pose proof (A _ _ E) as P.
    specialize (Y _ _ E); specialize (L _ _ E); specialize (Z _ _ E); specialize (HC _ _ E).
    cbn in Y, L, Z. unfold is_running, is_leak in *.
    destruct (k_sph k) as [| |[|]] eqn:Ph; try discriminate.
    + destruct (h_op (k_sh k)) eqn:SO; [|apply op_false_not_open; assumption].
      destruct (f4 k P SO) as [_ N]. congruence.
    + apply finished_handler_closed; auto. destruct (k_qc k); auto; discriminate.
Qed.

Definition d4_witness : list op :=
  [COpenTry 0 false; CSendEnd 0; DeliverC2S 0; DeliverC2S 0; SExit 0 KBase].

Lemma no_open_streams_server_refuted :
  exists n m ops, let s := run ops (init n m) in
    all_calls (fun k => negb (is_running k)) s /\
    all_calls (fun k => match k_qc k with [] => true | _ => false end) s /\
    all_calls client_half_closed s /\
    sreg s = [] /\ open_in s = 1 /\ open_out s = 1.
Proof.
  exists 1, 100%Z, d4_witness. cbn.
  repeat split; auto; intros [|[|c]] k E; cbn in E; inversion E; reflexivity.
Qed.

(* the excluded class is exactly D4: a handler is marked `leak' only when it ended in a BaseException
   (or was cancelled before its first step) while no END_STREAM had been sent and the stream counted *)
Lemma leak_only_from_base s c x k k' :
  PC k -> nth_error (calls s) c = Some k -> k_sph k = SRunning ->
  nth_error (calls (fst (step s (SExit c x)))) c = Some k' -> k_sph k' = SExited true ->
  x = KBase /\ h2_open (k_sh k) = true /\ h_se (k_sh k) = false.
Proof.
  intros P E R E' L. simpl in E'. rewrite E, R in E'.
  assert (BASE : forall tr fs, k' = sv_act (SExited (h2_open (k_sh k) && negb (h_se (k_sh k)))) (k_sh k) tr (k_cancel k) fs k ->
                 h2_open (k_sh k) = true /\ h_se (k_sh k) = false).
  { intros tr fs ->. cbn in L. inversion L as [L']. apply andb_prop in L'. destruct L' as [L1 L2].
    apply negb_true_iff in L2. rewrite L1, L2. auto. }
  destruct x; cbn -[srv_trailers] in E'.
  3: { rewrite (nth_upd_same _ _ _ _ E) in E'. inversion E' as [E2]. symmetry in E2.
       destruct (BASE _ _ E2). auto. }
  all: exfalso;
    destruct (k_trail k || k_cancel k || negb (h2_open (k_sh k))) eqn:SI; cbn -[srv_trailers] in E'.
  1,3: rewrite (nth_upd_same _ _ _ _ E) in E'; inversion E' as [E2]; symmetry in E2;
    destruct (BASE _ _ E2) as [B1 B2];
    apply orb_prop in SI; destruct SI as [SI|SI]; [|rewrite B1 in SI; discriminate];
    apply orb_prop in SI; destruct SI as [SI|SI];
    [ rewrite (f14 k P SI) in B2; discriminate
    | pose proof (closed_not_open _ (closed_of_sr _ (f15 k P SI))); congruence ].
  all: apply orb_false_iff in SI; destruct SI as [SI1 SI2]; apply orb_false_iff in SI1;
    destruct SI1 as [SI1 SI3]; apply negb_false_iff in SI2;
    match type of E' with context[srv_trailers ?b ?h] => destruct (srv_trailers b h) as [h0 fs] eqn:ST end;
    cbn -[srv_trailers] in E'; rewrite (nth_upd_same _ _ _ _ E) in E'; inversion E'; subst k'; cbn in L;
    destruct (srv_trailers_facts _ _ _ _ SI2 (trail_false_se k P SI1) ST) as (_ & _ & _ & B4 & _);
    rewrite B4 in L; rewrite andb_false_r in L; discriminate.
Qed.

(* ------------------------------------------------------------------------------------------ *)
(* (3) waiters *)

Lemma forallb_nth {A} (p : A -> bool) l c k :
  forallb p l = true -> nth_error l c = Some k -> p k = true.
Proof.
  revert c; induction l as [|x r IH]; intros [|c] F E; simpl in *; try discriminate;
    apply andb_prop in F; destruct F as [F1 F2].
  - inversion E; subst; assumption.
  - eapply IH; eauto.
Qed.

(* no lost wake-up: in every reachable quiescent state a call blocked on stream_close_waiter faces a
   full connection (as many open outbound streams as the last announced limit allows) *)
Lemma no_lost_wakeup n m ops c :
  let s := run ops (init n m) in
  quiescent s = true -> has is_waiting (calls s) c -> (maxc s <= Z.of_nat (open_out s))%Z.
Proof.
  intros s Q W. destruct (Inv_run ops (init n m) (Inv_init n m)) as [_ _ _ WK _]. fold s in WK.
  destruct WK as [WK|[d (k & E & P)]]; [exists c; assumption|assumption|].
  exfalso. unfold quiescent in Q. destruct (sq s); [|discriminate].
  pose proof (forallb_nth _ _ _ _ Q E) as X. cbn in X.
  unfold closed_opened in P. rewrite P in X. rewrite andb_false_r in X. discriminate.
Qed.

(* every release (client context exit of an opened call) wakes ALL waiters ... *)
Lemma release_wakes_all s c k :
  nth_error (calls s) c = Some k -> k_cph k = COpened ->
  let s' := fst (step s (CExit c)) in
  (forall d, ~ has is_waiting (calls s') d) /\ flag s' = true /\
  (forall d, has is_waiting (calls s) d -> has is_woken (calls s') d).
Proof.
  intros E Ph. simpl. rewrite E, Ph. simpl. repeat split.
  - intros d W. apply (no_waiting_after_wake _ (ex_intro _ d W)).
  - intros d (kd & Ed & Pd). unfold has. rewrite nth_map.
    assert (d <> c).
    { intros ->. rewrite E in Ed. inversion Ed; subst. unfold is_waiting in Pd. rewrite Ph in Pd. discriminate. }
    rewrite nth_upd_other by auto. rewrite Ed. simpl. eexists; split; eauto.
    unfold wake, is_waiting, is_woken in *. destruct (k_cph kd); try discriminate. reflexivity.
Qed.

(* ... and so does every MAX_CONCURRENT_STREAMS announcement that arrives (raised or lowered) *)
Lemma settings_wake_all s v rest :
  sq s = v :: rest ->
  let s' := fst (step s DeliverSettings) in
  maxc s' = v /\ (forall d, ~ has is_waiting (calls s') d) /\ flag s' = true /\
  (forall d, has is_waiting (calls s) d -> has is_woken (calls s') d).
Proof.
  intros Q. simpl. rewrite Q. simpl. repeat split.
  - intros d W. apply (no_waiting_after_wake _ (ex_intro _ d W)).
  - intros d (kd & Ed & Pd). unfold has. rewrite nth_map, Ed. simpl. eexists; split; eauto.
    unfold wake, is_waiting, is_woken in *. destruct (k_cph kd); try discriminate. reflexivity.
Qed.

(* asyncio's rule: a woken waiter stays runnable whatever happens (in particular when another retry
   clears the flag) until it runs itself or its task leaves *)
Lemma woken_stays_woken s o c :
  has is_woken (calls s) c ->
  (forall es, o <> COpenTry c es) -> o <> CExit c ->
  has is_woken (calls (fst (step s o))) c.
Proof.
  intros (k & E & P) N1 N2.
  assert (U : forall d f, (d = c -> is_woken (f k) = true) -> has is_woken (upd d f (calls s)) c).
  { intros d f F. destruct (Nat.eq_dec d c) as [->|N].
    - apply (has_upd_at _ _ _ _ _ E). auto.
    - apply has_upd_other; auto. exists k; auto. }
  assert (WK : is_woken (wake k) = true).
  { revert P. unfold wake, is_woken. destruct (k_cph k) eqn:X; try discriminate; cbn; rewrite ?X; reflexivity. }
  assert (H0 : has is_woken (calls s) c) by (exists k; auto).
  destruct o as [d es|d|d|d|d|d| |d nonok|d|d x|v| | | ]; simpl.
  - destruct (nth_error (calls s) d) as [kd|] eqn:Ed; [|exact H0].
    destruct (k_cph kd) eqn:Ph; try exact H0;
      (destruct (Z.of_nat (open_out s) <? maxc s)%Z; simpl; apply U; intros ->; exfalso; apply (N1 es); reflexivity).
  - destruct (nth_error (calls s) d) as [kd|] eqn:Ed; [|exact H0].
    destruct (k_cph kd) eqn:Ph; try exact H0.
    destruct (h2_open (k_ch kd) && negb (h_se (k_ch kd))); [|exact H0]. simpl. apply U. intros ->.
    rewrite E in Ed; inversion Ed; subst. unfold is_woken in P. rewrite Ph in P. discriminate.
  - destruct (nth_error (calls s) d) as [kd|] eqn:Ed; [|exact H0].
    destruct (k_cph kd) eqn:Ph; try exact H0.
    destruct (h2_open (k_ch kd)); [|exact H0]. simpl. apply U. intros ->.
    rewrite E in Ed; inversion Ed; subst. unfold is_woken in P. rewrite Ph in P. discriminate.
  - destruct (nth_error (calls s) d) as [kd|] eqn:Ed; [|exact H0].
    assert (d <> c) by (intros ->; apply N2; reflexivity).
    destruct (k_cph kd) eqn:Ph; try exact H0; simpl.
    1-3: apply has_upd_other; auto.
    unfold has. rewrite nth_map, nth_upd_other by auto. rewrite E. simpl. eexists; split; eauto.
  - destruct (nth_error (calls s) d) as [kd|] eqn:Ed; [|exact H0].
    destruct (k_qc kd) as [|f r] eqn:Q; [exact H0|].
    destruct (srv_recv f kd) as [k' reg] eqn:SR. simpl. apply U. intros ->.
    rewrite E in Ed; inversion Ed; subst kd.
    unfold srv_recv in SR. destruct f; [destruct (h_op (k_sh k))| |]; inversion SR; exact P.
  - destruct (nth_error (calls s) d) as [kd|] eqn:Ed; [|exact H0].
    destruct (k_qs kd) as [|f r] eqn:Q; [exact H0|]. simpl. apply U. intros ->. exact P.
  - destruct (sq s); [exact H0|]. simpl. unfold has. rewrite nth_map, E. simpl. eexists; split; eauto.
  - destruct (nth_error (calls s) d) as [kd|] eqn:Ed; [|exact H0].
    destruct (k_sph kd) eqn:Ph; try exact H0.
    destruct (k_trail kd); [exact H0|]. destruct (negb (h2_open (k_sh kd))); [exact H0|].
    destruct (srv_trailers nonok (k_sh kd)) as [h fs]. simpl. apply U. intros ->. exact P.
  - destruct (nth_error (calls s) d) as [kd|] eqn:Ed; [|exact H0].
    destruct (k_sph kd) eqn:Ph; try exact H0.
    destruct (k_cancel kd); [exact H0|]. destruct (negb (h2_open (k_sh kd))); [exact H0|].
    simpl. apply U. intros ->. exact P.
  - destruct (nth_error (calls s) d) as [kd|] eqn:Ed; [|exact H0].
    destruct (k_sph kd) eqn:Ph; try exact H0.
    match goal with |- context[if ?b then _ else _] => destruct b end;
    [|destruct (srv_trailers _ _) as [h fs]]; simpl; apply U; intros ->; exact P.
  - exact H0.
  - exact H0.
  - simpl. unfold has. rewrite nth_map, E. simpl. eexists; split; eauto.
    unfold is_woken. rewrite flush1_cph. exact P.
  - simpl. unfold has. rewrite nth_map, E. simpl. eexists; split; eauto.
    unfold is_woken. rewrite flush1_cph. exact P.
Qed.

(* a woken (or new) call that finds a free slot proceeds *)
Lemma woken_with_slot_proceeds s c k es :
  nth_error (calls s) c = Some k -> (k_cph k = CWoken \/ k_cph k = CNew) ->
  (Z.of_nat (open_out s) < maxc s)%Z ->
  snd (step s (COpenTry c es)) = OOpened /\ has is_opened (calls (fst (step s (COpenTry c es)))) c /\
  In c (creg (fst (step s (COpenTry c es)))).
Proof.
  intros E Ph LT. apply Z.ltb_lt in LT. simpl. rewrite E.
  destruct Ph as [Ph|Ph]; rewrite Ph, LT; simpl; (repeat split; [|left; reflexivity]);
    apply (has_upd_at _ _ _ _ _ E); reflexivity.
Qed.

(* ... and one that does not re-blocks (clear-then-wait), nothing else changes *)
Lemma woken_without_slot_reblocks s c k es :
  nth_error (calls s) c = Some k -> (k_cph k = CWoken \/ k_cph k = CNew) ->
  (maxc s <= Z.of_nat (open_out s))%Z ->
  snd (step s (COpenTry c es)) = OBlocked /\
  fst (step s (COpenTry c es)) =
    Build_state (upd c (set_cph CWaiting) (calls s)) (creg s) (sreg s) (maxc s) false (sq s) (cpaused s).
Proof.
  intros E Ph LE. apply Z.ltb_ge in LE. simpl. rewrite E.
  destruct Ph as [Ph|Ph]; rewrite Ph, LE; simpl; auto.
Qed.

(* ------------------------------------------------------------------------------------------ *)
(* (4) the documented non-FIFO behaviour: no waiter is lost, and with enough releases all proceed *)

Definition is_nw (k : call) : bool := match k_cph k with CNew | CWoken => true | _ => false end.

Definition retry (l : list (nat * bool)) (s : state) : state :=
  fold_left (fun s ce => fst (step s (COpenTry (fst ce) (snd ce)))) l s.

Definition phi (s : state) : nat := 2 * pending_count s + opened_count s.

Lemma try_counts s c es :
  let s' := fst (step s (COpenTry c es)) in
  maxc s' = maxc s /\
  ((pending_count s' = pending_count s /\ opened_count s' = opened_count s) \/
   (S (pending_count s') = pending_count s /\ opened_count s' = S (opened_count s))).
Proof.
  simpl. destruct (nth_error (calls s) c) as [k|] eqn:E; [|auto].
  assert (CASE : is_nw k = true ->
    (S (count is_pending (upd c (fun k => set_cph COpened (cl_act (h2_new es false) [KHeaders es] k)) (calls s))) = count is_pending (calls s) /\
     count is_opened (upd c (fun k => set_cph COpened (cl_act (h2_new es false) [KHeaders es] k)) (calls s)) = S (count is_opened (calls s))) /\
    (count is_pending (upd c (set_cph CWaiting) (calls s)) = count is_pending (calls s) /\
     count is_opened (upd c (set_cph CWaiting) (calls s)) = count is_opened (calls s))).
  { intros NW.
    assert (is_pending k = true /\ is_opened k = false) as [PK OK]
      by (unfold is_nw, is_pending, is_opened in *; destruct (k_cph k); try discriminate; auto).
    repeat split.
    - pose proof (count_upd is_pending (fun k => set_cph COpened (cl_act (h2_new es false) [KHeaders es] k)) _ c k E) as C.
      rewrite PK in C. cbn in C. lia.
    - pose proof (count_upd is_opened (fun k => set_cph COpened (cl_act (h2_new es false) [KHeaders es] k)) _ c k E) as C.
      rewrite OK in C. cbn in C. lia.
    - apply count_upd_same. intros k0 E0; rewrite E in E0; inversion E0; subst. rewrite PK; reflexivity.
    - apply count_upd_same. intros k0 E0; rewrite E in E0; inversion E0; subst. rewrite OK; reflexivity. }
  unfold pending_count, opened_count.
  destruct (k_cph k) eqn:Ph; auto;
    (destruct (Z.of_nat (open_out s) <? maxc s)%Z; simpl; (split; [reflexivity|]);
     [right|left]; apply CASE; unfold is_nw; rewrite Ph; reflexivity).
Qed.

Lemma retry_cons c es r s : retry ((c, es) :: r) s = retry r (fst (step s (COpenTry c es))).
Proof. reflexivity. Qed.

Lemma retry_counts l s :
  maxc (retry l s) = maxc s /\
  pending_count (retry l s) + opened_count (retry l s) = pending_count s + opened_count s /\
  pending_count (retry l s) <= pending_count s.
Proof.
  revert s; induction l as [|[c es] r IH]; intros s; [simpl; auto|].
  rewrite retry_cons.
  destruct (IH (fst (step s (COpenTry c es)))) as (M & A & B).
  destruct (try_counts s c es) as (M' & [[P O]|[P O]]);
    (split; [congruence|]); split; lia.
Qed.

Lemma Inv_retry l s : Inv s -> Inv (retry l s).
Proof.
  revert s; induction l as [|[c es] r IH]; intros s H; [simpl; auto|].
  rewrite retry_cons. apply IH. apply Inv_step; assumption.
Qed.

(* a call still New/Woken after the retries was so before and was not in the list *)
Lemma retry_nw l s d :
  has is_nw (calls (retry l s)) d -> has is_nw (calls s) d /\ ~ In d (map fst l).
Proof.
  revert s; induction l as [|[c es] r IH]; intros s H; [simpl in *; tauto|].
  rewrite retry_cons in H.
  destruct (IH _ H) as [H1 H2]. clear IH H.
  assert (X : has is_nw (calls s) d /\ c <> d).
  { simpl in H1. destruct (nth_error (calls s) c) as [k|] eqn:E.
    - destruct (Nat.eq_dec c d) as [->|N].
      + exfalso. destruct (k_cph k) eqn:Ph; simpl in H1;
          try (apply (has_at _ _ _ _ E) in H1; unfold is_nw in H1; rewrite Ph in H1; discriminate);
          (destruct (Z.of_nat (open_out s) <? maxc s)%Z; simpl in H1;
           apply (has_upd_at _ _ _ _ _ E) in H1; discriminate).
      + split; auto. destruct (k_cph k); simpl in H1; auto;
          (destruct (Z.of_nat (open_out s) <? maxc s)%Z; simpl in H1;
           rewrite has_upd_other in H1; auto).
    - simpl in H1. split; auto. intros X; subst d. destruct H1 as (k & E' & _). congruence. }
  destruct X. split; auto. simpl. intros [A|A]; auto.
Qed.

(* no waiter is lost by retries: a pending call stays pending or has started *)
Lemma retry_keeps_waiters l s d :
  has is_pending (calls s) d ->
  has is_pending (calls (retry l s)) d \/ has is_opened (calls (retry l s)) d.
Proof.
  revert s; induction l as [|[c es] r IH]; intros s H; [simpl; auto|].
  rewrite retry_cons.
  assert (X : has is_pending (calls (fst (step s (COpenTry c es)))) d \/
              has is_opened (calls (fst (step s (COpenTry c es)))) d).
  { simpl. destruct (nth_error (calls s) c) as [k|] eqn:E; [|auto].
    destruct (Nat.eq_dec c d) as [->|N].
    - destruct (k_cph k) eqn:Ph; auto;
        (destruct (Z.of_nat (open_out s) <? maxc s)%Z; simpl;
         [right|left]; apply (has_upd_at _ _ _ _ _ E); reflexivity).
    - left. destruct (k_cph k); auto;
        (destruct (Z.of_nat (open_out s) <? maxc s)%Z; simpl; apply has_upd_other; auto). }
  destruct X as [X|X]; [apply IH; assumption|].
  right. clear IH H. revert X. generalize (fst (step s (COpenTry c es))). clear s.
  induction r as [|[c' es'] r IH]; intros s X; [simpl; auto|].
  rewrite retry_cons. apply IH. simpl. destruct (nth_error (calls s) c') as [k|] eqn:E; auto.
  assert (c' = d -> is_opened k = true).
  { intros ->. apply (has_at _ _ _ _ E) in X; assumption. }
  destruct (k_cph k) eqn:Ph; auto;
    (destruct (Z.of_nat (open_out s) <? maxc s)%Z; simpl;
     (destruct (Nat.eq_dec c' d) as [->|N];
      [ specialize (H eq_refl); unfold is_opened in H; rewrite Ph in H; discriminate
      | apply has_upd_other; auto ])).
Qed.

Lemma exit_counts s c k :
  nth_error (calls s) c = Some k -> k_cph k = COpened ->
  let s' := fst (step s (CExit c)) in
  maxc s' = maxc s /\ pending_count s' = pending_count s /\ S (opened_count s') = opened_count s.
Proof.
  intros E Ph. simpl. rewrite E, Ph. simpl. unfold pending_count, opened_count. simpl.
  split; [reflexivity|].
  rewrite !count_map_same.
  - match goal with |- context[upd c ?f _] =>
      pose proof (count_upd is_pending f _ c k E) as C1;
      pose proof (count_upd is_opened f _ c k E) as C2 end.
    assert (X1 : is_pending k = false) by (unfold is_pending; rewrite Ph; reflexivity).
    assert (X2 : is_opened k = true) by (unfold is_opened; rewrite Ph; reflexivity).
    rewrite X1 in C1. rewrite X2 in C2. cbn in C1, C2.
    split; lia.
  - apply wake_opened.
  - intros k0. unfold wake, is_pending. destruct (k_cph k0) eqn:X; cbn; rewrite ?X; reflexivity.
Qed.

Lemma count_le {A} (p q : A -> bool) l :
  (forall c k, nth_error l c = Some k -> p k = true -> q k = true) -> count p l <= count q l.
Proof.
  induction l as [|x r IH]; intros H; simpl; [lia|].
  assert (IHr : count p r <= count q r) by (apply IH; intros c k E; apply (H (S c) k E)).
  destruct (p x) eqn:Px; [rewrite (H 0 x eq_refl Px)|destruct (q x)]; lia.
Qed.

Definition round (ord : state -> list (nat * bool)) (pick : state -> option nat) (s : state) : state :=
  let s1 := retry (ord s) s in
  match pick s1 with Some c => fst (step s1 (CExit c)) | None => s1 end.

(* any order of retries that includes every runnable waiter; any choice of the next call to finish *)
Definition fair_ord (ord : state -> list (nat * bool)) : Prop :=
  forall s c, has is_nw (calls s) c -> In c (map fst (ord s)).
Definition fair_pick (pick : state -> option nat) : Prop :=
  (forall s c, pick s = Some c -> has is_opened (calls s) c) /\
  (forall s, pick s = None -> opened_count s = 0).

Lemma Inv_round ord pick s : fair_pick pick -> Inv s -> Inv (round ord pick s).
Proof.
  intros _ H. unfold round. destruct (pick (retry (ord s) s)).
  - apply Inv_step. apply Inv_retry; assumption.
  - apply Inv_retry; assumption.
Qed.

Lemma round_progress ord pick s :
  fair_ord ord -> fair_pick pick -> Inv s -> (1 <= maxc s)%Z ->
  maxc (round ord pick s) = maxc s /\ (phi (round ord pick s) < phi s \/ phi (round ord pick s) = 0).
Proof.
  intros FO [FP1 FP2] I M. unfold round.
  destruct (retry_counts (ord s) s) as (MX & SUM & LE).
  pose proof (Inv_retry (ord s) s I) as I1.
  set (s1 := retry (ord s) s) in *.
  destruct (pick s1) as [c|] eqn:PK.
  - destruct (FP1 _ _ PK) as (k & E & O).
    assert (Ph : k_cph k = COpened) by (unfold is_opened in O; destruct (k_cph k); auto; discriminate).
    destruct (exit_counts s1 c k E Ph) as (M1 & P1 & O1).
    split; [congruence|]. left. unfold phi. lia.
  - split; [assumption|]. right.
    pose proof (FP2 _ PK) as OZ.
    assert (PZ : pending_count s1 = 0).
    { destruct (pending_count s1) eqn:PC0; auto. exfalso.
      destruct (count_pos is_pending (calls s1)) as (d & k & E & P); [unfold pending_count in PC0; lia|].
      destruct (k_cph k) eqn:Ph; try (unfold is_pending in P; rewrite Ph in P; discriminate).
      + (* still New: it was in the retry list *)
        assert (H : has is_nw (calls s1) d) by (exists k; split; auto; unfold is_nw; rewrite Ph; reflexivity).
        destruct (retry_nw _ _ _ H) as [H1 H2]. apply H2. apply FO. assumption.
      + (* Waiting: the invariant gives an opened call *)
        destruct I1 as [A _ _ W _].
        destruct W as [W|[d' (k' & E' & P')]].
        * exists d, k. split; auto. unfold is_waiting. rewrite Ph. reflexivity.
        * assert (open_out s1 <= opened_count s1).
          { apply count_le. intros c0 k0 E0 OP. unfold is_opened.
            rewrite (open_is_opened k0 (A _ _ E0) OP). reflexivity. }
          lia.
        * unfold opened_count in OZ. rewrite count_zero in OZ.
          unfold closed_opened in P'. apply andb_prop in P'. destruct P' as [P' _].
          rewrite (OZ _ _ E') in P'. discriminate.
      + assert (H : has is_nw (calls s1) d) by (exists k; split; auto; unfold is_nw; rewrite Ph; reflexivity).
        destruct (retry_nw _ _ _ H) as [H1 H2]. apply H2. apply FO. assumption. }
    unfold phi. lia.
Qed.

Fixpoint rounds (n : nat) ord pick (s : state) : state :=
  match n with O => s | S n' => rounds n' ord pick (round ord pick s) end.

(* with enough releases every waiter proceeds: after phi(s) rounds nobody is pending and nobody is still
   running; since a round never exits a call that is not opened, every call has started *)
Lemma all_waiters_proceed ord pick n s :
  fair_ord ord -> fair_pick pick -> Inv s -> (1 <= maxc s)%Z -> phi s <= n ->
  pending_count (rounds n ord pick s) = 0 /\ opened_count (rounds n ord pick s) = 0.
Proof.
  intros FO FP. revert s. induction n as [|n IH]; intros s I M LE; simpl.
  - unfold phi in LE. lia.
  - destruct (round_progress ord pick s FO FP I M) as [MX [LT|Z]];
      apply IH; auto; try (apply Inv_round; auto); try lia.
Qed.

Lemma nw_phase k : is_nw k = true -> k_cph k = CWoken \/ k_cph k = CNew.
Proof. unfold is_nw; destruct (k_cph k); auto; discriminate. Qed.

Lemma open_out_after_open s c k es :
  nth_error (calls s) c = Some k -> PC k -> is_nw k = true ->
  (Z.of_nat (open_out s) < maxc s)%Z ->
  open_out (fst (step s (COpenTry c es))) = S (open_out s) /\
  maxc (fst (step s (COpenTry c es))) = maxc s.
Proof.
  intros E P NW LT. apply Z.ltb_lt in LT.
  assert (O : h2_open (k_ch k) = false).
  { apply op_false_not_open. apply (f1a k P). apply pending_of_phase.
    destruct (nw_phase k NW) as [X|X]; auto. }
  simpl. rewrite E.
  destruct (nw_phase k NW) as [Ph|Ph]; rewrite Ph, LT; simpl; unfold open_out; simpl;
    match goal with |- context[upd c ?f _] =>
      pose proof (count_upd (fun k => h2_open (k_ch k)) f _ c k E) as C end;
    cbn in C; rewrite O in C; rewrite andb_false_r in C; cbn in C; (split; [lia|reflexivity]).
Qed.


(* retries against a full connection: every runnable waiter in the list re-blocks, nothing else moves *)
Lemma retry_full l s :
  (maxc s <= Z.of_nat (open_out s))%Z ->
  open_out (retry l s) = open_out s /\ maxc (retry l s) = maxc s /\
  (forall d, has is_opened (calls s) d -> has is_opened (calls (retry l s)) d) /\
  (forall d, In d (map fst l) -> has is_nw (calls s) d -> has is_waiting (calls (retry l s)) d) /\
  (forall d, has is_waiting (calls s) d -> has is_waiting (calls (retry l s)) d).
Proof.
  revert s; induction l as [|[c es] r IH]; intros s LE; [simpl; repeat split; auto; intros d []|].
  rewrite retry_cons.
  set (s1 := fst (step s (COpenTry c es))).
  assert (S1 : open_out s1 = open_out s /\ maxc s1 = maxc s /\
               (forall d, has is_opened (calls s) d -> has is_opened (calls s1) d) /\
               (forall d, has is_waiting (calls s) d -> has is_waiting (calls s1) d) /\
               (has is_nw (calls s) c -> has is_waiting (calls s1) c) /\
               (forall d, d <> c -> has is_nw (calls s) d -> has is_nw (calls s1) d)).
  { unfold s1. simpl. destruct (nth_error (calls s) c) as [k|] eqn:E.
    2: { repeat split; auto. intros (k & E' & _); congruence. }
    assert (GE : (Z.of_nat (open_out s) <? maxc s)%Z = false) by (apply Z.ltb_ge; assumption).
    destruct (k_cph k) eqn:Ph; rewrite ?GE; simpl.
    2,4,5: repeat split; auto; intros H; apply (has_at _ _ _ _ E) in H; unfold is_nw in H;
      rewrite Ph in H; discriminate.
    all: repeat split; auto.
    all: try (unfold open_out; simpl; apply count_upd_same; intros k0 E0; reflexivity).
    all: try (intros d H; apply (has_upd_eq _ _ c _ k d E); auto;
              unfold is_opened, is_waiting; cbn; rewrite Ph; reflexivity).
    all: try (intros _; apply (has_upd_at _ _ _ _ _ E); reflexivity).
    all: try (intros d N H; apply has_upd_other; auto).
    all: intros d H; destruct (Nat.eq_dec c d) as [->|N];
      [ apply (has_at _ _ _ _ E) in H; unfold is_waiting in H; rewrite Ph in H; discriminate
      | apply has_upd_other; auto ]. }
  destruct S1 as (A1 & A2 & A3 & A4 & A5 & A6).
  destruct (IH s1) as (B1 & B2 & B3 & B4 & B5); [rewrite A1, A2; assumption|].
  repeat split; try congruence; auto.
  intros d [X|X] H.
  - simpl in X; subst d. apply B5. apply A5. assumption.
  - destruct (Nat.eq_dec d c) as [->|N]; [apply B5; apply A5; assumption|].
    apply B4; auto.
Qed.

(* k runnable waiters and one free slot: the first to run takes it, every other one re-blocks *)
Lemma one_slot_first_wins s c es rest k :
  nth_error (calls s) c = Some k -> is_nw k = true ->
  (Z.of_nat (open_out s) + 1 = maxc s)%Z -> Inv s ->
  let s' := retry ((c, es) :: rest) s in
  has is_opened (calls s') c /\ open_out s' = S (open_out s) /\
  (forall d, d <> c -> In d (map fst rest) -> has is_nw (calls s) d -> has is_waiting (calls s') d).
Proof.
  intros E NW SLOT I. cbv zeta. rewrite retry_cons.
  pose proof (i_calls s I _ _ E) as P.
  destruct (open_out_after_open s c k es E P NW) as [O1 M1]; [lia|].
  destruct (woken_with_slot_proceeds s c k es E (nw_phase k NW)) as (_ & OP & _); [lia|].
  set (s1 := fst (step s (COpenTry c es))) in *.
  destruct (retry_full rest s1) as (B1 & B2 & B3 & B4 & B5); [lia|].
  repeat split; auto; try congruence.
  intros d N IN H. apply B4; auto.
  unfold s1. simpl. rewrite E.
  assert (LT : (Z.of_nat (open_out s) <? maxc s)%Z = true) by (apply Z.ltb_lt; lia).
  destruct (nw_phase k NW) as [Ph|Ph]; rewrite Ph, LT; simpl; apply has_upd_other; auto.
Qed.

(* ------------------------------------------------------------------------------------------ *)
(* the same statements for reachable states (what Props/C10.v exports) *)

Lemma leak_is_D4 s c x k k' :
  reachable s -> nth_error (calls s) c = Some k -> k_sph k = SRunning ->
  nth_error (calls (fst (step s (SExit c x)))) c = Some k' -> k_sph k' = SExited true ->
  x = KBase /\ h2_open (k_sh k) = true /\ h_se (k_sh k) = false.
Proof.
  intros R E. apply leak_only_from_base; auto. apply (i_calls s (reachable_inv s R) _ _ E).
Qed.

Lemma one_slot_first_wins_r s c es rest k :
  reachable s -> nth_error (calls s) c = Some k -> is_nw k = true ->
  (Z.of_nat (open_out s) + 1 = maxc s)%Z ->
  let s' := retry ((c, es) :: rest) s in
  has is_opened (calls s') c /\ open_out s' = S (open_out s) /\
  (forall d, d <> c -> In d (map fst rest) -> has is_nw (calls s) d -> has is_waiting (calls s') d).
Proof. intros R E NW SL. apply one_slot_first_wins with k; auto. apply reachable_inv; assumption. Qed.

Lemma all_waiters_proceed_r ord pick n s :
  fair_ord ord -> fair_pick pick -> reachable s -> (1 <= maxc s)%Z -> phi s <= n ->
  pending_count (rounds n ord pick s) = 0 /\ opened_count (rounds n ord pick s) = 0.
Proof. intros FO FP R. apply all_waiters_proceed; auto. apply reachable_inv; assumption. Qed.

(* a round is a history of the model: retries, then one context exit of an opened call *)
Lemma round_is_history ord pick s :
  exists ops, round ord pick s = run ops s /\
    forall o, In o ops -> (exists c es, o = COpenTry c es) \/
                          (exists c, o = CExit c /\ pick (retry (ord s) s) = Some c).
Proof.
  assert (R : forall l s, retry l s = run (map (fun ce => COpenTry (fst ce) (snd ce)) l) s).
  { induction l as [|[c es] r IH]; intros s0; simpl; auto. }
  unfold round. rewrite R. destruct (pick (run _ s)) as [c|] eqn:PK.
  - exists (map (fun ce => COpenTry (fst ce) (snd ce)) (ord s) ++ [CExit c]). split.
    + unfold run. rewrite fold_left_app. reflexivity.
    + intros o I. apply in_app_or in I. destruct I as [I|[<-|[]]].
      * apply in_map_iff in I. destruct I as ([c' es'] & <- & _). left; eauto.
      * right. exists c. split; auto.
  - exists (map (fun ce => COpenTry (fst ce) (snd ce)) (ord s)). split; auto.
    intros o I. apply in_map_iff in I. destruct I as ([c' es'] & <- & _). left; eauto.
Qed.

(* the mechanism behind "finished with an error status => the stream no longer counts at the server":
   non-OK trailers are followed by RST_STREAM whenever the stream is still closable *)
Lemma srv_trailers_nonok_closed h : h2_open (fst (srv_trailers true h)) = false.
Proof.
  unfold srv_trailers. cbn [andb].
  destruct (h2_open (h2_send_end h)) eqn:E; cbn [fst]; [apply send_rst_not_open|assumption].
Qed.

Lemma error_status_closes_stream s c k :
  nth_error (calls s) c = Some k -> k_sph k = SRunning ->
  (snd (step s (STrailers c true)) = ONone ->
   exists k', nth_error (calls (fst (step s (STrailers c true)))) c = Some k' /\ h2_open (k_sh k') = false) /\
  (k_trail k = false -> k_cancel k = false ->
   exists k', nth_error (calls (fst (step s (SExit c KErr)))) c = Some k' /\ h2_open (k_sh k') = false).
Proof.
  intros E R. split.
  - simpl. rewrite E, R. destruct (k_trail k); [discriminate|].
    destruct (negb (h2_open (k_sh k))); [discriminate|].
    pose proof (srv_trailers_nonok_closed (k_sh k)) as X.
    destruct (srv_trailers true (k_sh k)) as [h fs]. simpl. intros _.
    rewrite (nth_upd_same _ _ _ _ E). eexists; split; [reflexivity|exact X].
  - intros T C. simpl. rewrite E, R, T, C. simpl.
    destruct (h2_open (k_sh k)) eqn:OP; simpl.
    + pose proof (srv_trailers_nonok_closed (k_sh k)) as X.
      destruct (srv_trailers true (k_sh k)) as [h fs]. simpl.
      rewrite (nth_upd_same _ _ _ _ E). eexists; split; [reflexivity|exact X].
    + rewrite (nth_upd_same _ _ _ _ E). eexists; split; [reflexivity|exact OP].
Qed.
