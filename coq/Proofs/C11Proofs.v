(* C11 -- lemmas about Model/Mux.v: the registry is a product of per-call components. *)
From Coq Require Import ZArith List Bool Lia ZifyBool.
From GV Require Import Model.Mux.
Import ListNotations.
Open Scope Z_scope.

(* ---- registry ------------------------------------------------------------------------------- *)
Lemma lookup_put_same : forall i c r, lookup i (put i c r) = Some c.
Proof.
  induction r as [|[k c'] t IH]; cbn [put lookup].
  - rewrite Z.eqb_refl; reflexivity.
  - destruct (k =? i) eqn:E; cbn [lookup].
    + rewrite Z.eqb_refl; reflexivity.
    + rewrite E; exact IH.
Qed.

Lemma lookup_put_other : forall i j c r, i <> j -> lookup i (put j c r) = lookup i r.
Proof.
  intros i j c r Hij. induction r as [|[k c'] t IH]; cbn [put lookup].
  - destruct (j =? i) eqn:E; [apply Z.eqb_eq in E; congruence | reflexivity].
  - destruct (k =? j) eqn:E; cbn [lookup].
    + apply Z.eqb_eq in E; subst k.
      destruct (j =? i) eqn:E2; [apply Z.eqb_eq in E2; congruence | reflexivity].
    + destruct (k =? i); [reflexivity | exact IH].
Qed.

Lemma lookup_remove_same : forall i r, lookup i (remove i r) = None.
Proof.
  induction r as [|[k c'] t IH]; cbn [remove filter lookup fst]; [reflexivity|].
  destruct (k =? i) eqn:E; cbn [negb]; [exact IH|].
  cbn [lookup]; rewrite E; exact IH.
Qed.

Lemma lookup_remove_other : forall i j r, i <> j -> lookup i (remove j r) = lookup i r.
Proof.
  intros i j r Hij. induction r as [|[k c'] t IH]; cbn [remove filter lookup fst]; [reflexivity|].
  destruct (k =? j) eqn:E; cbn [negb].
  - apply Z.eqb_eq in E; subst k.
    destruct (j =? i) eqn:E2; [apply Z.eqb_eq in E2; congruence | exact IH].
  - cbn [lookup]. destruct (k =? i); [reflexivity | exact IH].
Qed.

Lemma lookup_set_opt_same : forall i oc r, lookup i (set_opt i oc r) = oc.
Proof. intros i [c|] r; cbn [set_opt]; [apply lookup_put_same | apply lookup_remove_same]. Qed.

Lemma lookup_set_opt_other : forall i j oc r, i <> j -> lookup i (set_opt j oc r) = lookup i r.
Proof.
  intros i j [c|] r H; cbn [set_opt]; [apply lookup_put_other | apply lookup_remove_other]; exact H.
Qed.

Lemma lookup_map_calls : forall f i r, lookup i (map_calls f r) = option_map f (lookup i r).
Proof.
  intros f i r. induction r as [|[k c] t IH]; cbn [map_calls map lookup fst snd]; [reflexivity|].
  destruct (k =? i); [reflexivity | exact IH].
Qed.

Lemma map_calls_id : forall f r, (forall c, f c = c) -> map_calls f r = r.
Proof.
  intros f r H. induction r as [|[k c] t IH]; cbn [map_calls map fst snd]; [reflexivity|].
  rewrite H. unfold map_calls in IH. rewrite IH. reflexivity.
Qed.

(* keys stay distinct *)
Definition keys (r : registry) : list sid := map fst r.

Lemma keys_map_calls : forall f r, keys (map_calls f r) = keys r.
Proof.
  intros f r. induction r as [|[k c] t IH]; cbn; [reflexivity|]. f_equal. exact IH.
Qed.

Lemma in_keys_put : forall k i c r, In k (keys (put i c r)) -> k = i \/ In k (keys r).
Proof.
  intros k i c r. induction r as [|[k' c'] t IH]; cbn [put keys map fst In].
  - intros [H|[]]; left; congruence.
  - destruct (k' =? i) eqn:E; cbn [map fst In].
    + apply Z.eqb_eq in E; subst. intros [H|H]; [left; congruence | right; right; exact H].
    + intros [H|H]; [right; left; exact H|]. destruct (IH H); [left|right; right]; assumption.
Qed.

Lemma nodup_put : forall i c r, NoDup (keys r) -> NoDup (keys (put i c r)).
Proof.
  intros i c r. induction r as [|[k' c'] t IH]; cbn [put keys map fst]; intro H.
  - constructor; [intros []|constructor].
  - destruct (k' =? i) eqn:E; cbn [map fst].
    + apply Z.eqb_eq in E; subst. exact H.
    + inversion H as [|? ? Hn Hd]; subst. constructor.
      * intro Hin. destruct (in_keys_put _ _ _ _ Hin) as [->|Hin']; [rewrite Z.eqb_refl in E; discriminate|].
        exact (Hn Hin').
      * exact (IH Hd).
Qed.

Lemma in_keys_remove : forall k i r, In k (keys (remove i r)) -> In k (keys r).
Proof.
  intros k i r. induction r as [|[k' c'] t IH]; cbn [remove filter keys map fst]; [tauto|].
  destruct (negb (k' =? i)); cbn [map fst In]; intuition.
Qed.

Lemma nodup_remove : forall i r, NoDup (keys r) -> NoDup (keys (remove i r)).
Proof.
  intros i r. induction r as [|[k' c'] t IH]; cbn [remove filter keys map fst]; intro H; [constructor|].
  inversion H as [|? ? Hn Hd]; subst.
  destruct (negb (k' =? i)); cbn [map fst]; [|exact (IH Hd)].
  constructor; [|exact (IH Hd)]. intro Hin. exact (Hn (in_keys_remove _ _ _ Hin)).
Qed.

Lemma step_keeps_keys_distinct : forall s e, NoDup (keys (st_reg s)) -> NoDup (keys (st_reg (step s e))).
Proof.
  intros s e H. unfold step, step_r. destruct (addr e) as [i|]; cbn [s_state st_reg].
  - destruct (r_call (call_step (st_conn s) i (lookup i (st_reg s)) e)); cbn [set_opt];
      [apply nodup_put | apply nodup_remove]; exact H.
  - rewrite keys_map_calls. exact H.
Qed.

Lemma run_keeps_keys_distinct : forall es s, NoDup (keys (st_reg s)) -> NoDup (keys (st_reg (run es s))).
Proof.
  induction es as [|e t IH]; intros s H; cbn [run]; [exact H|].
  apply IH, step_keeps_keys_distinct, H.
Qed.

(* ---- only the core of the connection is ever read -------------------------------------------- *)
Lemma call_step_core : forall cn cn' i oc e,
  conn_core cn = conn_core cn' -> call_step cn i oc e = call_step cn' i oc e.
Proof.
  intros [sd cl wr sl] [sd' cl' wr' sl'] i oc e H. unfold conn_core in H; cbn in H.
  injection H as -> -> _. reflexivity.
Qed.

Lemma bcast_core : forall cn cn' e c, conn_core cn = conn_core cn' -> bcast cn e c = bcast cn' e c.
Proof.
  intros [sd cl wr sl] [sd' cl' wr' sl'] e c H. unfold conn_core in H; cbn in H.
  injection H as -> -> _. reflexivity.
Qed.

Lemma conn_step_core : forall cn cn' e,
  conn_core cn = conn_core cn' -> conn_core (conn_step cn e) = conn_core (conn_step cn' e).
Proof.
  intros [sd cl wr sl] [sd' cl' wr' sl'] e H. unfold conn_core in H; cbn in H.
  injection H as -> -> ->. unfold conn_step; cbn [c_closed c_side c_write_ready c_slot_wake].
  destruct (is_h2 e && cl'); [reflexivity|].
  destruct e; try reflexivity.
  cbn. destruct max_streams; reflexivity.
Qed.

(* ---- (1) a stream-addressed event touches one component ---------------------------------------- *)
Lemma addressed_event_local : forall s e j i,
  addr e = Some j -> i <> j -> project i (step s e) = project i s.
Proof.
  intros s e j i Ha Hij. unfold project, step, step_r. rewrite Ha. cbn [s_state st_reg].
  apply lookup_set_opt_other. exact Hij.
Qed.

Lemma project_step_own : forall s e i,
  addr e = Some i ->
  project i (step s e) = r_call (call_step (st_conn s) i (project i s) e).
Proof.
  intros s e i Ha. unfold project, step, step_r. rewrite Ha. cbn [s_state st_reg].
  apply lookup_set_opt_same.
Qed.

Lemma addressed_event_core : forall s e j,
  addr e = Some j -> conn_core (st_conn (step s e)) = conn_core (st_conn s).
Proof.
  intros s e j Ha. unfold step, step_r. rewrite Ha. cbn [s_state st_conn].
  destruct (r_slot _); reflexivity.
Qed.

Definition is_request (e : event) : bool := match e with ERequest _ _ => true | _ => false end.

(* the one peer frame that touches a connection-level flag: HEADERS opening a stream towards a client
   are refused and released at once, and release_stream sets stream_close_waiter *)
Lemma h2_event_no_slot : forall cn i oc e,
  is_h2 e = true -> c_side cn = Server \/ is_request e = false ->
  r_slot (call_step cn i oc e) = false.
Proof.
  intros cn i oc e H Hq. unfold call_step. rewrite H. cbn [andb].
  destruct (c_closed cn); [reflexivity|].
  destruct e; try discriminate H; cbn;
    try (destruct Hq as [-> | Hq]; [reflexivity | discriminate Hq]);
    repeat match goal with
           | |- context [match ?x with _ => _ end] => destruct x; cbn
           end; reflexivity.
Qed.

Lemma peer_stream_event_conn : forall s e j,
  addr e = Some j -> is_h2 e = true -> c_side (st_conn s) = Server \/ is_request e = false ->
  st_conn (step s e) = st_conn s.
Proof.
  intros s e j Ha Hh Hq. unfold step, step_r. rewrite Ha. cbn [s_state st_conn].
  rewrite h2_event_no_slot by assumption. reflexivity.
Qed.

(* a local action changes at most the stream_close_waiter flag of the connection *)
Lemma local_action_conn : forall s e j,
  addr e = Some j ->
  st_conn (step s e) = st_conn s \/
  st_conn (step s e) = mkConn (c_side (st_conn s)) (c_closed (st_conn s)) (c_write_ready (st_conn s)) true.
Proof.
  intros s e j Ha. unfold step, step_r. rewrite Ha. cbn [s_state st_conn].
  destruct (r_slot _); [right|left]; reflexivity.
Qed.

(* ---- (2) connection-level events ------------------------------------------------------------- *)
Lemma strip_set_wu : forall b c, strip (set_wu b c) = strip c.
Proof. intros b [? ? ? ? ? ? ? ? ? ? ? ?]; reflexivity. Qed.

Lemma strip_eq_inv : forall c c', strip c = strip c' -> c' = set_wu (cs_wu c') c.
Proof.
  intros [a1 a2 a3 a4 a5 a6 a7 a8 a9 a10 a11 a12] [b1 b2 b3 b4 b5 b6 b7 b8 b9 b10 b11 b12] H.
  unfold strip, set_wu in H; cbn in H. injection H as -> -> -> -> -> -> -> -> -> -> ->.
  reflexivity.
Qed.

Lemma bcast_flags_only : forall cn e c,
  fatal e = false -> bcast cn e c = c \/ bcast cn e c = set_wu true c.
Proof.
  intros cn e c Hf. unfold bcast. destruct (is_h2 e && c_closed cn); [left; reflexivity|].
  destruct e; try discriminate Hf; try (left; reflexivity); try (right; reflexivity).
  destruct initial_window; [right|left]; reflexivity.
Qed.

Lemma bcast_strip : forall cn e c, fatal e = false -> strip (bcast cn e c) = strip c.
Proof.
  intros cn e c Hf. destruct (bcast_flags_only cn e c Hf) as [->| ->]; [reflexivity | apply strip_set_wu].
Qed.

Lemma conn_event_project : forall s e i,
  addr e = None -> project i (step s e) = option_map (bcast (st_conn s) e) (project i s).
Proof.
  intros s e i Ha. unfold project, step, step_r. rewrite Ha. cbn [s_state st_reg].
  apply lookup_map_calls.
Qed.

Lemma conn_event_flags_only : forall s e i,
  addr e = None -> fatal e = false ->
  option_map strip (project i (step s e)) = option_map strip (project i s).
Proof.
  intros s e i Ha Hf. rewrite conn_event_project by exact Ha.
  destruct (project i s) as [c|]; cbn [option_map]; [|reflexivity].
  rewrite bcast_strip by exact Hf. reflexivity.
Qed.

Lemma conn_event_exact : forall s e i c,
  addr e = None -> fatal e = false -> project i s = Some c ->
  project i (step s e) = Some c \/ project i (step s e) = Some (set_wu true c).
Proof.
  intros s e i c Ha Hf Hp. rewrite conn_event_project by exact Ha. rewrite Hp. cbn [option_map].
  destruct (bcast_flags_only (st_conn s) e c Hf) as [->| ->]; [left|right]; reflexivity.
Qed.

Lemma nonfatal_keeps_closed : forall s e,
  fatal e = false -> c_closed (st_conn (step s e)) = c_closed (st_conn s) /\
                     c_side (st_conn (step s e)) = c_side (st_conn s).
Proof.
  intros s e Hf. unfold step, step_r. destruct (addr e) as [j|]; cbn [s_state st_conn].
  - destruct (r_slot _); split; reflexivity.
  - unfold conn_step. destruct (is_h2 e && c_closed (st_conn s)); [split; reflexivity|].
    destruct e; try discriminate Hf; try (split; reflexivity).
    destruct max_streams; split; reflexivity.
Qed.

Lemma any_event_keeps_side : forall s e, c_side (st_conn (step s e)) = c_side (st_conn s).
Proof.
  intros s e. unfold step, step_r. destruct (addr e) as [j|]; cbn [s_state st_conn].
  - destruct (r_slot _); reflexivity.
  - unfold conn_step. destruct (is_h2 e && c_closed (st_conn s)); [reflexivity|].
    destruct e; try reflexivity. destruct max_streams; reflexivity.
Qed.

(* ---- (3) the fatal set, exactly ----------------------------------------------------------------- *)
Definition witness_state : state :=
  mkState [(1, new_call None true false)] (mkConn Client false true false).

Lemma fatal_hits_everyone : forall e, fatal e = true ->
  addr e <> Some 1 /\
  option_map strip (project 1 (step witness_state e)) <> option_map strip (project 1 witness_state).
Proof.
  intros e Hf. destruct e; try discriminate Hf; (split; [discriminate|]); cbn; discriminate.
Qed.

Lemma fatal_exactly : forall e,
  fatal e = true <->
  exists s i, addr e <> Some i /\
              option_map strip (project i (step s e)) <> option_map strip (project i s).
Proof.
  intro e. split.
  - intro Hf. exists witness_state, 1. apply fatal_hits_everyone, Hf.
  - intros (s & i & Ha & Hne). destruct (fatal e) eqn:Hf; [reflexivity|]. exfalso. apply Hne.
    destruct (addr e) as [j|] eqn:Hj.
    + rewrite (addressed_event_local s e j i Hj); [reflexivity|]. intro; subst; apply Ha; reflexivity.
    + apply conn_event_flags_only; assumption.
Qed.

(* ---- (4) simulation: call i alone ---------------------------------------------------------------- *)
Definition sim (i : sid) (s s' : state) : Prop :=
  project i s = project i s' /\ conn_core (st_conn s) = conn_core (st_conn s').

Lemma core_step_same : forall s s' e,
  conn_core (st_conn s) = conn_core (st_conn s') ->
  conn_core (st_conn (step s e)) = conn_core (st_conn (step s' e)).
Proof.
  intros s s' e H. destruct (addr e) as [j|] eqn:Ha.
  - rewrite (addressed_event_core s e j Ha), (addressed_event_core s' e j Ha). exact H.
  - unfold step, step_r. rewrite Ha. cbn [s_state st_conn]. apply conn_step_core, H.
Qed.

Lemma sim_step : forall i s s' e, sim i s s' -> sim i (step s e) (step s' e).
Proof.
  intros i s s' e [Hp Hc]. split; [|apply core_step_same, Hc].
  destruct (addr e) as [j|] eqn:Ha.
  - destruct (Z.eq_dec i j) as [->|Hij].
    + rewrite !project_step_own by exact Ha. rewrite Hp. f_equal. apply call_step_core, Hc.
    + rewrite !(addressed_event_local _ e j i Ha Hij). exact Hp.
  - rewrite !conn_event_project by exact Ha. rewrite Hp.
    destruct (project i s'); cbn [option_map]; [|reflexivity]. f_equal. apply bcast_core, Hc.
Qed.

Lemma sim_skip : forall i s e, relevant i e = false -> sim i (step s e) s.
Proof.
  intros i s e Hr. unfold relevant in Hr. destruct (addr e) as [j|] eqn:Ha; [|discriminate].
  split.
  - apply (addressed_event_local s e j i Ha). intro; subst. rewrite Z.eqb_refl in Hr. discriminate.
  - apply (addressed_event_core s e j Ha).
Qed.

Lemma sim_trans : forall i a b c, sim i a b -> sim i b c -> sim i a c.
Proof. intros i a b c [H1 H2] [H3 H4]. split; congruence. Qed.

Lemma sim_run_filter : forall i es s s',
  sim i s s' -> sim i (run es s) (run (filter (relevant i) es) s').
Proof.
  intros i es. induction es as [|e t IH]; intros s s' H; cbn [run filter]; [exact H|].
  destruct (relevant i e) eqn:Hr; cbn [run].
  - apply IH, sim_step, H.
  - apply IH. eapply sim_trans; [apply sim_skip, Hr | exact H].
Qed.

Lemma sim_refl : forall i s, sim i s s.
Proof. intros; split; reflexivity. Qed.

(* the exact form: deleting every event addressed to ANOTHER stream changes nothing for call i *)
Lemma project_run_filter : forall i es s,
  project i (run es s) = project i (run (filter (relevant i) es) s) /\
  conn_core (st_conn (run es s)) = conn_core (st_conn (run (filter (relevant i) es) s)).
Proof. intros i es s. apply sim_run_filter, sim_refl. Qed.

(* ---- (5) modulo wake-up flags: also deleting the non-fatal connection events --------------------- *)
Definition simw (i : sid) (s s' : state) : Prop :=
  option_map strip (project i s) = option_map strip (project i s') /\
  c_closed (st_conn s) = c_closed (st_conn s') /\ c_side (st_conn s) = c_side (st_conn s').

Lemma call_step_wu : forall cn i b c e,
  option_map strip (r_call (call_step cn i (Some (set_wu b c)) e)) =
  option_map strip (r_call (call_step cn i (Some c) e)).
Proof.
  intros cn i b [a1 a2 a3 a4 a5 a6 a7 a8 a9 a10 a11 a12] e. unfold call_step.
  destruct (is_h2 e && c_closed cn); [reflexivity|].
  destruct e; cbn; try reflexivity;
    repeat (unfold terminated, set_task, set_wrapper, set_tr, set_queue, set_headers, set_trailers, set_wu, strip;
            cbn;
            match goal with
            | |- context [match c_side cn with _ => _ end] => destruct (c_side cn)
            | |- context [if (?x =? ?y) then _ else _] => destruct (x =? y)
            | |- context [if ?x then _ else _] => is_var x; destruct x
            | |- context [match ?x with _ => _ end] => is_var x; destruct x
            end);
    unfold terminated, set_task, set_wrapper, set_tr, set_queue, set_headers, set_trailers, set_wu, strip;
    cbn; reflexivity.
Qed.

Lemma call_step_strip : forall cn i oc oc' e,
  option_map strip oc = option_map strip oc' ->
  option_map strip (r_call (call_step cn i oc e)) = option_map strip (r_call (call_step cn i oc' e)).
Proof.
  intros cn i [c|] [c'|] e H; cbn [option_map] in H; try discriminate H; [|reflexivity].
  assert (Hs : strip c = strip c') by congruence. clear H.
  rewrite (strip_eq_inv c c' Hs). symmetry. apply call_step_wu.
Qed.

Lemma call_step_side_closed : forall cn cn' i oc e,
  c_closed cn = c_closed cn' -> c_side cn = c_side cn' ->
  call_step cn i oc e = call_step cn' i oc e.
Proof.
  intros [sd cl wr sl] [sd' cl' wr' sl'] i oc e H1 H2. cbn in H1, H2. subst. reflexivity.
Qed.

Lemma simw_step_own : forall i s s' e,
  addr e = Some i -> simw i s s' -> simw i (step s e) (step s' e).
Proof.
  intros i s s' e Ha (Hp & Hc & Hs).
  assert (Hf : fatal e = false) by (destruct e; try reflexivity; discriminate Ha).
  destruct (nonfatal_keeps_closed s e Hf) as [C1 S1].
  destruct (nonfatal_keeps_closed s' e Hf) as [C2 S2].
  split; [|split; congruence].
  rewrite !project_step_own by exact Ha.
  rewrite (call_step_side_closed (st_conn s) (st_conn s') i _ e Hc Hs).
  apply call_step_strip, Hp.
Qed.

Lemma simw_skip : forall i s e, addressed i e = false -> fatal e = false -> simw i (step s e) s.
Proof.
  intros i s e Hr Hf. destruct (nonfatal_keeps_closed s e Hf) as [C1 S1].
  split; [|split; assumption].
  unfold addressed in Hr. destruct (addr e) as [j|] eqn:Ha.
  - rewrite (addressed_event_local s e j i Ha); [reflexivity|].
    intro; subst. rewrite Z.eqb_refl in Hr. discriminate.
  - apply conn_event_flags_only; assumption.
Qed.

Lemma simw_trans : forall i a b c, simw i a b -> simw i b c -> simw i a c.
Proof. intros i a b c (H1 & H2 & H3) (H4 & H5 & H6). repeat split; congruence. Qed.

Lemma addressed_addr : forall i e, addressed i e = true -> addr e = Some i.
Proof.
  intros i e H. unfold addressed in H. destruct (addr e) as [j|]; [|discriminate].
  apply Z.eqb_eq in H. subst. reflexivity.
Qed.

Lemma simw_run_filter : forall i es s s',
  forallb (fun e => negb (fatal e)) es = true ->
  simw i s s' -> simw i (run es s) (run (filter (addressed i) es) s').
Proof.
  intros i es. induction es as [|e t IH]; intros s s' Hnf H; cbn [run filter]; [exact H|].
  cbn [forallb] in Hnf. apply andb_true_iff in Hnf as [Hf Hnf]. apply negb_true_iff in Hf.
  destruct (addressed i e) eqn:Hr; cbn [run].
  - apply IH; [exact Hnf|]. apply simw_step_own; [apply addressed_addr, Hr | exact H].
  - apply IH; [exact Hnf|]. eapply simw_trans; [apply simw_skip; assumption | exact H].
Qed.

Lemma interleaving_projection : forall i es s,
  forallb (fun e => negb (fatal e)) es = true ->
  option_map strip (project i (run es s)) =
  option_map strip (project i (run (filter (addressed i) es) s)).
Proof.
  intros i es s H. apply (simw_run_filter i es s s H). repeat split; reflexivity.
Qed.

(* ---- (6) interleavings as a merge of strands ------------------------------------------------------ *)
Section MergeDef.
  Context {A : Type}.

  Inductive Pick : list (list A) -> A -> list (list A) -> Prop :=
  | Pick_here : forall a l ls, Pick ((a :: l) :: ls) a (l :: ls)
  | Pick_next : forall a l ls ls', Pick ls a ls' -> Pick (l :: ls) a (l :: ls').

  (* es is an interleaving of the strands ls: every strand keeps its own order *)
  Inductive Merge : list (list A) -> list A -> Prop :=
  | Merge_nil : forall ls, Forall (fun l => l = []) ls -> Merge ls []
  | Merge_cons : forall ls a ls' es, Pick ls a ls' -> Merge ls' es -> Merge ls (a :: es).

  Lemma Pick_nth : forall ls a ls', Pick ls a ls' ->
    exists k l, nth k ls [] = a :: l /\ nth k ls' [] = l /\
                forall k', k' <> k -> nth k' ls' [] = nth k' ls [].
  Proof.
    induction 1 as [a l ls | a l ls ls' HP (k & l0 & H1 & H2 & H3)].
    - exists 0%nat, l. repeat split. intros [|k'] Hk; [congruence | reflexivity].
    - exists (S k), l0. repeat split; try assumption.
      intros [|k'] Hk; [reflexivity|]. cbn. apply H3. congruence.
  Qed.

  Lemma all_nil_nth : forall (ls : list (list A)) k, Forall (fun l => l = []) ls -> nth k ls [] = [].
  Proof.
    intros ls k H. revert k. induction H as [|l ls Hl _ IH]; intros [|k]; cbn; auto.
  Qed.

  Lemma Merge_filter_strand : forall (p : A -> bool) ls es k,
    Merge ls es ->
    (forall a, In a (nth k ls []) -> p a = true) ->
    (forall k' a, k' <> k -> In a (nth k' ls []) -> p a = false) ->
    filter p es = nth k ls [].
  Proof.
    intros p ls es k HM. revert k. induction HM as [ls Hn | ls a ls' es HP HM IH]; intros k Hk Ho.
    - cbn. symmetry. apply all_nil_nth, Hn.
    - destruct (Pick_nth _ _ _ HP) as (k0 & l0 & H1 & H2 & H3). cbn [filter].
      destruct (Nat.eq_dec k0 k) as [->|Hne].
      + rewrite (Hk a) by (rewrite H1; left; reflexivity). rewrite H1. f_equal.
        rewrite <- H2. apply IH.
        * intros b Hb. apply Hk. rewrite H1. right. rewrite H2 in Hb. exact Hb.
        * intros k' b Hk' Hb. apply (Ho k' b Hk'). rewrite <- (H3 k' Hk'). exact Hb.
      + rewrite (Ho k0 a Hne) by (rewrite H1; left; reflexivity).
        rewrite <- (H3 k (not_eq_sym Hne)). apply IH.
        * intros b Hb. apply Hk. rewrite <- (H3 k (not_eq_sym Hne)). exact Hb.
        * intros k' b Hk' Hb. apply (Ho k' b Hk').
          destruct (Nat.eq_dec k' k0) as [->|Hk0].
          -- rewrite H1. right. rewrite H2 in Hb. exact Hb.
          -- rewrite <- (H3 k' Hk0). exact Hb.
  Qed.

  Lemma Merge_in : forall ls es a, Merge ls es -> In a es -> exists k, In a (nth k ls []).
  Proof.
    intros ls es a HM. induction HM as [ls Hn | ls b ls' es HP HM IH]; intros Hin; [destruct Hin|].
    destruct (Pick_nth _ _ _ HP) as (k0 & l0 & H1 & H2 & H3).
    destruct Hin as [->|Hin].
    - exists k0. rewrite H1. left. reflexivity.
    - destruct (IH Hin) as [k Hk]. destruct (Nat.eq_dec k k0) as [->|Hne].
      + exists k0. rewrite H1. right. rewrite H2 in Hk. exact Hk.
      + exists k. rewrite <- (H3 k Hne). exact Hk.
  Qed.
End MergeDef.

Lemma merge_projection : forall ls es k i s,
  Merge ls es ->
  (forall e, In e (nth k ls []) -> addr e = Some i) ->
  (forall k' e, k' <> k -> In e (nth k' ls []) -> addr e <> Some i /\ fatal e = false) ->
  option_map strip (project i (run es s)) = option_map strip (project i (run (nth k ls []) s)).
Proof.
  intros ls es k i s HM Hown Hoth.
  assert (Hfilt : filter (addressed i) es = nth k ls []).
  { apply (Merge_filter_strand (addressed i) ls es k HM).
    - intros e He. unfold addressed. rewrite (Hown e He). apply Z.eqb_refl.
    - intros k' e Hk He. destruct (Hoth k' e Hk He) as [Ha _]. unfold addressed.
      destruct (addr e) as [j|]; [|reflexivity].
      destruct (j =? i) eqn:E; [|reflexivity]. apply Z.eqb_eq in E. subst. exfalso. apply Ha. reflexivity. }
  rewrite <- Hfilt. apply interleaving_projection.
  apply forallb_forall. intros e He. apply negb_true_iff.
  destruct (Merge_in ls es e HM He) as [k' Hk'].
  destruct (Nat.eq_dec k' k) as [->|Hne].
  - specialize (Hown e Hk'). destruct e; try reflexivity; discriminate Hown.
  - apply (Hoth k' e Hne Hk').
Qed.

(* ---- (7) a struck call: whatever happens to call j, the others and the connection do not see it --- *)
Lemma run_app : forall es1 es2 s, run (es1 ++ es2) s = run es2 (run es1 s).
Proof. induction es1 as [|e t IH]; intros; cbn [app run]; [reflexivity | apply IH]. Qed.

Lemma filter_none : forall {A} (p : A -> bool) l, (forall a, In a l -> p a = false) -> filter p l = [].
Proof.
  intros A p l. induction l as [|a t IH]; intro H; cbn [filter]; [reflexivity|].
  rewrite (H a) by (left; reflexivity). apply IH. intros b Hb. apply H. right. exact Hb.
Qed.

Lemma core_run_addressed : forall fs s,
  (forall e, In e fs -> addr e <> None) ->
  conn_core (st_conn (run fs s)) = conn_core (st_conn s).
Proof.
  induction fs as [|e t IH]; intros s H; cbn [run]; [reflexivity|].
  rewrite IH by (intros; apply H; right; assumption).
  destruct (addr e) as [j|] eqn:Ha; [apply (addressed_event_core s e j Ha)|].
  exfalso. apply (H e); [left; reflexivity | exact Ha].
Qed.

Lemma core_run_same : forall es s s',
  conn_core (st_conn s) = conn_core (st_conn s') ->
  conn_core (st_conn (run es s)) = conn_core (st_conn (run es s')).
Proof.
  induction es as [|e t IH]; intros s s' H; cbn [run]; [exact H|]. apply IH, core_step_same, H.
Qed.

Lemma failure_contained : forall es1 fs es2 s j,
  (forall e, In e fs -> addr e = Some j) ->
  conn_core (st_conn (run (es1 ++ fs ++ es2) s)) = conn_core (st_conn (run (es1 ++ es2) s)) /\
  forall i, i <> j -> project i (run (es1 ++ fs ++ es2) s) = project i (run (es1 ++ es2) s).
Proof.
  intros es1 fs es2 s j Hfs. split.
  - rewrite !run_app. apply core_run_same. apply core_run_addressed.
    intros e He. rewrite (Hfs e He). discriminate.
  - intros i Hij.
    destruct (project_run_filter i (es1 ++ fs ++ es2) s) as [-> _].
    destruct (project_run_filter i (es1 ++ es2) s) as [-> _].
    rewrite !filter_app. rewrite (filter_none (relevant i) fs); [reflexivity|].
    intros e He. unfold relevant. rewrite (Hfs e He).
    destruct (j =? i) eqn:E; [|reflexivity]. apply Z.eqb_eq in E. congruence.
Qed.

(* ---- (8) wake-ups ------------------------------------------------------------------------------------ *)
Lemma spurious_wakeup_noop : forall wr window mf rem c,
  window <= 0 ->
  let '(c', a) := sender_wake wr window mf rem c in
  strip c' = strip c /\ frames_of a = [] /\ (a = SWaitWriteReady \/ a = SWaitWindow).
Proof.
  intros wr window mf rem c Hw. unfold sender_wake.
  destruct wr; cbn [negb].
  - assert (E : (0 <? window) = false) by lia. rewrite E. cbn [negb].
    split; [apply strip_set_wu | split; [reflexivity | right; reflexivity]].
  - split; [reflexivity | split; [reflexivity | left; reflexivity]].
Qed.

Lemma paused_sender_noop : forall window mf rem c,
  sender_wake false window mf rem c = (c, SWaitWriteReady).
Proof. reflexivity. Qed.

Lemma recv_ready_strip : forall c, recv_ready (strip c) = recv_ready c.
Proof. intros [? ? ? ? ? ? ? ? ? ? ? ?]; reflexivity. Qed.

Lemma receiver_not_woken : forall s e i,
  addr e <> Some i -> fatal e = false ->
  option_map recv_ready (project i (step s e)) = option_map recv_ready (project i s).
Proof.
  intros s e i Ha Hf.
  assert (H : option_map strip (project i (step s e)) = option_map strip (project i s)).
  { destruct (addr e) as [j|] eqn:Hj.
    - rewrite (addressed_event_local s e j i Hj); [reflexivity|]. intro; subst; apply Ha; reflexivity.
    - apply conn_event_flags_only; assumption. }
  destruct (project i (step s e)) as [c1|]; destruct (project i s) as [c2|]; cbn [option_map] in *;
    try discriminate H; try reflexivity.
  assert (Hs : strip c1 = strip c2) by congruence.
  rewrite <- (recv_ready_strip c1), <- (recv_ready_strip c2), Hs. reflexivity.
Qed.

(* ---- (9) tolerated frames, and exactly which events raise out of process() ------------------------ *)
Lemma in_tasks_terminated : forall sd r c, cs_in_tasks (terminated sd r c) = cs_in_tasks c.
Proof. intros sd r c. unfold terminated. destruct (cs_wrapper c), sd; reflexivity. Qed.

Definition tolerated (e : event) : bool :=
  match e with EPing | EPingAck | EUnknown | EPriority | ESettingsAck => true | _ => false end.

Lemma state_eta : forall s, mkState (st_reg s) (st_conn s) = s.
Proof. intros [? ?]; reflexivity. Qed.

Lemma tolerated_noop : forall s e, tolerated e = true ->
  step_r s e = mkSres s [] false.
Proof.
  intros s e H. unfold step_r.
  destruct e; try discriminate H; cbn [addr];
    (rewrite map_calls_id;
     [ unfold conn_step; destruct (_ && _); rewrite state_eta; reflexivity
     | intro c; unfold bcast; destruct (_ && _); reflexivity ]).
Qed.

Lemma tolerated_in_batch : forall es1 e es2 s acc, tolerated e = true ->
  run_batch (es1 ++ e :: es2) s acc = run_batch (es1 ++ es2) s acc.
Proof.
  induction es1 as [|a t IH]; intros e es2 s acc H; cbn [app run_batch].
  - rewrite (tolerated_noop s e H). cbn [s_raise s_state s_out]. rewrite app_nil_r. reflexivity.
  - destruct (s_raise (step_r s a)); [reflexivity | apply IH, H].
Qed.

(* no branch of process() lets an exception out any more (D11, D21 and the KeyError of Handler.cancel on
   a second StreamReset are all repaired) *)
Lemma never_raises : forall s e, raises s e = false.
Proof.
  intros s e. unfold raises, step_r. destruct (addr e) as [i|]; cbn [s_raise]; [|reflexivity].
  unfold call_step. destruct (is_h2 e && c_closed (st_conn s)); [reflexivity|].
  destruct e; cbn; try reflexivity;
    repeat match goal with
           | |- context [match ?x with _ => _ end] => destruct x; cbn
           end; reflexivity.
Qed.

Fixpoint no_raise (es : list event) (s : state) : bool :=
  match es with [] => true | e :: t => negb (raises s e) && no_raise t (step s e) end.

Lemma run_batch_no_raise : forall es s acc,
  no_raise es s = true ->
  fst (fst (run_batch es s acc)) = run es s /\ snd (run_batch es s acc) = false.
Proof.
  induction es as [|e t IH]; intros s acc H; cbn [run_batch run]; [split; reflexivity|].
  cbn [no_raise] in H. apply andb_true_iff in H as [H1 H2]. apply negb_true_iff in H1.
  unfold raises in H1. rewrite H1. apply IH. exact H2.
Qed.

(* ---- (10) isolation inside one read ------------------------------------------------------------------ *)
Lemma bcast_side_closed : forall cn cn' e c,
  c_closed cn = c_closed cn' -> c_side cn = c_side cn' -> bcast cn e c = bcast cn' e c.
Proof.
  intros [sd cl wr sl] [sd' cl' wr' sl'] e c H1 H2. cbn in H1, H2. subst. reflexivity.
Qed.

Lemma bcast_wu : forall cn e b c, strip (bcast cn e (set_wu b c)) = strip (bcast cn e c).
Proof.
  intros cn e b [a1 a2 a3 a4 a5 a6 a7 a8 a9 a10 a11 a12]. unfold bcast.
  destruct (is_h2 e && c_closed cn); [reflexivity|].
  destruct e; try reflexivity;
    repeat (unfold terminated, set_task, set_wrapper, set_wu, strip; cbn;
            match goal with
            | |- context [match c_side cn with _ => _ end] => destruct (c_side cn)
            | |- context [if ?x then _ else _] => is_var x; destruct x
            end);
    unfold terminated, set_task, set_wrapper, set_wu, strip; cbn; reflexivity.
Qed.

Lemma conn_step_closed_side : forall cn cn' e,
  c_closed cn = c_closed cn' -> c_side cn = c_side cn' ->
  c_closed (conn_step cn e) = c_closed (conn_step cn' e) /\
  c_side (conn_step cn e) = c_side (conn_step cn' e).
Proof.
  intros [sd cl wr sl] [sd' cl' wr' sl'] e H1 H2. cbn in H1, H2. subst.
  unfold conn_step; cbn [c_closed c_side c_write_ready c_slot_wake].
  destruct (is_h2 e && cl'); [split; reflexivity|].
  destruct e; try (split; reflexivity). destruct max_streams; split; reflexivity.
Qed.

Lemma simw_step_any : forall i s s' e, simw i s s' -> simw i (step s e) (step s' e).
Proof.
  intros i s s' e H. destruct (addr e) as [j|] eqn:Ha.
  - destruct (Z.eq_dec j i) as [->|Hji].
    + apply simw_step_own; assumption.
    + destruct H as (Hp & Hc & Hs).
      assert (Hij : i <> j) by congruence.
      pose proof (addressed_event_core s e j Ha) as C1.
      pose proof (addressed_event_core s' e j Ha) as C2.
      unfold conn_core in C1, C2. injection C1 as S1 L1 _. injection C2 as S2 L2 _.
      split; [|split; congruence].
      rewrite !(addressed_event_local _ e j i Ha Hij). exact Hp.
  - destruct H as (Hp & Hc & Hs). split.
    + rewrite !conn_event_project by exact Ha.
      destruct (project i s) as [c|]; destruct (project i s') as [c'|]; cbn [option_map] in *;
        try discriminate Hp; try reflexivity.
      assert (Hst : strip c = strip c') by congruence.
      rewrite (bcast_side_closed (st_conn s) (st_conn s') e c) by assumption.
      rewrite (strip_eq_inv c c' Hst). f_equal. symmetry. apply bcast_wu.
    + unfold step, step_r. rewrite Ha. cbn [s_state st_conn]. apply conn_step_closed_side; assumption.
Qed.

Lemma simw_run_same : forall i es s s', simw i s s' -> simw i (run es s) (run es s').
Proof.
  intros i es. induction es as [|e t IH]; intros s s' H; cbn [run]; [exact H|].
  apply IH, simw_step_any, H.
Qed.

Lemma run_isolation : forall i es1 e es2 s,
  addr e <> Some i -> fatal e = false ->
  option_map strip (project i (run (es1 ++ e :: es2) s)) =
  option_map strip (project i (run (es1 ++ es2) s)).
Proof.
  intros i es1 e es2 s Ha Hf. rewrite !run_app. cbn [run].
  apply (simw_run_same i es2). apply simw_skip; [|exact Hf].
  unfold addressed. destruct (addr e) as [j|]; [|reflexivity].
  destruct (j =? i) eqn:E; [|reflexivity]. apply Z.eqb_eq in E. subst. exfalso. apply Ha. reflexivity.
Qed.

Lemma no_raise_always : forall es s, no_raise es s = true.
Proof.
  induction es as [|e t IH]; intro s; cbn [no_raise]; [reflexivity|].
  rewrite never_raises, IH. reflexivity.
Qed.

Lemma run_batch_is_run : forall es s acc,
  fst (fst (run_batch es s acc)) = run es s /\ snd (run_batch es s acc) = false.
Proof. intros. apply run_batch_no_raise, no_raise_always. Qed.

(* isolation inside one read (one data_received call), full strength: an event that is neither addressed
   to call i nor fatal does not change what call i gets from that read -- every read, both sides *)
Lemma read_isolation : forall i es1 e es2 s acc,
  addr e <> Some i -> fatal e = false ->
  option_map strip (project i (fst (fst (run_batch (es1 ++ e :: es2) s acc)))) =
  option_map strip (project i (fst (fst (run_batch (es1 ++ es2) s acc)))).
Proof.
  intros i es1 e es2 s acc Ha Hf.
  destruct (run_batch_is_run (es1 ++ e :: es2) s acc) as [-> _].
  destruct (run_batch_is_run (es1 ++ es2) s acc) as [-> _].
  apply run_isolation; assumption.
Qed.

Lemma run_keeps_side : forall es s, c_side (st_conn (run es s)) = c_side (st_conn s).
Proof.
  induction es as [|e t IH]; intro s; cbn [run]; [reflexivity|]. rewrite IH. apply any_event_keeps_side.
Qed.
