(* Proofs/C16Examples.v -- refutation witnesses and non-vacuity examples for C16, all by computation. *)
From Coq Require Import List Bool Arith Lia.
From GV Require Import Model.Channel Proofs.C16Proofs.
Import ListNotations.

(* ---- refutation witnesses (each is replayed on the real code by harness/drive_C16.py, corpus/C16) ---- *)

(* FULL statement (false): "whenever __connect__ returns a connection to a caller, that connection is
   neither lost nor closing at that instant".
   Witness: the attempt completes (connection 0 made), connection_lost is delivered before the
   connecting task resumes; the task then stores the dead protocol, returns it and dies of AttributeError. *)
Lemma connect_returns_live_refuted :
  exists sc ops k c, let s := run ops (init sc) in
    ph (getk s k) = PAttempt (AOk c) /\ lost (getc s c) = true /\
    ph (getk (step s (Run k)) k) = PEnd (RExn EAttr) /\ protocol (step s (Run k)) = Some c /\
    ~ good_ret (step s (Run k)) k.
Proof.
  exists [], [Start; Run 0; Resolve 0; Lose 0], 0, 0. vm_compute. repeat split; auto.
Qed.

(* FULL statement (false): "Channel.close() terminates every call in flight on the connection".
   Witness (D6): caller 1 got connection 0 while writing was paused; it waits on write_ready inside
   protocol.Stream.send_request and is not registered; close() does not reach it: after the loop ran
   everything that was ready it is still blocked, and nothing will ever wake it. *)
Lemma close_terminates_all_calls_refuted :
  exists sc ops k c, let s := run ops (init sc) in
    protocol s = Some c /\ ph (getk s k) = PGot c false /\
    let s' := snd (batch s [SChClose]) in
    ph (getk s' k) = PGot c false /\ enabled s' k = false /\ rq s' = [] /\ lost (getc s' c) = true.
Proof.
  exists [], [Start; Run 0; Resolve 0; Run 0; Pause 0; Start; Run 1], 1, 0. vm_compute. repeat split; auto.
Qed.

(* FULL statement (false): "after Channel.close(), and until another call is started, the channel holds
   no live connection and no call that was in flight continues".
   Witness: close() runs while caller 0's attempt is in flight (_protocol is None, nothing is closed, the
   attempt is not aborted); the attempt then completes, the closed channel stores the new connection and
   the call proceeds on it. *)
Lemma close_aborts_connecting_calls_refuted :
  exists sc ops k, let s := run ops (init sc) in
    ph (getk s k) = PAttempt (AFlight OOk) /\
    let s2 := run [ChClose; Resolve k; Run k] s in
    ph (getk s2 k) = PReg 0 /\ protocol s2 = Some 0 /\ live_connections s2 = 1 /\ chst s2 = Ready.
Proof.
  exists [], [Start; Run 0], 0. vm_compute. repeat split; auto.
Qed.

(* ---- non-vacuity / illustration ------------------------------------------------------------------- *)

(* three concurrent callers, the first attempt fails, the second succeeds: one attempt at a time, the
   OSError goes to caller 0 only, callers 1 and 2 share connection 0 *)
Definition sched3 : list op :=
  [Start; Start; Start; Run 0; Run 1; Run 2; Resolve 0; Run 0; Run 1; Resolve 1; Run 1; Run 2;
   Answer 1; Answer 2; Run 1; Run 2].
Example ex_contention_mid :
  let s := run (firstn 6 sched3) (init [(OFail, false); (OOk, false)]) in
  attempting s = 1 /\ attempts_in_flight s = 1 /\ length (waiters s) = 2 /\ locked s = true /\ creates s = 1.
Proof. vm_compute. repeat split; auto. Qed.
Example ex_contention_end :
  let s := run sched3 (init [(OFail, false); (OOk, false)]) in
  map ph (callers s) = [PEnd (RExn EOSError); PEnd (ROk 0); PEnd (ROk 0)] /\ fails s = [0] /\
  creates s = 2 /\ live_connections s = 1 /\ locked s = false /\ protocol s = Some 0.
Proof. vm_compute. repeat split; auto. Qed.

(* the same through the FIFO scheduler of the correspondence check *)
Example ex_fifo_share :
  let ss := snd (batches (init []) [[SStart; SStart; SStart]; [SResolve]; [SAnswer 0; SAnswer 1; SAnswer 2]]) in
  map (fun s => (creates s, attempts_in_flight s, live_connections s)) ss = [(1, 1, 0); (1, 0, 1); (1, 0, 1)] /\
  map ph (callers (last ss (init []))) = [PEnd (ROk 0); PEnd (ROk 0); PEnd (ROk 0)].
Proof. vm_compute. repeat split; auto. Qed.

(* D16 interleaving (repaired): a call whose first step runs between keepalive Connection.close() and
   connection_lost does not get the closing connection: it starts a new attempt *)
Example ex_d16_repaired :
  let s := run [Start; Run 0; Resolve 0; Run 0; Start; KAClose 0; Run 1] (init []) in
  closing (getc s 0) = true /\ lost (getc s 0) = false /\ ph (getk s 1) = PAttempt (AFlight OOk) /\ creates s = 2.
Proof. vm_compute. repeat split; auto. Qed.

(* hypotheses of connect_returns_live_partial are satisfiable, and the conclusion is informative *)
Example ex_connect_live :
  let s := run [Start; Run 0; Resolve 0] (init []) in
  connect_phase (ph (getk s 0)) = true /\ own_conn_alive s 0 /\ ph (getk (step s (Run 0)) 0) = PReg 0.
Proof.
  cbv zeta. split; [reflexivity|]. split; [|reflexivity].
  intros c H. vm_compute in H. inversion H; subst. reflexivity.
Qed.

(* hypotheses of shared_connection_fast / shared_connection_waiter *)
Example ex_shared_fast :
  let s := run [Start; Run 0; Resolve 0; Run 0; Start] (init []) in
  connected s = true /\ ph (getk s 1) = PNew /\ cancelp (getk s 1) = false.
Proof. vm_compute. repeat split; auto. Qed.
Example ex_shared_waiter :
  let s := run [Start; Start; Run 0; Run 1; Resolve 0; Run 0] (init []) in
  connected s = true /\ ph (getk s 1) = PWait /\ cancelp (getk s 1) = false /\ wlookup 1 (waiters s) = Some WWoken.
Proof. vm_compute. repeat split; auto. Qed.

(* hypotheses of failed_attempt_step / next_holder_retries *)
Example ex_failed_attempt :
  let s := run [Start; Start; Run 0; Run 1; Resolve 0] (init [(OFail, false)]) in
  ph (getk s 0) = PAttempt AFail /\ cancelp (getk s 0) = false /\
  let s' := step s (Run 0) in
  ph (getk s' 1) = PWait /\ cancelp (getk s' 1) = false /\ wlookup 1 (waiters s') = Some WWoken /\ connected s' = false.
Proof. vm_compute. repeat split; auto. Qed.

(* hypotheses of close_cancels_registered / loss_cancels_registered / goaway_cancels_registered *)
Example ex_registered :
  let s := run [Start; Start; Run 0; Run 1; Resolve 0; Run 0; Run 1] (init []) in
  protocol s = Some 0 /\ In 1 (calls (getc s 0)) /\ ph (getk s 1) = PReg 0 /\
  delivered (getc s 0) = false /\ valid_open s 0 = true.
Proof. vm_compute. repeat split; auto. Qed.

(* hypotheses of fresh_call_connects / usable_after_close: a reachable quiet, unconnected state (the
   connection was lost, the call on it was terminated) *)
Definition s_after_loss : state := run [Start; Run 0; Resolve 0; Run 0; Lose 0; Run 0] (init []).
Example ex_after_loss :
  Inv s_after_loss /\ quiet s_after_loss /\ connected s_after_loss = false /\
  hd (OOk, false) (script s_after_loss) = (OOk, false) /\ live_connections s_after_loss = 0 /\
  ph (getk s_after_loss 0) = PEnd (RExn ETerminated).
Proof.
  split. apply reach_inv. split.
  - split; [reflexivity|]. split; [reflexivity|]. intros [|k]. reflexivity.
    unfold s_after_loss, getk. vm_compute. destruct k; reflexivity.
  - vm_compute. repeat split; auto.
Qed.
Example ex_reconnect_concrete :
  let s' := run [Start; Run 1; Resolve 1; Run 1] s_after_loss in
  creates s' = 2 /\ protocol s' = Some 1 /\ ph (getk s' 1) = PReg 1 /\ live_connections s' = 1.
Proof. vm_compute. repeat split; auto. Qed.
