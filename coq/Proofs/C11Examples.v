(* Non-vacuity examples for C11: concrete multiplexed traces satisfy the hypotheses of the theorems,
   the conclusions are observable on them, and the excluded cases really differ.  All closed by
   vm_compute. *)
From Coq Require Import ZArith List Bool.
From GV Require Import Model.Mux Proofs.C11Proofs.
Import ListNotations.
Open Scope Z_scope.

(* three client calls 1, 3, 5 with distinct payloads *)
Definition strand1 : list event :=
  [ARegister 1; EResponse 1 [10;11]; EData 1 [1;1;1] 3; EData 1 [1;2] 2; ETrailers 1 [12]; EEnded 1].
Definition strand3 : list event :=
  [ARegister 3; EResponse 3 [30]; EData 3 [3;3] 2; EReset 3 true 8; ARelease 3].       (* struck: RST_STREAM *)
Definition strand5 : list event :=
  [ARegister 5; EData 5 [5] 1; ADeadline 5; ACancel 5; ARelease 5; EData 5 [5;5] 2].   (* struck: deadline *)
(* what the connection itself sees meanwhile: tolerated frames, window updates, settings, pause/resume *)
Definition strandC : list event :=
  [EPing; EWindow 0; EUnknown; ESettings true true; EPause; EResume; EPriority].

Definition mixed : list event :=
  [ARegister 1; ARegister 3; EPing; EResponse 3 [30]; ARegister 5; EResponse 1 [10;11]; EWindow 0;
   EData 5 [5] 1; EData 1 [1;1;1] 3; EUnknown; EData 3 [3;3] 2; ADeadline 5; EReset 3 true 8;
   ESettings true true; ACancel 5; EData 1 [1;2] 2; ARelease 5; EPause; ARelease 3; ETrailers 1 [12];
   EResume; EData 5 [5;5] 2; EPriority; EEnded 1].

Ltac pick := first [apply Pick_here | apply Pick_next; pick].
Ltac merge := repeat (eapply Merge_cons; [pick|]); apply Merge_nil; repeat constructor.

Example mixed_is_interleaving : Merge [strand1; strand3; strand5; strandC] mixed.
Proof. unfold mixed, strand1, strand3, strand5, strandC. merge. Qed.

Example mixed_call1_as_alone :
  option_map strip (project 1 (run mixed (init Client))) =
  option_map strip (project 1 (run strand1 (init Client))).
Proof. vm_compute; reflexivity. Qed.

(* ... and the result is the non-trivial one: its own headers, its two chunks in order, its trailers *)
Example mixed_call1_value :
  option_map strip (project 1 (run mixed (init Client))) =
  Some (mkCall None (Some [10;11]) [QData [1;1;1] 3; QData [1;2] 2; QEof] true (Some [12])
               false true true true None false 0).
Proof. vm_compute; reflexivity. Qed.

(* the flag really differs (so "modulo wake-up flags" is needed) *)
Example mixed_call1_flag_differs :
  project 1 (run mixed (init Client)) <> project 1 (run strand1 (init Client)).
Proof. vm_compute. discriminate. Qed.

(* the struck calls are gone, the late DATA of call 5 was only credited, the connection is open *)
Example mixed_rest :
  project 3 (run mixed (init Client)) = None /\ project 5 (run mixed (init Client)) = None /\
  c_closed (st_conn (run mixed (init Client))) = false /\
  c_write_ready (st_conn (run mixed (init Client))) = true /\
  snd (fst (run_batches [mixed] (init Client) [] 0)) = [ORst 5; OAck 5 1; OAck 3 2; OAck 5 2].
Proof. vm_compute. repeat split; reflexivity. Qed.

(* hypotheses of merge_projection on this trace *)
Example mixed_hyps :
  (forall e, In e (nth 0 [strand1; strand3; strand5; strandC] []) -> addr e = Some 1) /\
  forallb (fun e => negb (fatal e)) mixed = true.
Proof.
  split; [|vm_compute; reflexivity].
  cbn [nth strand1]. intros e H. repeat (destruct H as [<-|H]; [reflexivity|]). destruct H.
Qed.

(* failure_contained: the strikes against call 3, anywhere *)
Example strike3 :
  let pre := [ARegister 1; ARegister 3; EResponse 1 [10;11]; EData 3 [3] 1] in
  let fs := [EReset 3 false 1; ADeadline 3; EResponse 3 [255]; ETrailers 3 []; ACancel 3; ARelease 3] in
  let post := [EData 1 [1] 1; EEnded 1] in
  project 1 (run (pre ++ fs ++ post) (init Client)) = project 1 (run (pre ++ post) (init Client)) /\
  project 1 (run (pre ++ fs ++ post) (init Client)) =
    Some (mkCall None (Some [10;11]) [QData [1] 1; QEof] true None false true true true None false 0).
Proof. vm_compute. split; reflexivity. Qed.

(* server side: two handlers, one reset before its wrapper exists, the other served normally *)
Definition server_trace : list event :=
  [ERequest 1 [1]; ERequest 3 [3]; EReset 3 true 8; AAttach 1; EData 1 [7;7] 2; EPing; EEnded 1; ARelease 3].

Example server_values :
  project 1 (run server_trace (init Server)) =
    Some (mkCall (Some [1]) None [QData [7;7] 2; QEof] true None false false true true None true 0) /\
  project 3 (run (firstn 3 server_trace) (init Server)) =
    Some (mkCall (Some [3]) None [] false None false false false false None false 1) /\
  project 3 (run server_trace (init Server)) = None.
Proof. vm_compute. repeat split; reflexivity. Qed.

(* a fatal event reaches every call, with its own reason; a second close overwrites the reason *)
Example goaway_then_lost :
  option_map cs_error (project 1 (run [ARegister 1; ARegister 3; EGoaway 2] (init Client))) = Some (Some (RGoaway 2)) /\
  option_map cs_error (project 3 (run [ARegister 1; ARegister 3; EGoaway 2] (init Client))) = Some (Some (RGoaway 2)) /\
  option_map cs_error (project 3 (run [ARegister 1; ARegister 3; EGoaway 2; EConnLost] (init Client))) = Some (Some RConnLost) /\
  (* after the close, h2 events are ignored *)
  option_map cs_headers (project 1 (run [ARegister 1; EGoaway 0; EResponse 1 [9]] (init Client))) = Some None.
Proof. vm_compute. repeat split; reflexivity. Qed.

(* D20 as the model shows it: Server.close-style shutdown then connection_lost cancels the task twice *)
Example double_cancel_on_two_closes :
  option_map cs_cancels (project 1 (run [ERequest 1 []; EChannelClose; EConnLost] (init Server))) = Some 2%nat.
Proof. vm_compute; reflexivity. Qed.

(* D11 (repaired): an unknown frame inside a batch does not drop the frames of other calls *)
Example unknown_frame_in_batch :
  run_batch [EResponse 1 [1]; EUnknown; EResponse 3 [3]; EData 3 [3] 1]
            (run [ARegister 1; ARegister 3] (init Client)) [] =
  run_batch [EResponse 1 [1]; EResponse 3 [3]; EData 3 [3] 1]
            (run [ARegister 1; ARegister 3] (init Client)) [].
Proof. vm_compute; reflexivity. Qed.

(* a second StreamReset for a server stream whose task was already popped (h2 never sends one) is
   harmless now: Handler.cancel pops with a default; the rest of the read reaches the other calls *)
Example second_reset_is_harmless :
  let s0 := run [ERequest 1 []; ERequest 3 []; EReset 1 true 0] (init Server) in
  raises s0 (EReset 1 true 0) = false /\
  option_map cs_cancels (project 1 (step s0 (EReset 1 true 0))) = Some 1%nat /\
  option_map cs_queue (project 3 (fst (fst (run_batch [EReset 1 true 0; EData 3 [3] 1] s0 [])))) =
    Some [QData [3] 1].
Proof. vm_compute. repeat split; reflexivity. Qed.

(* StreamEnded without trailers wakes a reader of the trailers (trailers_received is set, trailers None) *)
Example ended_without_trailers :
  option_map recv_ready (project 1 (run [ARegister 1; EResponse 1 [1]; EEnded 1] (init Client))) =
    Some (true, true, true, false) /\
  option_map cs_trailers (project 1 (run [ARegister 1; EResponse 1 [1]; EEnded 1] (init Client))) = Some None.
Proof. vm_compute. split; reflexivity. Qed.

Example no_raise_on_mixed : no_raise mixed (init Client) = true.
Proof. vm_compute; reflexivity. Qed.

(* spurious wake-up: a connection WINDOW_UPDATE while the stream's own window is exhausted *)
Example spurious_example :
  let c := set_wu true (new_call None true false) in
  sender_wake true 0 16384 100 c = (set_wu false c, SWaitWindow) /\
  sender_wake true 70 16384 100 c = (c, SSend 70) /\
  sender_wake true 70000 16384 100000 c = (c, SSend 16384).
Proof. vm_compute. repeat split; reflexivity. Qed.

(* keys stay distinct on a trace that re-registers an id *)
Example reregister :
  map fst (st_reg (run [ERequest 1 [1]; ERequest 3 [3]; ERequest 1 [2]] (init Server))) = [1; 3] /\
  option_map cs_req (project 1 (run [ERequest 1 [1]; ERequest 3 [3]; ERequest 1 [2]] (init Server))) = Some (Some [2]).
Proof. vm_compute. split; reflexivity. Qed.

(* read_isolation on a concrete read: three calls, tolerated frames, a RST_STREAM for call 3 in the middle *)
Example read_isolation_example :
  let s0 := run [ARegister 1; ARegister 3; ARegister 5] (init Client) in
  let es1 := [EResponse 1 [1]; EUnknown; EData 3 [3] 1] in
  let es2 := [EData 1 [1;1] 2; EPing; EResponse 5 [5]; EEnded 1] in
  option_map cs_queue (project 1 (fst (fst (run_batch (es1 ++ EReset 3 true 8 :: es2) s0 [])))) =
    Some [QData [1;1] 2; QEof] /\
  option_map cs_error (project 3 (fst (fst (run_batch (es1 ++ EReset 3 true 8 :: es2) s0 [])))) =
    Some (Some (RRemoteReset 8)).
Proof. vm_compute. split; reflexivity. Qed.

(* D21 repaired, as the model shows it: the read [HEADERS(even stream 2); HEADERS(call 1)] refuses and
   releases stream 2 at once, raises nothing, and call 1 gets its headers; an older call that happened to
   have that id would be overwritten and released (the id spaces are disjoint, so it cannot) *)
Example d21_repaired :
  let s0 := run [ARegister 1] (init Client) in
  let r := run_batch [ERequest 2 []; EResponse 1 [7]] s0 [] in
  snd r = false /\ option_map cs_headers (project 1 (fst (fst r))) = Some (Some [7]) /\
  map fst (st_reg (fst (fst r))) = [1] /\ c_slot_wake (st_conn (fst (fst r))) = true.
Proof. vm_compute. repeat split; reflexivity. Qed.
