(* Proofs for Props/C08.v: the receive-credit ledger of Model/RecvLedger.v.
   Axiom-free; every lemma used by Props/C08.v is closed under the global context. *)
From Coq Require Import ZArith List Bool Lia ZifyBool.
From GV Require Import Gen.Facts Model.RecvLedger.
Import ListNotations.
Open Scope Z_scope.

#[local] Ltac Zify.zify_post_hook ::= Z.div_mod_to_equations.

(* ------------------------------------------------------------------------------------------ *)
(** * Sums *)

Lemma total_app f a b : total f (a ++ b) = total f a + total f b.
Proof. unfold total. induction a as [|x a IH]; cbn [app fold_right]; lia. Qed.

Lemma total_nil f : total f [] = 0.
Proof. reflexivity. Qed.

Lemma total_cons f x a : total f (x :: a) = f x + total f a.
Proof. reflexivity. Qed.

Lemma qsum_app a b : qsum (a ++ b) = qsum a + qsum b.
Proof. unfold qsum. induction a as [|x a IH]; cbn [app fold_right]; lia. Qed.

Lemma lsum_app a b : lsum (a ++ b) = lsum a + lsum b.
Proof. unfold lsum. induction a as [|x a IH]; cbn [app fold_right]; lia. Qed.

Lemma qsum_cons x a : qsum (x :: a) = it_ack x + qsum a.
Proof. reflexivity. Qed.

Lemma lsum_cons x a : lsum (x :: a) = it_len x + lsum a.
Proof. reflexivity. Qed.

(* the six ledger sums of an output list, as one record of equations *)
Definition sums (o : list out) (r c d : Z -> Z) (rA cA dA : Z) : Prop :=
  (forall x, received x o = r x) /\ (forall x, credited x o = c x) /\ (forall x, dropped x o = d x) /\
  received_conn o = rA /\ credited_conn o = cA /\ dropped_conn o = dA.

Definition zero : Z -> Z := fun _ => 0.
Definition at_ (sid k : Z) : Z -> Z := fun x => if sid =? x then k else 0.

Lemma sums_nil : sums [] zero zero zero 0 0 0.
Proof. repeat split. Qed.

Lemma sums_app o1 o2 r1 c1 d1 rA1 cA1 dA1 r2 c2 d2 rA2 cA2 dA2 :
  sums o1 r1 c1 d1 rA1 cA1 dA1 -> sums o2 r2 c2 d2 rA2 cA2 dA2 ->
  sums (o1 ++ o2) (fun x => r1 x + r2 x) (fun x => c1 x + c2 x) (fun x => d1 x + d2 x)
       (rA1 + rA2) (cA1 + cA2) (dA1 + dA2).
Proof.
  intros (Hr1 & Hc1 & Hd1 & HrA1 & HcA1 & HdA1) (Hr2 & Hc2 & Hd2 & HrA2 & HcA2 & HdA2).
  unfold sums, received, credited, dropped, received_conn, credited_conn, dropped_conn in *.
  repeat split; intros; rewrite total_app; auto; try congruence.
Qed.

Lemma sums_ghost o : (forall x, In x o -> match x with OBlock _ | ORead _ _ => True | _ => False end) ->
  sums o zero zero zero 0 0 0.
Proof.
  induction o as [|x o IH]; intros H. { apply sums_nil. }
  assert (Hx := H x (or_introl eq_refl)).
  destruct IH as (Hr & Hc & Hd & HrA & HcA & HdA). { intros y Hy. apply H. right. exact Hy. }
  unfold sums, received, credited, dropped, received_conn, credited_conn, dropped_conn, zero in *.
  repeat split; intros; rewrite total_cons; destruct x; try contradiction; cbn [recv1 cred1 drop1 recvA credA dropA];
    rewrite ?Hr, ?Hc, ?Hd, ?HrA, ?HcA, ?HdA; reflexivity.
Qed.

Lemma sums_ack_out sid k : sums (ack_out sid k) zero (at_ sid k) zero 0 k 0.
Proof.
  unfold ack_out, at_, zero. destruct (k =? 0) eqn:E.
  - assert (k = 0) by lia. subst k. repeat split; intros; try reflexivity.
    unfold credited. rewrite total_nil. destruct (sid =? x); reflexivity.
  - unfold sums, received, credited, dropped, received_conn, credited_conn, dropped_conn.
    repeat split; intros; rewrite total_cons, total_nil; cbn [recv1 cred1 drop1 recvA credA dropA]; try lia.
Qed.

Lemma sums_acks_of sid p : sums (acks_of sid p) zero (at_ sid (qsum p)) zero 0 (qsum p) 0.
Proof.
  induction p as [|it p IH].
  - cbn [acks_of flat_map]. unfold at_. cbn [qsum fold_right].
    destruct sums_nil as (Hr & Hc & Hd & HrA & HcA & HdA). repeat split; auto.
    intros x. rewrite Hc. unfold zero. destruct (sid =? x); reflexivity.
  - unfold acks_of. cbn [flat_map]. fold (acks_of sid p).
    pose proof (sums_app _ _ _ _ _ _ _ _ _ _ _ _ _ _ (sums_ack_out sid (it_ack it)) IH) as
        (Hr & Hc & Hd & HrA & HcA & HdA).
    rewrite qsum_cons. unfold zero, at_ in *.
    repeat split; intros; rewrite ?Hr, ?Hc, ?Hd, ?HrA, ?HcA, ?HdA; try reflexivity.
    destruct (sid =? x); lia.
Qed.

(* ------------------------------------------------------------------------------------------ *)
(** * The registry *)

Definition keys (r : registry) : list Z := map fst r.
Definition hsum (r : registry) : Z := fold_right (fun p a => qsum (bq (snd p)) + a) 0 r.

Lemma queued_conn_hsum s : queued_conn s = hsum (reg s).
Proof. reflexivity. Qed.

Lemma lookup_not_in x r : ~ In x (keys r) -> lookup x r = None.
Proof.
  induction r as [|[k b] r IH]; cbn [lookup keys map fst In]; intros H; [reflexivity|].
  destruct (k =? x) eqn:E.
  - exfalso. apply H. left. lia.
  - apply IH. intro Hin. apply H. right. exact Hin.
Qed.

Lemma lookup_in x b r : lookup x r = Some b -> In (x, b) r.
Proof.
  induction r as [|[k b0] r IH]; cbn [lookup In]; intros H; [discriminate|].
  destruct (k =? x) eqn:E.
  - injection H as ->. left. f_equal. lia.
  - right. apply IH. exact H.
Qed.

Lemma remove_cons x k b r :
  remove x ((k, b) :: r) = if k =? x then remove x r else (k, b) :: remove x r.
Proof. unfold remove. cbn [filter fst]. destruct (k =? x); reflexivity. Qed.

Lemma lookup_remove x y r : lookup x (remove y r) = if x =? y then None else lookup x r.
Proof.
  induction r as [|[k b] r IH].
  - cbn. destruct (x =? y); reflexivity.
  - rewrite remove_cons. destruct (k =? y) eqn:Eky.
    + rewrite IH. destruct (x =? y) eqn:Exy; [reflexivity|].
      cbn [lookup]. destruct (k =? x) eqn:Ekx; [exfalso; lia|reflexivity].
    + cbn [lookup]. rewrite IH. destruct (k =? x) eqn:Ekx; [|reflexivity].
      destruct (x =? y) eqn:Exy; [exfalso; lia|reflexivity].
Qed.

Lemma lookup_set x y b r : lookup x (set y b r) = if y =? x then Some b else lookup x r.
Proof.
  unfold set. cbn [lookup]. destruct (y =? x) eqn:E; [reflexivity|].
  rewrite lookup_remove. destruct (x =? y) eqn:E2; [exfalso; lia|reflexivity].
Qed.

Lemma remove_keys x k r : In k (keys (remove x r)) -> In k (keys r) /\ k <> x.
Proof.
  induction r as [|[k0 b] r IH]; [intros []|].
  rewrite remove_cons. destruct (k0 =? x) eqn:E; cbn [keys map fst In].
  - intros H. destruct (IH H) as [H1 H2]. split; [right; exact H1|exact H2].
  - intros [H|H].
    + split; [left; exact H|lia].
    + destruct (IH H) as [H1 H2]. split; [right; exact H1|exact H2].
Qed.

Lemma NoDup_remove x r : NoDup (keys r) -> NoDup (keys (remove x r)).
Proof.
  induction r as [|[k b] r IH]; intros H; [constructor|].
  cbn [keys map fst] in H. inversion H as [|? ? Hnin Hnd]; subst.
  rewrite remove_cons. destruct (k =? x); [apply IH; exact Hnd|].
  cbn [keys map fst]. constructor; [|apply IH; exact Hnd].
  intro Hin. apply remove_keys in Hin. apply Hnin. apply Hin.
Qed.

Lemma NoDup_set x b r : NoDup (keys r) -> NoDup (keys (set x b r)).
Proof.
  intros H. unfold set. cbn [keys map fst]. constructor; [|apply NoDup_remove; exact H].
  intro Hin. apply remove_keys in Hin. destruct Hin as [_ Hne]. apply Hne. reflexivity.
Qed.

Lemma remove_absent x r : ~ In x (keys r) -> remove x r = r.
Proof.
  induction r as [|[k b] r IH]; intros H; [reflexivity|].
  rewrite remove_cons. cbn [keys map fst In] in H.
  destruct (k =? x) eqn:E; [exfalso; apply H; left; lia|].
  f_equal. apply IH. intro Hin. apply H. right. exact Hin.
Qed.

Lemma hsum_cons k b r : hsum ((k, b) :: r) = qsum (bq b) + hsum r.
Proof. reflexivity. Qed.

Lemma hsum_remove x b r : NoDup (keys r) -> lookup x r = Some b -> hsum r = qsum (bq b) + hsum (remove x r).
Proof.
  induction r as [|[k b0] r IH]; intros Hnd H; [discriminate|].
  cbn [keys map fst] in Hnd. inversion Hnd as [|? ? Hnin Hnd']; subst.
  rewrite remove_cons. cbn [lookup] in H. destruct (k =? x) eqn:E.
  - injection H as ->. assert (k = x) by lia. subst k.
    rewrite (remove_absent x r Hnin). apply hsum_cons.
  - rewrite !hsum_cons. rewrite (IH Hnd' H). lia.
Qed.

Lemma hsum_remove_none x r : lookup x r = None -> remove x r = r.
Proof.
  induction r as [|[k b] r IH]; intros H; [reflexivity|].
  rewrite remove_cons. cbn [lookup] in H. destruct (k =? x) eqn:E; [discriminate|].
  f_equal. apply IH. exact H.
Qed.

Lemma hsum_set x b r : hsum (set x b r) = qsum (bq b) + hsum (remove x r).
Proof. reflexivity. Qed.

Lemma queued_set x sid b r c : queued x (mkSt (set sid b r) c) = if sid =? x then qsum (bq b) else queued x (mkSt r c).
Proof. unfold queued. cbn [reg]. rewrite lookup_set. destruct (sid =? x); reflexivity. Qed.

Lemma queued_remove x sid r c : queued x (mkSt (remove sid r) c) = if x =? sid then 0 else queued x (mkSt r c).
Proof. unfold queued. cbn [reg]. rewrite lookup_remove. destruct (x =? sid); reflexivity. Qed.

Lemma queued_closing x r c c' : queued x (mkSt r c) = queued x (mkSt r c').
Proof. reflexivity. Qed.

(* ------------------------------------------------------------------------------------------ *)
(** * Buffer.read: the popped items are the minimal prefix of the queue that the read needs *)

Lemma pump_spec q : forall acked size p r a stt,
  pump q acked size = (p, r, a, stt) ->
  q = p ++ r /\
  (forall p1 x p2, p = p1 ++ x :: p2 -> acked + lsum p1 < size /\ (p2 <> [] -> it_ack x <> 0)) /\
  match stt with
  | PEnough => size <= a /\ a = acked + lsum p /\ (forall x, In x p -> it_ack x <> 0)
  | PBreak => exists p0 m, p = p0 ++ [m] /\ it_ack m = 0 /\ a = acked + lsum p0 /\ a < size /\
                           (forall x, In x p0 -> it_ack x <> 0)
  | PBlocked => r = [] /\ a = acked + lsum p /\ a < size /\ (forall x, In x p -> it_ack x <> 0)
  end.
Proof.
  induction q as [|it q IH]; intros acked size p r a stt H; cbn [pump] in H.
  - destruct (acked <? size) eqn:E; injection H as <- <- <- <-.
    + split; [reflexivity|]. split.
      * intros p1 x p2 Hp. destruct p1; discriminate.
      * repeat split; cbn [lsum fold_right]; try lia; intros ? [].
    + split; [reflexivity|]. split.
      * intros p1 x p2 Hp. destruct p1; discriminate.
      * repeat split; cbn [lsum fold_right]; try lia; intros ? [].
  - destruct (acked <? size) eqn:E.
    + destruct (it_ack it =? 0) eqn:Ez.
      * injection H as <- <- <- <-. split; [reflexivity|]. split.
        -- intros p1 x p2 Hp. destruct p1 as [|y p1].
           ++ injection Hp as <- <-. cbn [lsum fold_right]. split; [lia|]. intros Hne. exfalso. apply Hne. reflexivity.
           ++ injection Hp as _ Hp. destruct p1; discriminate.
        -- exists [], it. cbn [app lsum fold_right]. repeat split; try lia; intros ? [].
      * destruct (pump q (acked + it_len it) size) as [[[p' r'] a'] st'] eqn:Hrec.
        injection H as <- <- <- <-.
        destruct (IH _ _ _ _ _ _ Hrec) as (Hq & Hmin & Hst).
        split; [cbn [app]; f_equal; exact Hq|]. split.
        -- intros p1 x p2 Hp. destruct p1 as [|y p1].
           ++ injection Hp as <- <-. cbn [lsum fold_right]. split; [lia|]. intros _. lia.
           ++ injection Hp as <- Hp. destruct (Hmin _ _ _ Hp) as [H1 H2].
              rewrite lsum_cons. split; [lia|exact H2].
        -- destruct st'.
           ++ destruct Hst as (H1 & H2 & H3). rewrite lsum_cons. repeat split; try lia.
              intros x [<-|Hx]; [lia|apply H3; exact Hx].
           ++ destruct Hst as (p0 & m & Hp & Hm & Ha & Hlt & Hnz).
              exists (it :: p0), m. rewrite lsum_cons. cbn [app]. repeat split; try lia.
              ** f_equal. exact Hp.
              ** intros x [<-|Hx]; [lia|apply Hnz; exact Hx].
           ++ destruct Hst as (H1 & H2 & H3 & H4). rewrite lsum_cons. repeat split; try lia.
              ** exact H1.
              ** intros x [<-|Hx]; [lia|apply H4; exact Hx].
    + injection H as <- <- <- <-. split; [reflexivity|]. split.
      * intros p1 x p2 Hp. destruct p1; discriminate.
      * cbn [lsum fold_right]. repeat split; try lia; intros ? [].
Qed.

Lemma pump_split q acked size p r a stt : pump q acked size = (p, r, a, stt) -> q = p ++ r.
Proof. intros H. apply (pump_spec _ _ _ _ _ _ _ H). Qed.

(* ------------------------------------------------------------------------------------------ *)
(* ------------------------------------------------------------------------------------------ *)
(** * Live and released buffers *)

Lemma lookup_live_some sid r b : lookup_live sid r = Some b -> lookup sid r = Some b /\ brel b = false.
Proof.
  unfold lookup_live. destruct (lookup sid r) as [b0|]; [|discriminate].
  destruct (brel b0) eqn:E; [discriminate|]. intros H; injection H as <-. auto.
Qed.

Lemma lookup_live_of sid r b : lookup sid r = Some b -> brel b = false -> lookup_live sid r = Some b.
Proof. intros H1 H2. unfold lookup_live. rewrite H1, H2. reflexivity. Qed.

Lemma held_forfeited x s : held x s + forfeited x s = queued x s.
Proof.
  unfold held, forfeited, queued, lookup_live. destruct (lookup x (reg s)) as [b|]; [destruct (brel b)|]; lia.
Qed.

Lemma held_forfeited_conn s : held_conn s + forfeited_conn s = queued_conn s.
Proof.
  unfold held_conn, forfeited_conn, queued_conn. induction (reg s) as [|[k b] r IH]; cbn [fold_right snd]; [lia|].
  destruct (brel b); lia.
Qed.

(* ------------------------------------------------------------------------------------------ *)
(** * What one buffer operation does to the ledger *)

Definition q_ok (q : list item) : Prop := Forall (fun it => 0 <= it_ack it) q.

Lemma qsum_nonneg q : q_ok q -> 0 <= qsum q.
Proof. induction 1 as [|it q Hit _ IH]; [cbn; lia|rewrite qsum_cons; lia]. Qed.

(* a buffer operation on stream sid that turns b into b' and emits o: nothing is received, exactly the credit
   that left the queue is acknowledged, all of it for sid; d / dA are the ghost ODrop sums *)
Definition local_sums (sid : Z) (b b' : buf) (o : list out) (d : Z -> Z) (dA : Z) : Prop :=
  sums o zero (at_ sid (qsum (bq b) - qsum (bq b'))) d 0 (qsum (bq b) - qsum (bq b')) dA.

(* never lengthens the credit queue and keeps its items non-negative *)
Definition shrinks (b b' : buf) : Prop := q_ok (bq b') /\ qsum (bq b') <= qsum (bq b).

(* keeps the released flag, and an empty queue stays empty *)
Definition keeps (b b' : buf) : Prop := brel b' = brel b /\ (bq b = [] -> bq b' = []).

Definition op_ok (sid : Z) (b b' : buf) (o : list out) : Prop :=
  exists d dA, local_sums sid b b' o d dA /\
               (q_ok (bq b) -> (forall x, 0 <= d x) /\ 0 <= dA /\ shrinks b b').

Definition local_ok (sid : Z) (b b' : buf) (o : list out) : Prop := local_sums sid b b' o zero 0.

Lemma op_ok_of sid b b' o : local_ok sid b b' o -> (q_ok (bq b) -> shrinks b b') -> op_ok sid b b' o.
Proof. intros H1 H2. exists zero, 0. split; [exact H1|]. intros Hq. unfold zero. repeat split; try lia; apply H2; exact Hq. Qed.

Lemma sums_ext o r c d rA cA dA r' c' d' rA' cA' dA' :
  sums o r c d rA cA dA ->
  (forall x, r x = r' x) -> (forall x, c x = c' x) -> (forall x, d x = d' x) -> rA = rA' -> cA = cA' -> dA = dA' ->
  sums o r' c' d' rA' cA' dA'.
Proof.
  intros (Hr & Hc & Hd & HrA & HcA & HdA) Er Ec Ed ErA EcA EdA.
  repeat split; intros; rewrite <- ?Er, <- ?Ec, <- ?Ed, <- ?ErA, <- ?EcA, <- ?EdA; auto.
Qed.

Lemma local_ok_same sid b b' o : bq b' = bq b -> sums o zero zero zero 0 0 0 -> local_ok sid b b' o.
Proof.
  intros Hq H. unfold local_ok, local_sums. rewrite Hq.
  eapply sums_ext; [exact H|..]; intros; unfold zero, at_; try lia.
  destruct (sid =? x); lia.
Qed.

Lemma finish_queue q a e rl size b' res : finish q a e rl size = (b', res) -> bq b' = q.
Proof.
  unfold finish. destruct (e && (a =? 0)); [|destruct (a <? size)]; intros H; injection H as <- _; reflexivity.
Qed.

Lemma finish_pend q a e rl size b' res : finish q a e rl size = (b', res) -> bpend b' = None.
Proof.
  unfold finish. destruct (e && (a =? 0)); [|destruct (a <? size)]; intros H; injection H as <- _; reflexivity.
Qed.

Lemma finish_rel q a e rl size b' res : finish q a e rl size = (b', res) -> brel b' = rl.
Proof.
  unfold finish. destruct (e && (a =? 0)); [|destruct (a <? size)]; intros H; injection H as <- _; reflexivity.
Qed.

Lemma read_loop_ok sid b size b' o : read_loop sid b size = (b', o) -> local_ok sid b b' o.
Proof.
  unfold read_loop. destruct (pump (bq b) (backed b) size) as [[[p r] a] stt] eqn:Hp.
  pose proof (pump_split _ _ _ _ _ _ _ Hp) as Hq.
  assert (Hgen : forall tail q', (forall x, In x tail -> match x with OBlock _ | ORead _ _ => True | _ => False end) ->
                 q' = r -> sums (acks_of sid p ++ tail) zero (at_ sid (qsum (bq b) - qsum q')) zero 0
                                (qsum (bq b) - qsum q') 0).
  { intros tail q' Ht ->.
    pose proof (sums_app _ _ _ _ _ _ _ _ _ _ _ _ _ _ (sums_acks_of sid p) (sums_ghost tail Ht)) as H.
    rewrite Hq, qsum_app. eapply sums_ext; [exact H|..]; intros; unfold zero, at_; try lia.
    destruct (sid =? x); lia. }
  destruct stt.
  - destruct (finish r a (beof b) (brel b) size) as [b1 res] eqn:Hf. intros H; injection H as <- <-.
    unfold local_ok, local_sums. apply Hgen; [|apply (finish_queue _ _ _ _ _ _ _ Hf)].
    intros x [<-|[]]. exact I.
  - destruct (finish r a (beof b) (brel b) size) as [b1 res] eqn:Hf. intros H; injection H as <- <-.
    unfold local_ok, local_sums. apply Hgen; [|apply (finish_queue _ _ _ _ _ _ _ Hf)].
    intros x [<-|[]]. exact I.
  - intros H; injection H as <- <-. unfold local_ok, local_sums. cbn [bq]. apply Hgen; [|reflexivity].
    intros x [<-|[]]. exact I.
Qed.

Lemma read_loop_queue sid b size b' o : read_loop sid b size = (b', o) ->
  exists p, bq b = p ++ bq b' /\ brel b' = brel b.
Proof.
  unfold read_loop. destruct (pump (bq b) (backed b) size) as [[[p r] a] stt] eqn:Hp.
  pose proof (pump_split _ _ _ _ _ _ _ Hp) as Hq. exists p.
  destruct stt.
  - destruct (finish r a (beof b) (brel b) size) as [b1 res] eqn:Hf. injection H as <- _.
    rewrite (finish_queue _ _ _ _ _ _ _ Hf), (finish_rel _ _ _ _ _ _ _ Hf). auto.
  - destruct (finish r a (beof b) (brel b) size) as [b1 res] eqn:Hf. injection H as <- _.
    rewrite (finish_queue _ _ _ _ _ _ _ Hf), (finish_rel _ _ _ _ _ _ _ Hf). auto.
  - injection H as <- _. cbn [bq brel]. auto.
Qed.

Lemma read_loop_shrinks sid b size b' o : q_ok (bq b) -> read_loop sid b size = (b', o) -> shrinks b b'.
Proof.
  intros Hq H. destruct (read_loop_queue _ _ _ _ _ H) as (p & Hs & _). unfold q_ok in Hq. rewrite Hs in Hq.
  apply Forall_app in Hq as [Hqp Hqr]. pose proof (qsum_nonneg _ Hqp). unfold shrinks. rewrite Hs, qsum_app.
  split; [exact Hqr|lia].
Qed.

Lemma read_loop_keeps sid b size b' o : read_loop sid b size = (b', o) -> keeps b b'.
Proof.
  intros H. destruct (read_loop_queue _ _ _ _ _ H) as (p & Hs & Hr). split; [exact Hr|].
  intros Hn. rewrite Hn in Hs. symmetry in Hs. apply app_eq_nil in Hs. apply Hs.
Qed.

Lemma sums_one_ghost x : match x with OBlock _ | ORead _ _ => True | _ => False end -> sums [x] zero zero zero 0 0 0.
Proof. intros H. apply sums_ghost. intros y [<-|[]]. exact H. Qed.

Lemma shrinks_same b b' : q_ok (bq b) -> bq b' = bq b -> shrinks b b'.
Proof. intros Hq He. unfold shrinks. rewrite He. split; [exact Hq|lia]. Qed.

Lemma keeps_same b b' : bq b' = bq b -> brel b' = brel b -> keeps b b'.
Proof. intros H1 H2. split; [exact H2|]. intros Hn. rewrite H1. exact Hn. Qed.

(* Buffer.read: same queue / ghost output in every branch but the loop *)
Lemma buf_read_cases sid b size b' o : buf_read sid b size = (b', o) ->
  (bq b' = bq b /\ brel b' = brel b /\ sums o zero zero zero 0 0 0) \/ read_loop sid b size = (b', o).
Proof.
  unfold buf_read. destruct (bpend b).
  { intros H; injection H as <- <-. left. split; [reflexivity|split; [reflexivity|apply sums_one_ghost; exact I]]. }
  destruct (size <? 0). { intros H; injection H as <- <-. left. split; [reflexivity|split; [reflexivity|apply sums_one_ghost; exact I]]. }
  destruct (size =? 0). { intros H; injection H as <- <-. left. split; [reflexivity|split; [reflexivity|apply sums_one_ghost; exact I]]. }
  destruct (beof b && is_nil (bq b)).
  - destruct (finish (bq b) (backed b) (beof b) (brel b) size) as [b1 res] eqn:Hf.
    intros H; injection H as <- <-. left.
    rewrite (finish_queue _ _ _ _ _ _ _ Hf), (finish_rel _ _ _ _ _ _ _ Hf).
    split; [reflexivity|split; [reflexivity|apply sums_one_ghost; exact I]].
  - intros H. right. exact H.
Qed.

Lemma buf_wake_cases sid b b' o : buf_wake sid b = (b', o) ->
  (bq b' = bq b /\ brel b' = brel b /\ sums o zero zero zero 0 0 0) \/ exists size, read_loop sid b size = (b', o).
Proof.
  unfold buf_wake. destruct (bpend b) as [size|].
  - destruct (is_nil (bq b)).
    + intros H; injection H as <- <-. left. split; [reflexivity|split; [reflexivity|apply sums_nil]].
    + intros H. right. exists size. exact H.
  - intros H; injection H as <- <-. left. split; [reflexivity|split; [reflexivity|apply sums_nil]].
Qed.

Lemma buf_read_ok sid b size b' o : buf_read sid b size = (b', o) -> local_ok sid b b' o.
Proof.
  intros H. destruct (buf_read_cases _ _ _ _ _ H) as [(Hq & _ & Hs)|Hl];
    [apply local_ok_same; assumption|eapply read_loop_ok; exact Hl].
Qed.

Lemma buf_wake_ok sid b b' o : buf_wake sid b = (b', o) -> local_ok sid b b' o.
Proof.
  intros H. destruct (buf_wake_cases _ _ _ _ H) as [(Hq & _ & Hs)|[size Hl]];
    [apply local_ok_same; assumption|eapply read_loop_ok; exact Hl].
Qed.

Lemma buf_read_op sid b size b' o : buf_read sid b size = (b', o) -> op_ok sid b b' o /\ keeps b b'.
Proof.
  intros H. split.
  - apply op_ok_of; [eapply buf_read_ok; exact H|]. intros Hq.
    destruct (buf_read_cases _ _ _ _ _ H) as [(He & _ & _)|Hl];
      [apply shrinks_same; assumption|eapply read_loop_shrinks; eassumption].
  - destruct (buf_read_cases _ _ _ _ _ H) as [(He & Hr & _)|Hl];
      [apply keeps_same; assumption|eapply read_loop_keeps; exact Hl].
Qed.

Lemma buf_wake_op sid b b' o : buf_wake sid b = (b', o) -> op_ok sid b b' o /\ keeps b b'.
Proof.
  intros H. split.
  - apply op_ok_of; [eapply buf_wake_ok; exact H|]. intros Hq.
    destruct (buf_wake_cases _ _ _ _ H) as [(He & _ & _)|[size Hl]];
      [apply shrinks_same; assumption|eapply read_loop_shrinks; eassumption].
  - destruct (buf_wake_cases _ _ _ _ H) as [(He & Hr & _)|[size Hl]];
      [apply keeps_same; assumption|eapply read_loop_keeps; exact Hl].
Qed.

Lemma buf_cancel_op sid b : op_ok sid b (buf_cancel b) [] /\ keeps b (buf_cancel b).
Proof.
  split; [|apply keeps_same; reflexivity].
  apply op_ok_of; [apply local_ok_same; [reflexivity|apply sums_nil]|]. intros Hq. apply shrinks_same; [exact Hq|reflexivity].
Qed.

Lemma buf_eof_op sid b : op_ok sid b (buf_eof b) [] /\ brel (buf_eof b) = brel b.
Proof.
  split; [|reflexivity]. apply op_ok_of.
  - unfold local_ok, local_sums, buf_eof. cbn [bq]. rewrite qsum_app. cbn [qsum fold_right eof_marker it_ack].
    eapply sums_ext; [exact sums_nil|..]; intros; unfold zero, at_; try lia. destruct (sid =? x); lia.
  - intros Hq. unfold shrinks, buf_eof. cbn [bq]. rewrite qsum_app. cbn [qsum fold_right eof_marker it_ack].
    split; [|lia]. apply Forall_app. split; [exact Hq|]. constructor; [unfold eof_marker; cbn [it_ack]; lia|constructor].
Qed.

(* release_stream: acknowledges the whole queue and drains it, or (closing) leaves everything as it is *)
Lemma buf_release_op sid c b :
  op_ok sid b (buf_release c b) (if c then [ODrop sid (qsum (bq b))] else ack_out sid (qsum (bq b))).
Proof.
  unfold op_ok, local_sums, buf_release. cbn [bq]. destruct c.
  - exists (at_ sid (qsum (bq b))), (qsum (bq b)). split.
    + unfold sums, received, credited, dropped, received_conn, credited_conn, dropped_conn, zero, at_.
      repeat split; intros; rewrite total_cons, total_nil; cbn [recv1 cred1 drop1 recvA credA dropA]; try lia;
        destruct (sid =? x); lia.
    + intros Hq. pose proof (qsum_nonneg _ Hq). unfold shrinks, at_. cbn [bq]. repeat split; try lia; try exact Hq.
      intros x. destruct (sid =? x); lia.
  - exists zero, 0. split.
    + cbn [qsum fold_right]. eapply sums_ext; [apply sums_ack_out|..]; intros; unfold zero, at_; try lia.
      destruct (sid =? x); lia.
    + intros Hq. pose proof (qsum_nonneg _ Hq). unfold shrinks, zero. cbn [bq qsum fold_right].
      repeat split; try lia. constructor.
Qed.

(* ------------------------------------------------------------------------------------------ *)
(** * One step = at most one buffer update *)

Inductive upd (P : buf -> Prop) (s : st) (sid : Z) (f : buf -> buf * list out) (dflt : list out)
          (s' : st) (o : list out) : Prop :=
| upd_none : s' = s -> o = dflt -> upd P s sid f dflt s' o
| upd_some b b' : lookup sid (reg s) = Some b -> P b -> f b = (b', o) ->
                  s' = mkSt (set sid b' (reg s)) (closing s) -> upd P s sid f dflt s' o.

Lemma with_buf_upd s sid f dflt s' o : with_buf s sid f dflt = (s', o) -> upd (fun _ => True) s sid f dflt s' o.
Proof.
  unfold with_buf. destruct (lookup sid (reg s)) as [b|] eqn:Hl.
  - destruct (f b) as [b' ob] eqn:Hf. intros H; injection H as <- <-. eapply upd_some; eauto.
  - intros H; injection H as <- <-. apply upd_none; reflexivity.
Qed.

Lemma with_live_buf_upd s sid f dflt s' o :
  with_live_buf s sid f dflt = (s', o) -> upd (fun b => brel b = false) s sid f dflt s' o.
Proof.
  unfold with_live_buf. destruct (lookup_live sid (reg s)) as [b|] eqn:Hl.
  - apply lookup_live_some in Hl as [Hl Hr]. destruct (f b) as [b' ob] eqn:Hf. intros H; injection H as <- <-.
    eapply upd_some; eauto.
  - intros H; injection H as <- <-. apply upd_none; reflexivity.
Qed.

(* credit that becomes unreachable when `Open` overwrites an id that was used before (0 in legal histories) *)
Definition orphan (x : Z) (s : st) (e : event) : Z :=
  match e with Open sid => if sid =? x then queued x s else 0 | _ => 0 end.
Definition orphan_conn (s : st) (e : event) : Z :=
  match e with Open sid => queued sid s | _ => 0 end.

Definition balance (s : st) (e : event) (s' : st) (o : list out) : Prop :=
  (forall x, received x o + queued x s = credited x o + queued x s' + orphan x s e) /\
  (NoDup (keys (reg s)) ->
   received_conn o + queued_conn s = credited_conn o + queued_conn s' + orphan_conn s e /\
   NoDup (keys (reg s'))).

Lemma upd_balance (P : buf -> Prop) s sid f dflt e s' o :
  (forall b b' ob, P b -> f b = (b', ob) -> op_ok sid b b' ob) ->
  sums dflt zero zero zero 0 0 0 ->
  (forall x, orphan x s e = 0) -> orphan_conn s e = 0 ->
  upd P s sid f dflt s' o -> balance s e s' o.
Proof.
  intros Hf Hd Ho HoA [-> ->|b b' Hl HP Hfb ->].
  - destruct Hd as (Hr & Hc & _ & HrA & HcA & _). split.
    + intros x. rewrite Hr, Hc, Ho. unfold zero. lia.
    + intros Hnd. split; [|exact Hnd]. rewrite HrA, HcA, HoA. lia.
  - destruct (Hf _ _ _ HP Hfb) as (d & dA & (Hr & Hc & _ & HrA & HcA & _) & _). split.
    + intros x. rewrite Hr, Hc, Ho, queued_set. unfold zero, at_.
      destruct (sid =? x) eqn:E.
      * assert (sid = x) by lia. subst x. unfold queued. rewrite Hl. lia.
      * destruct s as [rg cl]; cbn [reg closing]. lia.
    + intros Hnd. split; [|cbn [reg]; apply NoDup_set; exact Hnd].
      rewrite HrA, HcA, HoA, !queued_conn_hsum. cbn [reg]. rewrite hsum_set.
      rewrite (hsum_remove sid b (reg s) Hnd Hl). lia.
Qed.

Lemma sums_cons_recv sid f o r c d rA cA dA :
  sums o r c d rA cA dA ->
  sums (ORecv sid f :: o) (fun x => at_ sid f x + r x) c d (f + rA) cA dA.
Proof.
  intros (Hr & Hc & Hd & HrA & HcA & HdA).
  unfold sums, received, credited, dropped, received_conn, credited_conn, dropped_conn, at_ in *.
  repeat split; intros; rewrite total_cons; cbn [recv1 cred1 drop1 recvA credA dropA];
    rewrite ?Hr, ?Hc, ?Hd, ?HrA, ?HcA, ?HdA; reflexivity.
Qed.

Lemma qsum_buf_add b n f : qsum (bq (buf_add b n f)) = qsum (bq b) + f.
Proof.
  unfold buf_add. destruct (f =? 0) eqn:E; [lia|]. cbn [bq]. rewrite qsum_app. cbn [qsum fold_right it_ack]. lia.
Qed.

Lemma step_balance s e s' o : step s e = (s', o) -> balance s e s' o.
Proof.
  destruct e as [sid|sid n pad|sid|sid size|sid|sid|sid| | |]; cbn [step].
  - (* Open *) intros H; injection H as <- <-. split.
    + intros x. cbn [orphan]. rewrite queued_set. unfold received, credited. rewrite !total_nil.
      cbn [bq new_buf qsum fold_right].
      destruct (sid =? x); [lia|]. destruct s as [rg cl]; cbn [reg closing]; lia.
    + intros Hnd. split; [|cbn [reg]; apply NoDup_set; exact Hnd].
      unfold received_conn, credited_conn. rewrite !total_nil, !queued_conn_hsum.
      cbn [reg orphan_conn]. rewrite hsum_set. cbn [bq new_buf qsum fold_right].
      unfold queued. destruct (lookup sid (reg s)) as [b|] eqn:Hl.
      * rewrite (hsum_remove sid b (reg s) Hnd Hl). lia.
      * rewrite (hsum_remove_none sid (reg s) Hl). lia.
  - (* Data *) destruct (lookup_live sid (reg s)) as [b|] eqn:Hl; intros H; injection H as <- <-.
    + apply lookup_live_some in Hl as [Hl _].
      destruct (sums_cons_recv sid (fcl n pad) [] _ _ _ _ _ _ sums_nil) as (Hr & Hc & _ & HrA & HcA & _).
      pose proof (qsum_buf_add b n (fcl n pad)) as Hq. split.
      * intros x. rewrite Hr, Hc, queued_set. cbn [orphan]. unfold zero, at_.
        destruct (sid =? x) eqn:E.
        -- assert (sid = x) by lia. subst x. unfold queued. rewrite Hl. lia.
        -- destruct s as [rg cl]; cbn [reg closing]. lia.
      * intros Hnd. split; [|cbn [reg]; apply NoDup_set; exact Hnd].
        rewrite HrA, HcA, !queued_conn_hsum. cbn [reg orphan_conn]. rewrite hsum_set.
        rewrite (hsum_remove sid b (reg s) Hnd Hl). lia.
    + destruct (sums_cons_recv sid (fcl n pad) _ _ _ _ _ _ _ (sums_ack_out sid (fcl n pad)))
        as (Hr & Hc & _ & HrA & HcA & _).
      split.
      * intros x. rewrite Hr, Hc. cbn [orphan]. unfold zero, at_. destruct (sid =? x); lia.
      * intros Hnd. split; [|exact Hnd]. rewrite HrA, HcA. cbn [orphan_conn]. lia.
  - (* EndStream *) intros H. apply with_live_buf_upd in H. eapply upd_balance; try exact H; try reflexivity; [|apply sums_nil].
    intros b b' ob _ Hb; injection Hb as <- <-. apply buf_eof_op.
  - (* Read *) intros H. apply with_buf_upd in H. eapply upd_balance; try exact H; try reflexivity;
      [|apply sums_one_ghost; exact I].
    intros b b' ob _ Hb. apply (buf_read_op _ _ _ _ _ Hb).
  - (* Wake *) intros H. apply with_buf_upd in H. eapply upd_balance; try exact H; try reflexivity; [|apply sums_nil].
    intros b b' ob _ Hb. apply (buf_wake_op _ _ _ _ Hb).
  - (* Cancel *) intros H. apply with_buf_upd in H. eapply upd_balance; try exact H; try reflexivity; [|apply sums_nil].
    intros b b' ob _ Hb; injection Hb as <- <-. apply buf_cancel_op.
  - (* Release *) intros H. apply with_live_buf_upd in H. eapply upd_balance; try exact H; try reflexivity; [|apply sums_nil].
    intros b b' ob _ Hb; injection Hb as <- <-. apply buf_release_op.
  - (* Close *) intros H; injection H as <- <-. destruct sums_nil as (Hr & Hc & _ & HrA & HcA & _). split.
    + intros x. rewrite Hr, Hc. cbn [orphan]. unfold zero. rewrite (queued_closing x (reg s) true (closing s)).
      destruct s as [rg cl]; cbn [reg closing]. lia.
    + intros Hnd. split; [|exact Hnd]. rewrite HrA, HcA. cbn [orphan_conn]. rewrite !queued_conn_hsum.
      cbn [reg]. lia.
  - (* Pause *) intros H; injection H as <- <-. destruct sums_nil as (Hr & Hc & _ & HrA & HcA & _). split.
    + intros x. rewrite Hr, Hc. cbn [orphan]. unfold zero. lia.
    + intros Hnd. split; [|exact Hnd]. rewrite HrA, HcA. cbn [orphan_conn]. lia.
  - (* Resume *) intros H; injection H as <- <-. destruct sums_nil as (Hr & Hc & _ & HrA & HcA & _). split.
    + intros x. rewrite Hr, Hc. cbn [orphan]. unfold zero. lia.
    + intros Hnd. split; [|exact Hnd]. rewrite HrA, HcA. cbn [orphan_conn]. lia.
Qed.

(* ------------------------------------------------------------------------------------------ *)
(** * Histories: the balance equation summed over a run *)

Fixpoint orphans (x : Z) (s : st) (h : list event) : Z :=
  match h with [] => 0 | e :: h' => orphan x s e + orphans x (fst (step s e)) h' end.
Fixpoint orphans_conn (s : st) (h : list event) : Z :=
  match h with [] => 0 | e :: h' => orphan_conn s e + orphans_conn (fst (step s e)) h' end.

Lemma run_cons s e h s1 o1 s2 o2 :
  step s e = (s1, o1) -> run s1 h = (s2, o2) -> run s (e :: h) = (s2, o1 ++ o2).
Proof. intros H1 H2. cbn [run]. rewrite H1, H2. reflexivity. Qed.

Lemma run_balance h : forall s s' o, run s h = (s', o) ->
  (forall x, received x o + queued x s = credited x o + queued x s' + orphans x s h) /\
  (NoDup (keys (reg s)) ->
   received_conn o + queued_conn s = credited_conn o + queued_conn s' + orphans_conn s h /\
   NoDup (keys (reg s'))).
Proof.
  induction h as [|e h IH]; intros s s' o H.
  - cbn [run] in H. injection H as <- <-. split.
    + intros x. unfold received, credited. rewrite !total_nil. cbn [orphans]. lia.
    + intros Hnd. split; [|exact Hnd]. unfold received_conn, credited_conn.
      rewrite !total_nil. cbn [orphans_conn]. lia.
  - cbn [run] in H. destruct (step s e) as [s1 o1] eqn:Hs. destruct (run s1 h) as [s2 o2] eqn:Hr.
    injection H as <- <-. destruct (step_balance _ _ _ _ Hs) as [B1 B2]. destruct (IH _ _ _ Hr) as [I1 I2].
    cbn [orphans orphans_conn]. rewrite Hs. cbn [fst]. split.
    + intros x. specialize (B1 x). specialize (I1 x).
      unfold received, credited in *. rewrite !total_app. lia.
    + intros Hnd. destruct (B2 Hnd) as [B3 Hnd1]. destruct (I2 Hnd1) as [I3 Hnd2]. split; [|exact Hnd2].
      unfold received_conn, credited_conn in *. rewrite !total_app. lia.
Qed.

Lemma legal_orphans h : forall s, legal s h = true -> (forall x, orphans x s h = 0) /\ orphans_conn s h = 0.
Proof.
  induction h as [|e h IH]; intros s H; [split; reflexivity|].
  cbn [legal] in H. apply andb_true_iff in H as [He Hh]. destruct (IH _ Hh) as [I1 I2].
  cbn [orphans orphans_conn]. split.
  - intros x. rewrite I1. destruct e; cbn [orphan]; try lia.
    destruct (lookup sid (reg s)) eqn:Hl; [discriminate|].
    destruct (sid =? x) eqn:E; [|lia]. assert (sid = x) by lia. subst x. unfold queued. rewrite Hl. lia.
  - rewrite I2. destruct e; cbn [orphan_conn]; try lia.
    destruct (lookup sid (reg s)) eqn:Hl; [discriminate|]. unfold queued. rewrite Hl. lia.
Qed.

Lemma run_app h1 : forall h2 s s1 o1 s2 o2,
  run s h1 = (s1, o1) -> run s1 h2 = (s2, o2) -> run s (h1 ++ h2) = (s2, o1 ++ o2).
Proof.
  induction h1 as [|e h1 IH]; intros h2 s s1 o1 s2 o2 H1 H2.
  - cbn [run] in H1. injection H1 as <- <-. exact H2.
  - cbn [run] in H1. destruct (step s e) as [sa oa] eqn:Hs. destruct (run sa h1) as [sb ob] eqn:Hr.
    injection H1 as <- <-. cbn [app]. rewrite <- app_assoc.
    eapply run_cons; [exact Hs|]. eapply IH; [exact Hr|exact H2].
Qed.

(* ------------------------------------------------------------------------------------------ *)
(** * Non-negativity (sizes are lengths) *)

Definition reg_ok (r : registry) : Prop := Forall (fun p => q_ok (bq (snd p))) r.

Lemma hsum_nonneg r : reg_ok r -> 0 <= hsum r.
Proof.
  induction 1 as [|[k b] r Hb _ IH]; [cbn; lia|]. rewrite hsum_cons. cbn [snd] in Hb.
  pose proof (qsum_nonneg _ Hb). lia.
Qed.

Lemma Forall_remove (P : Z * buf -> Prop) x r : Forall P r -> Forall P (remove x r).
Proof.
  unfold remove. intros H. apply Forall_forall. intros p Hp. apply filter_In in Hp as [Hp _].
  revert p Hp. apply Forall_forall. exact H.
Qed.

Lemma Forall_set (P : Z * buf -> Prop) x b r : Forall P r -> P (x, b) -> Forall P (set x b r).
Proof. intros H Hb. unfold set. constructor; [exact Hb|apply Forall_remove; exact H]. Qed.

Lemma reg_ok_set x b r : reg_ok r -> q_ok (bq b) -> reg_ok (set x b r).
Proof. intros H Hb. apply Forall_set; assumption. Qed.

Lemma reg_ok_lookup x b r : reg_ok r -> lookup x r = Some b -> q_ok (bq b).
Proof.
  intros H Hl. apply lookup_in in Hl. unfold reg_ok in H. rewrite Forall_forall in H. apply (H _ Hl).
Qed.

Lemma queued_nonneg x s : reg_ok (reg s) -> 0 <= queued x s.
Proof.
  intros H. unfold queued. destruct (lookup x (reg s)) eqn:Hl; [|lia].
  apply qsum_nonneg. eapply reg_ok_lookup; eassumption.
Qed.

Lemma fcl_nonneg sid n pad : event_ok (Data sid n pad) = true -> 0 <= fcl n pad.
Proof. unfold event_ok, fcl. destruct pad; lia. Qed.

Definition nonneg (s : st) (e : event) (s' : st) (o : list out) : Prop :=
  reg_ok (reg s') /\
  (forall x, 0 <= received x o /\ 0 <= credited x o /\ 0 <= dropped x o /\ 0 <= orphan x s e) /\
  0 <= received_conn o /\ 0 <= credited_conn o /\ 0 <= dropped_conn o /\ 0 <= orphan_conn s e.

Lemma nonneg_of_sums s e s' o r c d rA cA dA :
  sums o r c d rA cA dA -> reg_ok (reg s') ->
  (forall x, 0 <= r x /\ 0 <= c x /\ 0 <= d x /\ 0 <= orphan x s e) ->
  0 <= rA -> 0 <= cA -> 0 <= dA -> 0 <= orphan_conn s e -> nonneg s e s' o.
Proof.
  intros (Hr & Hc & Hd & HrA & HcA & HdA) Hreg Hx H1 H2 H3 H4. unfold nonneg.
  split; [exact Hreg|]. split; [|rewrite HrA, HcA, HdA; auto].
  intros x. rewrite Hr, Hc, Hd. apply Hx.
Qed.

Lemma upd_nonneg (P : buf -> Prop) s sid f dflt e s' o :
  reg_ok (reg s) ->
  (forall b b' ob, P b -> f b = (b', ob) -> op_ok sid b b' ob) ->
  sums dflt zero zero zero 0 0 0 ->
  (forall x, orphan x s e = 0) -> orphan_conn s e = 0 ->
  upd P s sid f dflt s' o -> nonneg s e s' o.
Proof.
  intros Hreg Hf Hd Ho HoA [-> ->|b b' Hl HP Hfb ->].
  - eapply nonneg_of_sums; [exact Hd|exact Hreg|..]; try lia.
    intros x. rewrite Ho. unfold zero. lia.
  - destruct (Hf _ _ _ HP Hfb) as (d & dA & Hs & Hnn).
    destruct (Hnn (reg_ok_lookup _ _ _ Hreg Hl)) as (Hd1 & Hd2 & Hq' & Hle).
    eapply nonneg_of_sums; [exact Hs|cbn [reg]; apply reg_ok_set; assumption|..]; try lia.
    intros x. rewrite Ho. specialize (Hd1 x). unfold zero, at_. destruct (sid =? x); lia.
Qed.

Lemma step_nonneg s e s' o : reg_ok (reg s) -> event_ok e = true -> step s e = (s', o) -> nonneg s e s' o.
Proof.
  intros Hreg Hev. destruct e as [sid|sid n pad|sid|sid size|sid|sid|sid| | |]; cbn [step].
  - (* Open *) intros H; injection H as <- <-.
    eapply nonneg_of_sums; [exact sums_nil|cbn [reg]; apply reg_ok_set; [exact Hreg|constructor]|..];
      unfold zero; try lia.
    + intros x. cbn [orphan]. pose proof (queued_nonneg x s Hreg). destruct (sid =? x); lia.
    + cbn [orphan_conn]. apply queued_nonneg. exact Hreg.
  - (* Data *) pose proof (fcl_nonneg _ _ _ Hev) as Hf.
    destruct (lookup_live sid (reg s)) as [b|] eqn:Hl; intros H; injection H as <- <-.
    + apply lookup_live_some in Hl as [Hl _].
      eapply nonneg_of_sums; [exact (sums_cons_recv sid (fcl n pad) [] _ _ _ _ _ _ sums_nil)|..];
        cbn [orphan orphan_conn]; unfold zero, at_; try lia.
      * cbn [reg]. apply reg_ok_set; [exact Hreg|]. pose proof (reg_ok_lookup _ _ _ Hreg Hl) as Hq.
        unfold buf_add. destruct (fcl n pad =? 0); [exact Hq|]. cbn [bq]. apply Forall_app. split; [exact Hq|].
        constructor; [cbn [it_ack]; lia|constructor].
      * intros x. destruct (sid =? x); lia.
    + eapply nonneg_of_sums;
        [exact (sums_cons_recv sid (fcl n pad) _ _ _ _ _ _ _ (sums_ack_out sid (fcl n pad)))|exact Hreg|..];
        cbn [orphan orphan_conn]; unfold zero, at_; try lia.
      intros x. destruct (sid =? x); lia.
  - (* EndStream *) intros H. apply with_live_buf_upd in H.
    eapply upd_nonneg; try exact H; try reflexivity; try exact Hreg; [|apply sums_nil].
    intros b b' ob _ Hb; injection Hb as <- <-. apply buf_eof_op.
  - (* Read *) intros H. apply with_buf_upd in H.
    eapply upd_nonneg; try exact H; try reflexivity; try exact Hreg; [|apply sums_one_ghost; exact I].
    intros b b' ob _ Hb. apply (buf_read_op _ _ _ _ _ Hb).
  - (* Wake *) intros H. apply with_buf_upd in H.
    eapply upd_nonneg; try exact H; try reflexivity; try exact Hreg; [|apply sums_nil].
    intros b b' ob _ Hb. apply (buf_wake_op _ _ _ _ Hb).
  - (* Cancel *) intros H. apply with_buf_upd in H.
    eapply upd_nonneg; try exact H; try reflexivity; try exact Hreg; [|apply sums_nil].
    intros b b' ob _ Hb; injection Hb as <- <-. apply buf_cancel_op.
  - (* Release *) intros H. apply with_live_buf_upd in H.
    eapply upd_nonneg; try exact H; try reflexivity; try exact Hreg; [|apply sums_nil].
    intros b b' ob _ Hb; injection Hb as <- <-. apply buf_release_op.
  - (* Close *) intros H; injection H as <- <-.
    eapply nonneg_of_sums; [exact sums_nil|exact Hreg|..]; cbn [orphan orphan_conn]; unfold zero; try lia.
  - (* Pause *) intros H; injection H as <- <-.
    eapply nonneg_of_sums; [exact sums_nil|exact Hreg|..]; cbn [orphan orphan_conn]; unfold zero; try lia.
  - (* Resume *) intros H; injection H as <- <-.
    eapply nonneg_of_sums; [exact sums_nil|exact Hreg|..]; cbn [orphan orphan_conn]; unfold zero; try lia.
Qed.

Lemma run_nonneg h : forall s s' o, reg_ok (reg s) -> forallb event_ok h = true -> run s h = (s', o) ->
  reg_ok (reg s') /\
  (forall x, 0 <= received x o /\ 0 <= credited x o /\ 0 <= dropped x o /\ 0 <= orphans x s h) /\
  0 <= received_conn o /\ 0 <= credited_conn o /\ 0 <= dropped_conn o /\ 0 <= orphans_conn s h.
Proof.
  induction h as [|e h IH]; intros s s' o Hreg Hev H.
  - cbn [run] in H. injection H as <- <-. split; [exact Hreg|].
    unfold received, credited, dropped, received_conn, credited_conn, dropped_conn.
    cbn [orphans orphans_conn]. rewrite !total_nil. split; [|lia]. intros x. rewrite !total_nil. lia.
  - cbn [forallb] in Hev. apply andb_true_iff in Hev as [He Hh].
    cbn [run] in H. destruct (step s e) as [s1 o1] eqn:Hs. destruct (run s1 h) as [s2 o2] eqn:Hr.
    injection H as <- <-.
    destruct (step_nonneg _ _ _ _ Hreg He Hs) as (Hreg1 & S1 & S2 & S3 & S4 & S5).
    destruct (IH _ _ _ Hreg1 Hh Hr) as (Hreg2 & I1 & I2 & I3 & I4 & I5).
    cbn [orphans orphans_conn]. rewrite Hs. cbn [fst]. split; [exact Hreg2|].
    unfold received, credited, dropped, received_conn, credited_conn, dropped_conn in *.
    rewrite !total_app. split; [|lia].
    intros x. specialize (S1 x). specialize (I1 x). rewrite !total_app. lia.
Qed.

Lemma reg_ok_init : reg_ok (reg init).
Proof. constructor. Qed.

(* ------------------------------------------------------------------------------------------ *)
(** * Closing is permanent; released buffers of a live connection are empty *)

Lemma upd_closing (P : buf -> Prop) s sid f dflt s' o : upd P s sid f dflt s' o -> closing s' = closing s.
Proof. intros [-> _|b b' _ _ _ ->]; reflexivity. Qed.

Lemma step_closing s e s' o : step s e = (s', o) -> closing s' = false -> closing s = false.
Proof.
  destruct e as [sid|sid n pad|sid|sid size|sid|sid|sid| | |]; cbn [step].
  - intros H; injection H as <- _. auto.
  - destruct (lookup_live sid (reg s)); intros H; injection H as <- _; auto.
  - intros H. apply with_live_buf_upd, upd_closing in H. congruence.
  - intros H. apply with_buf_upd, upd_closing in H. congruence.
  - intros H. apply with_buf_upd, upd_closing in H. congruence.
  - intros H. apply with_buf_upd, upd_closing in H. congruence.
  - intros H. apply with_live_buf_upd, upd_closing in H. congruence.
  - intros H; injection H as <- _. cbn [closing]. discriminate.
  - intros H; injection H as <- _. auto.
  - intros H; injection H as <- _. auto.
Qed.

Lemma run_closing h : forall s s' o, run s h = (s', o) -> closing s' = false -> closing s = false.
Proof.
  induction h as [|e h IH]; intros s s' o H Hc.
  - cbn [run] in H. injection H as <- _. exact Hc.
  - cbn [run] in H. destruct (step s e) as [s1 o1] eqn:Hs. destruct (run s1 h) as [s2 o2] eqn:Hr.
    injection H as <- _. eapply step_closing; [exact Hs|]. eapply IH; [exact Hr|exact Hc].
Qed.

(* every released buffer has an empty queue *)
Definition rel_empty (r : registry) : Prop := Forall (fun p => brel (snd p) = true -> bq (snd p) = []) r.

Lemma upd_rel_empty (P : buf -> Prop) s sid f dflt s' o :
  (forall b b' ob, P b -> f b = (b', ob) -> (brel b = true -> bq b = []) -> (brel b' = true -> bq b' = [])) ->
  upd P s sid f dflt s' o -> rel_empty (reg s) -> rel_empty (reg s').
Proof.
  intros Hf [-> _|b b' Hl HP Hfb ->] Hre; [exact Hre|].
  cbn [reg]. apply Forall_set; [exact Hre|]. cbn [snd]. eapply Hf; [exact HP|exact Hfb|].
  apply lookup_in in Hl. unfold rel_empty in Hre. rewrite Forall_forall in Hre. apply (Hre _ Hl).
Qed.

Lemma keeps_rel_empty b b' : keeps b b' -> (brel b = true -> bq b = []) -> (brel b' = true -> bq b' = []).
Proof. intros [K1 K2] H Hr. rewrite K1 in Hr. apply K2. apply H. exact Hr. Qed.

Lemma step_rel_empty s e s' o : step s e = (s', o) -> closing s = false -> rel_empty (reg s) -> rel_empty (reg s').
Proof.
  intros H Hc. revert H. destruct e as [sid|sid n pad|sid|sid size|sid|sid|sid| | |]; cbn [step].
  - intros H; injection H as <- _. intros Hre. cbn [reg]. apply Forall_set; [exact Hre|]. cbn [snd brel new_buf]. discriminate.
  - destruct (lookup_live sid (reg s)) as [b|] eqn:Hl; intros H; injection H as <- _; intros Hre; [|exact Hre].
    apply lookup_live_some in Hl as [_ Hr]. cbn [reg]. apply Forall_set; [exact Hre|]. cbn [snd].
    unfold buf_add. destruct (fcl n pad =? 0); [rewrite Hr; discriminate|cbn [brel]; rewrite Hr; discriminate].
  - intros H. apply with_live_buf_upd in H. eapply upd_rel_empty; [|exact H].
    intros b b' ob Hr Hb _; injection Hb as <- _. cbn [buf_eof brel]. rewrite Hr. discriminate.
  - intros H. apply with_buf_upd in H. eapply upd_rel_empty; [|exact H].
    intros b b' ob _ Hb. apply keeps_rel_empty. apply (buf_read_op _ _ _ _ _ Hb).
  - intros H. apply with_buf_upd in H. eapply upd_rel_empty; [|exact H].
    intros b b' ob _ Hb. apply keeps_rel_empty. apply (buf_wake_op _ _ _ _ Hb).
  - intros H. apply with_buf_upd in H. eapply upd_rel_empty; [|exact H].
    intros b b' ob _ Hb; injection Hb as <- _. apply keeps_rel_empty. apply (buf_cancel_op sid).
  - intros H. apply with_live_buf_upd in H. eapply upd_rel_empty; [|exact H].
    intros b b' ob _ Hb _ _; injection Hb as <- _. rewrite Hc. reflexivity.
  - intros H; injection H as <- _. auto.
  - intros H; injection H as <- _. auto.
  - intros H; injection H as <- _. auto.
Qed.

Lemma run_rel_empty h : forall s s' o, run s h = (s', o) -> closing s' = false -> rel_empty (reg s) -> rel_empty (reg s').
Proof.
  induction h as [|e h IH]; intros s s' o H Hc Hre.
  - cbn [run] in H. injection H as <- _. exact Hre.
  - cbn [run] in H. destruct (step s e) as [s1 o1] eqn:Hs. destruct (run s1 h) as [s2 o2] eqn:Hr.
    injection H as <- _. pose proof (run_closing _ _ _ _ Hr Hc) as Hc1.
    eapply IH; [exact Hr|exact Hc|]. eapply step_rel_empty; [exact Hs| |exact Hre].
    eapply step_closing; [exact Hs|exact Hc1].
Qed.

Lemma rel_empty_forfeited r c : rel_empty r -> (forall x, forfeited x (mkSt r c) = 0) /\ forfeited_conn (mkSt r c) = 0.
Proof.
  intros H. split.
  - intros x. unfold forfeited. cbn [reg]. destruct (lookup x r) as [b|] eqn:Hl; [|reflexivity].
    destruct (brel b) eqn:Hr; [|reflexivity]. apply lookup_in in Hl. unfold rel_empty in H.
    rewrite Forall_forall in H. pose proof (H _ Hl Hr) as E. cbn [snd] in E. rewrite E. reflexivity.
  - unfold forfeited_conn. cbn [reg]. induction H as [|[k b] r Hb _ IH]; [reflexivity|].
    cbn [fold_right snd] in *. destruct (brel b) eqn:Hr; [rewrite (Hb eq_refl)|]; cbn [qsum fold_right]; lia.
Qed.

(* on a live connection nothing is left in released buffers: reading them again cannot credit anything *)
Lemma released_buffers_empty h s o : run init h = (s, o) -> closing s = false ->
  (forall x b, lookup x (reg s) = Some b -> brel b = true -> bq b = []) /\
  (forall x, forfeited x s = 0) /\ forfeited_conn s = 0.
Proof.
  intros H Hc. assert (Hre : rel_empty (reg s)) by (eapply run_rel_empty; [exact H|exact Hc|constructor]).
  split.
  - intros x b Hl Hr. apply lookup_in in Hl. unfold rel_empty in Hre. rewrite Forall_forall in Hre. apply (Hre _ Hl Hr).
  - destruct s as [rg cl]. apply rel_empty_forfeited. exact Hre.
Qed.

(* ------------------------------------------------------------------------------------------ *)
(** * Main lemmas *)

(* never over-credited, per stream and for the connection, after every history (no legality needed) *)
Lemma never_overcredited h s o : forallb event_ok h = true -> run init h = (s, o) ->
  (forall x, credited x o <= received x o) /\ credited_conn o <= received_conn o.
Proof.
  intros Hev H. destruct (run_balance _ _ _ _ H) as [B1 B2].
  destruct (run_nonneg _ _ _ _ reg_ok_init Hev H) as (Hreg & N1 & N2 & N3 & N4 & N5). split.
  - intros x. specialize (B1 x). specialize (N1 x). pose proof (queued_nonneg x s Hreg).
    unfold queued in B1 at 1. cbn [lookup reg init] in B1. lia.
  - destruct (B2 (NoDup_nil _)) as [B3 _]. rewrite !queued_conn_hsum in B3. cbn [reg init hsum fold_right] in B3.
    pose proof (hsum_nonneg _ Hreg). lia.
Qed.

(* conservation: received = credited + held (registered buffers) + forfeited (released buffers) *)
Lemma conservation h s o : legal init h = true -> run init h = (s, o) ->
  (forall x, received x o = credited x o + held x s + forfeited x s) /\
  received_conn o = credited_conn o + held_conn s + forfeited_conn s.
Proof.
  intros Hl H. destruct (run_balance _ _ _ _ H) as [B1 B2]. destruct (legal_orphans _ _ Hl) as [O1 O2]. split.
  - intros x. specialize (B1 x). rewrite O1 in B1. unfold queued in B1 at 1. cbn [lookup reg init] in B1.
    pose proof (held_forfeited x s). lia.
  - destruct (B2 (NoDup_nil _)) as [B3 _]. rewrite O2 in B3. rewrite (queued_conn_hsum init) in B3.
    cbn [reg init hsum fold_right] in B3. pose proof (held_forfeited_conn s). lia.
Qed.

(* no leak: on a connection that is still alive, a stream that is not registered (any more) has had all its
   credit returned, and when no stream is registered so has the connection *)
Lemma held_conn_none r c : (forall x, lookup_live x r = None) -> NoDup (keys r) -> held_conn (mkSt r c) = 0.
Proof.
  unfold held_conn. cbn [reg]. induction r as [|[k b] r IH]; intros H Hnd; [reflexivity|].
  cbn [fold_right snd]. cbn [keys map fst] in Hnd. inversion Hnd as [|? ? Hnin Hnd']; subst.
  assert (Hk := H k). unfold lookup_live in Hk. cbn [lookup] in Hk. rewrite Z.eqb_refl in Hk.
  destruct (brel b) eqn:Hr; [|discriminate]. rewrite IH; [lia| |exact Hnd'].
  intros x. specialize (H x). unfold lookup_live in *. cbn [lookup] in H.
  destruct (k =? x) eqn:E; [|exact H]. assert (k = x) by lia. subst x.
  rewrite (lookup_not_in k r Hnin). reflexivity.
Qed.

Lemma no_leak h s o : legal init h = true -> run init h = (s, o) -> closing s = false ->
  (forall x, lookup_live x (reg s) = None -> credited x o = received x o) /\
  ((forall x, lookup_live x (reg s) = None) -> credited_conn o = received_conn o).
Proof.
  intros Hl H Hc. destruct (conservation _ _ _ Hl H) as [C1 C2].
  destruct (released_buffers_empty _ _ _ H Hc) as (_ & F1 & F2). split.
  - intros x Hx. specialize (C1 x). rewrite F1 in C1. unfold held in C1. rewrite Hx in C1. lia.
  - intros Hreg. destruct (run_balance _ _ _ _ H) as [_ B2]. destruct (B2 (NoDup_nil _)) as [_ Hnd].
    destruct s as [rg cl]. cbn [reg] in *. rewrite F2, (held_conn_none rg cl Hreg Hnd) in C2. lia.
Qed.

(* credit only grows, and stays below what was received: together with no_leak, every received byte is
   credited exactly once *)
Lemma exactly_once h1 h2 s1 o1 s o :
  forallb event_ok (h1 ++ h2) = true -> legal init (h1 ++ h2) = true ->
  run init h1 = (s1, o1) -> run init (h1 ++ h2) = (s, o) -> closing s = false ->
  forall x, lookup_live x (reg s) = None ->
  credited x o1 <= received x o1 /\ received x o1 <= received x o /\ credited x o1 <= credited x o /\
  credited x o = received x o.
Proof.
  intros Hev Hl H1 H Hc x Hx. rewrite forallb_app in Hev. apply andb_true_iff in Hev as [Hev1 Hev2].
  destruct (run s1 h2) as [s2 o2] eqn:H2. rewrite (run_app _ _ _ _ _ _ _ H1 H2) in H. injection H as <- <-.
  destruct (never_overcredited _ _ _ Hev1 H1) as [N1 _].
  destruct (run_nonneg _ _ _ _ reg_ok_init Hev1 H1) as (Hreg1 & _).
  destruct (run_nonneg _ _ _ _ Hreg1 Hev2 H2) as (_ & N2 & _). specialize (N2 x).
  pose proof (run_app _ _ _ _ _ _ _ H1 H2) as Hrun.
  destruct (no_leak _ _ _ Hl Hrun Hc) as [L _]. specialize (L x Hx).
  unfold received, credited in *. rewrite !total_app in *. specialize (N1 x). lia.
Qed.

(* ------------------------------------------------------------------------------------------ *)
(** * Back-pressure: what one read credits *)

(* why the loop of Buffer.read stopped after popping p and leaving r *)
Definition stop_reason (b : buf) (size : Z) (p r : list item) : Prop :=
  r = [] \/ size <= backed b + lsum p \/ exists p0 m, p = p0 ++ [m] /\ it_ack m = 0.

Lemma read_loop_minimal sid b size b' o : read_loop sid b size = (b', o) ->
  exists p r, bq b = p ++ r /\ bq b' = r /\ brel b' = brel b /\
    (forall x, credited x o = if sid =? x then qsum p else 0) /\ credited_conn o = qsum p /\
    (forall p1 it p2, p = p1 ++ it :: p2 -> backed b + lsum p1 < size) /\
    stop_reason b size p r.
Proof.
  intros H. pose proof (read_loop_ok _ _ _ _ _ H) as (_ & Hc & _ & _ & HcA & _).
  destruct (read_loop_queue _ _ _ _ _ H) as (p' & Hq' & Hrel).
  unfold read_loop in H. destruct (pump (bq b) (backed b) size) as [[[p r] a] stt] eqn:Hp.
  destruct (pump_spec _ _ _ _ _ _ _ Hp) as (Hq & Hmin & Hst).
  assert (Hb' : bq b' = r).
  { destruct stt.
    - destruct (finish r a (beof b) (brel b) size) as [b1 res] eqn:Hf. injection H as <- _. apply (finish_queue _ _ _ _ _ _ _ Hf).
    - destruct (finish r a (beof b) (brel b) size) as [b1 res] eqn:Hf. injection H as <- _. apply (finish_queue _ _ _ _ _ _ _ Hf).
    - injection H as <- _. reflexivity. }
  exists p, r. split; [exact Hq|]. split; [exact Hb'|]. split; [exact Hrel|].
  assert (Hd : qsum (bq b) - qsum (bq b') = qsum p) by (rewrite Hb', Hq, qsum_app; lia).
  split; [|split; [|split]].
  - intros x. rewrite Hc. unfold at_. rewrite Hd. reflexivity.
  - rewrite HcA. exact Hd.
  - intros p1 it p2 Hpp. apply (Hmin _ _ _ Hpp).
  - unfold stop_reason. destruct stt.
    + right. left. lia.
    + right. right. destruct Hst as (p0 & m & Hpp & Hm & _). exists p0, m. auto.
    + left. apply Hst.
Qed.

Definition read_effect (s : st) (sid size : Z) (b : buf) (s' : st) (o : list out) : Prop :=
  exists p r b', bq b = p ++ r /\ lookup sid (reg s') = Some b' /\ bq b' = r /\ brel b' = brel b /\
    credited sid o = qsum p /\ credited_conn o = qsum p /\ (forall x, x <> sid -> credited x o = 0) /\
    queued sid s' = qsum r /\
    (forall p1 it p2, p = p1 ++ it :: p2 -> backed b + lsum p1 < size) /\
    stop_reason b size p r.

Lemma read_effect_of_loop s sid size b b' o :
  lookup sid (reg s) = Some b -> read_loop sid b size = (b', o) ->
  read_effect s sid size b (mkSt (set sid b' (reg s)) (closing s)) o.
Proof.
  intros Hl H. destruct (read_loop_minimal _ _ _ _ _ H) as (p & r & Hq & Hb' & Hrel & Hc & HcA & Hmin & Hst).
  exists p, r, b'. cbn [reg]. rewrite lookup_set, Z.eqb_refl. repeat split; auto.
  - rewrite Hc, Z.eqb_refl. reflexivity.
  - intros x Hx. rewrite Hc. destruct (sid =? x) eqn:E; [exfalso; lia|reflexivity].
  - rewrite queued_set, Z.eqb_refl, Hb'. reflexivity.
Qed.

Lemma read_backpressure s sid size b s' o :
  lookup sid (reg s) = Some b -> bpend b = None -> 0 < size ->
  step s (Read sid size) = (s', o) -> read_effect s sid size b s' o.
Proof.
  intros Hl Hp Hs. cbn [step]. unfold with_buf. rewrite Hl. unfold buf_read. rewrite Hp.
  destruct (size <? 0) eqn:E1; [exfalso; lia|]. destruct (size =? 0) eqn:E2; [exfalso; lia|].
  destruct (beof b && is_nil (bq b)) eqn:E3.
  - destruct (finish (bq b) (backed b) (beof b) (brel b) size) as [b1 res] eqn:Hf. intros H; injection H as <- <-.
    apply andb_true_iff in E3 as [_ E3]. destruct (bq b) as [|it q] eqn:Hq; [|discriminate].
    pose proof (finish_queue _ _ _ _ _ _ _ Hf) as Hq1. pose proof (finish_rel _ _ _ _ _ _ _ Hf) as Hr1.
    exists [], [], b1. cbn [reg]. rewrite lookup_set, Z.eqb_refl, queued_set, Z.eqb_refl, Hq1.
    unfold credited, credited_conn. rewrite !total_cons, !total_nil. cbn [cred1 credA qsum fold_right app].
    repeat split; auto.
    + intros p1 it p2 Hpp. destruct p1; discriminate.
    + left. reflexivity.
  - destruct (read_loop sid b size) as [b1 o1] eqn:Hrl. intros H; injection H as <- <-.
    apply read_effect_of_loop; assumption.
Qed.

Lemma wake_backpressure s sid size b s' o :
  lookup sid (reg s) = Some b -> bpend b = Some size -> bq b <> [] ->
  step s (Wake sid) = (s', o) -> read_effect s sid size b s' o.
Proof.
  intros Hl Hp Hne. cbn [step]. unfold with_buf. rewrite Hl. unfold buf_wake. rewrite Hp.
  destruct (bq b) as [|it q] eqn:Hq; [contradiction|]. cbn [is_nil].
  destruct (read_loop sid b size) as [b1 o1] eqn:Hrl. intros H; injection H as <- <-.
  exact (read_effect_of_loop s sid size b b1 o1 Hl Hrl).
Qed.

(* the statements used in Props: on a LIVE connection.  (On a closing connection Connection.ack still calls
   acknowledge_received_data, but its flush() then touches the deleted Connection._transport whenever h2 has bytes
   pending, so a read may die with AttributeError after its first acknowledgement; whether it does depends on h2's
   outbound queue, which this model does not have.  The ledger theorems -- conservation, never over-credited --
   are not affected by where such a read stops; the description of WHAT a read pops is claimed for live
   connections only.) *)
Lemma read_backpressure_live s sid size b s' o :
  closing s = false -> lookup sid (reg s) = Some b -> bpend b = None -> 0 < size ->
  step s (Read sid size) = (s', o) -> read_effect s sid size b s' o.
Proof. intros _. apply read_backpressure. Qed.

Lemma wake_backpressure_live s sid size b s' o :
  closing s = false -> lookup sid (reg s) = Some b -> bpend b = Some size -> bq b <> [] ->
  step s (Wake sid) = (s', o) -> read_effect s sid size b s' o.
Proof. intros _. apply wake_backpressure. Qed.

(* a read on a buffer whose queue is empty (every released buffer of a live connection) credits nothing *)
Lemma read_empty_queue_credits_nothing s sid b e s' o :
  lookup sid (reg s) = Some b -> bq b = [] -> (exists size, e = Read sid size) \/ e = Wake sid ->
  step s e = (s', o) -> (forall x, credited x o = 0) /\ credited_conn o = 0 /\ queued sid s' = 0.
Proof.
  intros Hl Hq He H.
  assert (Hop : exists b', op_ok sid b b' o /\ keeps b b' /\ s' = mkSt (set sid b' (reg s)) (closing s)).
  { destruct He as [[size He]|He]; rewrite He in H; cbn [step] in H; unfold with_buf in H; rewrite Hl in H.
    - destruct (buf_read sid b size) as [b' ob] eqn:Hb. injection H as <- <-. exists b'.
      destruct (buf_read_op _ _ _ _ _ Hb). auto.
    - destruct (buf_wake sid b) as [b' ob] eqn:Hb. injection H as <- <-. exists b'.
      destruct (buf_wake_op _ _ _ _ Hb). auto. }
  destruct Hop as (b' & (d & dA & (_ & Hc & _ & _ & HcA & _) & _) & [_ K] & Hs'). subst s'.
  pose proof (K Hq) as Hq'. rewrite Hq, Hq' in Hc, HcA. cbn [qsum fold_right] in Hc, HcA. split; [|split].
  - intros x. rewrite Hc. unfold at_. destruct (sid =? x); reflexivity.
  - rewrite HcA. reflexivity.
  - rewrite queued_set, Z.eqb_refl, Hq'. reflexivity.
Qed.

(* ------------------------------------------------------------------------------------------ *)
(** * Release, data for unknown streams *)

Lemma credited_ack_out sid k : credited sid (ack_out sid k) = k /\ credited_conn (ack_out sid k) = k /\
  (forall x, x <> sid -> credited x (ack_out sid k) = 0).
Proof.
  destruct (sums_ack_out sid k) as (_ & Hc & _ & _ & HcA & _). split; [|split].
  - rewrite Hc. unfold at_. rewrite Z.eqb_refl. reflexivity.
  - exact HcA.
  - intros x Hx. rewrite Hc. unfold at_. destruct (sid =? x) eqn:E; [exfalso; lia|reflexivity].
Qed.

Lemma lookup_live_set x y b r :
  lookup_live x (set y b r) = if y =? x then (if brel b then None else Some b) else lookup_live x r.
Proof. unfold lookup_live. rewrite lookup_set. destruct (y =? x); reflexivity. Qed.

Lemma release_credits_rest s sid b s' o :
  lookup_live sid (reg s) = Some b -> closing s = false -> step s (Release sid) = (s', o) ->
  credited sid o = qsum (bq b) /\ credited_conn o = qsum (bq b) /\ (forall x, x <> sid -> credited x o = 0) /\
  lookup_live sid (reg s') = None /\ held sid s' = 0 /\ queued sid s' = 0 /\
  (forall x, x <> sid -> lookup x (reg s') = lookup x (reg s)).
Proof.
  intros Hl Hc. cbn [step]. unfold with_live_buf. rewrite Hl, Hc. intros H; injection H as <- <-.
  destruct (credited_ack_out sid (qsum (bq b))) as (C1 & C2 & C3). repeat split; auto.
  - cbn [reg]. rewrite lookup_live_set, Z.eqb_refl. reflexivity.
  - unfold held. cbn [reg]. rewrite lookup_live_set, Z.eqb_refl. reflexivity.
  - rewrite queued_set, Z.eqb_refl. reflexivity.
  - intros x Hx. cbn [reg]. rewrite lookup_set. destruct (sid =? x) eqn:E; [exfalso; lia|reflexivity].
Qed.

Lemma release_closing_forfeits s sid b s' o :
  lookup_live sid (reg s) = Some b -> closing s = true -> step s (Release sid) = (s', o) ->
  (forall x, credited x o = 0) /\ credited_conn o = 0 /\ dropped sid o = qsum (bq b) /\
  lookup_live sid (reg s') = None /\ held sid s' = 0 /\ forfeited sid s' = qsum (bq b).
Proof.
  intros Hl Hc. cbn [step]. unfold with_live_buf. rewrite Hl, Hc. intros H; injection H as <- <-.
  unfold credited, credited_conn, dropped, held, forfeited. rewrite !total_cons, !total_nil.
  cbn [cred1 credA drop1 reg]. rewrite Z.eqb_refl, lookup_live_set, lookup_set, Z.eqb_refl. cbn [brel buf_release bq].
  repeat split; try lia.
Qed.

Lemma release_idempotent s sid s1 o1 :
  step s (Release sid) = (s1, o1) -> step s1 (Release sid) = (s1, []).
Proof.
  cbn [step]. unfold with_live_buf. destruct (lookup_live sid (reg s)) as [b|] eqn:Hl; intros H; injection H as <- _.
  - cbn [reg]. rewrite lookup_live_set, Z.eqb_refl. reflexivity.
  - rewrite Hl. reflexivity.
Qed.

Lemma data_unregistered_credited_at_once s sid n pad s' o :
  lookup_live sid (reg s) = None -> step s (Data sid n pad) = (s', o) ->
  s' = s /\ received sid o = fcl n pad /\ credited sid o = fcl n pad /\
  received_conn o = fcl n pad /\ credited_conn o = fcl n pad.
Proof.
  intros Hl. cbn [step]. rewrite Hl. intros H; injection H as <- <-.
  destruct (sums_cons_recv sid (fcl n pad) _ _ _ _ _ _ _ (sums_ack_out sid (fcl n pad)))
    as (Hr & Hc & _ & HrA & HcA & _).
  rewrite Hr, Hc, HrA, HcA. unfold at_, zero. rewrite Z.eqb_refl. repeat split; lia.
Qed.

Lemma data_registered_not_credited s sid n pad b s' o :
  lookup_live sid (reg s) = Some b -> step s (Data sid n pad) = (s', o) ->
  (forall x, credited x o = 0) /\ credited_conn o = 0 /\ received sid o = fcl n pad /\
  held sid s' = held sid s + fcl n pad.
Proof.
  intros Hl. cbn [step]. rewrite Hl. intros H; injection H as <- <-.
  destruct (sums_cons_recv sid (fcl n pad) [] _ _ _ _ _ _ sums_nil) as (Hr & Hc & _ & _ & HcA & _).
  pose proof (lookup_live_some _ _ _ Hl) as [_ Hrel].
  rewrite Hr, HcA. unfold held. cbn [reg]. rewrite lookup_live_set, Z.eqb_refl, Hl.
  assert (Hrel' : brel (buf_add b n (fcl n pad)) = false).
  { unfold buf_add. destruct (fcl n pad =? 0); [exact Hrel|exact Hrel]. }
  rewrite Hrel', qsum_buf_add. unfold at_, zero. rewrite Z.eqb_refl. repeat split; try lia.
Qed.

(* pausing / resuming the transport changes nothing: credit does not wait for write-readiness *)
Lemma pause_resume_identity s : step s Pause = (s, []) /\ step s Resume = (s, []).
Proof. split; reflexivity. Qed.

(* ------------------------------------------------------------------------------------------ *)
(** * Legal histories: h2 never repeats a stream id *)

Lemma upd_known (P : buf -> Prop) s sid f dflt s' o x :
  upd P s sid f dflt s' o -> lookup x (reg s') <> None -> lookup x (reg s) <> None.
Proof.
  intros [-> _|b b' Hl _ _ ->]; [auto|]. cbn [reg]. rewrite lookup_set.
  destruct (sid =? x) eqn:E; [|auto]. intros _. assert (sid = x) by lia. subst. rewrite Hl. discriminate.
Qed.

Lemma step_registered_opened s e x :
  lookup x (reg (fst (step s e))) <> None -> lookup x (reg s) <> None \/ e = Open x.
Proof.
  destruct e as [sid|sid n pad|sid|sid size|sid|sid|sid| | |]; cbn [step].
  - cbn [fst reg]. rewrite lookup_set. destruct (sid =? x) eqn:E; [right; f_equal; lia|left; exact H].
  - destruct (lookup_live sid (reg s)) eqn:Hl; cbn [fst reg]; [|left; exact H].
    apply lookup_live_some in Hl as [Hl _].
    rewrite lookup_set. destruct (sid =? x) eqn:E; [|left; exact H].
    intros _. left. assert (sid = x) by lia. subst. rewrite Hl. discriminate.
  - intros H. left. destruct (with_live_buf s sid _ _) as [s' o] eqn:Hw. apply with_live_buf_upd in Hw.
    eapply upd_known; [exact Hw|exact H].
  - intros H. left. destruct (with_buf s sid _ _) as [s' o] eqn:Hw. apply with_buf_upd in Hw.
    eapply upd_known; [exact Hw|exact H].
  - intros H. left. destruct (with_buf s sid _ _) as [s' o] eqn:Hw. apply with_buf_upd in Hw.
    eapply upd_known; [exact Hw|exact H].
  - intros H. left. destruct (with_buf s sid _ _) as [s' o] eqn:Hw. apply with_buf_upd in Hw.
    eapply upd_known; [exact Hw|exact H].
  - intros H. left. destruct (with_live_buf s sid _ _) as [s' o] eqn:Hw. apply with_live_buf_upd in Hw.
    eapply upd_known; [exact Hw|exact H].
  - cbn [fst reg]. left. exact H.
  - cbn [fst]. left. exact H.
  - cbn [fst]. left. exact H.
Qed.

(* if the ids opened in h are pairwise distinct and none of them has been used at the start, h is legal *)
Lemma nodup_opens_legal h : forall s,
  NoDup (opens h) -> (forall x, In x (opens h) -> lookup x (reg s) = None) -> legal s h = true.
Proof.
  induction h as [|e h IH]; intros s Hnd Hfresh; [reflexivity|].
  cbn [legal]. apply andb_true_iff. split.
  - destruct e; try reflexivity. rewrite (Hfresh sid); [reflexivity|]. cbn [opens]. left. reflexivity.
  - apply IH.
    + destruct e; cbn [opens] in Hnd; try exact Hnd. inversion Hnd; assumption.
    + intros x Hx. destruct (lookup x (reg (fst (step s e)))) eqn:Hl; [|reflexivity]. exfalso.
      destruct (step_registered_opened s e x) as [H|H]; [rewrite Hl; discriminate| |].
      * apply H. apply Hfresh. destruct e; cbn [opens]; try exact Hx. right. exact Hx.
      * subst e. cbn [opens] in Hnd. inversion Hnd as [|? ? Hnin _]. apply Hnin. exact Hx.
Qed.

Lemma nodup_opens_legal_init h : NoDup (opens h) -> legal init h = true.
Proof. intros H. apply nodup_opens_legal; [exact H|]. intros x _. reflexivity. Qed.


(* ------------------------------------------------------------------------------------------ *)
(** * The advertised windows *)

Lemma window_valid_iff w : window_valid w = true <-> cfg_wmin <= w <= cfg_wmax.
Proof.
  unfold window_valid. destruct (w <? cfg_wmin) eqn:E1; [split; [discriminate|lia]|].
  destruct (w >? cfg_wmax) eqn:E2; [split; [discriminate|lia]|]. split; [lia|reflexivity].
Qed.

Lemma windows_advertised cw sw :
  cfg_wmin <= cw <= cfg_wmax -> cfg_wmin <= sw <= cfg_wmax ->
  configure cw sw = Some (cw, sw) /\
  exists p, connection_made cw sw = Some p /\ advertised_conn p = cw /\ advertised_stream p = sw.
Proof.
  intros Hc Hs. split.
  - unfold configure. rewrite (proj2 (window_valid_iff cw) Hc), (proj2 (window_valid_iff sw) Hs). reflexivity.
  - unfold cfg_wmin, cfg_wmax in *. unfold connection_made, h2_increment, h2_initial_window, h2_max_window.
    destruct (cw - 65535 =? 0) eqn:E1.
    + destruct (sw - 65535 =? 0) eqn:E2.
      * eexists. split; [reflexivity|]. unfold advertised_conn, advertised_stream, h2_initial_window. cbn [wu_incr set_iws]. lia.
      * replace ((0 <=? sw) && (sw <=? 2147483647)) with true by lia.
        eexists. split; [reflexivity|]. unfold advertised_conn, advertised_stream, h2_initial_window. cbn [wu_incr set_iws]. lia.
    + replace ((1 <=? cw - 65535) && (cw - 65535 <=? 2147483647)) with true by lia.
      replace (65535 + (cw - 65535) >? 2147483647) with false by lia.
      destruct (sw - 65535 =? 0) eqn:E2.
      * eexists. split; [reflexivity|]. unfold advertised_conn, advertised_stream, h2_initial_window. cbn [wu_incr set_iws]. lia.
      * replace ((0 <=? sw) && (sw <=? 2147483647)) with true by lia.
        eexists. split; [reflexivity|]. unfold advertised_conn, advertised_stream, h2_initial_window. cbn [wu_incr set_iws]. lia.
Qed.

Lemma windows_rejected cw sw :
  ~ (cfg_wmin <= cw <= cfg_wmax /\ cfg_wmin <= sw <= cfg_wmax) -> configure cw sw = None.
Proof.
  intros H. unfold configure. destruct (window_valid cw) eqn:E1; [|reflexivity].
  destruct (window_valid sw) eqn:E2; [|reflexivity]. exfalso. apply H.
  split; apply window_valid_iff; assumption.
Qed.

(* why the validators are needed: h2 refuses the preface for a connection window outside the range *)
Lemma preface_needs_validation cw sw : cw < 65535 \/ 2147483647 < cw -> connection_made cw sw = None.
Proof.
  intros H. unfold connection_made, h2_increment, h2_initial_window, h2_max_window.
  destruct (cw - 65535 =? 0) eqn:E1; [exfalso; lia|].
  destruct ((1 <=? cw - 65535) && (cw - 65535 <=? 2147483647)) eqn:E2; [|reflexivity].
  destruct (65535 + (cw - 65535) >? 2147483647) eqn:E3; [reflexivity|exfalso; lia].
Qed.

Lemma source_bounds : cfg_wmin = 65535 /\ cfg_wmax = 2147483647.
Proof. split; reflexivity. Qed.
