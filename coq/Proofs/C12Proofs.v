(* Lemmas for C12 (peer input never escapes as an internal error; tolerable frames tolerated).
   All statements are about Model/Dispatch.v instantiated with the GENERATED table
   Gen.Facts.processors. *)
From Coq Require Import ZArith List Bool Lia ZifyBool String.
From GV Require Import Lib.Str Gen.Facts Gen.FactsC12 Model.Dispatch.
Import ListNotations.
Open Scope Z_scope.
#[local] Ltac Zify.zify_post_hook ::= Z.div_mod_to_equations.

(* ------------------------------------------------------------------------------------------ *)
(* strings *)

Lemma zlist_eqb_eq a : forall b, zlist_eqb a b = true -> a = b.
Proof.
  induction a as [|x a IH]; intros [|y b] H; simpl in H; try discriminate; auto.
  apply andb_true_iff in H. destruct H as [H1 H2]. apply Z.eqb_eq in H1. subst. f_equal. auto.
Qed.

Lemma mem_str_in k l : mem_str k l = true -> In k l.
Proof.
  unfold mem_str. intro H. apply existsb_exists in H. destruct H as [x [Hin He]].
  apply zlist_eqb_eq in He. subst. exact Hin.
Qed.

Lemma zlist_eqb_refl a : zlist_eqb a a = true.
Proof. induction a; simpl; auto. rewrite Z.eqb_refl. exact IHa. Qed.

Lemma in_mem_str k l : In k l -> mem_str k l = true.
Proof.
  intro H. unfold mem_str. apply existsb_exists. exists k. split; auto. apply zlist_eqb_refl.
Qed.

Lemma assoc_none_outside {A} (pub : list (list Z)) (tbl : list (list Z * A)) cls :
  forallb (fun kv => mem_str (fst kv) pub) tbl = true ->
  mem_str cls pub = false -> assoc_str cls tbl = None.
Proof.
  induction tbl as [|[k v] r IH]; intros Hk Hc; simpl; auto.
  simpl in Hk. apply andb_true_iff in Hk. destruct Hk as [Hk1 Hk2].
  destruct (zlist_eqb cls k) eqn:E.
  - apply zlist_eqb_eq in E. subst. rewrite Hk1 in Hc. discriminate.
  - auto.
Qed.

(* the names used by the model are the texts in the source *)
Lemma names_are_strings :
  n_AlternativeServiceAvailable = s2z "AlternativeServiceAvailable" /\
  n_ConnectionTerminated = s2z "ConnectionTerminated" /\
  n_DataReceived = s2z "DataReceived" /\
  n_InformationalResponseReceived = s2z "InformationalResponseReceived" /\
  n_PingAckReceived = s2z "PingAckReceived" /\
  n_PingReceived = s2z "PingReceived" /\
  n_PriorityUpdated = s2z "PriorityUpdated" /\
  n_PushedStreamReceived = s2z "PushedStreamReceived" /\
  n_RemoteSettingsChanged = s2z "RemoteSettingsChanged" /\
  n_RequestReceived = s2z "RequestReceived" /\
  n_ResponseReceived = s2z "ResponseReceived" /\
  n_SettingsAcknowledged = s2z "SettingsAcknowledged" /\
  n_StreamEnded = s2z "StreamEnded" /\
  n_StreamReset = s2z "StreamReset" /\
  n_TrailersReceived = s2z "TrailersReceived" /\
  n_UnknownFrameReceived = s2z "UnknownFrameReceived" /\
  n_WindowUpdated = s2z "WindowUpdated" /\
  n_process_connection_terminated = s2z "self.process_connection_terminated" /\
  n_process_data_received = s2z "self.process_data_received" /\
  n_process_ping_ack_received = s2z "self.process_ping_ack_received" /\
  n_process_ping_received = s2z "self.process_ping_received" /\
  n_process_priority_updated = s2z "self.process_priority_updated" /\
  n_process_remote_settings_changed = s2z "self.process_remote_settings_changed" /\
  n_process_request_received = s2z "self.process_request_received" /\
  n_process_response_received = s2z "self.process_response_received" /\
  n_process_settings_acknowledged = s2z "self.process_settings_acknowledged" /\
  n_process_stream_ended = s2z "self.process_stream_ended" /\
  n_process_stream_reset = s2z "self.process_stream_reset" /\
  n_process_trailers_received = s2z "self.process_trailers_received" /\
  n_process_window_updated = s2z "self.process_window_updated".
Proof. repeat split; vm_compute; reflexivity. Qed.

(* ------------------------------------------------------------------------------------------ *)
(* the generated table: which handler runs for which class *)

Definition expected_table : list (string * string) :=
  [ ("RequestReceived", "self.process_request_received");
    ("ResponseReceived", "self.process_response_received");
    ("RemoteSettingsChanged", "self.process_remote_settings_changed");
    ("SettingsAcknowledged", "self.process_settings_acknowledged");
    ("DataReceived", "self.process_data_received");
    ("WindowUpdated", "self.process_window_updated");
    ("TrailersReceived", "self.process_trailers_received");
    ("StreamEnded", "self.process_stream_ended");
    ("StreamReset", "self.process_stream_reset");
    ("PriorityUpdated", "self.process_priority_updated");
    ("ConnectionTerminated", "self.process_connection_terminated");
    ("PingReceived", "self.process_ping_received");
    ("PingAckReceived", "self.process_ping_ack_received") ]%string.

(* every class the source dispatches on is handled by the method of the same name, nothing else is
   in the table, and every method named there is transcribed in the model *)
Definition table_as_expected : bool :=
  (Nat.eqb (List.length processors) (List.length expected_table)) &&
  forallb (fun p => match assoc_str (s2z (fst p)) processors with
                    | Some n => zlist_eqb n (s2z (snd p))
                    | None => false
                    end) expected_table &&
  forallb (fun kv => mem_str (fst kv) public_classes) processors &&
  forallb (fun kv => match assoc_str (snd kv) (handlers []) with Some _ => true | None => false end)
          processors.

Lemma table_ok : table_as_expected = true.
Proof. vm_compute. reflexivity. Qed.

Lemma keys_public : forallb (fun kv => mem_str (fst kv) public_classes) processors = true.
Proof. vm_compute. reflexivity. Qed.

(* the handler that `process` runs for each event of a live processor *)
Definition handler_spec (rest : list event) (e : event) : state -> event -> result :=
  match e with
  | RequestReceived _ => process_request_received rest
  | ResponseReceived _ => process_response_received
  | TrailersReceived _ => process_trailers_received
  | DataReceived _ _ _ => process_data_received
  | WindowUpdated _ _ => process_window_updated
  | StreamEnded _ => process_stream_ended
  | StreamReset _ _ _ => process_stream_reset
  | RemoteSettingsChanged _ _ => process_remote_settings_changed
  | ConnectionTerminated _ => process_connection_terminated
  | PingAckReceived => process_ping_ack_received
  | SettingsAcknowledged | PingReceived | PriorityUpdated _ => process_nop      (* `pass` handlers *)
  | InformationalResponseReceived _ | PushedStreamReceived _ _ | AlternativeServiceAvailable
  | UnknownFrameReceived _ _ | OtherEvent _ => process_nop                      (* no table entry *)
  end.

Lemma process_spec rest s e :
  event_wf e = true ->
  process rest s e = if st_closed s then Ok s else handler_spec rest e s e.
Proof.
  intro W. unfold process. destruct (st_closed s); [reflexivity|].
  destruct e; try reflexivity.
  (* OtherEvent *)
  simpl in W. apply negb_true_iff in W.
  simpl class_name. rewrite (assoc_none_outside public_classes processors cls keys_public W).
  reflexivity.
Qed.

(* ------------------------------------------------------------------------------------------ *)
(* what the functions Model/Dispatch.v transcribes DO (Gen.FactsC12, regenerated from /repo on every run
   by tools/facts_C12.py): per function a sorted SET of effects with private helpers seen through, locals
   abstracted to what they may hold, private attribute names anonymised and control-flow spelling ignored
   (see the header of tools/facts_C12.py); EventsProcessor.process by its dispatch semantics.  A change of
   what one of these functions does -- a lookup turned from .get into [...], another argument handed to
   Buffer.add, another exception class caught in data_received, a handler doing something else -- breaks
   this lemma; a behaviour-preserving rewrite (extract / inline / rename / restructure) does not. *)
Definition expected_shape : list (string * list string) :=
  [
    ("EventsProcessor.process",
     ["dispatch: by the class of the event"; "dispatch: handler called with the event"; "dispatch: missing key tolerated"; "dispatch: missing table tolerated"]);
    ("EventsProcessor.process_request_received",
     ["call self.connection.create_stream({event.stream_id})"; "call self.handler.accept({stream}; {event.headers}; {self.register()})"; "call self.register({stream})"]);
    ("EventsProcessor.process_response_received",
     ["call stream.headers_received.set()"; "get self.streams"; "set stream.headers <- {event.headers}"]);
    ("EventsProcessor.process_remote_settings_changed",
     ["call self.connection.stream_close_waiter.set()"; "call stream.window_updated.set()"; "test SettingCodes.INITIAL_WINDOW_SIZE"; "test SettingCodes.MAX_CONCURRENT_STREAMS"; "test event.changed_settings"; "values self.streams"]);
    ("EventsProcessor.process_settings_acknowledged",
     []);
    ("EventsProcessor.process_data_received",
     ["call self.connection.ack({event.stream_id}; {event.flow_controlled_length})"; "call stream.buffer.add({event.data}; {event.flow_controlled_length})"; "get self.streams"; "set self.connection.data_received <- {+=, len(event.data)}"; "set self.connection.last_data_received <- {time.monotonic()}"; "set stream.data_received <- {+=, len(event.data)}"]);
    ("EventsProcessor.process_window_updated",
     ["call stream.window_updated.set()"; "get self.streams"; "test const:0"; "test event.stream_id"; "values self.streams"]);
    ("EventsProcessor.process_trailers_received",
     ["call stream.trailers_received.set()"; "get self.streams"; "set stream.trailers <- {event.headers}"]);
    ("EventsProcessor.process_stream_ended",
     ["call stream.__ended__()"; "get self.streams"; "set self.connection.streams_succeeded <- {+=, const:1}"]);
    ("EventsProcessor.process_stream_reset",
     ["call self.handler.cancel({stream})"; "call stream.__terminated__({event.error_code, str:Protocol error, str:Stream reset by remote party, error_code: })"; "get self.streams"; "set self.connection.streams_failed <- {+=, const:1}"; "test event.remote_reset"]);
    ("EventsProcessor.process_priority_updated",
     []);
    ("EventsProcessor.process_connection_terminated",
     ["call self.close({event.error_code, str:Received GOAWAY frame, closing connection; error_code: })"]);
    ("EventsProcessor.process_ping_received",
     []);
    ("EventsProcessor.process_ping_ack_received",
     ["call self.connection.ping_ack_process()"]);
    ("EventsProcessor.close",
     ["call self.connection.close()"; "call self.handler.close()"; "call stream.__terminated__({reason})"; "del-tolerant self.processors"; "values self.streams"]);
    ("Connection.ack",
     ["call self._.acknowledge_received_data({size}; {arg1})"; "call self.flush()"; "test size"]);
    ("Stream.__terminated__",
     ["call self.wrapper.cancel({new:StreamTerminatedError, reason})"]);
    ("Stream.__ended__",
     ["call self.buffer.eof()"; "call self.trailers_received.set()"]);
    ("Stream.closable",
     ["call self._.is_closing()"; "call self._.streams.get({self.id})"; "returns {self._.streams.get().closed}"; "test ConnectionState.CLOSED"; "test self._.is_closing()"; "test self._.state_machine.state"]);
    ("Stream.reset_nowait",
     ["call self._.data_to_send()"; "call self._.reset_stream({self.id}; {arg1})"; "call self._.write({self._.data_to_send()})"; "call self.connection.write_ready.is_set()"; "test self.connection.write_ready.is_set()"]);
    ("H2Protocol.data_received",
     ["call self.connection.feed({data})"; "call self.connection.flush()"; "call self.processor.close({str:Protocol error})"; "call self.processor.process({self.connection.feed()})"; "catch ProtocolError, UnicodeDecodeError"]);
    ("H2Protocol.connection_lost",
     ["call self.processor.close({str:Connection lost})"]);
    ("client.Handler.accept",
     ["call release_stream()"; "call stream.reset_nowait({ErrorCodes.REFUSED_STREAM})"; "test stream.closable"]);
    ("client.Handler.cancel",
     []);
    ("client.Handler.close",
     ["set self.connection_lost <- {}"]);
    ("server.Handler.accept",
     ["call request_handler({self.mapping}; {stream}; {headers}; {self.codec}; {self.status_details_codec}; {self.dispatch}; {release_stream})"; "call self.__gc_step__()"; "call self.loop.create_task({request_handler()})"; "call task.add_done_callback({lambda})"; "store self._ <- {stream, task}"]);
    ("server.Handler.cancel",
     ["call task.cancel()"; "pop self._/2"; "store self._ <- {task}"]);
    ("server.Handler.close",
     ["call task.cancel()"; "set self.closing <- {}"; "store self._ <- {task}"; "values self._"]) ]%string.

Fixpoint zll_eqb (a b : list (list Z)) : bool :=
  match a, b with
  | [], [] => true
  | x :: a', y :: b' => zlist_eqb x y && zll_eqb a' b'
  | _, _ => false
  end.

Fixpoint shape_eqb (a : list (list Z * list (list Z))) (b : list (string * list string)) : bool :=
  match a, b with
  | [], [] => true
  | (n, t) :: a', (n', t') :: b' => zlist_eqb n (s2z n') && zll_eqb t (map s2z t') && shape_eqb a' b'
  | _, _ => false
  end.

Definition shape_as_expected : bool :=
  shape_eqb input_path_shape expected_shape.

Lemma shape_ok : shape_as_expected = true.
Proof. vm_compute. reflexivity. Qed.

(* ------------------------------------------------------------------------------------------ *)
(* one event never raises: client (every event) and server (no repeated StreamReset) *)

(* Stream.closable is exactly what h2.reset_stream needs: when it holds, the reset cannot raise *)
Lemma closable_reset_ok rest s sid : closable rest s sid = true -> h2_reset_stream rest sid = None.
Proof.
  unfold closable, h2_reset_stream. intro H.
  apply andb_true_iff in H. destruct H as [H H3]. apply andb_true_iff in H. destruct H as [_ H2].
  apply negb_true_iff in H2. apply negb_true_iff in H3. rewrite H2, H3. reflexivity.
Qed.

Lemma client_accept_ok rest s sid :
  (if closable rest s sid then reset_nowait rest s sid else Ok s) =
  Ok (if closable rest s sid then add_rst s sid else s).
Proof.
  destruct (closable rest s sid) eqn:CL; [|reflexivity].
  unfold reset_nowait. rewrite (closable_reset_ok _ _ _ CL). reflexivity.
Qed.

Lemma conn_ack_ok s sid fcl :
  inv_b s = true -> st_closed s = false -> 0 < sid -> 0 <= fcl ->
  conn_ack s sid fcl = Ok (if fcl =? 0 then s else set_credit s (st_credit s ++ [(sid, fcl)])).
Proof.
  intros I C Hs Hf. unfold conn_ack. destruct (fcl =? 0) eqn:E0; [reflexivity|].
  assert ((fcl <? 0) || (sid <=? 0) = false) as -> by lia.
  unfold inv_b in I. rewrite C in I. simpl in I. apply negb_true_iff in I. rewrite I. reflexivity.
Qed.

Definition good (ro : role) (s : state) : Prop := st_role s = ro /\ inv_b s = true.

Ltac good_tac := unfold good, inv_b in *; simpl; tauto.

Lemma close_conn_good ro why s : st_role s = ro -> good ro (close_conn why s).
Proof. intro R. unfold good, inv_b. simpl. auto. Qed.

Lemma release_good ro s sid : good ro s -> good ro (release s sid).
Proof. intro G. unfold release. destruct (lookup sid (st_reg s)); good_tac. Qed.

(* one event, either endpoint, every kind: never raises *)
Lemma event_total ro rest s e :
  good ro s -> event_wf e = true ->
  exists s', process rest s e = Ok s' /\ good ro s'.
Proof.
  intros G W. rewrite (process_spec rest s e W).
  destruct (st_closed s) eqn:C; [eauto|].
  destruct G as [R I].
  destruct e; simpl handler_spec; unfold process_nop;
    try (eexists; split; [reflexivity| good_tac]).
  - (* Request: client = registered, refused (reset only if closable), released; server = task started *)
    unfold process_request_received. simpl. rewrite R. destruct ro.
    + rewrite client_accept_ok. eexists; split; [reflexivity|]. apply release_good.
      destruct (closable rest _ sid); good_tac.
    + eexists; split; [reflexivity|good_tac].
  - (* Response *) unfold process_response_received. simpl.
    destruct (lookup sid (st_reg s)); eexists; (split; [reflexivity|good_tac]).
  - (* Trailers *) unfold process_trailers_received. simpl.
    destruct (lookup sid (st_reg s)); eexists; (split; [reflexivity|good_tac]).
  - (* Data *) unfold process_data_received. simpl. simpl in W.
    destruct (lookup sid (st_reg s)).
    + eexists; (split; [reflexivity|good_tac]).
    + rewrite (conn_ack_ok s sid fcl I C) by lia.
      destruct (fcl =? 0); eexists; (split; [reflexivity|good_tac]).
  - (* Window *) unfold process_window_updated. simpl.
    destruct (sid =? 0); [eexists; (split; [reflexivity|good_tac])|].
    destruct (lookup sid (st_reg s)); eexists; (split; [reflexivity|good_tac]).
  - (* Ended *) unfold process_stream_ended. simpl.
    destruct (lookup sid (st_reg s)); eexists; (split; [reflexivity|good_tac]).
  - (* Reset: client cancel = pass; server cancel = pop with a default, never raises *)
    unfold process_stream_reset. simpl.
    destruct (lookup sid (st_reg s)); [rewrite R; destruct ro|]; eexists; (split; [reflexivity|good_tac]).
  - (* Settings *) unfold process_remote_settings_changed. simpl.
    destruct iws, mcs; eexists; (split; [reflexivity|good_tac]).
  (* PingAck and GOAWAY are closed by the `try` above: the result is set_ping / close_conn of s *)
Qed.

(* ------------------------------------------------------------------------------------------ *)
(* event lists *)

Lemma events_total ro evs : forall s,
  good ro s -> forallb event_wf evs = true ->
  exists s', run_events s evs = Ok s' /\ good ro s'.
Proof.
  induction evs as [|e r IH]; intros s G W; simpl.
  - eauto.
  - simpl in W. apply andb_true_iff in W. destruct W as [W1 W2].
    destruct (event_total ro r s e G W1) as [s1 [E G1]]. rewrite E. auto.
Qed.

(* running a PREFIX of a batch: its events are processed while h2 has already digested `tail`,
   the rest of the batch (run_events = run_events_in []) *)
Fixpoint run_events_in (tail : list event) (s : state) (evs : list event) : result :=
  match evs with
  | [] => Ok s
  | e :: r => match process (r ++ tail) s e with
              | Ok s1 => run_events_in tail s1 r
              | Raises x => Raises x
              end
  end.

Lemma run_events_in_nil evs : forall s, run_events_in [] s evs = run_events s evs.
Proof.
  induction evs as [|e r IH]; intro s; simpl; auto.
  rewrite app_nil_r. destruct (process r s e); auto.
Qed.

Lemma run_events_in_app tail pre post : forall s,
  run_events_in tail s (pre ++ post) =
  match run_events_in (post ++ tail) s pre with
  | Ok s1 => run_events_in tail s1 post
  | Raises x => Raises x
  end.
Proof.
  induction pre as [|e r IH]; intro s; simpl; auto.
  rewrite <- app_assoc. destruct (process (r ++ post ++ tail) s e); auto.
Qed.

Lemma run_events_app s pre post :
  run_events s (pre ++ post) =
  match run_events_in post s pre with Ok s1 => run_events s1 post | Raises x => Raises x end.
Proof.
  rewrite <- !run_events_in_nil, run_events_in_app, app_nil_r.
  destruct (run_events_in post s pre); auto. apply run_events_in_nil.
Qed.

Lemma closed_ignores_all evs : forall s, st_closed s = true -> run_events s evs = Ok s.
Proof.
  induction evs as [|e r IH]; intros s C; simpl; auto.
  unfold process. rewrite C. auto.
Qed.

(* ------------------------------------------------------------------------------------------ *)
(* whole histories (events interleaved with everything else that touches the state) *)

Lemma step_total ro s i :
  good ro s -> input_wf i = true ->
  exists s', step s i = Ok s' /\ good ro s'.
Proof.
  intros G W. destruct G as [R I].
  assert (G : good ro s) by (split; assumption).
  destruct i; simpl.
  - destruct (st_tclosed s); [eauto|]. destruct b; simpl.
    + eexists; split; [reflexivity|]. apply close_conn_good; exact R.
    + eexists; split; [reflexivity|]. apply close_conn_good; exact R.
    + apply events_total; assumption.
  - eexists; split; [reflexivity|]. apply close_conn_good; exact R.
  - rewrite R. destruct ro; eexists; (split; [reflexivity|good_tac]).
  - eexists; split; [reflexivity|]. apply release_good. exact G.
  - destruct (lookup sid (st_reg s)); eexists; (split; [reflexivity|good_tac]).
  - eexists; split; [reflexivity|].
    assert (G1 : good ro (release s sid)) by (apply release_good; exact G). good_tac.
  - destruct (lookup sid (st_reg s)); [destruct (0 <? s_queue s0)|]; eexists; (split; [reflexivity|good_tac]).
  - destruct (lookup sid (st_reg s)); eexists; (split; [reflexivity|good_tac]).
  - rewrite R. destruct ro; eexists; (split; [reflexivity|good_tac]).
Qed.

Lemma history_total ro h : forall s,
  good ro s -> forallb input_wf h = true ->
  exists s', run s h = Ok s' /\ good ro s'.
Proof.
  induction h as [|i r IH]; intros s G W; simpl; [eauto|].
  simpl in W. apply andb_true_iff in W. destruct W as [W1 W2].
  destruct (step_total ro s i G W1) as [s1 [E G1]]. rewrite E. auto.
Qed.

Lemma init_good ro : good ro (init ro).
Proof. split; reflexivity. Qed.

(* ---- the totality statements: either endpoint, every history, every event kind.  The only
   hypothesis left is event_wf (what h2 guarantees about the numbers it hands out: DataReceived is
   for a real stream id and lengths are not negative -- h2.acknowledge_received_data would raise
   ValueError otherwise -- and an OtherEvent really is of another class). *)
Lemma endpoint_total :
  forall ro h, forallb input_wf h = true ->
  exists s', run (init ro) h = Ok s' /\ inv_b s' = true.
Proof.
  intros ro h W.
  destruct (history_total ro h (init ro) (init_good ro) W) as [s' [E [R I]]]. eauto.
Qed.

Lemma server_total :
  forall h, forallb input_wf h = true ->
  exists s', run (init Server) h = Ok s' /\ inv_b s' = true.
Proof. exact (endpoint_total Server). Qed.

Lemma client_total :
  forall h, forallb input_wf h = true ->
  exists s', run (init Client) h = Ok s' /\ inv_b s' = true.
Proof. exact (endpoint_total Client). Qed.

(* one batch in ANY state with a live transport (what the driver evaluates on every real pre-state) *)
Lemma batch_total :
  forall s b, inv_b s = true -> input_wf (IData b) = true ->
  exists s', data_received s b = Ok s' /\ inv_b s' = true.
Proof.
  intros s b I W. destruct b; simpl in *.
  - eexists; split; reflexivity.
  - eexists; split; reflexivity.
  - destruct (events_total (st_role s) evs s (conj eq_refl I) W) as [s' [E [R' I']]]. eauto.
Qed.

(* a stream opened by the peer towards a client is refused and leaves no trace: nothing a call can
   observe changes except the slot-waiter wake-up; the RST_STREAM is sent exactly when the stream
   is still closable *)
Lemma lookup_upd_same sid v l : lookup sid (upd sid v l) = Some v.
Proof.
  induction l as [|[k w] r IH]; simpl.
  - rewrite Z.eqb_refl. reflexivity.
  - destruct (k =? sid) eqn:E; simpl; rewrite E; auto.
Qed.

Lemma remove_upd_absent sid v l : lookup sid l = None -> remove sid (upd sid v l) = l.
Proof.
  induction l as [|[k w] r IH]; simpl; intro L.
  - rewrite Z.eqb_refl. reflexivity.
  - destruct (k =? sid) eqn:E; [discriminate|]. simpl. rewrite E. f_equal. auto.
Qed.

Lemma client_request_refused rest s sid :
  st_role s = Client -> st_closed s = false -> lookup sid (st_reg s) = None ->
  exists s', process rest s (RequestReceived sid) = Ok s' /\
    st_reg s' = st_reg s /\ st_h s' = st_h s /\ st_closed s' = false /\
    st_tclosed s' = st_tclosed s /\ st_ping s' = st_ping s /\ st_credit s' = st_credit s /\
    st_waiter s' = true /\
    st_rst s' = st_rst s ++ (if closable rest s sid then [sid] else []).
Proof.
  intros R C L. rewrite process_spec by reflexivity. rewrite C. simpl.
  unfold process_request_received. simpl. rewrite R, client_accept_ok.
  eexists; split; [reflexivity|].
  assert (CL : closable rest (set_reg s (upd sid (fresh_srec false) (st_reg s))) sid = closable rest s sid)
    by reflexivity.
  rewrite CL. unfold release.
  destruct (closable rest s sid); simpl; rewrite lookup_upd_same; simpl;
    rewrite (remove_upd_absent _ _ _ L), ?app_nil_r; repeat split; auto.
Qed.

(* ------------------------------------------------------------------------------------------ *)
(* former refutation witnesses (all repaired in /repo): now Examples of histories that do not raise *)
Definition client_witness : list input :=
  [IRegister 1; IData (H2Events [RequestReceived 2])].
Definition client_witness_goaway : list input :=
  [IRegister 1; IData (H2Events [RequestReceived 2; ConnectionTerminated 0])].
Definition client_witness_reset : list input :=
  [IRegister 1; IData (H2Events [RequestReceived 2; StreamReset 2 8 true])].
(* a second StreamReset for a stream whose handler task was already popped: was a KeyError in
   server.Handler.cancel (`_tasks.pop(stream)`), now pop with a default *)
Definition server_witness : list input :=
  [IData (H2Events [RequestReceived 1; StreamReset 1 8 true; StreamReset 1 8 true])].

(* a StreamReset for a registered stream whose task is no longer in _tasks (reset before, or
   finished): the wrapper is terminated (again), the handler tables are untouched, nothing raises *)
Lemma pop_task_absent sid l :
  existsb (live_task sid) l = false -> pop_task sid l = l.
Proof.
  induction l as [|t r IH]; simpl; intro H; auto.
  apply orb_false_iff in H. destruct H as [H1 H2]. rewrite H1. f_equal. auto.
Qed.

Lemma late_reset_tolerated rest s sid code remote r :
  st_role s = Server -> st_closed s = false ->
  lookup sid (st_reg s) = Some r -> has_live_task sid (st_h s) = false ->
  exists s', process rest s (StreamReset sid code remote) = Ok s' /\
    st_h s' = st_h s /\
    st_reg s' = upd sid (terminated (if remote then RRemoteReset code else RProtocolError) r) (st_reg s).
Proof.
  intros R C L H. rewrite process_spec by reflexivity. rewrite C. simpl.
  unfold process_stream_reset. simpl. rewrite L, R. simpl.
  eexists; split; [reflexivity|]. simpl. split; [|reflexivity].
  unfold has_live_task in H. rewrite (pop_task_absent _ _ H). destruct (st_h s); reflexivity.
Qed.

(* ------------------------------------------------------------------------------------------ *)
(* tolerance *)

Definition tolerated (e : event) : bool :=
  match e with
  | UnknownFrameReceived _ _ | AlternativeServiceAvailable | PriorityUpdated _ | PingReceived
  | InformationalResponseReceived _ | PushedStreamReceived _ _ | SettingsAcknowledged
  | OtherEvent _ => true
  | _ => false
  end.

Lemma tolerated_ignored rest s e : tolerated e = true -> event_wf e = true -> process rest s e = Ok s.
Proof.
  intros T W. rewrite (process_spec rest s e W). destruct (st_closed s); [reflexivity|].
  destruct e; simpl in T; try discriminate; reflexivity.
Qed.

Lemma tolerated_list_ignored evs : forall s,
  forallb tolerated evs = true -> forallb event_wf evs = true -> run_events s evs = Ok s.
Proof.
  induction evs as [|e r IH]; intros s T W; simpl; auto.
  simpl in T, W. apply andb_true_iff in T. apply andb_true_iff in W.
  destruct T, W. rewrite tolerated_ignored; auto.
Qed.

(* PING ack: only the keepalive close timer is touched *)
Lemma ping_ack_only_timer rest s :
  process rest s PingAckReceived = Ok (if st_closed s then s else set_ping s false).
Proof. rewrite process_spec by reflexivity. destruct (st_closed s); reflexivity. Qed.

(* an event addressed to a stream that is not (no longer) registered *)
Definition stream_addressed (e : event) : option Z :=
  match e with
  | ResponseReceived sid | TrailersReceived sid | StreamEnded sid | StreamReset sid _ _
  | DataReceived sid _ _ => Some sid
  | WindowUpdated sid _ => if sid =? 0 then None else Some sid
  | _ => None
  end.

(* everything a call can observe: registry with every stream record, handler, closed flags, wake-up
   flag of slot waiters, keepalive timer *)
Definition same_calls (s s' : state) : Prop :=
  st_role s' = st_role s /\ st_reg s' = st_reg s /\ st_h s' = st_h s /\
  st_closed s' = st_closed s /\ st_tclosed s' = st_tclosed s /\
  st_waiter s' = st_waiter s /\ st_ping s' = st_ping s /\ st_rst s' = st_rst s.

Definition returned_credit (s : state) (e : event) : list (Z * Z) :=
  match e with
  | DataReceived sid _ fcl => if st_closed s || (fcl =? 0) then [] else [(sid, fcl)]
  | _ => []
  end.

Lemma unregistered_tolerated rest s e sid :
  inv_b s = true -> event_wf e = true ->
  stream_addressed e = Some sid -> lookup sid (st_reg s) = None ->
  exists s', process rest s e = Ok s' /\ same_calls s s' /\
             st_credit s' = st_credit s ++ returned_credit s e.
Proof.
  intros I W A L. rewrite (process_spec rest s e W). unfold returned_credit.
  destruct (st_closed s) eqn:C.
  { exists s. split; auto. split; [unfold same_calls; tauto|].
    destruct e; simpl; rewrite ?app_nil_r; reflexivity. }
  destruct e; simpl in A; try discriminate; simpl handler_spec.
  - inversion A; subst. unfold process_response_received. simpl. rewrite L.
    exists s. split; auto. split; [unfold same_calls; tauto|]. rewrite app_nil_r. reflexivity.
  - inversion A; subst. unfold process_trailers_received. simpl. rewrite L.
    exists s. split; auto. split; [unfold same_calls; tauto|]. rewrite app_nil_r. reflexivity.
  - inversion A; subst. unfold process_data_received. simpl. rewrite L. simpl in W.
    rewrite (conn_ack_ok s sid fcl I C) by lia. simpl.
    destruct (fcl =? 0); eexists; (split; [reflexivity|]); (split; [unfold same_calls; simpl; tauto|]);
      simpl; rewrite ?app_nil_r; reflexivity.
  - destruct (sid0 =? 0) eqn:Z0; [discriminate|]. inversion A; subst.
    unfold process_window_updated. simpl. rewrite Z0, L.
    exists s. split; auto. split; [unfold same_calls; tauto|]. rewrite app_nil_r. reflexivity.
  - inversion A; subst. unfold process_stream_ended. simpl. rewrite L.
    eexists; (split; [reflexivity|]); (split; [unfold same_calls; simpl; tauto|]);
      simpl; rewrite ?app_nil_r; reflexivity.
  - inversion A; subst. unfold process_stream_reset. simpl. rewrite L.
    eexists; (split; [reflexivity|]); (split; [unfold same_calls; simpl; tauto|]);
      simpl; rewrite ?app_nil_r; reflexivity.
Qed.

(* ------------------------------------------------------------------------------------------ *)
(* orderly shutdown *)

Lemma stream_terminated_refl why r : stream_terminated why (terminated why r) = true.
Proof.
  unfold stream_terminated, terminated. destruct (s_wrapper r) eqn:Wr; simpl.
  - destruct why; simpl; auto; apply Z.eqb_refl.
  - rewrite Wr. reflexivity.
Qed.

Lemma close_shuts_down why s : shut_down why (close_conn why s) = true.
Proof.
  unfold shut_down. simpl.
  assert (F : h_flag (handler_close (st_role s) (st_h s)) = true) by (destruct (st_role s); reflexivity).
  rewrite F. simpl.
  apply andb_true_iff. split.
  - unfold map_reg. rewrite forallb_forall. intros [k v] Hin. apply in_map_iff in Hin.
    destruct Hin as [[k0 v0] [E _]]. simpl in E. inversion E; subst. simpl. apply stream_terminated_refl.
  - destruct (st_role s); simpl; [reflexivity|].
    rewrite forallb_forall. intros t Hin. apply in_map_iff in Hin. destruct Hin as [t0 [E _]].
    subst. unfold task_cancelled, close_task. destruct (t_live t0) eqn:Lv; simpl; auto.
    rewrite Lv. reflexivity.
Qed.

(* h2 raised ProtocolError: everything is shut down and stays so *)
Lemma protocol_error_shuts_down s :
  exists s', data_received s H2ProtocolError = Ok s' /\ shut_down RProtocolError s' = true /\
             (forall evs, run_events s' evs = Ok s') /\ (forall b, step s' (IData b) = Ok s').
Proof.
  exists (close_conn RProtocolError s). split; [reflexivity|]. split; [apply close_shuts_down|].
  split; [intro evs; apply closed_ignores_all; reflexivity | intro b; reflexivity].
Qed.

Lemma connection_lost_shuts_down s :
  exists s', step s IConnLost = Ok s' /\ shut_down RConnLost s' = true /\
             (forall evs, run_events s' evs = Ok s') /\ (forall b, step s' (IData b) = Ok s').
Proof.
  exists (close_conn RConnLost s). split; [reflexivity|]. split; [apply close_shuts_down|].
  split; [intro evs; apply closed_ignores_all; reflexivity | intro b; reflexivity].
Qed.

Ltac split_match :=
  match goal with
  | H : context [match ?x with _ => _ end] |- _ =>
      lazymatch x with
      | context [match _ with _ => _ end] => fail
      | _ => destruct x eqn:?
      end
  end.

(* the only event that closes a live processor is ConnectionTerminated, and it closes everything *)
Lemma only_goaway_closes rest s e s1 :
  event_wf e = true -> process rest s e = Ok s1 -> st_closed s = false -> st_closed s1 = true ->
  exists c, e = ConnectionTerminated c /\ s1 = close_conn (RGoaway c) s.
Proof.
  intros W P C C1. rewrite (process_spec rest s e W), C in P.
  destruct e; simpl in P;
    unfold process_nop, process_request_received, process_response_received,
      process_trailers_received, process_data_received, process_window_updated,
      process_stream_ended, process_stream_reset, process_remote_settings_changed,
      process_connection_terminated, process_ping_ack_received, conn_ack, reset_nowait, release in P;
    simpl in P;
    repeat split_match; try discriminate;
    repeat match goal with H : Ok _ = Ok _ |- _ => inversion H; clear H; subst end;
    simpl in C1; try congruence.
  eexists; split; reflexivity.
Qed.

Lemma closing_batch_is_goaway evs : forall s s',
  forallb event_wf evs = true -> run_events s evs = Ok s' ->
  st_closed s = false -> st_closed s' = true ->
  exists c s1, st_closed s1 = false /\ s' = close_conn (RGoaway c) s1.
Proof.
  induction evs as [|e r IH]; intros s s' W P C C'; simpl in P.
  - inversion P; subst. congruence.
  - simpl in W. apply andb_true_iff in W. destruct W as [W1 W2].
    destruct (process r s e) as [s1|x] eqn:E; [|discriminate].
    destruct (st_closed s1) eqn:C1.
    + destruct (only_goaway_closes r s e s1 W1 E C C1) as [c [-> ->]].
      rewrite closed_ignores_all in P by reflexivity. inversion P; subst.
      exists c, s. auto.
    + exact (IH s1 s' W2 P C1 C').
Qed.

(* violation or GOAWAY => orderly shutdown: whenever a batch closes the connection, every
   registered stream that has a wrapper is terminated, the handler is closed (server: every task
   cancelled), the transport is closed and whatever arrives later is ignored *)
Lemma closing_batch_shuts_down s b s' :
  input_wf (IData b) = true -> data_received s b = Ok s' ->
  st_closed s = false -> st_closed s' = true ->
  exists why, shut_down why s' = true /\
              (forall evs, run_events s' evs = Ok s') /\ (forall b', step s' (IData b') = Ok s').
Proof.
  intros W P C C'. destruct b; simpl in *.
  - inversion P; subst. exists RProtocolError. split; [apply close_shuts_down|].
    split; [intro evs; apply closed_ignores_all; reflexivity | intro b; reflexivity].
  - inversion P; subst. exists RProtocolError. split; [apply close_shuts_down|].
    split; [intro evs; apply closed_ignores_all; reflexivity | intro b; reflexivity].
  - destruct (closing_batch_is_goaway evs s s' W P C C') as [c [s1 [_ ->]]].
    exists (RGoaway c). split; [apply close_shuts_down|].
    split; [intro evs'; apply closed_ignores_all; reflexivity | intro b; reflexivity].
Qed.

(* a header block h2 cannot decode (UnicodeDecodeError) is handled exactly like a ProtocolError *)
Lemma undecodable_headers_shut_down s :
  data_received s H2UnicodeDecodeError = data_received s H2ProtocolError.
Proof. reflexivity. Qed.

(* GOAWAY anywhere in a batch: the events before it are processed (h2 having already seen the
   GOAWAY), then everything is shut down and the rest of the batch is ignored *)
Lemma goaway_mid_batch s pre c post s1 :
  run_events_in (ConnectionTerminated c :: post) s pre = Ok s1 -> st_closed s1 = false ->
  run_events s (pre ++ ConnectionTerminated c :: post) = Ok (close_conn (RGoaway c) s1).
Proof.
  intros R C. rewrite run_events_app, R. simpl.
  rewrite (process_spec post s1 (ConnectionTerminated c)) by reflexivity. rewrite C. simpl.
  apply closed_ignores_all. reflexivity.
Qed.

(* what the input path can learn about the rest of a batch: is a GOAWAY ahead, is a reset of a
   given stream ahead -- nothing else *)
Definition same_ahead (a b : list event) : Prop :=
  h2_conn_closed a = h2_conn_closed b /\ forall sid, h2_stream_closed a sid = h2_stream_closed b sid.

Lemma process_ahead a b s e : same_ahead a b -> process a s e = process b s e.
Proof.
  intros [H1 H2]. unfold process. destruct (st_closed s); auto.
  destruct (assoc_str (class_name e) processors) as [name|]; auto.
  unfold run_handler, handlers. cbn [assoc_str].
  destruct (zlist_eqb name n_process_request_received); [|reflexivity].
  unfold process_request_received. destruct (f_stream_id e) as [sid|]; auto.
  unfold closable, reset_nowait, h2_reset_stream. rewrite H1, (H2 sid). reflexivity.
Qed.

Lemma tolerated_not_ahead tol :
  forallb tolerated tol = true ->
  existsb is_goaway tol = false /\ forall sid, existsb (is_reset_of sid) tol = false.
Proof.
  induction tol as [|e r IH]; simpl; intro T; [auto|].
  apply andb_true_iff in T. destruct T as [T1 T2]. destruct (IH T2) as [A B].
  destruct e; simpl in T1; try discriminate; simpl; auto.
Qed.

Lemma ahead_without_tolerated r tol post :
  forallb tolerated tol = true -> same_ahead (r ++ tol ++ post) (r ++ post).
Proof.
  intro T. destruct (tolerated_not_ahead tol T) as [A B].
  unfold same_ahead, h2_conn_closed, h2_stream_closed. split; [|intro sid];
    rewrite !existsb_app, ?A, ?B; reflexivity.
Qed.

(* tolerable events injected at any point of any batch change nothing at all *)
Lemma tolerated_anywhere pre tol post : forall s,
  forallb tolerated tol = true -> forallb event_wf tol = true ->
  run_events s (pre ++ tol ++ post) = run_events s (pre ++ post).
Proof.
  intros s T W. revert s. induction pre as [|e r IH]; intro s.
  - simpl. revert s. induction tol as [|e r IH]; intro s; simpl; auto.
    simpl in T, W. apply andb_true_iff in T. apply andb_true_iff in W. destruct T, W.
    rewrite tolerated_ignored; auto.
  - simpl. rewrite (process_ahead _ _ s e (ahead_without_tolerated r tol post T)).
    destruct (process (r ++ post) s e); auto.
Qed.

(* ... and events for unregistered streams, at the level of one batch: calls see nothing *)
Lemma source_table_facts :
  table_as_expected = true /\
  assoc_str (s2z "UnknownFrameReceived") processors = None /\
  assoc_str (s2z "AlternativeServiceAvailable") processors = None /\
  assoc_str (s2z "InformationalResponseReceived") processors = None /\
  assoc_str (s2z "PushedStreamReceived") processors = None.
Proof. repeat split; vm_compute; reflexivity. Qed.
