(* Proofs/C16Proofs.v -- lemmas about Model/Channel.v (property C16). *)
From Coq Require Import List Bool Arith Lia.
From GV Require Import Model.Channel.
Import ListNotations.

(* ================================================================================================ *)
(* 1. lists: upd / nth / count                                                                      *)

Lemma upd_length {A} n (f : A -> A) l : length (upd n f l) = length l.
Proof. revert n; induction l; destruct n; simpl; auto. Qed.

Lemma nth_upd {A} n m (f : A -> A) l d :
  nth m (upd n f l) d = if Nat.eqb n m && Nat.ltb m (length l) then f (nth m l d) else nth m l d.
Proof.
  revert n m; induction l; intros n m.
  - simpl. destruct n, m; simpl; rewrite ?andb_false_r; auto.
  - destruct n, m; simpl; auto. rewrite IHl.
    replace (Nat.ltb (S m) (S (length l))) with (Nat.ltb m (length l)); auto.
Qed.

Lemma nth_upd_same {A} n (f : A -> A) l d : n < length l -> nth n (upd n f l) d = f (nth n l d).
Proof. intros. rewrite nth_upd, Nat.eqb_refl. apply Nat.ltb_lt in H. rewrite H. auto. Qed.

Lemma nth_upd_other {A} n m (f : A -> A) l d : n <> m -> nth m (upd n f l) d = nth m l d.
Proof. intros. rewrite nth_upd. apply Nat.eqb_neq in H. rewrite H. auto. Qed.

Lemma upd_oob {A} n (f : A -> A) l : length l <= n -> upd n f l = l.
Proof. revert n; induction l; destruct n; simpl; intros; auto; try lia. f_equal. apply IHl. lia. Qed.

Definition b2n (b : bool) : nat := if b then 1 else 0.

Lemma count_app {A} (p : A -> bool) l1 l2 : count p (l1 ++ l2) = count p l1 + count p l2.
Proof. unfold count. rewrite filter_app, app_length. auto. Qed.

Lemma count_cons {A} (p : A -> bool) x l : count p (x :: l) = b2n (p x) + count p l.
Proof. unfold count. simpl. destruct (p x); auto. Qed.

Lemma count_upd {A} (p : A -> bool) n f l d : n < length l ->
  count p (upd n f l) + b2n (p (nth n l d)) = count p l + b2n (p (f (nth n l d))).
Proof.
  revert n; induction l; intros n H; simpl in H; try lia.
  destruct n; simpl upd; simpl nth; rewrite !count_cons.
  - lia.
  - specialize (IHl n ltac:(lia)). lia.
Qed.

Lemma count_upd_same {A} (p : A -> bool) n f l : (forall x, p (f x) = p x) -> count p (upd n f l) = count p l.
Proof.
  intros H. revert n; induction l; intros n; destruct n; simpl; auto; rewrite !count_cons, ?H; auto.
Qed.

Lemma count_le {A} (p q : A -> bool) l : (forall x, p x = true -> q x = true) -> count p l <= count q l.
Proof.
  intros H. induction l; auto. rewrite !count_cons. specialize (H a).
  destruct (p a), (q a); simpl; try lia. all: try (discriminate H; auto).
Qed.

Lemma count_pos {A} (p : A -> bool) l d n : n < length l -> p (nth n l d) = true -> 1 <= count p l.
Proof.
  revert n; induction l; intros n H P; simpl in *; try lia. rewrite count_cons.
  destruct n. rewrite P; simpl; lia. specialize (IHl n ltac:(lia) P). lia.
Qed.

Lemma count_two {A} (p : A -> bool) l d i j :
  i < length l -> j < length l -> i <> j -> p (nth i l d) = true -> p (nth j l d) = true -> 2 <= count p l.
Proof.
  revert i j; induction l; intros i j Hi Hj Hn Pi Pj; simpl in Hi, Hj; try lia.
  rewrite count_cons. destruct i, j; try lia; simpl in Pi, Pj.
  - rewrite Pi. pose proof (count_pos p l d j ltac:(lia) Pj). simpl. lia.
  - rewrite Pj. pose proof (count_pos p l d i ltac:(lia) Pi). simpl. lia.
  - specialize (IHl i j ltac:(lia) ltac:(lia) ltac:(lia) Pi Pj). lia.
Qed.

Lemma count_unique {A} (p : A -> bool) l d :
  (forall i j, i < length l -> j < length l -> p (nth i l d) = true -> p (nth j l d) = true -> i = j) ->
  count p l <= 1.
Proof.
  intros H. destruct (le_lt_dec (count p l) 1); auto. exfalso.
  (* two distinct positions satisfy p *)
  assert (E : forall l, 2 <= count p l -> exists i j, i < length l /\ j < length l /\ i <> j /\
                      p (nth i l d) = true /\ p (nth j l d) = true).
  { clear. induction l; intros; unfold count in *; simpl in *; try lia.
    destruct (p a) eqn:Pa.
    - simpl in H. assert (1 <= length (filter p l)) by lia.
      assert (exists j, j < length l /\ p (nth j l d) = true).
      { clear - H0. induction l; simpl in *; try lia. destruct (p a) eqn:E.
        exists 0; split; auto; lia. destruct (IHl H0) as [j [? ?]]. exists (S j); split; auto; lia. }
      destruct H1 as [j [? ?]]. exists 0, (S j). repeat split; auto; lia.
    - destruct (IHl H) as [i [j [? [? [? [? ?]]]]]]. exists (S i), (S j). repeat split; auto; lia. }
  destruct (E l l0) as [i [j [? [? [? [? ?]]]]]]. apply H2. apply H; auto.
Qed.

Lemma nth_app_new {A} (l : list A) x d : nth (length l) (l ++ [x]) d = x.
Proof. rewrite app_nth2, Nat.sub_diag; auto. Qed.

Lemma nth_app_old {A} (l : list A) x d n : n < length l -> nth n (l ++ [x]) d = nth n l d.
Proof. intros. apply app_nth1; auto. Qed.

(* ================================================================================================ *)
(* 2. what the helpers leave alone (projection lemmas)                                               *)

Ltac unf := unfold endc, setph, updk, updc, enq, deq, set_protocol, set_conns, set_locked, set_waiters,
  set_callers, set_script, set_creates, set_fails, set_chst, set_rq in *.

Lemma sched_lost_cases c s : sched_lost c s = s \/ sched_lost c s = enq (ILost c) s.
Proof. unfold sched_lost. destruct (held (nth c (conns s) dead_conn)); auto. Qed.

Lemma getk_sched_lost c s k : getk (sched_lost c s) k = getk s k.
Proof. destruct (sched_lost_cases c s) as [Y|Y]; rewrite Y; reflexivity. Qed.
Lemma getc_sched_lost c s c' : getc (sched_lost c s) c' = getc s c'.
Proof. destruct (sched_lost_cases c s) as [Y|Y]; rewrite Y; reflexivity. Qed.
Lemma conns_sched_lost c s : conns (sched_lost c s) = conns s.
Proof. destruct (sched_lost_cases c s) as [Y|Y]; rewrite Y; reflexivity. Qed.

Lemma wake_first_callers s : callers (wake_first s) = callers s.
Proof. unfold wake_first. destruct (waiters s) as [|[k []] r]; auto. Qed.
Lemma wake_first_conns s : conns (wake_first s) = conns s.
Proof. unfold wake_first. destruct (waiters s) as [|[k []] r]; auto. Qed.
Lemma wake_first_protocol s : protocol (wake_first s) = protocol s.
Proof. unfold wake_first. destruct (waiters s) as [|[k []] r]; auto. Qed.
Lemma wake_first_locked s : locked (wake_first s) = locked s.
Proof. unfold wake_first. destruct (waiters s) as [|[k []] r]; auto. Qed.
Lemma wake_first_creates s : creates (wake_first s) = creates s.
Proof. unfold wake_first. destruct (waiters s) as [|[k []] r]; auto. Qed.
Lemma wake_first_fails s : fails (wake_first s) = fails s.
Proof. unfold wake_first. destruct (waiters s) as [|[k []] r]; auto. Qed.
Lemma wake_first_script s : script (wake_first s) = script s.
Proof. unfold wake_first. destruct (waiters s) as [|[k []] r]; auto. Qed.

Lemma release_callers s : callers (release s) = callers s.
Proof. unfold release. rewrite wake_first_callers. auto. Qed.
Lemma release_conns s : conns (release s) = conns s.
Proof. unfold release. rewrite wake_first_conns. auto. Qed.
Lemma release_protocol s : protocol (release s) = protocol s.
Proof. unfold release. rewrite wake_first_protocol. auto. Qed.
Lemma release_locked s : locked (release s) = false.
Proof. unfold release. rewrite wake_first_locked. auto. Qed.
Lemma release_creates s : creates (release s) = creates s.
Proof. unfold release. rewrite wake_first_creates. auto. Qed.
Lemma release_fails s : fails (release s) = fails s.
Proof. unfold release. rewrite wake_first_fails. auto. Qed.
Lemma release_script s : script (release s) = script s.
Proof. unfold release. rewrite wake_first_script. auto. Qed.

(* `mark` : the caller list is f's, everything but rq is f's *)
Lemma mark_callers k f s : callers (mark k f s) = callers (f s).
Proof. unfold mark. destruct (enabled s k); auto. Qed.
Lemma mark_conns k f s : conns (mark k f s) = conns (f s).
Proof. unfold mark. destruct (enabled s k); auto. Qed.
Lemma mark_protocol k f s : protocol (mark k f s) = protocol (f s).
Proof. unfold mark. destruct (enabled s k); auto. Qed.
Lemma mark_locked k f s : locked (mark k f s) = locked (f s).
Proof. unfold mark. destruct (enabled s k); auto. Qed.
Lemma mark_waiters k f s : waiters (mark k f s) = waiters (f s).
Proof. unfold mark. destruct (enabled s k); auto. Qed.
Lemma mark_creates k f s : creates (mark k f s) = creates (f s).
Proof. unfold mark. destruct (enabled s k); auto. Qed.
Lemma mark_fails k f s : fails (mark k f s) = fails (f s).
Proof. unfold mark. destruct (enabled s k); auto. Qed.
Lemma mark_script k f s : script (mark k f s) = script (f s).
Proof. unfold mark. destruct (enabled s k); auto. Qed.

(* phase vector: the only thing most invariants need to know about the callers *)
Definition phases (s : state) : list phase := map ph (callers s).

Lemma getk_ph s k : ph (getk s k) = nth k (phases s) (PEnd (RExn ECancelled)).
Proof. unfold getk, phases. change (PEnd (RExn ECancelled)) with (ph no_caller). rewrite map_nth. auto. Qed.

Lemma map_upd {A B} (g : A -> B) n f l : (forall x, g (f x) = g x) -> map g (upd n f l) = map g l.
Proof. intros H. revert n; induction l; destruct n; simpl; auto; rewrite ?H, ?IHl; auto. Qed.

Lemma map_upd_to {A B} (g : A -> B) n f l v : (forall x, g (f x) = v) ->
  map g (upd n f l) = upd n (fun _ => v) (map g l).
Proof. intros H. revert n; induction l; destruct n; simpl; auto; rewrite ?H, ?IHl; auto. Qed.

Lemma phases_setph k v s : phases (setph k v s) = upd k (fun _ => v) (phases s).
Proof. unfold phases. unf. simpl. apply map_upd_to. auto. Qed.

Lemma terminate1_spec c s k :
  phases (terminate1 c s k) = phases s /\ conns (terminate1 c s k) = conns s /\
  protocol (terminate1 c s k) = protocol s /\ locked (terminate1 c s k) = locked s /\
  waiters (terminate1 c s k) = waiters s /\ creates (terminate1 c s k) = creates s /\
  fails (terminate1 c s k) = fails s /\ script (terminate1 c s k) = script s.
Proof.
  unfold terminate1. destruct (ph (getk s k)); auto 10.
  destruct (Nat.eqb c0 c && negb (term (getk s k))); auto 10.
  rewrite mark_conns, mark_protocol, mark_locked, mark_waiters, mark_creates, mark_fails, mark_script.
  unfold phases. rewrite mark_callers. unf. simpl. repeat split; auto. apply map_upd. auto.
Qed.

Lemma fold_terminate_spec c l s :
  let s' := fold_left (terminate1 c) l s in
  phases s' = phases s /\ conns s' = conns s /\ protocol s' = protocol s /\ locked s' = locked s /\
  waiters s' = waiters s /\ creates s' = creates s /\ fails s' = fails s /\ script s' = script s.
Proof.
  revert s; induction l; intros s; simpl; auto 10.
  destruct (IHl (terminate1 c s a)) as (A & B & C & D & E & F & G & H).
  destruct (terminate1_spec c s a) as (A' & B' & C' & D' & E' & F' & G' & H').
  repeat split; congruence.
Qed.

Lemma terminate_spec c s :
  phases (terminate c s) = phases s /\ conns (terminate c s) = conns s /\
  protocol (terminate c s) = protocol s /\ locked (terminate c s) = locked s /\
  waiters (terminate c s) = waiters s /\ creates (terminate c s) = creates s /\
  fails (terminate c s) = fails s /\ script (terminate c s) = script s.
Proof. unfold terminate. apply fold_terminate_spec. Qed.

(* connections only ever get "more dead": lost / closing / delivered are never reset *)
Definition conn_le (x y : conn) : Prop :=
  (lost x = true -> lost y = true) /\ (closing x = true -> closing y = true) /\
  (delivered x = true -> delivered y = true).

Lemma proc_close_spec c s :
  let s' := proc_close c s in
  phases s' = phases s /\ protocol s' = protocol s /\ locked s' = locked s /\ waiters s' = waiters s /\
  creates s' = creates s /\ fails s' = fails s /\ script s' = script s /\
  conns s' = upd c (fun x => n_lost true (n_closing true x)) (conns s).
Proof.
  unfold proc_close. cbv zeta.
  match goal with |- context [terminate c ?t] => destruct (terminate_spec c t) as (A & B & C & D & E & F & G & H) end.
  rewrite A, B, C, D, E, F, G, H. clear.
  destruct (closing (getc s c)) eqn:Ec;
    [|destruct (sched_lost_cases c (updc c (n_closing true) s)) as [X|X]; rewrite X; clear X];
    unf; simpl; repeat split; auto.
  - unfold getc in Ec. revert c Ec. generalize (conns s). induction l; destruct c; simpl; auto; intros.
    + destruct a; simpl in *; subst; auto.
    + f_equal. apply IHl; auto.
  - generalize (conns s) c. induction l; destruct c0; simpl; auto. f_equal; auto.
  - generalize (conns s) c. induction l; destruct c0; simpl; auto. f_equal; auto.
Qed.

Lemma conn_lost_spec c s :
  let s' := conn_lost c s in
  phases s' = phases s /\ protocol s' = protocol s /\ locked s' = locked s /\ waiters s' = waiters s /\
  creates s' = creates s /\ fails s' = fails s /\ script s' = script s /\
  (conns s' = conns s \/ conns s' = upd c (fun x => n_lost true (n_closing true (n_delivered true x))) (conns s)).
Proof.
  unfold conn_lost. cbv zeta.
  destruct (Nat.ltb c (length (conns (deq (ILost c) s)))); [|unf; simpl; auto 10].
  destruct (delivered (getc (deq (ILost c) s) c)); [unf; simpl; auto 10|].
  match goal with |- context [terminate c ?t] => destruct (terminate_spec c t) as (A & B & C & D & E & F & G & H) end.
  rewrite A, B, C, D, E, F, G, H. unf; simpl; auto 10.
Qed.

(* ================================================================================================ *)
(* 3. the lock invariant: at most one caller is inside `async with self._connect_lock`              *)

Definition is_att (p : phase) : bool := match p with PAttempt _ => true | _ => false end.
Definition natt (s : state) : nat := count is_att (phases s).
Definition nonwoken (e : nat * wfut) : Prop := is_wwoken (snd e) = false.
Definition head_woken (l : list (nat * wfut)) : bool :=
  match l with (_, WWoken) :: _ => true | _ => false end.
Definition dph : phase := PEnd (RExn ECancelled).

Lemma count_map {A B} (p : B -> bool) (g : A -> B) l : count p (map g l) = count (fun x => p (g x)) l.
Proof. induction l; auto. simpl map. rewrite !count_cons, IHl. auto. Qed.

Lemma attempting_natt s : attempting s = natt s.
Proof. unfold attempting, natt, phases. rewrite count_map. auto. Qed.

Lemma phases_length s : length (phases s) = length (callers s).
Proof. unfold phases. apply map_length. Qed.

Lemma getk_lt s k : ph (getk s k) <> dph -> k < length (phases s).
Proof.
  intros H. destruct (le_lt_dec (length (phases s)) k); auto. exfalso. apply H.
  rewrite getk_ph. apply nth_overflow. auto.
Qed.

Definition InvLock (s : state) : Prop :=
  Forall nonwoken (tl (waiters s)) /\
  (if locked s then natt s = 1 /\ head_woken (waiters s) = false else natt s = 0).

Lemma natt_set k v s p0 : nth k (phases s) dph = p0 -> p0 <> dph ->
  count is_att (upd k (fun _ => v) (phases s)) + b2n (is_att p0) = natt s + b2n (is_att v).
Proof.
  intros H N. subst p0. unfold natt. apply count_upd.
  destruct (le_lt_dec (length (phases s)) k); auto. exfalso. apply N. apply nth_overflow; auto.
Qed.

Lemma Forall_tl_filter {A} (P : A -> Prop) p (l : list A) : Forall P (tl l) -> Forall P (tl (filter p l)).
Proof.
  intros H. destruct l; simpl; auto. simpl in H.
  assert (F : Forall P (filter p l)).
  { apply Forall_forall. intros x Hx. apply filter_In in Hx. rewrite Forall_forall in H. apply H. tauto. }
  destruct (p a); simpl; auto.
  destruct (filter p l); simpl; auto. inversion F; auto.
Qed.

Lemma all_nonwoken_head l : Forall nonwoken l -> head_woken l = false.
Proof. intros H. destruct l as [|[k f] r]; auto. inversion H; subst. unfold nonwoken in H2. simpl in *. destruct f; auto; discriminate. Qed.

Lemma nonwoken_all l : Forall nonwoken (tl l) -> head_woken l = false -> Forall nonwoken l.
Proof. intros H H0. destruct l as [|[k f] r]. constructor. constructor. unfold nonwoken. simpl in *. destruct f; auto. exact H. Qed.

Lemma Forall_filter {A} (P : A -> Prop) p (l : list A) : Forall P l -> Forall P (filter p l).
Proof. intros H. apply Forall_forall. intros x Hx. apply filter_In in Hx. rewrite Forall_forall in H. apply H. tauto. Qed.

Lemma wremove_cons k j f r :
  wremove k ((j, f) :: r) = if Nat.eqb j k then wremove k r else (j, f) :: wremove k r.
Proof. unfold wremove. simpl. destruct (Nat.eqb j k); auto. Qed.

Lemma wlookup_woken_removed k l : wlookup k l = Some WWoken -> Forall nonwoken (tl l) -> Forall nonwoken (wremove k l).
Proof.
  intros H T. destruct l as [|[j f] r]. discriminate H.
  simpl in H, T. rewrite wremove_cons. destruct (Nat.eqb j k) eqn:E.
  - apply Forall_filter; auto.
  - exfalso. clear - H T. induction r as [|[j' f'] r]; simpl in *; try discriminate.
    inversion T; subst. destruct (Nat.eqb j' k). inversion H; subst. unfold nonwoken in H2. discriminate. auto.
Qed.

Lemma wake_first_waiters s :
  waiters (wake_first s) = match waiters s with (k, WPending) :: r => (k, WWoken) :: r | l => l end.
Proof. unfold wake_first. destruct (waiters s) as [|[k []] r] eqn:E; simpl; auto. Qed.

Lemma wake_first_tl s : tl (waiters (wake_first s)) = tl (waiters s).
Proof. rewrite wake_first_waiters. destruct (waiters s) as [|[k []] r]; auto. Qed.

Lemma phases_wake_first s : phases (wake_first s) = phases s.
Proof. unfold phases. rewrite wake_first_callers. auto. Qed.
Lemma phases_release s : phases (release s) = phases s.
Proof. unfold phases. rewrite release_callers. auto. Qed.
Lemma release_tl s : tl (waiters (release s)) = tl (waiters s).
Proof. unfold release. rewrite wake_first_tl. auto. Qed.

Lemma Forall_tl_app {A} (P : A -> Prop) l x : Forall P (tl l) -> P x -> Forall P (tl (l ++ [x])).
Proof. intros. destruct l; simpl; auto. apply Forall_app; auto. Qed.

Lemma head_woken_app l x : head_woken (l ++ [(x, WPending)]) = head_woken l.
Proof. destruct l as [|[k f] r]; auto. Qed.

Lemma wset_tl k l : Forall nonwoken (tl l) -> Forall nonwoken (tl (wset k WCancelled l)).
Proof.
  intros H. destruct l as [|[j f] r]; simpl in *; auto. destruct (Nat.eqb j k); simpl; auto.
  clear f. induction r as [|[j' f'] r]; simpl; auto. inversion H; subst.
  destruct (Nat.eqb j' k); constructor; auto. reflexivity.
Qed.

Lemma wset_head k l : head_woken l = false -> head_woken (wset k WCancelled l) = false.
Proof. destruct l as [|[j f] r]; simpl; auto. destruct (Nat.eqb j k); simpl; auto. Qed.

(* ---- effect of the post-__connect__ helpers on the parts the invariants talk about *)
Definition quietph (v : phase) : Prop := is_att v = false /\ v <> PWait.

Lemma proceed_spec k c s :
  exists v, phases (proceed k c s) = upd k (fun _ => v) (phases s) /\ quietph v /\
    (v = PEnd (RExn EAttr) \/ v = PGot c false \/ v = PReg c) /\
    locked (proceed k c s) = locked s /\ waiters (proceed k c s) = waiters s /\
    protocol (proceed k c s) = protocol s /\ creates (proceed k c s) = creates s /\
    fails (proceed k c s) = fails s /\ script (proceed k c s) = script s /\
    map conn_live (conns (proceed k c s)) = map conn_live (conns s).
Proof.
  unfold proceed, register. cbv zeta.
  destruct (closing (getc s c)); [|destruct (paused (getc s c))];
    eexists; (split; [unfold endc; rewrite phases_setph; reflexivity|]); unfold quietph; unf; simpl;
    repeat split; auto; try discriminate; try (apply map_upd; intros []; auto).
Qed.

Lemma ret_spec k s :
  exists v, phases (ret k s) = upd k (fun _ => v) (phases s) /\ quietph v /\
    locked (ret k s) = locked s /\ waiters (ret k s) = waiters s /\
    protocol (ret k s) = protocol s /\ creates (ret k s) = creates s /\
    fails (ret k s) = fails s /\ script (ret k s) = script s /\
    map conn_live (conns (ret k s)) = map conn_live (conns s) /\
    (v = PEnd (RExn EAttr) \/ exists c, protocol s = Some c /\ (v = PGot c false \/ v = PReg c)).
Proof.
  unfold ret. destruct (protocol s) eqn:E.
  - destruct (proceed_spec k n s) as (v & A & B & C' & C). exists v. rewrite E in C.
    destruct C as (C1 & C2 & C3 & C4 & C5 & C6 & C7).
    split; [exact A|]. split; [exact B|]. do 7 (split; [assumption|]).
    destruct C' as [C'|C']; auto. right. exists n. auto.
  - exists (PEnd (RExn EAttr)). split. apply phases_setph. unfold quietph. unf; simpl. rewrite E.
    do 8 (split; [first [reflexivity | split; [reflexivity | discriminate]]|]). left; reflexivity.
Qed.

Definition woken_first (l : list (nat * wfut)) : list (nat * wfut) :=
  match l with (k, WPending) :: r => (k, WWoken) :: r | l => l end.

Lemma release_waiters s : waiters (release s) = woken_first (waiters s).
Proof. unfold release. rewrite wake_first_waiters. simpl. unfold woken_first. destruct (waiters s) as [|[k []] r]; reflexivity. Qed.
Lemma wake_first_waiters' s : waiters (wake_first s) = woken_first (waiters s).
Proof. rewrite wake_first_waiters. unfold woken_first. destruct (waiters s) as [|[k []] r]; reflexivity. Qed.
Lemma woken_first_tl l : tl (woken_first l) = tl l.
Proof. destruct l as [|[k []] r]; auto. Qed.

Lemma lives_release s : map conn_live (conns (release s)) = map conn_live (conns s).
Proof. rewrite release_conns. auto. Qed.

Lemma finish_ok_spec k c s :
  exists v, phases (finish_ok k c s) = upd k (fun _ => v) (phases s) /\ quietph v /\
    (v = PEnd (RExn EAttr) \/ v = PGot c false \/ v = PReg c) /\
    locked (finish_ok k c s) = false /\ waiters (finish_ok k c s) = woken_first (waiters s) /\
    protocol (finish_ok k c s) = Some c /\ creates (finish_ok k c s) = creates s /\
    fails (finish_ok k c s) = fails s /\ script (finish_ok k c s) = script s /\
    map conn_live (conns (finish_ok k c s)) = map conn_live (conns s).
Proof.
  unfold finish_ok, ret. rewrite release_protocol. simpl protocol.
  match goal with |- context [proceed k c ?t] => destruct (proceed_spec k c t) as (v & A & B & C & D & E & F & G & H & I & J) end.
  exists v. rewrite A, D, E, F, G, H, I, J.
  rewrite phases_release, release_locked, release_waiters, release_protocol, release_creates, release_fails,
    release_script, release_conns. simpl. tauto.
Qed.

Lemma finish_fail_spec k s :
  phases (finish_fail k s) = upd k (fun _ => PEnd (RExn EOSError)) (phases s) /\
  locked (finish_fail k s) = false /\ waiters (finish_fail k s) = woken_first (waiters s) /\
  protocol (finish_fail k s) = protocol s /\ creates (finish_fail k s) = creates s /\
  fails (finish_fail k s) = fails s /\ script (finish_fail k s) = script s /\
  conns (finish_fail k s) = conns s.
Proof.
  unfold finish_fail, endc. rewrite phases_setph. unf. simpl.
  rewrite phases_release, release_locked, release_waiters, release_protocol, release_creates, release_fails,
    release_script, release_conns. simpl. tauto.
Qed.

Lemma ret_release_spec k s :
  exists v, phases (ret k (release s)) = upd k (fun _ => v) (phases s) /\ quietph v /\
    (v = PEnd (RExn EAttr) \/ exists c, protocol s = Some c /\ (v = PGot c false \/ v = PReg c)) /\
    locked (ret k (release s)) = false /\ waiters (ret k (release s)) = woken_first (waiters s) /\
    protocol (ret k (release s)) = protocol s /\ creates (ret k (release s)) = creates s /\
    fails (ret k (release s)) = fails s /\ script (ret k (release s)) = script s /\
    map conn_live (conns (ret k (release s))) = map conn_live (conns s).
Proof.
  unfold ret. rewrite release_protocol. destruct (protocol s) eqn:E.
  - match goal with |- context [proceed k n ?t] => destruct (proceed_spec k n t) as (v & A & B & C & D & E' & F & G & H & I & J) end.
    exists v. rewrite A, D, E', F, G, H, I, J.
    rewrite phases_release, release_locked, release_waiters, release_protocol, release_creates, release_fails,
      release_script, release_conns. rewrite E.
    split; [reflexivity|]. split; [exact B|]. split; [destruct C as [C|C]; auto; right; exists n; auto|].
    repeat split; auto.
  - exists (PEnd (RExn EAttr)). unfold endc. rewrite phases_setph. unf. simpl.
    rewrite phases_release, release_locked, release_waiters, release_protocol, release_creates, release_fails,
      release_script, release_conns. unfold quietph. repeat split; auto; try discriminate.
Qed.

(* ---- generic ways of (re-)establishing InvLock *)
Lemma lock_exit s s' k v :
  Forall nonwoken (tl (waiters s)) -> nth k (phases s) dph <> dph ->
  natt s = b2n (is_att (nth k (phases s) dph)) ->
  phases s' = upd k (fun _ => v) (phases s) -> is_att v = false ->
  locked s' = false -> tl (waiters s') = tl (waiters s) -> InvLock s'.
Proof.
  intros T N A P V L W. split. rewrite W; auto. rewrite L.
  pose proof (natt_set k v s _ eq_refl N) as Q. unfold natt at 1. rewrite P. rewrite V in Q. simpl in Q. lia.
Qed.

Lemma lock_keep s s' k v :
  InvLock s -> is_att v = is_att (nth k (phases s) dph) ->
  phases s' = upd k (fun _ => v) (phases s) -> locked s' = locked s -> waiters s' = waiters s -> InvLock s'.
Proof.
  intros [T I] V P L W. unfold InvLock. rewrite L, W. split; auto.
  assert (natt s' = natt s).
  { unfold natt. rewrite P. destruct (le_lt_dec (length (phases s)) k).
    - rewrite upd_oob; auto.
    - pose proof (count_upd is_att k (fun _ => v) (phases s) dph l). cbv beta in H. rewrite V in H. lia. }
  rewrite H. auto.
Qed.

Lemma lock_keep' s s' k v :
  phases s' = upd k (fun _ => v) (phases s) -> InvLock s -> is_att v = is_att (nth k (phases s) dph) ->
  locked s' = locked s -> waiters s' = waiters s -> InvLock s'.
Proof. intros. eapply lock_keep; eauto. Qed.

Ltac keep_end G := eapply lock_keep'; [unfold endc, register; rewrite phases_setph; reflexivity | eassumption
  | first [rewrite <- G; reflexivity | unfold phases in *; unf; simpl; rewrite <- G; reflexivity]
  | reflexivity | reflexivity].

Lemma lock_same s s' :
  InvLock s -> phases s' = phases s -> locked s' = locked s -> waiters s' = waiters s -> InvLock s'.
Proof. intros [T I] P L W. unfold InvLock, natt. rewrite L, W, P. auto. Qed.

Lemma lock_acquire s s' k v :
  Forall nonwoken (waiters s') -> nth k (phases s) dph <> dph -> is_att (nth k (phases s) dph) = false ->
  natt s = 0 -> phases s' = upd k (fun _ => v) (phases s) -> is_att v = true -> locked s' = true -> InvLock s'.
Proof.
  intros T N A0 A P V L. split. destruct (waiters s'); simpl; auto. inversion T; auto.
  rewrite L. split. 2: apply all_nonwoken_head; auto.
  pose proof (natt_set k v s _ eq_refl N) as Q. unfold natt at 1. rewrite P. rewrite V, A0 in Q. simpl in Q. lia.
Qed.

(* body of the lock, entered with every waiter non-woken and nobody attempting *)
Lemma locked_section_lock k s :
  Forall nonwoken (waiters s) -> nth k (phases s) dph <> dph -> is_att (nth k (phases s) dph) = false ->
  natt s = 0 -> locked s = true -> InvLock (locked_section k s).
Proof.
  intros T N A0 A L. unfold locked_section. cbv zeta.
  assert (T' : Forall nonwoken (tl (waiters s))) by (destruct (waiters s); simpl; auto; inversion T; auto).
  destruct (negb (connected (set_chst Connecting s))).
  - unfold attempt. destruct (hd (OOk, false) (script (set_chst Connecting s))) as [o inl]. cbv zeta.
    destruct inl.
    + destruct o.
      * unfold new_conn. match goal with |- InvLock (finish_ok k ?c ?t) =>
          destruct (finish_ok_spec k c t) as (v & P & [V _] & _ & Lk & W & _) end.
        eapply lock_exit with (s := s); eauto. rewrite A0; auto. rewrite W. apply woken_first_tl.
      * match goal with |- InvLock (finish_fail k ?t) =>
          destruct (finish_fail_spec k t) as (P & Lk & W & _) end.
        eapply lock_exit with (s := s); eauto. rewrite A0; auto. rewrite W. apply woken_first_tl.
    + eapply lock_acquire with (s := s); eauto. rewrite phases_setph. reflexivity. reflexivity.
  - match goal with |- InvLock (ret k (release ?t)) =>
      destruct (ret_release_spec k t) as (v & P & [V _] & _ & Lk & W & _) end.
    eapply lock_exit with (s := s); eauto. rewrite A0; auto. rewrite W. apply woken_first_tl.
Qed.

Lemma natt_pos s k : is_att (nth k (phases s) dph) = true -> 1 <= natt s.
Proof.
  intros H. unfold natt. apply count_pos with (d := dph) (n := k); auto.
  destruct (le_lt_dec (length (phases s)) k); auto. rewrite nth_overflow in H; auto. discriminate.
Qed.

Lemma lock_att_is_locked s k : InvLock s -> is_att (nth k (phases s) dph) = true -> locked s = true /\ natt s = 1.
Proof.
  intros [T I] H. pose proof (natt_pos s k H). destruct (locked s). tauto. lia.
Qed.

Lemma forallb_cancelled_nonwoken l : forallb (fun e => is_wcancelled (snd e)) l = true -> Forall nonwoken l.
Proof.
  intros H. apply Forall_forall. intros [k f] Hx. rewrite forallb_forall in H. specialize (H _ Hx).
  unfold nonwoken. simpl in *. destruct f; auto; discriminate.
Qed.

Lemma wlookup_in k l f : wlookup k l = Some f -> In (k, f) l.
Proof.
  induction l as [|[j g] r]; simpl; try discriminate. destruct (Nat.eqb j k) eqn:E.
  - intros H. inversion H; subst. apply Nat.eqb_eq in E. subst. auto.
  - auto.
Qed.

Lemma phase_neq_dph p : p = PNew \/ p = PWait \/ (exists a, p = PAttempt a) \/ (exists c w, p = PGot c w) \/
  (exists c, p = PReg c) -> p <> dph.
Proof. intros [H|[H|[[a H]|[[c [w H]]|[c H]]]]]; subst; discriminate. Qed.

Lemma run_caller_lock s k : InvLock s -> InvLock (run_caller k s).
Proof.
  intros I. assert (I0 : InvLock (deq (IRun k) s)) by (eapply lock_same; eauto).
  unfold run_caller. cbv zeta. remember (deq (IRun k) s) as s0. clear Heqs0 I s.
  pose proof (getk_ph s0 k) as G. fold dph in G.
  destruct (ph (getk s0 k)) eqn:E.
  - (* PNew *)
    assert (N : nth k (phases s0) dph <> dph) by (rewrite <- G; discriminate).
    destruct (cancelp (getk s0 k)).
    + keep_end G.
    + unfold enter. destruct (connected s0).
      * destruct (ret_spec k s0) as (v & P & [V _] & L & W & _).
        eapply lock_keep'; eauto. rewrite <- G. auto.
      * destruct (lock_free s0) eqn:LF.
        -- unfold lock_free in LF. apply andb_prop in LF. destruct LF as [L F].
           apply negb_true_iff in L. apply forallb_cancelled_nonwoken in F.
           destruct I0 as [_ I0]. rewrite L in I0.
           apply locked_section_lock; [exact F | exact N | | exact I0 | reflexivity].
           change (phases (set_locked true s0)) with (phases s0). rewrite <- G; auto.
        -- destruct I0 as [T I0]. split; simpl.
           ++ apply Forall_tl_app; auto. reflexivity.
           ++ rewrite head_woken_app.
              assert (natt (setph k PWait (set_waiters (waiters s0 ++ [(k, WPending)]) s0)) = natt s0).
              { unfold natt. rewrite phases_setph. simpl.
                pose proof (natt_set k PWait s0 _ eq_refl N). rewrite <- G in H. simpl in H. unfold natt in *.
                change (phases (set_waiters (waiters s0 ++ [(k, WPending)]) s0)) with (phases s0). lia. }
              rewrite H. auto.
  - (* PWait *)
    assert (N : nth k (phases s0) dph <> dph) by (rewrite <- G; discriminate).
    destruct (wlookup k (waiters s0)) eqn:WL; auto.
    destruct I0 as [T I0].
    destruct (cancelp (getk s0 k)).
    + (* cancelled while waiting *)
      set (s1 := set_waiters (wremove k (waiters s0)) s0).
      assert (T1 : Forall nonwoken (tl (waiters s1))) by (apply Forall_tl_filter; auto).
      assert (P1 : phases s1 = phases s0) by reflexivity.
      destruct (locked s1) eqn:L1.
      * assert (I1 : InvLock s1).
        { split; auto. rewrite L1. change (locked s1) with (locked s0) in L1. rewrite L1 in I0.
          unfold natt. rewrite P1. split. tauto. apply all_nonwoken_head. simpl.
          apply Forall_filter. apply nonwoken_all; tauto. }
        eapply lock_keep'; [unfold endc; rewrite phases_setph; reflexivity | eassumption | rewrite P1, <- G; reflexivity | reflexivity | reflexivity].
      * assert (I1 : InvLock (wake_first s1)).
        { split. rewrite wake_first_tl; auto. rewrite wake_first_locked, L1. unfold natt.
          rewrite phases_wake_first, P1. change (locked s1) with (locked s0) in L1. rewrite L1 in I0. auto. }
        eapply lock_keep'; [unfold endc; rewrite phases_setph; reflexivity | eassumption | rewrite phases_wake_first, P1, <- G; reflexivity | reflexivity | reflexivity].
    + destruct (is_wwoken w) eqn:WW; [|split; auto].
      destruct w; try discriminate.
      (* the woken head takes the lock *)
      assert (L0 : locked s0 = false).
      { destruct (locked s0); auto. destruct I0 as [_ HW].
        pose proof (nonwoken_all _ T HW) as AllN. rewrite Forall_forall in AllN.
        specialize (AllN _ (wlookup_in _ _ _ WL)). discriminate AllN. }
      rewrite L0 in I0.
      apply locked_section_lock; [ | exact N | | exact I0 | reflexivity].
      * apply wlookup_woken_removed; auto.
      * change (phases (set_locked true (set_waiters (wremove k (waiters s0)) s0))) with (phases s0).
        rewrite <- G; auto.
  - (* PAttempt *)
    assert (N : nth k (phases s0) dph <> dph) by (rewrite <- G; discriminate).
    assert (AT : is_att (nth k (phases s0) dph) = true) by (rewrite <- G; auto).
    destruct (lock_att_is_locked s0 k I0 AT) as [L A1]. pose proof I0 as I0'. destruct I0 as [T I0].
    destruct (cancelp (getk s0 k)).
    + match goal with |- InvLock (endc k _ (release ?t)) => set (s1 := t) end.
      assert (P1 : phases s1 = phases s0 /\ waiters s1 = waiters s0).
      { unfold s1. destruct a as [o|c| |]; auto. destruct (closing (getc s0 c)); auto.
        destruct (sched_lost_cases c (updc c (n_closing true) s0)) as [X|X]; rewrite X; auto. }
      destruct P1 as [P1 W1].
      eapply lock_exit with (s := s0) (k := k); eauto.
      * rewrite AT. auto.
      * unfold endc. rewrite phases_setph, phases_release, P1. reflexivity.
      * reflexivity.
      * unfold endc, setph, updk. simpl. apply release_locked.
      * unfold endc, setph, updk. simpl. rewrite release_tl, W1. auto.
    + destruct a as [o|c| |]; try exact I0'.
      * destruct (finish_ok_spec k c s0) as (v & P & [V _] & _ & Lk & W & _).
        eapply lock_exit with (s := s0); eauto. rewrite AT; auto. rewrite W. apply woken_first_tl.
      * destruct (finish_fail_spec k s0) as (P & Lk & W & _).
        eapply lock_exit with (s := s0); eauto. rewrite AT; auto. rewrite W. apply woken_first_tl.
  - (* PGot *)
    destruct (cancelp (getk s0 k)).
    + keep_end G.
    + destruct woken; auto. cbv zeta.
      match goal with |- context [goaway ?t] => destruct (goaway t) end.
      * keep_end G.
      * match goal with |- context [closing ?t] => destruct (closing t) end.
        -- keep_end G.
        -- keep_end G.
  - (* PReg *)
    destruct (term (getk s0 k)); [|destruct (cancelp (getk s0 k)); [|destruct (answered (getk s0 k)); auto]];
      keep_end G.
  - auto.
Qed.

Definition att_sig (s : state) : list bool := map is_att (phases s).
Lemma natt_sig s : natt s = count (fun b => b) (att_sig s).
Proof. unfold natt, att_sig. rewrite count_map. auto. Qed.

Lemma lock_same_sig s s' :
  InvLock s -> att_sig s' = att_sig s -> locked s' = locked s -> waiters s' = waiters s -> InvLock s'.
Proof. intros [T I] P L W. unfold InvLock. rewrite L, W. rewrite natt_sig in *. rewrite P. auto. Qed.

Lemma map_is_att_upd k v l : is_att v = is_att (nth k l dph) ->
  map is_att (upd k (fun _ => v) l) = map is_att l.
Proof.
  revert k. induction l; destruct k; simpl; intros; auto. rewrite H; auto. rewrite IHl; auto.
Qed.

Lemma att_sig_setph k v s : is_att v = is_att (nth k (phases s) dph) -> att_sig (setph k v s) = att_sig s.
Proof.
  intros H. unfold att_sig. rewrite phases_setph. generalize dependent k. generalize (phases s).
  induction l; destruct k; simpl; intros; auto. rewrite H; auto. rewrite IHl; auto.
Qed.

Lemma att_sig_mark k f s : att_sig (mark k f s) = att_sig (f s).
Proof. unfold att_sig, phases. rewrite mark_callers. auto. Qed.

Lemma phases_mark k f s : phases (mark k f s) = phases (f s).
Proof. unfold phases. rewrite mark_callers. auto. Qed.

Definition resume1 (c : nat) (s : state) (k : nat) : state :=
  match ph (getk s k) with
  | PGot c' false => if Nat.eqb c' c then mark k (setph k (PGot c true)) s else s
  | _ => s
  end.

Definition resume_rel (s s1 : state) : Prop :=
  att_sig s1 = att_sig s /\ locked s1 = locked s /\ waiters s1 = waiters s /\ protocol s1 = protocol s /\
  conns s1 = conns s /\ creates s1 = creates s /\ fails s1 = fails s /\ script s1 = script s /\
  (forall j, nth j (phases s1) dph = nth j (phases s) dph \/
     (exists c', nth j (phases s) dph = PGot c' false /\ nth j (phases s1) dph = PGot c' true)).

Lemma resume_rel_refl s : resume_rel s s.
Proof. unfold resume_rel. repeat split; auto. Qed.

Lemma resume_rel_trans s s1 s2 : resume_rel s s1 -> resume_rel s1 s2 -> resume_rel s s2.
Proof.
  intros (A & B & C & D & E & F & G & H & J) (A' & B' & C' & D' & E' & F' & G' & H' & J').
  unfold resume_rel. repeat split; try congruence.
  intros j. destruct (J j) as [J1|[c1 [J1 J2]]]; destruct (J' j) as [J3|[c2 [J3 J4]]].
  - left; congruence.
  - right. exists c2. split; congruence.
  - right. exists c1. split; congruence.
  - rewrite J2 in J3. discriminate.
Qed.

Lemma resume1_spec c s a : resume_rel s (resume1 c s a).
Proof.
  unfold resume1. pose proof (getk_ph s a) as Ga. fold dph in Ga.
  destruct (ph (getk s a)) eqn:Ea; try apply resume_rel_refl.
  destruct woken; try apply resume_rel_refl.
  destruct (Nat.eqb c0 c) eqn:Ec; try apply resume_rel_refl.
  unfold resume_rel.
  rewrite att_sig_mark, mark_locked, mark_waiters, mark_protocol, mark_conns, mark_creates, mark_fails, mark_script.
  split. apply att_sig_setph. rewrite <- Ga. auto.
  repeat split; auto.
  intros j. rewrite phases_mark, phases_setph, nth_upd.
  destruct (Nat.eqb a j && Nat.ltb j (length (phases s))) eqn:Ej; auto.
  right. apply andb_prop in Ej. destruct Ej as [Ej _]. apply Nat.eqb_eq in Ej. subst j.
  apply Nat.eqb_eq in Ec. subst c0. exists c. split; [symmetry; exact Ga | reflexivity].
Qed.

Lemma resume_fold_spec c l s : resume_rel s (fold_left (resume1 c) l s).
Proof.
  revert s; induction l; intros s; simpl. apply resume_rel_refl.
  eapply resume_rel_trans. apply resume1_spec. apply IHl.
Qed.

Lemma att_sig_updk_flag k f s : (forall x, ph (f x) = ph x) -> att_sig (updk k f s) = att_sig s.
Proof. intros H. unfold att_sig, phases. unf. simpl. f_equal. apply map_upd. auto. Qed.

Lemma phases_updk_flag k f s : (forall x, ph (f x) = ph x) -> phases (updk k f s) = phases s.
Proof. intros H. unfold phases. unf. simpl. apply map_upd. auto. Qed.

Lemma cancel_caller_lock s k : InvLock s -> InvLock (cancel_caller k s).
Proof.
  intros I. unfold cancel_caller. cbv zeta. destruct (cancelp (getk s k)); auto.
  pose proof (getk_ph s k) as G. fold dph in G.
  destruct (ph (getk s k)) eqn:E; auto.
  - eapply lock_same; eauto. apply phases_updk_flag. auto.
  - destruct (wlookup k (waiters s)) as [[]|] eqn:WL; auto.
    + destruct I as [T I]. split; simpl. apply wset_tl; auto.
      change (natt (enq (IRun k) (updk k (c_cancelp true) (set_waiters (wset k WCancelled (waiters s)) s))))
        with (count is_att (phases (updk k (c_cancelp true) s))).
      rewrite phases_updk_flag; auto. fold (natt s).
      destruct (locked s); auto. split. tauto. apply wset_head. tauto.
    + eapply lock_same; eauto. apply phases_updk_flag. auto.
  - destruct a; auto.
    + eapply lock_same_sig; eauto.
      change (att_sig (enq (IRun k) (updk k (fun y => c_cancelp true (c_ph (PAttempt AAbort) y)) s)))
        with (map is_att (map ph (upd k (fun y => c_cancelp true (c_ph (PAttempt AAbort) y)) (callers s)))).
      rewrite map_upd_to with (v := PAttempt AAbort); auto. unfold att_sig. fold (phases s).
      apply map_is_att_upd. rewrite <- G; auto.
    + eapply lock_same; eauto. apply phases_updk_flag. auto.
    + eapply lock_same; eauto. apply phases_updk_flag. auto.
  - eapply lock_same_sig; eauto; try (rewrite ?mark_locked, ?mark_waiters; reflexivity).
    rewrite att_sig_mark. apply att_sig_updk_flag. auto.
  - eapply lock_same_sig; eauto; try (rewrite ?mark_locked, ?mark_waiters; reflexivity).
    rewrite att_sig_mark. apply att_sig_updk_flag. auto.
Qed.

Lemma step_lock s o : InvLock s -> InvLock (step s o).
Proof.
  intros I. destruct o; simpl.
  - (* Start *)
    destruct I as [T I]. split; auto. simpl.
    assert (natt (enq (IRun (length (callers s))) (set_callers (callers s ++ [new_caller]) s)) = natt s).
    { unfold natt, phases. simpl. rewrite map_app, count_app. simpl. unfold count at 2. simpl. lia. }
    rewrite H. auto.
  - apply run_caller_lock; auto.
  - (* Resolve *)
    pose proof (getk_ph s k) as G. fold dph in G.
    destruct (ph (getk s k)) eqn:E; auto. destruct a; auto. destruct o.
    + eapply lock_same_sig; eauto. unfold new_conn.
      change (att_sig (enq (IRun k) (setph k (PAttempt (AOk (length (conns s)))) (set_conns (conns s ++ [fresh_conn]) s))))
        with (att_sig (setph k (PAttempt (AOk (length (conns s)))) s)).
      apply att_sig_setph. rewrite <- G. auto.
    + eapply lock_same_sig; eauto.
      change (att_sig (enq (IRun k) (setph k (PAttempt AFail) (set_fails (fails s ++ [k]) s))))
        with (att_sig (setph k (PAttempt AFail) s)).
      apply att_sig_setph. rewrite <- G. auto.
  - apply cancel_caller_lock; auto.
  - destruct (conn_lost_spec c s) as (A & B & C & D & _). eapply lock_same; eauto.
  - destruct (valid_open s c); auto.
    match goal with |- InvLock (proc_close c ?t) => destruct (proc_close_spec c t) as (A & B & C & D & _) end.
    eapply lock_same; eauto.
  - destruct (valid_open s c); auto.
    destruct (sched_lost_cases c (updc c (n_closing true) s)) as [X|X]; rewrite X; auto.
  - destruct (protocol s); [|eapply lock_same; eauto].
    destruct (proc_close_spec n s) as (A & B & C & D & _). eapply lock_same; eauto.
  - destruct (valid_open s c); auto.
  - destruct (valid_open s c && paused (getc s c)); auto.
    fold (resume1 c). match goal with |- InvLock (fold_left _ ?l ?t) => destruct (resume_fold_spec c l t) as (A & B & C & _) end.
    fold (resume1 c).
    eapply lock_same_sig; eauto.
  - destruct (ph (getk s k)); auto. destruct (valid_open s c && negb (answered (getk s k))); auto.
    eapply lock_same_sig; eauto; try (rewrite ?mark_locked, ?mark_waiters; reflexivity).
    rewrite att_sig_mark. apply att_sig_updk_flag. auto.
  - exact I.
Qed.

Lemma init_lock sc : InvLock (init sc).
Proof. split; simpl; auto. Qed.

Lemma run_lock ops s : InvLock s -> InvLock (run ops s).
Proof. revert s; induction ops; simpl; auto. intros. apply IHops. apply step_lock; auto. Qed.

(* ---- (T1) never more than one connection attempt in progress ---------------------------------- *)
Lemma one_attempt sc ops :
  attempting (run ops (init sc)) <= 1 /\ attempts_in_flight (run ops (init sc)) <= 1.
Proof.
  pose proof (run_lock ops _ (init_lock sc)) as [_ I]. set (s := run ops (init sc)) in *.
  assert (attempting s <= 1). { rewrite attempting_natt. destruct (locked s); lia. }
  split; auto. unfold attempts_in_flight. unfold attempting in H.
  eapply Nat.le_trans; [|exact H]. apply count_le. intros x. unfold is_inflight, is_attempting.
  destruct (ph x); auto.
Qed.

(* the lock is held exactly while somebody is attempting *)
Lemma lock_iff_attempting sc ops :
  let s := run ops (init sc) in locked s = true <-> attempting s = 1.
Proof.
  pose proof (run_lock ops _ (init_lock sc)) as [_ I]. intros s. fold s in I. rewrite attempting_natt.
  destruct (locked s); split; intros; try tauto; try lia; try discriminate.
Qed.

(* ================================================================================================ *)
(* 4. at most one live connection                                                                   *)

Definition lives (s : state) : list bool := map conn_live (conns s).
Definition live_at (s : state) (c : nat) : Prop := nth c (lives s) false = true.
Definition aok (s : state) (k c : nat) : Prop := nth k (phases s) dph = PAttempt (AOk c).

Lemma live_getc s c : conn_live (getc s c) = nth c (lives s) false.
Proof. unfold getc, lives. change false with (conn_live dead_conn). rewrite map_nth. auto. Qed.

Lemma connected_lives s : connected s = match protocol s with Some c => nth c (lives s) false | None => false end.
Proof. unfold connected. destruct (protocol s); auto. apply live_getc. Qed.

Lemma lives_length s : length (lives s) = length (conns s).
Proof. apply map_length. Qed.

Lemma live_at_lt s c : live_at s c -> c < length (conns s).
Proof.
  unfold live_at. intros H. rewrite <- lives_length. destruct (le_lt_dec (length (lives s)) c); auto.
  rewrite nth_overflow in H; auto. discriminate.
Qed.

Definition InvLive (s : state) : Prop :=
  (forall c, live_at s c -> protocol s = Some c \/ exists k, aok s k c) /\
  (1 <= natt s -> connected s = false) /\
  (forall c, protocol s = Some c -> c < length (conns s)) /\
  (forall k c, aok s k c -> c < length (conns s)).

Lemma live_mono s s' :
  InvLive s -> protocol s' = protocol s -> length (conns s') = length (conns s) ->
  (forall c, live_at s' c -> live_at s c) -> (forall k c, aok s' k c <-> aok s k c) ->
  (1 <= natt s' -> 1 <= natt s) -> InvLive s'.
Proof.
  intros (A & B & C & D) P L M K N. unfold InvLive. rewrite P, L. repeat split.
  - intros c H. destruct (A c (M c H)) as [H1|[k H1]]; auto. right. exists k. apply K; auto.
  - intros H. specialize (B (N H)). rewrite connected_lives in *. rewrite P.
    destruct (protocol s); auto. destruct (nth n (lives s') false) eqn:E; auto.
    apply M in E. unfold live_at in E. congruence.
  - auto.
  - intros k c H. apply K in H. eauto.
Qed.

Lemma lives_upd_mono c f l c' : (forall x, conn_live (f x) = true -> conn_live x = true) ->
  nth c' (map conn_live (upd c f l)) false = true -> nth c' (map conn_live l) false = true.
Proof.
  intros H. revert c c'. induction l; intros c c'; destruct c, c'; simpl; auto. apply IHl.
Qed.

Lemma aok_same s s' : phases s' = phases s -> forall k c, aok s' k c <-> aok s k c.
Proof. intros H k c. unfold aok. rewrite H. tauto. Qed.

Lemma natt_same s s' : att_sig s' = att_sig s -> natt s' = natt s.
Proof. intros. rewrite !natt_sig. congruence. Qed.

Lemma att_sig_phases s s' : phases s' = phases s -> att_sig s' = att_sig s.
Proof. unfold att_sig. congruence. Qed.

(* a quiet update of caller k's phase (k is not in PAttempt (AOk _) before) *)
Lemma aok_upd s s' k v : phases s' = upd k (fun _ => v) (phases s) -> is_att v = false ->
  (forall c, ~ aok s k c) -> forall j c, aok s' j c <-> aok s j c.
Proof.
  intros P V N j c. unfold aok. rewrite P, nth_upd.
  destruct (Nat.eqb k j && Nat.ltb j (length (phases s))) eqn:E; try tauto.
  apply andb_prop in E. destruct E as [E _]. apply Nat.eqb_eq in E. subst j. split; intros H.
  - subst v. discriminate.
  - exfalso. eapply N; eauto.
Qed.

Lemma natt_upd_le s s' k v : phases s' = upd k (fun _ => v) (phases s) -> is_att v = false -> natt s' <= natt s.
Proof.
  intros P V. unfold natt. rewrite P. destruct (le_lt_dec (length (phases s)) k).
  - rewrite upd_oob; auto.
  - pose proof (count_upd is_att k (fun _ => v) (phases s) dph l). cbv beta in H. rewrite V in H. simpl in H. lia.
Qed.

Lemma live_quiet s s' k v :
  InvLive s -> phases s' = upd k (fun _ => v) (phases s) -> is_att v = false -> (forall c, ~ aok s k c) ->
  protocol s' = protocol s -> lives s' = lives s -> InvLive s'.
Proof.
  intros I P V N Pr Lv. eapply live_mono; eauto.
  - rewrite <- !lives_length. congruence.
  - unfold live_at. rewrite Lv. auto.
  - eapply aok_upd; eauto.
  - pose proof (natt_upd_le _ _ _ _ P V). lia.
Qed.

Lemma att_unique s k1 k2 : natt s <= 1 -> is_att (nth k1 (phases s) dph) = true ->
  is_att (nth k2 (phases s) dph) = true -> k1 = k2.
Proof.
  intros N A1 A2. destruct (Nat.eq_dec k1 k2); auto. exfalso.
  assert (k1 < length (phases s)).
  { destruct (le_lt_dec (length (phases s)) k1); auto. rewrite nth_overflow in A1; auto. discriminate. }
  assert (k2 < length (phases s)).
  { destruct (le_lt_dec (length (phases s)) k2); auto. rewrite nth_overflow in A2; auto. discriminate. }
  pose proof (count_two is_att (phases s) dph k1 k2 H H0 n A1 A2). unfold natt in N. lia.
Qed.

Lemma invlock_natt_le s : InvLock s -> natt s <= 1.
Proof. intros [_ I]. destruct (locked s); lia. Qed.

Lemma lives_app s x : lives (set_conns (conns s ++ [x]) s) = lives s ++ [conn_live x].
Proof. unfold lives. simpl. rewrite map_app. auto. Qed.

(* no connection is live when nobody attempts and the channel is not connected *)
Lemma no_live s c : InvLive s -> natt s = 0 -> connected s = false -> ~ live_at s c.
Proof.
  intros (A & _) N C H. destruct (A c H) as [P|[k K]].
  - rewrite connected_lives, P in C. unfold live_at in H. congruence.
  - assert (1 <= natt s) by (apply natt_pos with (k := k); unfold aok in K; rewrite K; auto). lia.
Qed.

Lemma aok_upd' s s' k v : phases s' = upd k (fun _ => v) (phases s) -> (forall c, v <> PAttempt (AOk c)) ->
  (forall c, ~ aok s k c) -> forall j c, aok s' j c <-> aok s j c.
Proof.
  intros P V N j c. unfold aok. rewrite P, nth_upd.
  destruct (Nat.eqb k j && Nat.ltb j (length (phases s))) eqn:E; try tauto.
  apply andb_prop in E. destruct E as [E _]. apply Nat.eqb_eq in E. subst j. split; intros H.
  - exfalso. eapply V; eauto.
  - exfalso. eapply N; eauto.
Qed.

Lemma natt0_no_aok s k c : natt s = 0 -> ~ aok s k c.
Proof. intros N H. assert (1 <= natt s) by (apply natt_pos with (k := k); unfold aok in H; rewrite H; auto). lia. Qed.

Lemma live_after_attempt s s' k v p' :
  InvLive s -> natt s = 1 -> is_att (nth k (phases s) dph) = true ->
  phases s' = upd k (fun _ => v) (phases s) -> is_att v = false ->
  length (conns s') = length (conns s) -> (forall c, live_at s' c -> live_at s c) -> protocol s' = p' ->
  (forall c, aok s k c -> p' = Some c \/ ~ live_at s' c) ->
  (p' = protocol s \/ exists c, aok s k c /\ p' = Some c) -> InvLive s'.
Proof.
  intros (A & B & C & D) N AT P V L M Pr J1 J2.
  assert (K0 : nth k (phases s) dph <> dph) by (intros X; rewrite X in AT; discriminate).
  assert (N' : natt s' = 0).
  { pose proof (natt_set k v s _ eq_refl K0). unfold natt at 1. rewrite P. rewrite AT, V in H. simpl in H. lia. }
  assert (Cn : connected s = false) by (apply B; lia).
  unfold InvLive. rewrite Pr, L. repeat split.
  - intros c H. specialize (M c H). destruct (A c M) as [H1|[k' H1]].
    + exfalso. rewrite connected_lives, H1 in Cn. unfold live_at in M. congruence.
    + assert (k' = k). { apply att_unique with (s := s); try lia; auto. unfold aok in H1. rewrite H1. auto. }
      subst k'. destruct (J1 c H1); auto. contradiction.
  - intros. lia.
  - intros c H. destruct J2 as [J2|[c' [J2 J3]]].
    + apply C. congruence.
    + rewrite J3 in H. inversion H; subst. eauto.
  - intros j c H. unfold aok in H. rewrite P, nth_upd in H.
    destruct (Nat.eqb k j && Nat.ltb j (length (phases s))) eqn:E.
    + subst v. discriminate.
    + eapply D. exact H.
Qed.

Lemma lives_updc_same c f s : (forall x, conn_live (f x) = conn_live x) -> lives (updc c f s) = lives s.
Proof. intros. unfold lives. unf. simpl. apply map_upd. auto. Qed.

Lemma lives_endc k r s : lives (endc k r s) = lives s.
Proof. reflexivity. Qed.
Lemma lives_setph k v s : lives (setph k v s) = lives s.
Proof. reflexivity. Qed.

Lemma locked_section_live k s :
  InvLive s -> natt s = 0 -> InvLive (locked_section k s).
Proof.
  intros I N. unfold locked_section. cbv zeta.
  change (connected (set_chst Connecting s)) with (connected s).
  destruct (connected s) eqn:Cn; simpl negb; cbv iota.
  - match goal with |- InvLive (ret k (release ?t)) =>
      destruct (ret_release_spec k t) as (v & P & [V _] & _ & Lk & W & Pr & _ & _ & _ & Lv) end.
    eapply live_quiet with (s := s); eauto. intros c. apply natt0_no_aok; auto.
  - unfold attempt. destruct (hd (OOk, false) (script (set_chst Connecting s))) as [o inl]. cbv zeta.
    destruct inl.
    + destruct o.
      * unfold new_conn.
        match goal with |- InvLive (finish_ok k ?c ?t) => change c with (length (conns s)); set (s1 := t) end.
        destruct (finish_ok_spec k (length (conns s)) s1) as (v & P & [V _] & _ & Lk & W & Pr & _ & _ & _ & Lv).
        assert (LL : lives (finish_ok k (length (conns s)) s1) = lives s ++ [true]).
        { unfold lives. rewrite Lv. unfold s1. simpl. rewrite map_app. reflexivity. }
        assert (Len : length (conns (finish_ok k (length (conns s)) s1)) = S (length (conns s))).
        { rewrite <- lives_length, LL, app_length, lives_length. simpl. lia. }
        assert (AK : forall j c, aok (finish_ok k (length (conns s)) s1) j c <-> aok s j c).
        { eapply aok_upd; eauto. intros c. apply natt0_no_aok; auto. }
        destruct I as (A & B & C & D). unfold InvLive. rewrite Pr, Len. repeat split.
        -- intros c H. unfold live_at in H. rewrite LL in H.
           destruct (lt_eq_lt_dec c (length (lives s))) as [[Hc|Hc]|Hc].
           ++ rewrite app_nth1 in H; auto. exfalso. eapply no_live; eauto. unfold InvLive; auto.
           ++ left. rewrite lives_length in Hc. subst. auto.
           ++ rewrite nth_overflow in H. discriminate. rewrite app_length. simpl. lia.
        -- intros H. pose proof (natt_upd_le _ _ _ _ P V). change (natt s1) with (natt s) in H0. lia.
        -- intros c H. inversion H. lia.
        -- intros j c H. apply AK in H. apply D in H. lia.
      * match goal with |- InvLive (finish_fail k ?t) =>
          destruct (finish_fail_spec k t) as (P & Lk & W & Pr & _ & _ & _ & Cs) end.
        eapply live_quiet with (s := s); eauto. intros c. apply natt0_no_aok; auto.
        unfold lives. rewrite Cs. reflexivity.
    + (* deferred attempt starts: the channel is not connected *)
      match goal with |- InvLive ?t => set (s' := t) end.
      assert (P : phases s' = upd k (fun _ => PAttempt (AFlight o)) (phases s)) by (unfold s'; rewrite phases_setph; reflexivity).
      assert (AK : forall j c, aok s' j c <-> aok s j c).
      { eapply aok_upd'; eauto. intros; discriminate. intros c. apply natt0_no_aok; auto. }
      destruct I as (A & B & C & D). unfold InvLive.
      change (protocol s') with (protocol s). change (conns s') with (conns s).
      repeat split; auto.
      * intros c H. change (live_at s c) in H. destruct (A c H) as [H1|[j H1]]; auto. right. exists j. apply AK. auto.
      * intros j c H. apply AK in H. eauto.
Qed.

Lemma woken_unlocked s k : InvLock s -> wlookup k (waiters s) = Some WWoken -> locked s = false /\ natt s = 0.
Proof.
  intros [T I] WL. destruct (locked s); auto. exfalso. destruct I as [_ HW].
  pose proof (nonwoken_all _ T HW) as AllN. rewrite Forall_forall in AllN.
  specialize (AllN _ (wlookup_in _ _ _ WL)). discriminate AllN.
Qed.

Ltac quiet_end G := eapply live_quiet; [eassumption | unfold endc, register; rewrite phases_setph; reflexivity
  | reflexivity | intros c' Hc'; unfold aok in Hc'; first [rewrite <- G in Hc' | unfold phases in *; unf; simpl in *; rewrite <- G in Hc']; discriminate
  | reflexivity | try reflexivity; try (apply lives_updc_same; intros []; reflexivity)].

Lemma run_caller_live s k : InvLock s -> InvLive s -> InvLive (run_caller k s).
Proof.
  intros IL I. assert (IL0 : InvLock (deq (IRun k) s)) by (eapply lock_same; eauto).
  assert (I0 : InvLive (deq (IRun k) s)) by exact I.
  unfold run_caller. cbv zeta. remember (deq (IRun k) s) as s0. clear Heqs0 I IL s.
  pose proof (getk_ph s0 k) as G. fold dph in G.
  destruct (ph (getk s0 k)) eqn:E.
  - (* PNew *)
    destruct (cancelp (getk s0 k)).
    + quiet_end G.
    + unfold enter. destruct (connected s0) eqn:Cn.
      * destruct (ret_spec k s0) as (v & P & [V _] & L & W & Pr & _ & _ & _ & Lv & _).
        eapply live_quiet; eauto. intros c' Hc'. unfold aok in Hc'. rewrite <- G in Hc'. discriminate.
      * destruct (lock_free s0) eqn:LF.
        -- unfold lock_free in LF. apply andb_prop in LF. destruct LF as [L F]. apply negb_true_iff in L.
           apply locked_section_live. exact I0. destruct IL0 as [_ IL0]. rewrite L in IL0. exact IL0.
        -- quiet_end G.
  - (* PWait *)
    destruct (wlookup k (waiters s0)) eqn:WL; auto.
    destruct (cancelp (getk s0 k)).
    + set (s1 := set_waiters (wremove k (waiters s0)) s0).
      destruct (locked s1).
      * quiet_end G.
      * eapply live_quiet with (s := s0) (k := k); [exact I0 | unfold endc; rewrite phases_setph, phases_wake_first; reflexivity
          | reflexivity | intros c' Hc'; unfold aok in Hc'; rewrite <- G in Hc'; discriminate
          | unfold endc, setph, updk; simpl; rewrite wake_first_protocol; reflexivity
          | unfold lives, endc, setph, updk; simpl; rewrite wake_first_conns; reflexivity].
    + destruct (is_wwoken w) eqn:WW; auto. destruct w; try discriminate.
      destruct (woken_unlocked s0 k IL0 WL) as [L N].
      apply locked_section_live. exact I0. exact N.
  - (* PAttempt *)
    assert (AT : is_att (nth k (phases s0) dph) = true) by (rewrite <- G; auto).
    destruct (lock_att_is_locked s0 k IL0 AT) as [L A1].
    destruct (cancelp (getk s0 k)).
    + match goal with |- InvLive (endc k _ (release ?t)) => set (s1 := t) end.
      assert (X : phases s1 = phases s0 /\ protocol s1 = protocol s0 /\ length (conns s1) = length (conns s0) /\
                  (forall c, live_at s1 c -> live_at s0 c) /\ (forall c, aok s0 k c -> ~ live_at s1 c)).
      { unfold s1. destruct a as [o|c| |]; try (repeat split; auto; intros c' Hc'; unfold aok in Hc'; rewrite <- G in Hc'; discriminate).
        destruct (closing (getc s0 c)) eqn:Ec.
        - repeat split; auto. intros c' Hc'. unfold aok in Hc'. rewrite <- G in Hc'. inversion Hc'; subst c'.
          unfold live_at. rewrite <- live_getc. unfold conn_live. rewrite Ec. rewrite andb_false_r. discriminate.
        - assert (Z : let t := enq (ILost c) (updc c (n_closing true) s0) in
                      phases t = phases s0 /\ protocol t = protocol s0 /\ length (conns t) = length (conns s0) /\
                      (forall c0, live_at t c0 -> live_at s0 c0) /\ (forall c0, aok s0 k c0 -> ~ live_at t c0)).
          { cbv zeta. split; [reflexivity|]. split; [reflexivity|]. split. { unf. simpl. apply upd_length. }
            split.
            + intros c'. unfold live_at, lives. unf. simpl. apply lives_upd_mono. intros []; simpl.
              unfold conn_live; simpl. rewrite andb_false_r. discriminate.
            + intros c' Hc'. unfold aok in Hc'. rewrite <- G in Hc'. inversion Hc'; subst c'.
              unfold live_at. rewrite <- live_getc. unfold getc. unf. simpl.
              assert (c < length (conns s0)).
              { destruct I0 as (_ & _ & _ & D). apply (D k c). unfold aok. auto. }
              rewrite nth_upd_same; auto. unfold conn_live. simpl. rewrite andb_false_r. discriminate. }
          destruct (sched_lost_cases c (updc c (n_closing true) s0)) as [Y|Y]; rewrite Y; exact Z. }
      destruct X as (P1 & Pr1 & Len1 & M1 & Cl1).
      eapply live_after_attempt with (s := s0) (k := k) (v := PEnd (RExn ECancelled)); eauto.
      * unfold endc. rewrite phases_setph, phases_release, P1. reflexivity.
      * unfold endc, setph, updk. simpl. rewrite release_conns. auto.
      * intros c. unfold live_at, lives, endc, setph, updk. simpl. rewrite release_conns. apply M1.
      * intros c Hc. right. unfold live_at, lives, endc, setph, updk. simpl. rewrite release_conns. apply Cl1. auto.
      * left. unfold endc, setph, updk. simpl. rewrite release_protocol. auto.
    + destruct a as [o|c| |]; try exact I0.
      * destruct (finish_ok_spec k c s0) as (v & P & [V _] & _ & Lk & W & Pr & _ & _ & _ & Lv).
        eapply live_after_attempt with (s := s0) (k := k); eauto.
        -- rewrite <- !lives_length. unfold lives. rewrite Lv. auto.
        -- unfold live_at, lives. rewrite Lv. auto.
        -- intros c' Hc'. unfold aok in Hc'. rewrite <- G in Hc'. inversion Hc'; subst. auto.
        -- right. exists c. split; auto. unfold aok. auto.
      * destruct (finish_fail_spec k s0) as (P & Lk & W & Pr & _ & _ & _ & Cs).
        eapply live_after_attempt with (s := s0) (k := k); eauto.
        -- rewrite Cs. auto.
        -- unfold live_at, lives. rewrite Cs. auto.
        -- intros c' Hc'. unfold aok in Hc'. rewrite <- G in Hc'. discriminate.
  - (* PGot *)
    destruct (cancelp (getk s0 k)).
    + quiet_end G.
    + destruct woken; auto. cbv zeta.
      match goal with |- context [goaway ?t] => destruct (goaway t) end.
      * quiet_end G.
      * match goal with |- context [closing ?t] => destruct (closing t) end.
        -- quiet_end G. rewrite lives_endc, !lives_updc_same; auto; intros []; reflexivity.
        -- quiet_end G. unfold register. rewrite lives_setph, !lives_updc_same; auto; intros []; reflexivity.
  - (* PReg *)
    destruct (term (getk s0 k)); [|destruct (cancelp (getk s0 k)); [|destruct (answered (getk s0 k)); auto]];
      quiet_end G.
  - auto.
Qed.

Lemma lives_kill_mono c f s c' :
  (forall x, conn_live (f x) = true -> conn_live x = true) -> live_at (updc c f s) c' -> live_at s c'.
Proof. intros H. unfold live_at, lives. unf. simpl. apply lives_upd_mono. auto. Qed.

Lemma lives_mono_upd l l' c f c' : l' = upd c f l -> (forall x, conn_live (f x) = true -> conn_live x = true) ->
  nth c' (map conn_live l') false = true -> nth c' (map conn_live l) false = true.
Proof. intros -> H. apply lives_upd_mono; auto. Qed.

Lemma cancel_caller_spec s k :
  let s' := cancel_caller k s in
  protocol s' = protocol s /\ conns s' = conns s /\ att_sig s' = att_sig s /\
  (forall j c, aok s' j c <-> aok s j c) /\ creates s' = creates s /\ fails s' = fails s /\ script s' = script s /\
  (forall j, nth j (phases s') dph = nth j (phases s) dph \/
     (exists o, nth j (phases s) dph = PAttempt (AFlight o) /\ nth j (phases s') dph = PAttempt AAbort)).
Proof.
  unfold cancel_caller. cbv zeta. destruct (cancelp (getk s k)). { repeat split; auto; tauto. }
  pose proof (getk_ph s k) as G. fold dph in G.
  assert (FL : forall f, (forall x, ph (f x) = ph x) ->
     protocol (updk k f s) = protocol s /\ conns (updk k f s) = conns s /\ att_sig (updk k f s) = att_sig s /\
     (forall j c, aok (updk k f s) j c <-> aok s j c) /\ creates (updk k f s) = creates s /\
     fails (updk k f s) = fails s /\ script (updk k f s) = script s /\
     (forall j, nth j (phases (updk k f s)) dph = nth j (phases s) dph \/
       (exists o, nth j (phases s) dph = PAttempt (AFlight o) /\ nth j (phases (updk k f s)) dph = PAttempt AAbort))).
  { intros f Hf. pose proof (phases_updk_flag k f s Hf) as P. repeat split; auto.
    apply att_sig_phases; auto. 1,2: unfold aok; rewrite P; auto. rewrite P; auto. }
  destruct (ph (getk s k)) eqn:E; try (repeat split; auto; tauto).
  - apply FL. auto.
  - destruct (wlookup k (waiters s)) as [[]|]; try (repeat split; auto; tauto).
    + apply (FL (c_cancelp true)). auto.
    + apply FL. auto.
  - destruct a; try (repeat split; auto; tauto); try (apply FL; auto; fail).
    match goal with |- context [protocol ?t = _] => set (s' := t) end.
    assert (P : phases s' = upd k (fun _ => PAttempt AAbort) (phases s)).
    { unfold s', phases. unf. simpl. apply map_upd_to. auto. }
    assert (AK : forall j c, aok s' j c <-> aok s j c).
    { apply (aok_upd' s s' k _ P). intros; discriminate. intros c Hc. unfold aok in Hc. rewrite <- G in Hc. discriminate. }
    repeat split; auto; try apply AK.
    + unfold att_sig. rewrite P. apply map_is_att_upd. rewrite <- G. auto.
    + intros j. rewrite P, nth_upd. destruct (Nat.eqb k j && Nat.ltb j (length (phases s))) eqn:Ej; auto.
      right. apply andb_prop in Ej. destruct Ej as [Ej _]. apply Nat.eqb_eq in Ej. subst j. exists o. auto.
  - rewrite mark_protocol, mark_conns, att_sig_mark, mark_creates, mark_fails, mark_script.
    destruct (FL (c_cancelp true)) as (A & B & C & D & E1 & F & H & J); auto. repeat split; auto.
    1,2: unfold aok; rewrite phases_mark; apply D. rewrite phases_mark. auto.
  - rewrite mark_protocol, mark_conns, att_sig_mark, mark_creates, mark_fails, mark_script.
    destruct (FL (c_cancelp true)) as (A & B & C & D & E1 & F & H & J); auto. repeat split; auto.
    1,2: unfold aok; rewrite phases_mark; apply D. rewrite phases_mark. auto.
Qed.

Lemma step_live s o : InvLock s -> InvLive s -> InvLive (step s o).
Proof.
  intros IL I. destruct o; simpl.
  - (* Start *)
    eapply live_mono; eauto; try reflexivity.
    + intros j c. unfold aok, phases. simpl. rewrite map_app. fold (phases s). change (map ph [new_caller]) with [PNew].
      destruct (lt_eq_lt_dec j (length (phases s))) as [[H|H]|H].
      * rewrite app_nth1; auto. tauto.
      * rewrite H, nth_app_new. rewrite nth_overflow; try lia. split; discriminate.
      * rewrite !nth_overflow; try tauto; try lia. rewrite app_length. simpl. lia.
    + unfold natt, phases. simpl. rewrite map_app, count_app. unfold count at 2. simpl. fold (phases s). lia.
  - apply run_caller_live; auto.
  - (* Resolve *)
    pose proof (getk_ph s k) as G. fold dph in G.
    destruct (ph (getk s k)) eqn:E; auto. destruct a; auto. destruct o.
    + unfold new_conn.
      match goal with |- InvLive ?t => set (s' := t) end.
      assert (P : phases s' = upd k (fun _ => PAttempt (AOk (length (conns s)))) (phases s)).
      { unfold s'. unfold phases. unf. simpl. apply map_upd_to. auto. }
      assert (LL : lives s' = lives s ++ [true]) by (unfold s', lives; simpl; rewrite map_app; reflexivity).
      assert (Kl : k < length (phases s)) by (apply getk_lt; rewrite E; discriminate).
      assert (NA : natt s' = natt s).
      { apply natt_same. unfold att_sig. rewrite P. apply map_is_att_upd. rewrite <- G. auto. }
      destruct I as (A & B & C & D). unfold InvLive.
      change (protocol s') with (protocol s). change (conns s') with (conns s ++ [fresh_conn]).
      rewrite app_length. simpl length. repeat split.
      * intros c H. unfold live_at in H. rewrite LL in H.
        destruct (lt_eq_lt_dec c (length (lives s))) as [[Hc|Hc]|Hc].
        -- rewrite app_nth1 in H; auto. destruct (A c H) as [H1|[j H1]]; auto. right. exists j.
           unfold aok in *. rewrite P, nth_upd. destruct (Nat.eqb k j && Nat.ltb j (length (phases s))) eqn:Ej; auto.
           apply andb_prop in Ej. destruct Ej as [Ej _]. apply Nat.eqb_eq in Ej. subst j. rewrite <- G in H1. discriminate.
        -- right. exists k. unfold aok. rewrite P, nth_upd_same; auto. rewrite lives_length in Hc. subst. auto.
        -- rewrite nth_overflow in H. discriminate. rewrite app_length. simpl. lia.
      * rewrite NA. intros H. specialize (B H). rewrite connected_lives in *.
        change (protocol s') with (protocol s). destruct (protocol s) eqn:Pr; auto. rewrite LL.
        rewrite app_nth1; auto. rewrite lives_length. eauto.
      * intros c H. specialize (C c H). lia.
      * intros j c H. unfold aok in H. rewrite P, nth_upd in H.
        destruct (Nat.eqb k j && Nat.ltb j (length (phases s))) eqn:Ej.
        -- inversion H. lia.
        -- specialize (D j c H). lia.
    + match goal with |- InvLive ?t => set (s' := t) end.
      assert (P : phases s' = upd k (fun _ => PAttempt AFail) (phases s)).
      { unfold s'. unfold phases. unf. simpl. apply map_upd_to. auto. }
      eapply live_mono; eauto.
      * eapply aok_upd'; eauto. intros; discriminate. intros c Hc. unfold aok in Hc. rewrite <- G in Hc. discriminate.
      * assert (natt s' = natt s). { apply natt_same. unfold att_sig. rewrite P. apply map_is_att_upd. rewrite <- G. auto. }
        lia.
  - (* Cancel *)
    destruct (cancel_caller_spec s k) as (A & B & C & D & _).
    eapply live_mono; eauto. rewrite B; auto. unfold live_at, lives. rewrite B. auto.
    rewrite (natt_same _ _ C). auto.
  - (* Lose *)
    destruct (conn_lost_spec c s) as (A & B & _ & _ & _ & _ & _ & Cs).
    eapply live_mono; eauto.
    + destruct Cs as [Cs|Cs]; rewrite Cs; auto. apply upd_length.
    + intros c'. unfold live_at, lives. destruct Cs as [Cs|Cs]; rewrite Cs; auto.
      apply lives_upd_mono. intros []; unfold conn_live; simpl. discriminate.
    + apply aok_same; auto.
    + rewrite (natt_same _ _ (att_sig_phases _ _ A)). auto.
  - (* GoAway *)
    destruct (valid_open s c); auto.
    match goal with |- InvLive (proc_close c ?t) => destruct (proc_close_spec c t) as (A & B & _ & _ & _ & _ & _ & Cs) end.
    eapply live_mono; eauto.
    + rewrite Cs. unf. simpl. rewrite !upd_length. auto.
    + intros c'. unfold live_at, lives. rewrite Cs. unf. simpl. intros H.
      apply lives_upd_mono in H. apply lives_upd_mono in H; auto.
      intros []; unfold conn_live; simpl. discriminate.
    + apply aok_same; auto.
    + rewrite (natt_same s). auto. apply att_sig_phases. rewrite A. reflexivity.
  - (* KAClose *)
    destruct (valid_open s c); auto.
    assert (Z : InvLive (enq (ILost c) (updc c (n_closing true) s))).
    { eapply live_mono; eauto; try reflexivity.
      + unf. simpl. apply upd_length.
      + intros c'. change (live_at (updc c (n_closing true) s) c' -> live_at s c'). apply lives_kill_mono.
        intros []; unfold conn_live; simpl. rewrite andb_false_r. discriminate. }
    destruct (sched_lost_cases c (updc c (n_closing true) s)) as [Y|Y]; rewrite Y; exact Z.
  - (* ChClose *)
    destruct (protocol s) eqn:Pr; [|exact I].
    destruct (proc_close_spec n s) as (A & B & _ & _ & _ & _ & _ & Cs).
    destruct I as (IA & IB & IC & ID).
    assert (Ln : n < length (conns s)) by auto.
    unfold InvLive. simpl protocol. simpl conns. rewrite Cs, upd_length. repeat split; try discriminate; auto.
    + intros c H. unfold live_at, lives in H. simpl conns in H. rewrite Cs in H.
      assert (c <> n).
      { intros ->. change false with (conn_live dead_conn) in H. rewrite map_nth, nth_upd_same in H; auto.
        unfold conn_live in H. simpl in H. discriminate. }
      right. apply lives_upd_mono in H. 2: intros []; unfold conn_live; simpl; discriminate.
      destruct (IA c H) as [H1|[j H1]]. congruence. exists j. unfold aok.
      change (phases (set_chst Idle (set_protocol None (proc_close n s)))) with (phases (proc_close n s)). rewrite A. auto.
    + intros j c H. unfold aok in H. change (phases (set_chst Idle (set_protocol None (proc_close n s)))) with (phases (proc_close n s)) in H.
      rewrite A in H. eauto.
  - (* Pause *)
    destruct (valid_open s c); auto. eapply live_mono; eauto; try reflexivity.
    + unf. simpl. apply upd_length.
    + intros c'. change (live_at (updc c (n_paused true) s) c' -> live_at s c'). apply lives_kill_mono. intros []; auto.
  - (* Resume *)
    destruct (valid_open s c && paused (getc s c)); auto. fold (resume1 c).
    match goal with |- InvLive (fold_left _ ?l ?t) => destruct (resume_fold_spec c l t) as (A & B & C & D & E & _ & _ & _ & J) end.
    eapply live_mono; eauto.
    + rewrite E. unf. simpl. apply upd_length.
    + intros c'. unfold live_at, lives. rewrite E. change (live_at (updc c (n_paused false) s) c' -> live_at s c').
      apply lives_kill_mono. intros []; auto.
    + intros j c'. unfold aok. destruct (J j) as [J1|[c1 [J1 J2]]].
      * rewrite J1. tauto.
      * rewrite J2. change (phases (updc c (n_paused false) s)) with (phases s) in J1. rewrite J1. split; discriminate.
    + rewrite (natt_same _ _ A). auto.
  - (* Answer *)
    destruct (ph (getk s k)); auto. destruct (valid_open s c && negb (answered (getk s k))); auto.
    eapply live_mono; eauto.
    + rewrite mark_protocol. reflexivity.
    + rewrite mark_conns. reflexivity.
    + intros c'. unfold live_at, lives. rewrite mark_conns. auto.
    + intros j c'. unfold aok. rewrite phases_mark, phases_updk_flag; auto. tauto.
    + rewrite (natt_same s). auto. rewrite att_sig_mark. apply att_sig_updk_flag. auto.
  - (* Hold *)
    eapply live_mono; eauto; try reflexivity.
    + unf. simpl. apply upd_length.
    + intros c'. change (live_at (updc c (n_held true) s) c' -> live_at s c'). apply lives_kill_mono. intros []; auto.
Qed.

Definition Inv (s : state) : Prop := InvLock s /\ InvLive s.

Lemma init_inv sc : Inv (init sc).
Proof.
  split. apply init_lock. unfold InvLive, live_at, aok. simpl. repeat split; try discriminate.
  - intros c H. destruct c; discriminate.
  - intros k c H. destruct k; discriminate.
Qed.

Lemma step_inv s o : Inv s -> Inv (step s o).
Proof. intros [A B]. split. apply step_lock; auto. apply step_live; auto. Qed.

Lemma run_inv ops s : Inv s -> Inv (run ops s).
Proof. revert s; induction ops; simpl; auto. intros. apply IHops. apply step_inv; auto. Qed.

Lemma reach_inv sc ops : Inv (run ops (init sc)).
Proof. apply run_inv. apply init_inv. Qed.

Lemma live_unique s i j : Inv s -> live_at s i -> live_at s j -> i = j.
Proof.
  intros [IL (A & B & C & D)] Hi Hj.
  pose proof (invlock_natt_le s IL) as N.
  assert (X : forall c k, live_at s c -> aok s k c -> forall c', live_at s c' -> protocol s <> Some c').
  { intros c k Hc Hk c' Hc' P. assert (1 <= natt s) by (apply natt_pos with (k := k); unfold aok in Hk; rewrite Hk; auto).
    specialize (B H). rewrite connected_lives, P in B. unfold live_at in Hc'. congruence. }
  destruct (A i Hi) as [Pi|[ki Ki]]; destruct (A j Hj) as [Pj|[kj Kj]].
  - congruence.
  - exfalso. exact (X j kj Hj Kj i Hi Pi).
  - exfalso. exact (X i ki Hi Ki j Hj Pj).
  - assert (ki = kj). { apply att_unique with (s := s); auto; unfold aok in *; [rewrite Ki | rewrite Kj]; auto. }
    subst. unfold aok in *. congruence.
Qed.

(* ---- (T2) never more than one live connection -------------------------------------------------- *)
Lemma one_live_connection sc ops : live_connections (run ops (init sc)) <= 1.
Proof.
  pose proof (reach_inv sc ops) as I. set (s := run ops (init sc)) in *.
  unfold live_connections. replace (count conn_live (conns s)) with (count (fun b : bool => b) (lives s)).
  2: { unfold lives. rewrite count_map. auto. }
  apply count_unique with (d := false). intros i j _ _ Hi Hj. eapply live_unique; eauto.
Qed.

(* the live connection, if any, is the channel's or the one just made by the pending attempt *)
Lemma live_is_held sc ops c :
  let s := run ops (init sc) in conn_live (getc s c) = true ->
  protocol s = Some c \/ exists k, ph (getk s k) = PAttempt (AOk c).
Proof.
  intros s H. destruct (reach_inv sc ops) as [_ (A & _)]. fold s in A. rewrite live_getc in H.
  destruct (A c H) as [P|[k K]]; auto. right. exists k. rewrite getk_ph. exact K.
Qed.


(* ================================================================================================ *)
(* 5. failures are reported to the caller that made the attempt                                      *)

Definition POS : phase := PEnd (RExn EOSError).

(* shape of one task step: only k's phase changes; `fails` grows only by k, and only when k's own
   _create_connection raised in this very step *)
Definition step_shape (s s' : state) (k : nat) (v : phase) : Prop :=
  phases s' = upd k (fun _ => v) (phases s) /\
  (fails s' = fails s \/ (fails s' = fails s ++ [k] /\ v = POS)) /\
  (v = POS -> nth k (phases s) dph = PAttempt AFail \/ nth k (phases s) dph = POS \/ fails s' = fails s ++ [k]) /\
  (v = PAttempt AFail -> nth k (phases s) dph = PAttempt AFail).

Lemma shape_quiet s s' k v : phases s' = upd k (fun _ => v) (phases s) -> fails s' = fails s ->
  v <> POS -> v <> PAttempt AFail -> step_shape s s' k v.
Proof. intros. unfold step_shape. repeat split; auto; intros; contradiction. Qed.

Lemma upd_self {A} k (l : list A) d : upd k (fun _ => nth k l d) l = l.
Proof. revert k; induction l; destruct k; simpl; auto. f_equal. auto. Qed.

Lemma shape_id s s' k : phases s' = phases s -> fails s' = fails s -> step_shape s s' k (nth k (phases s) dph).
Proof.
  intros P F. unfold step_shape. rewrite P, F, upd_self. repeat split; auto.
Qed.

Lemma quiet_shape_not_pos v (p : option nat) :
  (v = PEnd (RExn EAttr) \/ exists c, p = Some c /\ (v = PGot c false \/ v = PReg c)) ->
  v <> POS /\ v <> PAttempt AFail.
Proof. intros [H|[c [_ [H|H]]]]; subst; split; discriminate. Qed.

Lemma quiet3_not_pos v c : v = PEnd (RExn EAttr) \/ v = PGot c false \/ v = PReg c -> v <> POS /\ v <> PAttempt AFail.
Proof. intros [H|[H|H]]; subst; split; discriminate. Qed.

Lemma locked_section_shape k s :
  exists v, step_shape s (locked_section k s) k v /\ v <> PAttempt AFail /\
            (v = POS -> fails (locked_section k s) = fails s ++ [k]).
Proof.
  unfold locked_section. cbv zeta. destruct (negb (connected (set_chst Connecting s))).
  - unfold attempt. destruct (hd (OOk, false) (script (set_chst Connecting s))) as [o inl]. cbv zeta.
    destruct inl.
    + destruct o.
      * unfold new_conn. match goal with |- context [finish_ok k ?c ?t] =>
          destruct (finish_ok_spec k c t) as (v & P & _ & Q & _ & _ & _ & _ & F & _) end.
        destruct (quiet3_not_pos _ _ Q) as [Q1 Q2].
        exists v. split; [apply shape_quiet; auto|]. split; auto. intros; contradiction.
      * match goal with |- context [finish_fail k ?t] => destruct (finish_fail_spec k t) as (P & _ & _ & _ & _ & F & _) end.
        exists POS. simpl in F. unfold step_shape. repeat split; auto; try discriminate.
    + exists (PAttempt (AFlight o)). split; [apply shape_quiet; try discriminate|split; discriminate].
      rewrite phases_setph. reflexivity. reflexivity.
  - match goal with |- context [ret k (release ?t)] =>
      destruct (ret_release_spec k t) as (v & P & _ & Q & _ & _ & _ & _ & F & _) end.
    destruct (quiet_shape_not_pos _ _ Q) as [Q1 Q2].
    exists v. split; [apply shape_quiet; auto|]. split; auto. intros; contradiction.
Qed.

Ltac shape_end G := eexists; apply shape_quiet;
  [unfold endc, register; rewrite phases_setph; reflexivity | reflexivity | discriminate | discriminate].

Lemma run_caller_shape s k : exists v, step_shape s (run_caller k s) k v.
Proof.
  assert (X : forall s0, (exists v, step_shape s0 (run_caller k s) k v) -> phases s0 = phases s -> fails s0 = fails s ->
              exists v, step_shape s (run_caller k s) k v).
  { intros s0 [v H] P F. exists v. unfold step_shape in *. rewrite P, F in H. exact H. }
  apply (X (deq (IRun k) s)); try reflexivity. clear X.
  unfold run_caller. cbv zeta.
  generalize (deq (IRun k) s). clear s. intros s0.
  assert (ID : exists v, step_shape s0 s0 k v) by (eexists; apply shape_id; auto).
  pose proof (getk_ph s0 k) as G. fold dph in G.
  destruct (ph (getk s0 k)) eqn:E.
  - destruct (cancelp (getk s0 k)). shape_end G.
    unfold enter. destruct (connected s0).
    + destruct (ret_spec k s0) as (v & P & _ & _ & _ & _ & _ & F & _ & _ & Q).
      destruct (quiet_shape_not_pos _ _ Q). exists v. apply shape_quiet; auto.
    + destruct (lock_free s0).
      * destruct (locked_section_shape k (set_locked true s0)) as (v & Sh & _). exists v. exact Sh.
      * shape_end G.
  - destruct (wlookup k (waiters s0)); auto.
    destruct (cancelp (getk s0 k)).
    + destruct (locked (set_waiters (wremove k (waiters s0)) s0)). shape_end G.
      eexists. apply shape_quiet; [unfold endc; rewrite phases_setph, phases_wake_first; reflexivity
        | unfold endc, setph, updk; simpl; rewrite wake_first_fails; reflexivity | discriminate | discriminate].
    + destruct (is_wwoken w); auto.
      destruct (locked_section_shape k (set_locked true (set_waiters (wremove k (waiters s0)) s0))) as (v & Sh & _).
      exists v. exact Sh.
  - destruct (cancelp (getk s0 k)).
    + exists (PEnd (RExn ECancelled)). apply shape_quiet; [unfold endc; rewrite phases_setph, phases_release | unfold endc, setph, updk; simpl; rewrite release_fails | discriminate | discriminate].
      * destruct a; try reflexivity. destruct (closing (getc s0 c)); try reflexivity.
        destruct (sched_lost_cases c (updc c (n_closing true) s0)) as [Y|Y]; rewrite Y; reflexivity.
      * destruct a; try reflexivity. destruct (closing (getc s0 c)); try reflexivity.
        destruct (sched_lost_cases c (updc c (n_closing true) s0)) as [Y|Y]; rewrite Y; reflexivity.
    + destruct a; auto.
      * destruct (finish_ok_spec k c s0) as (v & P & _ & Q & _ & _ & _ & _ & F & _).
        destruct (quiet3_not_pos _ _ Q). exists v. apply shape_quiet; auto.
      * destruct (finish_fail_spec k s0) as (P & _ & _ & _ & _ & F & _).
        exists POS. unfold step_shape. repeat split; auto; try discriminate.
  - destruct (cancelp (getk s0 k)). shape_end G.
    destruct woken; auto.
    match goal with |- context [goaway ?t] => destruct (goaway t) end. shape_end G.
    match goal with |- context [closing ?t] => destruct (closing t) end; shape_end G.
  - destruct (term (getk s0 k)); [|destruct (cancelp (getk s0 k)); [|destruct (answered (getk s0 k)); auto]]; shape_end G.
  - auto.
Qed.

Definition failish (p : phase) : Prop := p = POS \/ p = PAttempt AFail.
Definition InvFail (s : state) : Prop := forall j, failish (nth j (phases s) dph) -> In j (fails s).

Lemma fail_mono s s' : InvFail s -> incl (fails s) (fails s') ->
  (forall j, failish (nth j (phases s') dph) -> failish (nth j (phases s) dph) \/ In j (fails s')) -> InvFail s'.
Proof. intros I F H j Hj. destruct (H j Hj); auto. Qed.

Lemma fail_same s s' : InvFail s -> fails s' = fails s ->
  (forall j, nth j (phases s') dph = nth j (phases s) dph \/ ~ failish (nth j (phases s') dph)) -> InvFail s'.
Proof.
  intros I F H. apply fail_mono with (s := s); auto. rewrite F. apply incl_refl.
  intros j Hj. destruct (H j) as [E|E]. rewrite <- E. auto. contradiction.
Qed.

Lemma step_fail s o : InvFail s -> InvFail (step s o).
Proof.
  intros I. destruct o; simpl.
  - apply fail_same with (s := s); auto. intros j. unfold phases. simpl. rewrite map_app. fold (phases s).
    change (map ph [new_caller]) with [PNew].
    destruct (lt_eq_lt_dec j (length (phases s))) as [[H|H]|H].
    + rewrite app_nth1; auto.
    + rewrite H, nth_app_new. right. intros [X|X]; discriminate.
    + left. rewrite !nth_overflow; auto; try lia. rewrite app_length. simpl. lia.
  - destruct (run_caller_shape s k) as (v & P & F & V1 & V2).
    apply fail_mono with (s := s); auto.
    + destruct F as [F|[F _]]; rewrite F. apply incl_refl. apply incl_appl. apply incl_refl.
    + intros j Hj. rewrite P, nth_upd in Hj.
      destruct (Nat.eqb k j && Nat.ltb j (length (phases s))) eqn:Ej; auto.
      apply andb_prop in Ej. destruct Ej as [Ej _]. apply Nat.eqb_eq in Ej. subst j.
      destruct Hj as [Hj|Hj].
      * destruct (V1 Hj) as [X|[X|X]]. left; right; auto. left; left; auto. right. rewrite X. apply in_or_app. right. simpl. auto.
      * left. right. auto.
  - pose proof (getk_ph s k) as G. fold dph in G.
    destruct (ph (getk s k)) eqn:E; auto. destruct a; auto. destruct o.
    + apply fail_same with (s := s); auto. intros j. unfold new_conn.
      change (phases (enq (IRun k) (setph k (PAttempt (AOk (length (conns s)))) (set_conns (conns s ++ [fresh_conn]) s))))
        with (phases (setph k (PAttempt (AOk (length (conns s)))) s)).
      rewrite phases_setph, nth_upd. destruct (Nat.eqb k j && Nat.ltb j (length (phases s))); auto.
      right. intros [X|X]; discriminate.
    + apply fail_mono with (s := s); auto. simpl. apply incl_appl. apply incl_refl.
      intros j Hj.
      change (phases (enq (IRun k) (setph k (PAttempt AFail) (set_fails (fails s ++ [k]) s))))
        with (phases (setph k (PAttempt AFail) s)) in Hj.
      rewrite phases_setph, nth_upd in Hj. destruct (Nat.eqb k j && Nat.ltb j (length (phases s))) eqn:Ej; auto.
      apply andb_prop in Ej. destruct Ej as [Ej _]. apply Nat.eqb_eq in Ej. subst j.
      right. simpl. apply in_or_app. right. simpl. auto.
  - destruct (cancel_caller_spec s k) as (_ & _ & _ & _ & _ & F & _ & J).
    apply fail_same with (s := s); auto. intros j. destruct (J j) as [J1|[o [J1 J2]]]; auto.
    right. rewrite J2. intros [X|X]; discriminate.
  - destruct (conn_lost_spec c s) as (A & _ & _ & _ & _ & F & _). apply fail_same with (s := s); auto. rewrite A. auto.
  - destruct (valid_open s c); auto.
    match goal with |- InvFail (proc_close c ?t) => destruct (proc_close_spec c t) as (A & _ & _ & _ & _ & F & _) end.
    apply fail_same with (s := s); auto. rewrite A. auto.
  - destruct (valid_open s c); auto.
    destruct (sched_lost_cases c (updc c (n_closing true) s)) as [Y|Y]; rewrite Y; auto.
  - destruct (protocol s); auto.
    destruct (proc_close_spec n s) as (A & _ & _ & _ & _ & F & _).
    apply fail_same with (s := s); auto.
    change (phases (set_chst Idle (set_protocol None (proc_close n s)))) with (phases (proc_close n s)). rewrite A. auto.
  - destruct (valid_open s c); auto.
  - destruct (valid_open s c && paused (getc s c)); auto. fold (resume1 c).
    match goal with |- InvFail (fold_left _ ?l ?t) => destruct (resume_fold_spec c l t) as (_ & _ & _ & _ & _ & _ & F & _ & J) end.
    apply fail_same with (s := s); auto. intros j. destruct (J j) as [J1|[c1 [J1 J2]]]; auto.
    right. rewrite J2. intros [X|X]; discriminate.
  - destruct (ph (getk s k)); auto. destruct (valid_open s c && negb (answered (getk s k))); auto.
    apply fail_same with (s := s). auto. rewrite mark_fails. reflexivity.
    intros j. rewrite phases_mark, phases_updk_flag; auto.
  - exact I.
Qed.

(* ---- (T3) an OSError reaches a caller only from its own failed attempt -------------------------- *)
Lemma run_fail ops s : InvFail s -> InvFail (run ops s).
Proof. revert s; induction ops; simpl; auto. intros. apply IHops. apply step_fail; auto. Qed.

Lemma failure_reaches_owner_only sc ops k :
  let s := run ops (init sc) in ph (getk s k) = PEnd (RExn EOSError) -> In k (fails s).
Proof.
  intros s H. assert (I : InvFail s).
  { apply run_fail. intros j [X|X]; destruct j; discriminate. }
  apply I. left. rewrite <- getk_ph. auto.
Qed.

Lemma getk_deq s i k : getk (deq i s) k = getk s k.
Proof. reflexivity. Qed.

(* the failed attempt's owner resumes: it alone gets the OSError, the lock is released and handed to the
   first waiter, nobody else is touched, no new attempt is started in this step *)
Lemma failed_attempt_step s k :
  ph (getk s k) = PAttempt AFail -> cancelp (getk s k) = false ->
  let s' := step s (Run k) in
  ph (getk s' k) = PEnd (RExn EOSError) /\ locked s' = false /\ waiters s' = woken_first (waiters s) /\
  (forall j, j <> k -> getk s' j = getk s j) /\ creates s' = creates s /\ protocol s' = protocol s.
Proof.
  intros E C. simpl. unfold run_caller. cbv zeta. rewrite getk_deq, E, C.
  destruct (finish_fail_spec k (deq (IRun k) s)) as (P & L & W & Pr & Cr & _).
  assert (Kl : k < length (phases s)) by (apply getk_lt; rewrite E; discriminate).
  repeat split; auto.
  - rewrite getk_ph, P. change (phases (deq (IRun k) s)) with (phases s). rewrite nth_upd_same; auto.
  - intros j Hj. unfold getk, finish_fail, endc, setph, updk. simpl. rewrite release_callers. simpl.
    apply nth_upd_other. auto.
Qed.

Lemma attempt_creates k s : creates (attempt k s) = S (creates s).
Proof.
  unfold attempt. destruct (hd (OOk, false) (script s)) as [o inl]. cbv zeta. destruct inl.
  - destruct o.
    + unfold new_conn. match goal with |- context [finish_ok k ?c ?t] =>
        destruct (finish_ok_spec k c t) as (v & _ & _ & _ & _ & _ & _ & Cr & _) end. rewrite Cr. reflexivity.
    + match goal with |- context [finish_fail k ?t] => destruct (finish_fail_spec k t) as (_ & _ & _ & _ & Cr & _) end.
      rewrite Cr. reflexivity.
  - reflexivity.
Qed.

Lemma locked_section_creates k s :
  creates (locked_section k s) = if connected s then creates s else S (creates s).
Proof.
  unfold locked_section. cbv zeta. change (connected (set_chst Connecting s)) with (connected s).
  destruct (connected s); simpl negb; cbv iota.
  - match goal with |- context [ret k (release ?t)] =>
      destruct (ret_release_spec k t) as (v & _ & _ & _ & _ & _ & _ & Cr & _) end. rewrite Cr. reflexivity.
  - rewrite attempt_creates. reflexivity.
Qed.

(* the waiter the lock was handed to re-checks `_connected` and, the channel being unconnected, retries *)
Lemma next_holder_retries s k :
  ph (getk s k) = PWait -> cancelp (getk s k) = false -> wlookup k (waiters s) = Some WWoken ->
  connected s = false -> creates (step s (Run k)) = S (creates s).
Proof.
  intros E C W Cn. simpl. unfold run_caller. cbv zeta. rewrite getk_deq, E, C.
  change (waiters (deq (IRun k) s)) with (waiters s). rewrite W. simpl is_wwoken. cbv iota.
  rewrite locked_section_creates.
  change (connected (set_locked true (set_waiters (wremove k (waiters s)) (deq (IRun k) s)))) with (connected s).
  rewrite Cn. reflexivity.
Qed.

(* ---- (T5a) a connection attempt is started only by a task step that found the channel unconnected *)
Lemma create_only_when_unconnected s o :
  creates (step s o) = creates s \/
  (creates (step s o) = S (creates s) /\ connected s = false /\ exists k, o = Run k).
Proof.
  destruct o; simpl; auto.
  - (* Run *)
    unfold run_caller. cbv zeta. rewrite getk_deq.
    destruct (ph (getk s k)) eqn:E; auto.
    + destruct (cancelp (getk s k)); auto. unfold enter.
      change (connected (deq (IRun k) s)) with (connected s).
      destruct (connected s) eqn:Cn.
      * destruct (ret_spec k (deq (IRun k) s)) as (v & _ & _ & _ & _ & _ & Cr & _). rewrite Cr. auto.
      * destruct (lock_free (deq (IRun k) s)); auto.
        rewrite locked_section_creates.
        change (connected (set_locked true (deq (IRun k) s))) with (connected s). rewrite Cn. right. eauto.
    + change (waiters (deq (IRun k) s)) with (waiters s). destruct (wlookup k (waiters s)); auto.
      destruct (cancelp (getk s k)).
      * left. unfold endc, setph, updk. simpl. destruct (locked s); simpl; auto. rewrite wake_first_creates. auto.
      * destruct (is_wwoken w); auto. rewrite locked_section_creates.
        change (connected (set_locked true (set_waiters (wremove k (waiters s)) (deq (IRun k) s)))) with (connected s).
        destruct (connected s); auto. right. eauto.
    + destruct (cancelp (getk s k)).
      * left. unfold endc, setph, updk. simpl. rewrite release_creates. destruct a; auto.
        destruct (closing (getc (deq (IRun k) s) c)); auto.
        destruct (sched_lost_cases c (updc c (n_closing true) (deq (IRun k) s))) as [Y|Y]; rewrite Y; auto.
      * destruct a; auto.
        -- destruct (finish_ok_spec k c (deq (IRun k) s)) as (v & _ & _ & _ & _ & _ & _ & Cr & _). rewrite Cr. auto.
        -- destruct (finish_fail_spec k (deq (IRun k) s)) as (_ & _ & _ & _ & Cr & _). rewrite Cr. auto.
    + destruct (cancelp (getk s k)); auto. destruct woken; auto. cbv zeta.
      match goal with |- context [goaway ?t] => destruct (goaway t) end; auto.
      match goal with |- context [closing ?t] => destruct (closing t) end; auto.
    + destruct (term (getk s k)); auto. destruct (cancelp (getk s k)); auto. destruct (answered (getk s k)); auto.
  - destruct (ph (getk s k)); auto. destruct a; auto. destruct o; auto.
  - destruct (cancel_caller_spec s k) as (_ & _ & _ & _ & Cr & _). auto.
  - destruct (conn_lost_spec c s) as (_ & _ & _ & _ & Cr & _). auto.
  - destruct (valid_open s c); auto.
    match goal with |- context [proc_close c ?t] => destruct (proc_close_spec c t) as (_ & _ & _ & _ & Cr & _) end. auto.
  - destruct (valid_open s c); auto.
    destruct (sched_lost_cases c (updc c (n_closing true) s)) as [Y|Y]; rewrite Y; auto.
  - destruct (protocol s); auto. destruct (proc_close_spec n s) as (_ & _ & _ & _ & Cr & _). auto.
  - destruct (valid_open s c); auto.
  - destruct (valid_open s c && paused (getc s c)); auto. fold (resume1 c).
    match goal with |- context [fold_left _ ?l ?t] => destruct (resume_fold_spec c l t) as (_ & _ & _ & _ & _ & Cr & _) end. auto.
  - destruct (ph (getk s k)); auto. destruct (valid_open s c && negb (answered (getk s k))); auto.
    rewrite mark_creates. auto.
Qed.

(* ================================================================================================ *)
(* 6. __connect__ never returns a connection known to be dead -- except in one window                *)

Definition connect_phase (p : phase) : bool := match p with PNew | PWait | PAttempt _ => true | _ => false end.
(* the connection made by k's own finished attempt is still alive when k's task resumes *)
Definition own_conn_alive (s : state) (k : nat) : Prop :=
  forall c, ph (getk s k) = PAttempt (AOk c) -> conn_live (getc s c) = true.
(* what __connect__ handed to k in this step (if it returned) is alive at this instant, and k did not
   die of AttributeError on a dead protocol *)
Definition good_ret (s' : state) (k : nat) : Prop :=
  match ph (getk s' k) with
  | PGot c _ | PReg c => conn_live (getc s' c) = true
  | PEnd (RExn EAttr) => False
  | _ => True
  end.

Lemma good_ret_phase s' k p : nth k (phases s') dph = p ->
  match p with PGot c _ | PReg c => conn_live (getc s' c) = true | PEnd (RExn EAttr) => False | _ => True end ->
  good_ret s' k.
Proof. intros H. unfold good_ret. rewrite getk_ph. fold dph. rewrite H. auto. Qed.

Lemma proceed_good k c s : conn_live (getc s c) = true -> k < length (phases s) -> good_ret (proceed k c s) k.
Proof.
  intros L Kl. unfold proceed. cbv zeta. pose proof L as L'. unfold conn_live in L'.
  apply andb_prop in L'. destruct L' as [_ L']. apply negb_true_iff in L'. rewrite L'.
  destruct (paused (getc s c)).
  - eapply good_ret_phase. rewrite phases_setph. apply nth_upd_same. exact Kl. cbv iota beta.
    rewrite live_getc, lives_setph, lives_updc_same. rewrite <- live_getc. auto. intros []; reflexivity.
  - unfold register. eapply good_ret_phase. rewrite phases_setph. apply nth_upd_same. exact Kl. cbv iota beta.
    rewrite live_getc, lives_setph, lives_updc_same. rewrite <- live_getc. auto. intros []; reflexivity.
Qed.

Lemma ret_good k s : connected s = true -> k < length (phases s) -> good_ret (ret k s) k.
Proof.
  intros C Kl. unfold ret. unfold connected in C. destruct (protocol s); try discriminate.
  apply proceed_good; auto.
Qed.

Lemma phases_length_release s : length (phases (release s)) = length (phases s).
Proof. rewrite phases_release. auto. Qed.

Lemma connected_release s : connected (release s) = connected s.
Proof. unfold connected, getc. rewrite release_protocol, release_conns. auto. Qed.

Lemma finish_ok_good k c s : conn_live (getc s c) = true -> k < length (phases s) -> good_ret (finish_ok k c s) k.
Proof.
  intros L Kl. unfold finish_ok. apply ret_good.
  - rewrite connected_release. unfold connected. simpl. exact L.
  - rewrite phases_length_release. exact Kl.
Qed.

Lemma end_good k r s : r <> RExn EAttr -> k < length (phases s) -> good_ret (endc k r s) k.
Proof.
  intros R Kl. eapply good_ret_phase. unfold endc. rewrite phases_setph. apply nth_upd_same. exact Kl.
  destruct r; auto. destruct e; auto; try contradiction.
Qed.

Lemma locked_section_good k s : k < length (phases s) -> good_ret (locked_section k s) k.
Proof.
  intros Kl. unfold locked_section. cbv zeta. change (connected (set_chst Connecting s)) with (connected s).
  destruct (connected s) eqn:Cn; simpl negb; cbv iota.
  - apply ret_good. rewrite connected_release. exact Cn. rewrite phases_length_release. exact Kl.
  - unfold attempt. destruct (hd (OOk, false) (script (set_chst Connecting s))) as [o inl]. cbv zeta.
    destruct inl.
    + destruct o.
      * unfold new_conn. apply finish_ok_good; auto. unfold getc. simpl conns. rewrite nth_app_new. reflexivity.
      * unfold finish_fail. apply end_good. discriminate. rewrite phases_length_release. exact Kl.
    + eapply good_ret_phase. rewrite phases_setph. apply nth_upd_same. exact Kl. exact I.
Qed.

(* ---- (T4 partial) ------------------------------------------------------------------------------ *)
Lemma connect_returns_live_partial s k :
  connect_phase (ph (getk s k)) = true -> own_conn_alive s k -> good_ret (step s (Run k)) k.
Proof.
  intros CP OA. simpl. unfold run_caller. cbv zeta. unfold own_conn_alive in OA.
  assert (Kl : k < length (phases (deq (IRun k) s))).
  { apply getk_lt. rewrite getk_deq. destruct (ph (getk s k)); try discriminate. }
  assert (SAME : forall p, ph (getk s k) = p -> connect_phase p = true -> good_ret (deq (IRun k) s) k).
  { intros p Hp Cp. eapply good_ret_phase. rewrite <- getk_ph. rewrite getk_deq. exact Hp. destruct p; try discriminate; exact I. }
  rewrite getk_deq.
  destruct (ph (getk s k)) eqn:E; try discriminate.
  - destruct (cancelp (getk s k)). apply end_good; auto. discriminate.
    unfold enter. destruct (connected (deq (IRun k) s)) eqn:Cn.
    + apply ret_good; auto.
    + destruct (lock_free (deq (IRun k) s)).
      * apply locked_section_good. exact Kl.
      * eapply good_ret_phase. rewrite phases_setph. apply nth_upd_same. exact Kl. exact I.
  - destruct (wlookup k (waiters (deq (IRun k) s))); [|eapply SAME; eauto].
    destruct (cancelp (getk s k)).
    + apply end_good. discriminate.
      destruct (locked (set_waiters (wremove k (waiters (deq (IRun k) s))) (deq (IRun k) s))); auto.
      rewrite phases_wake_first. exact Kl.
    + destruct (is_wwoken w); [|eapply SAME; eauto]. apply locked_section_good. exact Kl.
  - destruct (cancelp (getk s k)).
    + apply end_good. discriminate. rewrite phases_length_release.
      destruct a; auto. destruct (closing (getc (deq (IRun k) s) c)); auto.
      destruct (sched_lost_cases c (updc c (n_closing true) (deq (IRun k) s))) as [Y|Y]; rewrite Y; auto.
    + destruct a; try (eapply SAME; eauto; fail).
      * apply finish_ok_good; auto. apply (OA c). reflexivity.
      * unfold finish_fail. apply end_good. discriminate. rewrite phases_length_release. exact Kl.
Qed.

(* ---- (T5c) while the channel is connected, callers share the connection: no new attempt --------- *)
Lemma shared_connection_fast s k :
  connected s = true -> ph (getk s k) = PNew -> cancelp (getk s k) = false ->
  let s' := step s (Run k) in
  creates s' = creates s /\ exists c, protocol s = Some c /\
    (ph (getk s' k) = PGot c false \/ ph (getk s' k) = PReg c) /\ conn_live (getc s' c) = true.
Proof.
  intros Cn E C. simpl. unfold run_caller. cbv zeta. rewrite getk_deq, E, C. unfold enter.
  change (connected (deq (IRun k) s)) with (connected s). rewrite Cn.
  assert (Kl : k < length (phases (deq (IRun k) s))) by (apply getk_lt; rewrite getk_deq, E; discriminate).
  pose proof (ret_good k (deq (IRun k) s) Cn Kl) as G.
  destruct (ret_spec k (deq (IRun k) s)) as (v & P & _ & _ & _ & _ & Cr & _ & _ & _ & Q).
  split. exact Cr.
  unfold good_ret in G. rewrite getk_ph in *. fold dph in *. rewrite P, nth_upd_same in *; auto.
  destruct Q as [Q|[c [Pc Q]]].
  - subst v. contradiction.
  - exists c. split. exact Pc. destruct Q as [Q|Q]; subst v; auto.
Qed.

Lemma shared_connection_waiter s k :
  connected s = true -> ph (getk s k) = PWait -> cancelp (getk s k) = false ->
  wlookup k (waiters s) = Some WWoken ->
  let s' := step s (Run k) in
  creates s' = creates s /\ locked s' = false /\ exists c, protocol s = Some c /\
    (ph (getk s' k) = PGot c false \/ ph (getk s' k) = PReg c) /\ conn_live (getc s' c) = true.
Proof.
  intros Cn E C W. simpl. unfold run_caller. cbv zeta. rewrite getk_deq, E, C.
  change (waiters (deq (IRun k) s)) with (waiters s). rewrite W. simpl is_wwoken. cbv iota.
  set (s1 := set_locked true (set_waiters (wremove k (waiters s)) (deq (IRun k) s))).
  assert (Kl : k < length (phases s1)) by (apply getk_lt; change (getk s1 k) with (getk s k); rewrite E; discriminate).
  pose proof (locked_section_good k s1 Kl) as G.
  rewrite locked_section_creates. change (connected s1) with (connected s). rewrite Cn.
  split. reflexivity.
  unfold locked_section in *. cbv zeta in *. change (connected (set_chst Connecting s1)) with (connected s) in *.
  rewrite Cn in *. simpl negb in *. cbv iota in *.
  destruct (ret_release_spec k (set_chst Connecting s1)) as (v & P & _ & Q & L & _).
  split. exact L.
  unfold good_ret in G. rewrite getk_ph in *. fold dph in *. rewrite P, nth_upd_same in *; auto.
  destruct Q as [Q|[c [Pc Q]]].
  - subst v. contradiction.
  - exists c. split. exact Pc. destruct Q as [Q|Q]; subst v; auto.
Qed.

(* ================================================================================================ *)
(* 7. close / loss terminate the registered calls                                                    *)

Lemma getk_updk_flag a f s j : getk (updk a f s) j = if Nat.eqb a j && Nat.ltb j (length (callers s)) then f (getk s j) else getk s j.
Proof. unfold getk, updk. simpl. apply nth_upd. Qed.

Lemma getk_mark a f s j : getk (mark a f s) j = getk (f s) j.
Proof. unfold getk. rewrite mark_callers. auto. Qed.

Lemma terminate1_keeps c s a j :
  ph (getk (terminate1 c s a) j) = ph (getk s j) /\
  (term (getk s j) = true -> term (getk (terminate1 c s a) j) = true).
Proof.
  unfold terminate1. destruct (ph (getk s a)); auto.
  destruct (Nat.eqb c0 c && negb (term (getk s a))); auto.
  rewrite getk_mark, getk_updk_flag. destruct (Nat.eqb a j && Nat.ltb j (length (callers s))); auto.
Qed.

Lemma terminate1_hits c s k : ph (getk s k) = PReg c -> term (getk (terminate1 c s k) k) = true.
Proof.
  intros E. unfold terminate1. rewrite E, Nat.eqb_refl. simpl andb.
  destruct (term (getk s k)) eqn:T; simpl negb; cbv iota; auto.
  rewrite getk_mark, getk_updk_flag, Nat.eqb_refl.
  assert (k < length (callers s)). { rewrite <- phases_length. apply getk_lt. rewrite E. discriminate. }
  apply Nat.ltb_lt in H. rewrite H. reflexivity.
Qed.

Lemma fold_terminate_keeps c l s j :
  ph (getk (fold_left (terminate1 c) l s) j) = ph (getk s j) /\
  (term (getk s j) = true -> term (getk (fold_left (terminate1 c) l s) j) = true).
Proof.
  revert s; induction l; intros s; simpl; auto.
  destruct (IHl (terminate1 c s a)) as [A B]. destruct (terminate1_keeps c s a j) as [A' B'].
  split. congruence. auto.
Qed.

Lemma fold_terminate_hits c l s k : In k l -> ph (getk s k) = PReg c ->
  term (getk (fold_left (terminate1 c) l s) k) = true.
Proof.
  revert s; induction l; intros s H E; simpl in *. contradiction.
  destruct H as [H|H].
  - subst a. apply fold_terminate_keeps. apply terminate1_hits. auto.
  - apply IHl; auto. destruct (terminate1_keeps c s a k) as [A _]. congruence.
Qed.

Lemma getc_updc_same c f s : c < length (conns s) -> getc (updc c f s) c = f (getc s c).
Proof. intros. unfold getc, updc. simpl. apply nth_upd_same. auto. Qed.

Lemma in_calls_lt s c k : In k (calls (getc s c)) -> c < length (conns s).
Proof.
  intros H. destruct (le_lt_dec (length (conns s)) c); auto. unfold getc in H. rewrite nth_overflow in H; auto. contradiction.
Qed.

Lemma proc_close_terminates c s k : In k (calls (getc s c)) -> ph (getk s k) = PReg c ->
  term (getk (proc_close c s) k) = true /\ ph (getk (proc_close c s) k) = PReg c.
Proof.
  intros H E. pose proof (in_calls_lt _ _ _ H) as Lc. unfold proc_close. cbv zeta. unfold terminate.
  match goal with |- context [fold_left _ ?l ?t] => set (l0 := l); set (s1 := t) end.
  assert (E1 : ph (getk s1 k) = PReg c).
  { unfold s1. destruct (closing (getc s c)). exact E.
    change (ph (getk (sched_lost c (updc c (n_closing true) s)) k) = PReg c). rewrite getk_sched_lost. exact E. }
  assert (H1 : In k l0).
  { unfold l0, s1. destruct (closing (getc s c)).
    - rewrite getc_updc_same; auto.
    - rewrite getc_updc_same. simpl. rewrite getc_sched_lost.
      rewrite getc_updc_same; auto. rewrite conns_sched_lost. unf. simpl. rewrite upd_length. auto. }
  split. apply fold_terminate_hits; auto.
  destruct (fold_terminate_keeps c l0 s1 k) as [A _]. congruence.
Qed.

(* a terminated registered call ends with StreamTerminatedError at its next step, whatever else happened *)
Lemma terminated_call_ends s k c : ph (getk s k) = PReg c -> term (getk s k) = true ->
  ph (getk (step s (Run k)) k) = PEnd (RExn ETerminated).
Proof.
  intros E T. simpl. unfold run_caller. cbv zeta. rewrite getk_deq, E, T.
  rewrite getk_ph. unfold endc. rewrite phases_setph. fold dph. apply nth_upd_same.
  change (phases (updc c (fun y => n_calls (remove_nat k (calls y)) y) (deq (IRun k) s))) with (phases s).
  apply getk_lt. rewrite E. discriminate.
Qed.

(* ---- (T6 partial) Channel.close() cancels the wrapper of every REGISTERED call ------------------- *)
Lemma close_cancels_registered s c k :
  protocol s = Some c -> In k (calls (getc s c)) -> ph (getk s k) = PReg c ->
  let s' := step s ChClose in
  protocol s' = None /\ term (getk s' k) = true /\ ph (getk s' k) = PReg c /\
  ph (getk (step s' (Run k)) k) = PEnd (RExn ETerminated).
Proof.
  intros P H E. cbv zeta.
  assert (X : protocol (step s ChClose) = None /\ term (getk (step s ChClose) k) = true /\
              ph (getk (step s ChClose) k) = PReg c).
  { simpl. rewrite P. destruct (proc_close_terminates c s k H E) as [A B]. repeat split; auto. }
  destruct X as (A & B & C). repeat split; auto. eapply terminated_call_ends; eauto.
Qed.

(* the same for connection_lost and GOAWAY *)
Lemma loss_cancels_registered s c k :
  delivered (getc s c) = false -> In k (calls (getc s c)) -> ph (getk s k) = PReg c ->
  term (getk (step s (Lose c)) k) = true /\ ph (getk (step s (Lose c)) k) = PReg c.
Proof.
  intros D H E. pose proof (in_calls_lt _ _ _ H) as Lc. simpl. unfold conn_lost. cbv zeta.
  change (length (conns (deq (ILost c) s))) with (length (conns s)). apply Nat.ltb_lt in Lc. rewrite Lc.
  change (getc (deq (ILost c) s) c) with (getc s c). rewrite D. unfold terminate.
  apply Nat.ltb_lt in Lc.
  match goal with |- context [fold_left _ ?l ?t] => set (l0 := l); set (s1 := t) end.
  assert (H1 : In k l0). { unfold l0, s1. rewrite getc_updc_same; auto. }
  assert (E1 : ph (getk s1 k) = PReg c) by exact E.
  split. apply fold_terminate_hits; auto. destruct (fold_terminate_keeps c l0 s1 k) as [A _]. congruence.
Qed.

Lemma goaway_cancels_registered s c k :
  valid_open s c = true -> In k (calls (getc s c)) -> ph (getk s k) = PReg c ->
  term (getk (step s (GoAway c)) k) = true /\ ph (getk (step s (GoAway c)) k) = PReg c.
Proof.
  intros V H E. pose proof (in_calls_lt _ _ _ H) as Lc. simpl. rewrite V.
  apply proc_close_terminates. rewrite getc_updc_same; auto. exact E.
Qed.

(* ================================================================================================ *)
(* 8. after loss / close the next call opens exactly one new connection; the channel stays usable     *)

(* no call is inside Channel.__connect__ *)
Definition quiet (s : state) : Prop :=
  waiters s = [] /\ locked s = false /\ forall k, connect_phase (ph (getk s k)) = false.

Lemma inv_live_le1 s : Inv s -> live_connections s <= 1.
Proof.
  intros I. unfold live_connections. replace (count conn_live (conns s)) with (count (fun b : bool => b) (lives s)).
  2: { unfold lives. rewrite count_map. auto. }
  apply count_unique with (d := false). intros i j _ _ Hi Hj. eapply live_unique; eauto.
Qed.

(* -- the four steps of a fresh call on an unconnected, quiet channel, one lemma per step, each about an
      arbitrary state (keeps the terms small) *)
Record agree (s s' : state) : Prop := {
  ag_protocol : protocol s' = protocol s; ag_conns : conns s' = conns s; ag_locked : locked s' = locked s;
  ag_waiters : waiters s' = waiters s; ag_script : script s' = script s; ag_creates : creates s' = creates s }.

Lemma fc_start s : let n := length (callers s) in
  agree s (step s Start) /\ getk (step s Start) n = new_caller /\ length (callers (step s Start)) = S n.
Proof.
  cbv zeta. split; [constructor; reflexivity|]. split.
  - unfold getk. simpl. apply nth_app_new.
  - simpl. rewrite app_length. simpl. lia.
Qed.

Lemma fc_first s n :
  getk s n = new_caller -> n < length (callers s) -> connected s = false -> locked s = false -> waiters s = [] ->
  hd (OOk, false) (script s) = (OOk, false) ->
  let s' := step s (Run n) in
  getk s' n = c_ph (PAttempt (AFlight OOk)) new_caller /\ conns s' = conns s /\ protocol s' = protocol s /\
  creates s' = S (creates s) /\ waiters s' = [] /\ length (callers s') = length (callers s).
Proof.
  intros G Ln Cn L W Sc. cbv zeta. simpl step. unfold run_caller. cbv zeta. rewrite getk_deq, G.
  simpl ph. simpl cancelp. cbv iota. unfold enter.
  change (connected (deq (IRun n) s)) with (connected s). rewrite Cn.
  unfold lock_free. change (locked (deq (IRun n) s)) with (locked s). change (waiters (deq (IRun n) s)) with (waiters s).
  rewrite L, W. simpl andb. cbv iota. unfold locked_section. cbv zeta.
  change (connected (set_chst Connecting (set_locked true (deq (IRun n) s)))) with (connected s). rewrite Cn.
  simpl negb. cbv iota. unfold attempt.
  change (script (set_chst Connecting (set_locked true (deq (IRun n) s)))) with (script s). rewrite Sc. cbv zeta iota.
  unfold setph, updk, getk. simpl callers. simpl conns. simpl protocol. simpl creates. simpl waiters.
  rewrite nth_upd_same, upd_length; auto. fold (getk s n). rewrite G. repeat split; auto.
Qed.

Lemma fc_resolve s n x :
  getk s n = x -> ph x = PAttempt (AFlight OOk) -> n < length (callers s) ->
  let s' := step s (Resolve n) in
  getk s' n = c_ph (PAttempt (AOk (length (conns s)))) x /\ conns s' = conns s ++ [fresh_conn] /\
  protocol s' = protocol s /\ creates s' = creates s /\ waiters s' = waiters s /\
  length (callers s') = length (callers s).
Proof.
  intros G P Ln. cbv zeta. simpl step. rewrite G, P. unfold new_conn, setph, updk, getk.
  simpl callers. simpl conns. simpl protocol. simpl creates. simpl waiters.
  rewrite nth_upd_same, upd_length; auto. fold (getk s n). rewrite G. repeat split; auto.
Qed.

Lemma fc_owner s n x c :
  getk s n = x -> ph x = PAttempt (AOk c) -> cancelp x = false -> n < length (callers s) ->
  c < length (conns s) -> getc s c = fresh_conn -> waiters s = [] ->
  let s' := step s (Run n) in
  getk s' n = c_ph (PReg c) x /\ protocol s' = Some c /\ getc s' c = n_calls [n] fresh_conn /\
  creates s' = creates s /\ locked s' = false /\ length (conns s') = length (conns s) /\
  length (callers s') = length (callers s).
Proof.
  intros G P C Ln Lc Gc W. cbv zeta. simpl step. unfold run_caller. cbv zeta. rewrite getk_deq, G, P, C.
  unfold finish_ok, ret. rewrite release_protocol. simpl protocol. cbv iota. unfold proceed. cbv zeta.
  match goal with |- context [closing (getc ?t c)] => assert (GC : getc t c = fresh_conn) end.
  { unfold getc. rewrite release_conns. exact Gc. }
  rewrite GC. simpl closing. simpl paused. cbv iota. unfold register.
  match goal with |- context [release ?t] => set (s1 := t) end.
  assert (R1 : callers (release s1) = callers s) by (rewrite release_callers; reflexivity).
  assert (R2 : conns (release s1) = conns s) by (rewrite release_conns; reflexivity).
  assert (R3 : protocol (release s1) = Some c) by (rewrite release_protocol; reflexivity).
  assert (R4 : creates (release s1) = creates s) by (rewrite release_creates; reflexivity).
  assert (R5 : locked (release s1) = false) by apply release_locked.
  clear GC. clearbody s1. generalize dependent (release s1). intros r R1 R2 R3 R4 R5.
  unfold setph, updk, updc, getk, getc. simpl callers. simpl conns. simpl protocol. simpl creates. simpl locked.
  rewrite R1, R2, R3, R4, R5, !upd_length, !nth_upd_same; auto.
  fold (getk s n). fold (getc s c). rewrite G, Gc. repeat split; auto.
Qed.

Lemma fc_answer s n x c :
  getk s n = x -> ph x = PReg c -> answered x = false -> n < length (callers s) -> valid_open s c = true ->
  let s' := step s (Answer n) in
  getk s' n = c_answered true x /\ conns s' = conns s /\ protocol s' = protocol s /\ creates s' = creates s.
Proof.
  intros G P A Ln V. cbv zeta. simpl step. rewrite G, P, V, A. simpl andb. cbv iota.
  rewrite getk_mark, mark_conns, mark_protocol, mark_creates, getk_updk_flag, Nat.eqb_refl.
  apply Nat.ltb_lt in Ln. rewrite Ln, G. auto.
Qed.

Lemma fc_done s n x c :
  getk s n = x -> ph x = PReg c -> term x = false -> cancelp x = false -> answered x = true ->
  n < length (callers s) ->
  let s' := step s (Run n) in
  ph (getk s' n) = PEnd (ROk c) /\ protocol s' = protocol s /\ creates s' = creates s /\ lives s' = lives s.
Proof.
  intros G P T C A Ln. cbv zeta. simpl step. unfold run_caller. cbv zeta. rewrite getk_deq, G, P, T, C, A.
  repeat split.
  - unfold endc, setph, updk, getk. simpl callers. rewrite nth_upd_same; auto.
  - rewrite lives_endc, lives_updc_same. reflexivity. intros []; reflexivity.
Qed.

Lemma fresh_call_connects s :
  Inv s -> quiet s -> connected s = false -> hd (OOk, false) (script s) = (OOk, false) ->
  let n := length (callers s) in let c := length (conns s) in
  let s' := run [Start; Run n; Resolve n; Run n] s in
  creates s' = S (creates s) /\ protocol s' = Some c /\ ph (getk s' n) = PReg c /\
  conn_live (getc s' c) = true /\ live_connections s' = 1 /\ locked s' = false /\
  In n (calls (getc s' c)) /\ getk s' n = c_ph (PReg c) new_caller /\ getc s' c = n_calls [n] fresh_conn /\
  length (callers s') = S n /\ length (conns s') = S c.
Proof.
  intros I (QW & QL & QP) Cn Sc n c.
  change (run [Start; Run n; Resolve n; Run n] s) with (step (step (step (step s Start) (Run n)) (Resolve n)) (Run n)).
  destruct (fc_start s) as (A1 & G1 & L1). fold n in G1, L1.
  assert (I1 : Inv (step s Start)) by (apply step_inv; auto).
  destruct A1 as [a1 a2 a3 a4 a5 a6].
  remember (step s Start) as s1 eqn:Hs1. clear Hs1.
  assert (Cn1 : connected s1 = false). { unfold connected, getc in *. rewrite a1, a2. exact Cn. }
  destruct (fc_first s1 n G1 ltac:(lia) Cn1 ltac:(congruence) ltac:(congruence) ltac:(congruence))
    as (G2 & C2 & P2 & Cr2 & W2 & L2).
  assert (I2 : Inv (step s1 (Run n))) by (apply step_inv; auto).
  remember (step s1 (Run n)) as s2 eqn:Hs2. clear Hs2.
  destruct (fc_resolve s2 n _ G2 eq_refl ltac:(lia)) as (G3 & C3 & P3 & Cr3 & W3 & L3).
  assert (I3 : Inv (step s2 (Resolve n))) by (apply step_inv; auto).
  remember (step s2 (Resolve n)) as s3 eqn:Hs3. clear Hs3.
  assert (Ec : length (conns s2) = c) by (unfold c; congruence).
  rewrite Ec in G3.
  assert (Gc3 : getc s3 c = fresh_conn).
  { unfold getc. rewrite C3, <- Ec. apply nth_app_new. }
  destruct (fc_owner s3 n _ c G3 eq_refl eq_refl ltac:(lia) ltac:(rewrite C3, app_length; simpl; lia) Gc3 ltac:(congruence))
    as (G4 & P4 & Gc4 & Cr4 & L4 & Lc4 & Ln4).
  assert (I4 : Inv (step s3 (Run n))) by (apply step_inv; auto).
  remember (step s3 (Run n)) as s4 eqn:Hs4. clear Hs4.
  assert (LC : conn_live (getc s4 c) = true) by (rewrite Gc4; reflexivity).
  repeat split; auto.
  - lia.
  - rewrite G4. reflexivity.
  - assert (1 <= live_connections s4).
    { unfold live_connections. apply count_pos with (d := dead_conn) (n := c); auto.
      rewrite Lc4, C3, app_length. simpl. lia. }
    pose proof (inv_live_le1 s4 I4). lia.
  - rewrite Gc4. simpl. auto.
  - lia.
  - rewrite Lc4, C3, app_length. simpl. lia.
Qed.

Lemma chclose_quiet s : quiet s -> quiet (step s ChClose) /\ connected (step s ChClose) = false /\
  script (step s ChClose) = script s /\ length (callers (step s ChClose)) = length (callers s) /\
  length (conns (step s ChClose)) = length (conns s) /\ creates (step s ChClose) = creates s.
Proof.
  intros (QW & QL & QP). simpl. destruct (protocol s) eqn:Pr.
  - destruct (proc_close_spec n s) as (A & B & C & D & E & F & G & H).
    assert (LN : length (callers (proc_close n s)) = length (callers s)) by (rewrite <- !phases_length; congruence).
    unfold quiet. simpl. rewrite C, D, G, E, H, upd_length, LN. repeat split; auto.
    intros k. rewrite getk_ph.
    change (phases (set_chst Idle (set_protocol None (proc_close n s)))) with (phases (proc_close n s)).
    rewrite A, <- getk_ph. auto.
  - unfold quiet, connected. simpl. rewrite Pr. repeat split; auto.
Qed.

Lemma run_cons o l s : run (o :: l) s = run l (step s o).
Proof. reflexivity. Qed.
Lemma run_nil s : run [] s = s.
Proof. reflexivity. Qed.
Lemma run_app l1 l2 s : run (l1 ++ l2) s = run l2 (run l1 s).
Proof. unfold run. apply fold_left_app. Qed.

Lemma fc_complete s4 n c :
  ph (getk s4 n) = PReg c -> conn_live (getc s4 c) = true -> getk s4 n = c_ph (PReg c) new_caller ->
  getc s4 c = n_calls [n] fresh_conn -> length (callers s4) = S n -> length (conns s4) = S c ->
  let s' := step (step s4 (Answer n)) (Run n) in
  creates s' = creates s4 /\ protocol s' = protocol s4 /\ ph (getk s' n) = PEnd (ROk c) /\
  conn_live (getc s' c) = true.
Proof.
  intros PH LC GK GC LnK LcK. cbv zeta.
  assert (V : valid_open s4 c = true).
  { unfold valid_open. rewrite GC. assert (c < length (conns s4)) by lia. apply Nat.ltb_lt in H. rewrite H. reflexivity. }
  destruct (fc_answer s4 n _ c GK eq_refl eq_refl ltac:(lia) V) as (G5 & C5 & P5 & Cr5).
  assert (L5 : length (callers (step s4 (Answer n))) = length (callers s4)).
  { simpl step. rewrite PH, V, GK. simpl andb. cbv iota. rewrite mark_callers. unfold updk. simpl. apply upd_length. }
  remember (step s4 (Answer n)) as s5 eqn:Hs5. clear Hs5.
  destruct (fc_done s5 n _ c G5 eq_refl eq_refl eq_refl eq_refl ltac:(lia)) as (PH6 & P6 & Cr6 & Lv6).
  split; [rewrite Cr6, Cr5; reflexivity|]. split; [rewrite P6, P5; reflexivity|]. split; [exact PH6|].
  rewrite live_getc, Lv6. unfold lives. rewrite C5. fold (lives s4). rewrite <- live_getc. exact LC.
Qed.

Lemma fresh_call_completes s n c :
  Inv s -> quiet s -> connected s = false -> hd (OOk, false) (script s) = (OOk, false) ->
  n = length (callers s) -> c = length (conns s) ->
  let s' := run ([Start; Run n; Resolve n; Run n] ++ [Answer n; Run n]) s in
  creates s' = S (creates s) /\ protocol s' = Some c /\ ph (getk s' n) = PEnd (ROk c) /\
  conn_live (getc s' c) = true.
Proof.
  intros I Q Cn Sc Hn Hc. cbv zeta. rewrite run_app, (run_cons (Answer n) [Run n]), (run_cons (Run n) []), run_nil.
  pose proof (fresh_call_connects s I Q Cn Sc) as F. cbv zeta in F. rewrite <- Hn, <- Hc in F.
  destruct F as (Cr & Pr & PH & LC & _ & _ & _ & GK & GC & LnK & LcK).
  pose proof (fc_complete _ n c PH LC GK GC LnK LcK) as G. cbv zeta in G.
  destruct G as (G1 & G2 & G3 & G4). rewrite G1, G2. auto.
Qed.

(* ---- (T7) the channel remains usable after close(): a fresh call reconnects (exactly one new
        connection) and completes *)
Lemma usable_after_close s :
  Inv s -> quiet s -> hd (OOk, false) (script s) = (OOk, false) ->
  let n := length (callers s) in let c := length (conns s) in
  let s' := run ([Start; Run n; Resolve n; Run n] ++ [Answer n; Run n]) (step s ChClose) in
  creates s' = S (creates s) /\ protocol s' = Some c /\ ph (getk s' n) = PEnd (ROk c) /\
  conn_live (getc s' c) = true.
Proof.
  intros I Q Sc n c.
  destruct (chclose_quiet s Q) as (Q0 & Cn0 & Sc0 & Ln0 & Lc0 & Cr0).
  assert (I0 : Inv (step s ChClose)) by (apply step_inv; auto).
  rewrite <- Sc0 in Sc.
  pose proof (fresh_call_completes (step s ChClose) n c I0 Q0 Cn0 Sc (eq_sym Ln0) (eq_sym Lc0)) as F. cbv zeta in F.
  rewrite Cr0 in F. exact F.
Qed.

(* ================================================================================================ *)
(* 9. the FIFO schedules used by the correspondence check are schedules (op lists) of `step`         *)

Lemma drain_is_run fuel s : snd (drain fuel s) = run (fst (drain fuel s)) s.
Proof.
  revert s; induction fuel; intros s; simpl; auto.
  destruct (rq s) as [|i r] eqn:E; simpl; auto.
  specialize (IHfuel (step s (item_op i))). destruct (drain fuel (step s (item_op i))) as [l s'].
  simpl in *. auto.
Qed.

Lemma apply_stims_is_run b : forall acc,
  snd (fold_left (fun acc t => let ops := stim_ops (snd acc) t in (fst acc ++ ops, run ops (snd acc))) b acc) =
  run (skipn (length (fst acc)) (fst (fold_left (fun acc t => let ops := stim_ops (snd acc) t in (fst acc ++ ops, run ops (snd acc))) b acc))) (snd acc).
Proof.
  induction b; intros [l s]; simpl.
  - rewrite skipn_all. reflexivity.
  - rewrite IHb. simpl. clear IHb.
    set (F := fold_left _ b _).
    assert (P : exists t, fst F = (l ++ stim_ops s a) ++ t).
    { unfold F. clear F. generalize (l ++ stim_ops s a) (run (stim_ops s a) s). clear. induction b; intros l s; simpl.
      - exists []. rewrite app_nil_r. auto.
      - destruct (IHb (l ++ stim_ops s a) (run (stim_ops s a) s)) as [t H]. rewrite H. exists (stim_ops s a ++ t).
        rewrite !app_assoc. auto. }
    destruct P as [t P]. rewrite P.
    rewrite skipn_app, skipn_all, Nat.sub_diag. simpl.
    rewrite <- app_assoc, skipn_app, skipn_all, Nat.sub_diag. simpl.
    unfold run at 3. rewrite fold_left_app. reflexivity.
Qed.

Lemma batch_is_run s b : snd (batch s b) = run (fst (batch s b)) s.
Proof.
  unfold batch, apply_stims. pose proof (apply_stims_is_run b ([], s)) as H. simpl in H.
  destruct (fold_left _ b ([], s)) as [l1 s1]. simpl in H.
  pose proof (drain_is_run 4000 s1) as D. destruct (drain 4000 s1) as [l2 s2]. simpl in *.
  rewrite D, H. unfold run. rewrite fold_left_app. reflexivity.
Qed.
