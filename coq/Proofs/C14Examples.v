(* Non-vacuity examples for C14: the hypotheses of the theorems are satisfiable by non-trivial
   inputs, the model computes on them what Python computes (values pasted from a run of the real
   functions), and the predicates really exclude what the property calls invalid.
   Everything here is decided by vm_compute. *)
From Coq Require Import String ZArith List Bool.
From GV Require Import Lib.Str Gen.Facts Model.Base64 Model.Metadata Model.Utf8 Model.Percent
  Model.StatusWire.
Import ListNotations.
Open Scope Z_scope.

(* '100% é\r\n😀 %41€\x00~' : '%', CR LF, NUL, non-BMP, text that looks like an escape, all four
   UTF-8 length classes *)
Definition ex_msg : list Z :=
  [49; 48; 48; 37; 32; 233; 13; 10; 128512; 32; 37; 52; 49; 8364; 0; 126].

Example ex_msg_scalar : scalars_ok ex_msg = true.
Proof. vm_compute; reflexivity. Qed.

(* encode_grpc_message(...) == '100%25 %C3%A9%0D%0A%F0%9F%98%80 %2541%E2%82%AC%00~' *)
Example ex_msg_encoded :
  encode_grpc_message ex_msg = Some (s2z "100%25 %C3%A9%0D%0A%F0%9F%98%80 %2541%E2%82%AC%00~").
Proof. vm_compute; reflexivity. Qed.

Example ex_msg_back :
  decode_grpc_message (s2z "100%25 %C3%A9%0D%0A%F0%9F%98%80 %2541%E2%82%AC%00~") = ex_msg.
Proof. vm_compute; reflexivity. Qed.

Example ex_msg_wire :
  well_escaped (s2z "100%25 %C3%A9%0D%0A%F0%9F%98%80 %2541%E2%82%AC%00~") = true.
Proof. vm_compute; reflexivity. Qed.

(* the boundaries of the four length classes and of the surrogate gap *)
Example ex_boundaries :
  map utf8_enc1 [127; 128; 2047; 2048; 55295; 57344; 65535; 65536; 1114111] =
  [[127]; [194; 128]; [223; 191]; [224; 160; 128]; [237; 159; 191]; [238; 128; 128];
   [239; 191; 191]; [240; 144; 128; 128]; [244; 143; 191; 191]].
Proof. vm_compute; reflexivity. Qed.

(* lone surrogates (also when they form a UTF-16 pair) are refused: UnicodeEncodeError *)
Example ex_surrogate_refused :
  scalars_ok [97; 55296] = false /\ encode_grpc_message [97; 55296] = None /\
  encode_grpc_message [55357; 56832] = None.
Proof. vm_compute; repeat split; reflexivity. Qed.

(* well_escaped refuses what the property forbids on the wire *)
Example ex_not_well_escaped :
  map well_escaped [s2z "%"; s2z "%4"; s2z "%4a"; s2z "%zz"; [10]; [127]; [233]; s2z "ok %41"] =
  [false; false; false; false; false; false; false; true].
Proof. vm_compute; reflexivity. Qed.

(* received values: broken escapes stay literally, escapes that are not UTF-8 become U+FFFD the
   way CPython replaces them, lower-case hex digits are accepted, characters that are not ASCII
   are kept *)
Example ex_received :
  map decode_grpc_message
      [s2z "%C3"; s2z "%zz%"; s2z "%ED%A0%80"; s2z "%e2%82%ac"; s2z "%F0%9F%98"; s2z "a%2";
       s2z "%C3%A9" ++ [20013] ++ s2z "%41"; []] =
  [[65533]; [37; 122; 122; 37]; [65533; 65533; 65533]; [8364]; [65533]; [97; 37; 50];
   [233; 20013; 65]; []].
Proof. vm_compute; reflexivity. Qed.

(* NOT_FOUND with a message and details bytes: hypotheses of the round trip, and the trailers *)
Definition ex_details : list Z := [8; 5; 18; 1; 109].     (* google.rpc.Status(code=5, message='m') *)

Example ex_status_hyps :
  In 5 status_values /\ 5 <> status_ok /\ msg_valid (Some ex_msg) = true /\
  det_valid (Some ex_details) = true.
Proof. vm_compute. repeat split; auto 10; discriminate. Qed.

Example ex_trailers :
  status_trailers true 5 (Some (s2z "a%b")) (Some ex_details) =
  Some [(s2z "grpc-status", s2z "5"); (s2z "grpc-message", s2z "a%25b");
        (s2z "grpc-status-details-bin", s2z "CAUSAW0")].
Proof. vm_compute; reflexivity. Qed.

Example ex_client :
  process_grpc_status true
    [(s2z "grpc-status", s2z "5"); (s2z "grpc-message", s2z "a%25b");
     (s2z "grpc-status-details-bin", s2z "CAUSAW0")] =
  CStatus 5 (Some (s2z "a%b")) (Some ex_details).
Proof. vm_compute; reflexivity. Qed.

(* None and the empty message are different reports and stay different *)
Example ex_none_vs_empty :
  status_trailers true 5 None None = Some [(s2z "grpc-status", s2z "5")] /\
  status_trailers true 5 (Some []) None = Some [(s2z "grpc-status", s2z "5"); (s2z "grpc-message", [])] /\
  process_grpc_status true [(s2z "grpc-status", s2z "5")] = CStatus 5 None None /\
  process_grpc_status true [(s2z "grpc-status", s2z "5"); (s2z "grpc-message", [])] = CStatus 5 (Some []) None.
Proof. vm_compute; repeat split; reflexivity. Qed.

(* every member of Status renders and parses (the finite fact behind the round trip) *)
Example ex_all_members :
  map (fun n => py_int (decimal n)) status_values = map Some status_values /\
  length status_values = 17%nat.
Proof. vm_compute; split; reflexivity. Qed.

(* a complete trailers-only block: protocol headers, status, user metadata *)
Example ex_block :
  status_free [(s2z ":status", s2z "200"); (s2z "content-type", s2z "application/grpc+proto")] = true /\
  md_typed [(s2z "x-k", VStr (s2z "v")); (s2z "blob-bin", VBytes [255])] = true /\
  encode_metadata [(s2z "x-k", VStr (s2z "v")); (s2z "blob-bin", VBytes [255])] =
    Ok [(s2z "x-k", s2z "v"); (s2z "blob-bin", s2z "/w")].
Proof. vm_compute; repeat split; reflexivity. Qed.

(* the client's int() on what a peer may send as grpc-status *)
Example ex_py_int :
  map py_int [s2z "5"; s2z " 5"; s2z "+5"; s2z "05"; s2z "1_6"; s2z "5 "; s2z "-1"; s2z "";
              s2z "x"; s2z "5_"; s2z "_5"; s2z "1__0"; s2z "+ 5"; s2z "5.0"] =
  [Some 5; Some 5; Some 5; Some 5; Some 16; Some 5; Some (-1); None; None; None; None; None;
   None; None].
Proof. vm_compute; reflexivity. Qed.

Example ex_client_errors :
  process_grpc_status true [] = CMissing /\
  process_grpc_status true [(s2z "grpc-status", s2z "99")] = CInvalid /\
  process_grpc_status true [(s2z "grpc-status", s2z "x")] = CInvalid /\
  (* duplicates: dict(headers) keeps the last *)
  process_grpc_status true [(s2z "grpc-status", s2z "5"); (s2z "grpc-status", s2z "7")] = CStatus 7 None None /\
  (* malformed base64 / non-ASCII details: the status survives, details are None *)
  process_grpc_status true [(s2z "grpc-status", s2z "5"); (s2z "grpc-status-details-bin", s2z "A")] = CStatus 5 None None /\
  process_grpc_status true [(s2z "grpc-status", s2z "5"); (s2z "grpc-status-details-bin", [233])] = CStatus 5 None None.
Proof. vm_compute; repeat split; reflexivity. Qed.
