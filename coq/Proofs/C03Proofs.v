(* Proofs for Props/C03.v: one server-side call (Model/ServerCall.v).
   Axiom-free; every lemma used by Props/C03.v is closed under the global context. *)
From Coq Require Import String ZArith List Bool Lia.
From GV Require Import Lib.Str Gen.Facts Gen.FactsC03 Model.Base64 Model.Metadata Model.ServerCall
  Gen.FactsC03Probes.
Import ListNotations.
Open Scope Z_scope.

(* ------------------------------------------------------------------------------------------------ *)
(** * What the generated facts say (re-checked against /repo on every run) *)

Definition internal_msg : list Z := s2z "Internal Server Error".

Lemma aexit_constants :
  aexit_exception = (2, Some internal_msg) /\ aexit_unary_missing = (2, Some internal_msg) /\
  aexit_normal = (0, None) /\ deadline_status_failed = 4 /\ deadline_status_cancelled = 4 /\ status_ok = 0 /\
  aexit_grpc_ok_unary_as_exception = true /\ aexit_base_propagates = true.
Proof. repeat split; reflexivity. Qed.

(* order, guards, HTTP status, grpc-status and message of the early aborts of request_handler *)
Lemma abort_table_is :
  abort_table =
  [ (GetNe (s2z ":method") (s2z "POST"), 405, None, None);
    (IsNone (s2z "content-type"), 415, Some 2, Some (s2z "Missing content-type header"));
    (CtMismatch, 415, Some 2, Some (s2z "Unacceptable content-type header"));
    (GetNe (s2z "te") (s2z "trailers"), 400, Some 2,
     Some [82; 101; 113; 117; 105; 114; 101; 100; 32; 34; 116; 101; 58; 32; 116; 114; 97; 105; 108; 101; 114;
           115; 34; 32; 104; 101; 97; 100; 101; 114; 32; 105; 115; 32; 109; 105; 115; 115; 105; 110; 103]);
    (UnknownPath, 200, Some 12, Some (s2z "Method not found"));
    (TryValueError (s2z "Deadline.from_headers"), 200, Some 2, Some (s2z "Invalid grpc-timeout header"));
    (TryValueError (s2z "decode_metadata"), 200, Some 2, Some (s2z "Invalid metadata")) ].
Proof. reflexivity. Qed.

(* every early abort is an error response: an HTTP error status, or a non-OK grpc-status *)
Definition error_response (h : Z) (gs : option Z) : bool :=
  negb (h =? 200) || match gs with Some g => negb (g =? status_ok) | None => false end.

Lemma abort_entries_are_errors :
  forallb (fun e : abort_entry => let '(_, h, gs, _) := e in error_response h gs) abort_table = true.
Proof. vm_compute. reflexivity. Qed.

Lemma wire_constants :
  grpc_content_type = s2z "application/grpc" /\ proto_subtype = s2z "proto" /\
  content_type_value proto_subtype = s2z "application/grpc+proto" /\
  abort_header_names = [s2z ":status"; s2z "grpc-status"; s2z "grpc-message"].
Proof. repeat split; reflexivity. Qed.

(* ------------------------------------------------------------------------------------------------ *)
(** * The invariant: flags <-> monitor state *)

Definition open_side (h : h2s) : bool := match h with HOpen | HRemote => true | _ => false end.

Definition invb (s : sstate) (m : mon) : bool :=
  match m with
  | M0 => negb (init_done s) && negb (msg_done s) && negb (trail_done s) && negb (cancel_done s) && open_side (hst s)
  | MH => init_done s && negb (trail_done s) && negb (cancel_done s) && open_side (hst s)
  | MT => trail_done s && negb (cancel_done s) && negb (open_side (hst s))
  | MR => (trail_done s || cancel_done s) && negb (closable (hst s))
  | MBad => false
  end.

Lemma invb_safe s m : invb s m = true -> mon_safe m = true.
Proof. destruct m; cbn; congruence. Qed.

Lemma mon_run_app m a b : mon_run m (a ++ b) = mon_run (mon_run m a) b.
Proof. unfold mon_run. apply fold_left_app. Qed.

Ltac bust s := destruct s as [i ms tr cn h rc sl fi pz]; destruct i, ms, tr, cn, h.

Lemma send_initial_inv s m s' out r :
  invb s m = true -> send_initial s = (s', out, r) -> invb s' (mon_run m out) = true.
Proof.
  intros Hi Hs. bust s; destruct m; cbn in Hi; try discriminate Hi;
    cbn in Hs; inversion Hs; subst; reflexivity.
Qed.

Lemma send_message_inv c s m s' out r :
  invb s m = true -> send_message c s = (s', out, r) -> invb s' (mon_run m out) = true.
Proof.
  intros Hi Hs. bust s; destruct m; cbn in Hi; try discriminate Hi;
    destruct c; cbn in Hs; inversion Hs; subst; reflexivity.
Qed.

Lemma send_trailing_inv c s st msg m s' out r :
  invb s m = true -> send_trailing c s st msg = (s', out, r) -> invb s' (mon_run m out) = true.
Proof.
  intros Hi Hs. unfold send_trailing in Hs.
  bust s; destruct m; cbn in Hi; try discriminate Hi;
    destruct c; cbn in Hs; destruct (st =? status_ok); cbn in Hs; inversion Hs; subst; reflexivity.
Qed.

Lemma cancel_inv s m s' out r :
  invb s m = true -> cancel s = (s', out, r) -> invb s' (mon_run m out) = true.
Proof.
  intros Hi Hs. bust s; destruct m; cbn in Hi; try discriminate Hi;
    cbn in Hs; inversion Hs; subst; reflexivity.
Qed.

(* the calls as the handler makes them (part-way failures, paused transport) *)
Lemma do_send_initial_inv s f m s' out r :
  invb s m = true -> do_send_initial s f = PDone s' out r -> invb s' (mon_run m out) = true.
Proof.
  intros Hi H. unfold do_send_initial in H.
  destruct (init_done s); [inversion H; subst; exact Hi|].
  destruct f; [inversion H; subst; exact Hi|].
  destruct (paused s); [discriminate|].
  destruct (send_initial s) as [[s1 o1] r1] eqn:E. inversion H; subst. eapply send_initial_inv; eauto.
Qed.

Lemma do_send_message_inv c s f m s' out r :
  invb s m = true -> do_send_message c s f = PDone s' out r -> invb s' (mon_run m out) = true.
Proof.
  intros Hi H. unfold do_send_message in H.
  destruct (paused s).
  { destruct (negb (init_done s)); [discriminate|].
    destruct (negb (server_streaming c) && msg_done s); [inversion H; subst; exact Hi|].
    destruct f; [inversion H; subst; exact Hi | discriminate]. }
  destruct f.
  - destruct (init_done s) eqn:Ei.
    + destruct (negb (server_streaming c) && msg_done s); inversion H; subst; exact Hi.
    + destruct (send_initial s) as [[s1 o1] r1] eqn:E.
      pose proof (send_initial_inv _ _ _ _ _ Hi E) as Hi1.
      destruct r1; try (inversion H; subst; exact Hi1).
      destruct (negb (server_streaming c) && msg_done s1); inversion H; subst; exact Hi1.
  - destruct (send_message c s) as [[s1 o1] r1] eqn:E. inversion H; subst. eapply send_message_inv; eauto.
Qed.

Lemma do_send_trailing_inv c s st msg f m s' out r :
  invb s m = true -> do_send_trailing c s st msg f = PDone s' out r -> invb s' (mon_run m out) = true.
Proof.
  intros Hi H. unfold do_send_trailing in H.
  destruct (trailing_refused c s st); [inversion H; subst; exact Hi|].
  destruct f; [inversion H; subst; exact Hi|].
  destruct (paused s); [discriminate|].
  destruct (send_trailing c s st msg) as [[s1 o1] r1] eqn:E. inversion H; subst. eapply send_trailing_inv; eauto.
Qed.

Lemma do_cancel_inv s m s' out r :
  invb s m = true -> do_cancel s = PDone s' out r -> invb s' (mon_run m out) = true.
Proof.
  intros Hi H. unfold do_cancel in H.
  destruct (cancel_done s); [inversion H; subst; exact Hi|].
  destruct (paused s); [discriminate|].
  destruct (cancel s) as [[s1 o1] r1] eqn:E. inversion H; subst. eapply cancel_inv; eauto.
Qed.

(* the invariant looks at the four flags and the h2 state only *)
Definition same_core (a b : sstate) : Prop :=
  init_done a = init_done b /\ msg_done a = msg_done b /\ trail_done a = trail_done b /\
  cancel_done a = cancel_done b /\ hst a = hst b.

Lemma invb_core a b m : same_core a b -> invb a m = invb b m.
Proof.
  intros (H1 & H2 & H3 & H4 & H5). destruct m; unfold invb; rewrite ?H1, ?H2, ?H3, ?H4, ?H5; reflexivity.
Qed.

Definition same_flags (a b : sstate) : Prop :=
  init_done a = init_done b /\ msg_done a = msg_done b /\ trail_done a = trail_done b /\
  cancel_done a = cancel_done b.

(* a delivered event changes no flag; only a (non-void) client reset touches the h2 state: it closes it *)
Lemma deliver_spec t e s w s1 oc :
  deliver t e s w = (s1, oc) ->
  same_flags s s1 /\ recvd s1 = recvd s /\ sleeps s1 = sleeps s /\
  (oc = Some CReset -> hst s1 = HClosed /\ closable (hst s) = true) /\
  (oc <> Some CReset -> hst s1 = hst s).
Proof.
  unfold deliver. intros H.
  destruct (negb (w || match e_ext_at e with Some k => Nat.eqb k (sleeps s) | None => false end)).
  { inversion H; subst. repeat split; congruence. }
  destruct (e_ext e).
  - destruct t; inversion H; subst; cbn; repeat split; congruence.
  - destruct (fired s).
    + destruct (w && match t with TValid => true | _ => false end); inversion H; subst;
        repeat split; congruence.
    + destruct (closable (hst s)) eqn:Ec.
      * inversion H; subst. cbn. repeat split; congruence.
      * destruct (w && match t with TValid => true | _ => false end); inversion H; subst; cbn;
          repeat split; congruence.
  - destruct (fired s).
    + destruct (w && match t with TValid => true | _ => false end); inversion H; subst;
        repeat split; congruence.
    + inversion H; subst. cbn. repeat split; congruence.
Qed.

Ltac core_tac H :=
  repeat split; cbn; try congruence;
  try (apply H; discriminate); try (symmetry; apply H; discriminate).

Definition is_reset (st : stop) : bool := match st with Interrupted CReset => true | _ => false end.

(* Induction over handler programs of any length: the frames emitted so far never drive the monitor into
   MBad, and -- unless the client reset the stream -- flags and monitor state stay related *)
Lemma run_ops_inv : forall ops t e s m s' out rs stp,
  invb s m = true -> run_ops t e s ops = (s', out, rs, stp) ->
  mon_safe (mon_run m out) = true /\
  (if is_reset stp then hst s' = HClosed else invb s' (mon_run m out) = true).
Proof.
  induction ops as [|o r IH]; intros t e s m s' out rs stp Hi Hr.
  - cbn in Hr. inversion Hr; subst. cbn. split; [eapply invb_safe; eauto | exact Hi].
  - cbn [run_ops] in Hr.
    assert (Hcont : forall s1 out1 r1,
               invb s1 (mon_run m out1) = true ->
               (let '(s2, out2, rs0, st0) := run_ops t e s1 r in (s2, out1 ++ out2, r1 :: rs0, st0))
               = (s', out, rs, stp) ->
               mon_safe (mon_run m out) = true /\
               (if is_reset stp then hst s' = HClosed else invb s' (mon_run m out) = true)).
    { intros s1 out1 r1 Hi1 Heq.
      destruct (run_ops t e s1 r) as [[[s2 out2] rs0] st0] eqn:Er.
      inversion Heq; subst. rewrite mon_run_app. eapply IH; eauto. }
    assert (Hwait : (let '(s1, oc) := deliver t e s true in
                     match oc with
                     | Some c => (s1, [], [RCancelled], Interrupted c)
                     | None => (s1, [], [], Stuck)
                     end) = (s', out, rs, stp) ->
                    mon_safe (mon_run m out) = true /\
                    (if is_reset stp then hst s' = HClosed else invb s' (mon_run m out) = true)).
    { intros Hw. destruct (deliver t e s true) as [s1 oc] eqn:Ed.
      apply deliver_spec in Ed. destruct Ed as ((F1 & F2 & F3 & F4) & _ & _ & Hres & Hnres).
      destruct oc as [c|]; inversion Hw; subst; cbn [mon_run fold_left];
        (split; [eapply invb_safe; eauto|]).
      - destruct c; cbn [is_reset].
        + apply Hres. reflexivity.
        + rewrite <- Hi. apply invb_core. core_tac Hnres.
        + rewrite <- Hi. apply invb_core. core_tac Hnres.
      - cbn [is_reset]. rewrite <- Hi. apply invb_core. core_tac Hnres. }
    assert (Hsend : forall ph,
               (forall s1 out1 r1, ph = PDone s1 out1 r1 -> invb s1 (mon_run m out1) = true) ->
               match ph with
               | PDone s1 out1 r1 =>
                   let '(s2, out2, rs0, st0) := run_ops t e s1 r in (s2, out1 ++ out2, r1 :: rs0, st0)
               | PWait =>
                   match deliver t e s true with
                   | (s1, Some c) => (s1, [], [RCancelled], Interrupted c)
                   | (s1, None) => (s1, [], [], Stuck)
                   end
               end = (s', out, rs, stp) ->
               mon_safe (mon_run m out) = true /\
               (if is_reset stp then hst s' = HClosed else invb s' (mon_run m out) = true)).
    { intros ph Hph Heq. destruct ph as [s1 out1 r1|].
      - eapply Hcont; [|exact Heq]. eapply Hph; reflexivity.
      - apply Hwait. destruct (deliver t e s true) as [s1 [c|]]; exact Heq. }
    destruct o as [|f|f|st m0 f| | |].
    + (* Recv *)
      destruct (recv_outcome e (recvd s)).
      * eapply Hcont; [|exact Hr]. cbn. rewrite <- Hi. apply invb_core. repeat split.
      * eapply Hcont; [|exact Hr]. exact Hi.
      * eapply Hcont; [|exact Hr]. exact Hi.
      * destruct (deliver t e s true) as [s1 oc] eqn:Ed.
        apply deliver_spec in Ed. destruct Ed as ((F1 & F2 & F3 & F4) & _ & _ & Hres & Hnres).
        destruct oc as [c|]; inversion Hr; subst; cbn [mon_run fold_left];
          (split; [eapply invb_safe; eauto|]).
        -- destruct c; cbn [is_reset].
           ++ apply Hres. reflexivity.
           ++ rewrite <- Hi. apply invb_core. core_tac Hnres.
           ++ rewrite <- Hi. apply invb_core. core_tac Hnres.
        -- cbn [is_reset]. rewrite <- Hi. apply invb_core. core_tac Hnres.
    + apply (Hsend (do_send_initial s f)); [|exact Hr]. intros. eapply do_send_initial_inv; eauto.
    + apply (Hsend (do_send_message (e_card e) s f)); [|exact Hr]. intros. eapply do_send_message_inv; eauto.
    + apply (Hsend (do_send_trailing (e_card e) s st m0 f)); [|exact Hr]. intros. eapply do_send_trailing_inv; eauto.
    + apply (Hsend (do_cancel s)); [|exact Hr]. intros. eapply do_cancel_inv; eauto.
    + (* Sleep *)
      destruct (deliver t e s false) as [s1 oc] eqn:Ed.
      apply deliver_spec in Ed. destruct Ed as ((F1 & F2 & F3 & F4) & _ & _ & Hres & Hnres).
      destruct oc as [c|].
      * inversion Hr; subst; cbn [mon_run fold_left]. split; [eapply invb_safe; eauto|].
        destruct c; cbn [is_reset].
        -- cbn. apply Hres. reflexivity.
        -- rewrite <- Hi. apply invb_core. core_tac Hnres.
        -- rewrite <- Hi. apply invb_core. core_tac Hnres.
      * eapply Hcont; [|exact Hr]. cbn [mon_run fold_left]. rewrite <- Hi. apply invb_core.
        core_tac Hnres.
    + (* Pause *)
      eapply Hcont; [|exact Hr]. cbn [mon_run fold_left]. rewrite <- Hi. apply invb_core. repeat split.
Qed.

(* ------------------------------------------------------------------------------------------------ *)
(** * The handler as a whole, __aexit__, the early aborts *)

Definition reset_kind (k : endkind) : bool :=
  match k with KCancelled CReset | KSwallowed CReset _ => true | _ => false end.

Lemma init_inv e : invb (init_state e) M0 = true.
Proof. unfold init_state. destruct (e_eof e); reflexivity. Qed.

Lemma after_cancel_reset p c : reset_kind (after_cancel p c) = match c with CReset => true | _ => false end.
Proof. destruct p, c; reflexivity. Qed.

Lemma run_handler_inv t e p s1 out rs k :
  run_handler t e p = (s1, out, rs, k) ->
  mon_safe (mon_run M0 out) = true /\
  (if reset_kind k then hst s1 = HClosed else invb s1 (mon_run M0 out) = true).
Proof.
  unfold run_handler. intros H.
  destruct (run_ops t e (init_state e) (p_ops p)) as [[[s0 out0] rs0] st0] eqn:Er.
  pose proof (run_ops_inv _ _ _ _ _ _ _ _ _ (init_inv e) Er) as [Hsafe Hinv].
  destruct st0 as [|c|].
  - destruct (p_fin p) as [f|].
    + inversion H; subst. split; [exact Hsafe|]. exact Hinv.
    + cbn [is_reset] in Hinv.
      destruct (deliver t e s0 true) as [s2 oc] eqn:Ed.
      apply deliver_spec in Ed. destruct Ed as ((F1 & F2 & F3 & F4) & _ & _ & Hres & Hnres).
      destruct oc as [c|]; inversion H; subst; (split; [exact Hsafe|]).
      * rewrite after_cancel_reset. destruct c.
        -- apply Hres. reflexivity.
        -- rewrite <- Hinv. apply invb_core. core_tac Hnres.
        -- rewrite <- Hinv. apply invb_core. core_tac Hnres.
      * cbn. rewrite <- Hinv. apply invb_core. core_tac Hnres.
  - inversion H; subst. split; [exact Hsafe|]. rewrite after_cancel_reset.
    destruct c; exact Hinv.
  - inversion H; subst. split; [exact Hsafe|]. exact Hinv.
Qed.

(* after a client reset nothing more goes out *)
Lemma send_trailing_closed c s st m :
  hst s = HClosed -> snd (fst (send_trailing c s st m)) = [].
Proof.
  intros Hc. unfold send_trailing. rewrite Hc.
  destruct (trail_done s); [reflexivity|].
  destruct (negb (server_streaming c) && negb (msg_done s) && (st =? status_ok)); reflexivity.
Qed.

Lemma aexit_closed c s e : hst s = HClosed -> snd (aexit c s e) = [].
Proof.
  intros Hc. unfold aexit.
  destruct (trail_done s || cancel_done s); [reflexivity|].
  assert (G : forall st m, snd (let '(s', out, _) := send_trailing c s st m in (s', out)) = []).
  { intros st m. pose proof (send_trailing_closed c s st m Hc) as G.
    destruct (send_trailing c s st m) as [[a b] d]. exact G. }
  destruct e as [[st m| |]|]; try apply G; try reflexivity.
  - destruct (aexit_grpc_ok_unary_as_exception && (st =? status_ok) && negb (server_streaming c) && negb (msg_done s));
      apply G.
  - destruct (negb (server_streaming c) && negb (msg_done s)); apply G.
Qed.

Lemma aexit_inv c s e m s' out :
  invb s m = true -> aexit c s e = (s', out) -> invb s' (mon_run m out) = true.
Proof.
  intros Hi H. unfold aexit in H.
  destruct (trail_done s || cancel_done s).
  { inversion H; subst. exact Hi. }
  assert (G : forall st msg, (let '(s1, out1, _) := send_trailing c s st msg in (s1, out1)) = (s', out) ->
                             invb s' (mon_run m out) = true).
  { intros st msg Hg. destruct (send_trailing c s st msg) as [[a b] d] eqn:E.
    inversion Hg; subst. eapply send_trailing_inv; eauto. }
  destruct e as [[st msg| |]|].
  - destruct (aexit_grpc_ok_unary_as_exception && (st =? status_ok) && negb (server_streaming c) && negb (msg_done s));
      eapply G; eauto.
  - eapply G; eauto.
  - inversion H; subst. exact Hi.
  - destruct (negb (server_streaming c) && negb (msg_done s)); eapply G; eauto.
Qed.

(* the ending after which __aexit__ sends nothing although the handler sent nothing terminal:
   a BaseException (D4).  (GRPCError(Status.OK) on a unary reply without a message used to be a second one:
   repaired defect D42, now answered UNKNOWN.) *)
Definition silent_exit (c : card) (s : sstate) (e : option exn) : bool :=
  negb (trail_done s) && negb (cancel_done s) &&
  match e with
  | Some EBase => true
  | _ => false
  end.

Lemma aexit_done c s e m s' out :
  invb s m = true -> aexit c s e = (s', out) -> silent_exit c s e = false ->
  mon_done (mon_run m out) = true.
Proof.
  intros Hi H Hs. unfold aexit in H. unfold silent_exit in Hs.
  bust s; destruct m; cbn in Hi; try discriminate Hi; cbn in H, Hs;
    try (inversion H; subst; reflexivity);
    destruct e as [[st msg| |]|]; try discriminate Hs;
    destruct c; cbn in H; unfold send_trailing in H; cbn in H;
    try (destruct (st =? status_ok); cbn in H);
    inversion H; subst; reflexivity.
Qed.

(* _abort *)
Lemma abort_out e h gs m :
  abort (hst (init_state e)) h gs m = FHeaders h false gs m true :: (if e_eof e then [] else [FRst]).
Proof. unfold init_state, abort. destruct (e_eof e); reflexivity. Qed.

Lemma first_abort_in cs known hs tbl i0 i en :
  first_abort cs known hs tbl i0 = Some (i, en) -> In en tbl.
Proof.
  revert i0. induction tbl as [|x r IH]; intros i0 H; cbn in H; [discriminate|].
  destruct (guard_fires cs known hs (fst (fst (fst x)))).
  - inversion H; subst. left. reflexivity.
  - right. eapply IH; eauto.
Qed.

Lemma validate_abort_error cs known hs i h gs m :
  validate cs known hs = VAbort i h gs m -> error_response h gs = true.
Proof.
  unfold validate. destruct (first_abort cs known hs abort_table 0) as [[j [[[g h'] gs'] m']]|] eqn:E; [|discriminate].
  intros H. inversion H; subst.
  apply first_abort_in in E.
  pose proof abort_entries_are_errors as A. rewrite forallb_forall in A. apply (A _ E).
Qed.

Lemma error_response_terminal h gs : error_response h gs = true -> terminal_headers_ok h false gs = true.
Proof.
  unfold error_response, terminal_headers_ok. destruct (h =? 200); cbn; [|reflexivity].
  destruct gs; [|discriminate]. auto.
Qed.

(* ------------------------------------------------------------------------------------------------ *)
(** * (1) the wire monitor accepts the output *)

(* safety, unconditionally: HEADERS before DATA, at most one terminal, nothing after it -- for every request,
   every program of every length, every environment, including the endings that are defects *)
Theorem well_formed_always known hs e p :
  well_formed (r_out (run_call known hs e p)) = true.
Proof.
  unfold run_call, well_formed.
  destruct (validate (e_codec e) known hs) as [i h gs m|t] eqn:Ev.
  - cbn [r_out]. rewrite abort_out.
    apply validate_abort_error in Ev. apply error_response_terminal in Ev.
    destruct (e_eof e); cbn; rewrite Ev; reflexivity.
  - assert (Hrun : forall t', 
        well_formed (r_out (let '(s1, out, rs, k) := run_handler t' e p in
                           match k with
                           | KHang => mkR (VAccept t') out rs KHang s1 s1
                           | _ => let '(s2, out2) := aexit (e_card e) s1 (exit_exn k) in
                                  mkR (VAccept t') (out ++ out2) rs k s1 s2
                           end)) = true).
    { intros t'. destruct (run_handler t' e p) as [[[s1 out] rs] k] eqn:Eh.
      pose proof (run_handler_inv _ _ _ _ _ _ _ Eh) as [Hsafe Hinv].
      assert (G : well_formed (r_out (let '(s2, out2) := aexit (e_card e) s1 (exit_exn k) in
                                      mkR (VAccept t') (out ++ out2) rs k s1 s2)) = true).
      { destruct (aexit (e_card e) s1 (exit_exn k)) as [s2 out2] eqn:Ea. cbn [r_out].
        unfold well_formed. destruct (reset_kind k) eqn:Ek.
        - pose proof (aexit_closed (e_card e) s1 (exit_exn k) Hinv) as Hc. rewrite Ea in Hc. cbn in Hc.
          subst out2. rewrite app_nil_r. exact Hsafe.
        - rewrite mon_run_app. eapply invb_safe. eapply aexit_inv; eauto. }
      destruct k; try exact G. cbn [r_out]. exact Hsafe. }
    unfold well_formed in Hrun.
    destruct t; try apply Hrun.
    (* expired on arrival *)
    destruct (aexit (e_card e) (init_state e) (Some (EGRPC deadline_status_cancelled None))) as [s1 out] eqn:Ea.
    cbn [r_out]. eapply invb_safe. eapply aexit_inv; [apply init_inv | exact Ea].
Qed.

(* liveness (the strongest true form): the handler came to an end, the client did not reset the stream, and
   the ending is not the silent one (BaseException, D4)  ==>  exactly one terminal *)
Theorem exactly_one_terminal_partial known hs e p :
  let r := run_call known hs e p in
  r_end r <> KHang -> reset_kind (r_end r) = false ->
  silent_exit (e_card e) (r_pre r) (exit_exn (r_end r)) = false ->
  accepted (r_out r) = true.
Proof.
  cbn zeta. unfold run_call, accepted.
  destruct (validate (e_codec e) known hs) as [i h gs m|t] eqn:Ev.
  - intros _ _ _. cbn [r_out]. rewrite abort_out.
    apply validate_abort_error in Ev. apply error_response_terminal in Ev.
    destruct (e_eof e); cbn; rewrite Ev; reflexivity.
  - assert (Hrun : forall t',
        let r := (let '(s1, out, rs, k) := run_handler t' e p in
                  match k with
                  | KHang => mkR (VAccept t') out rs KHang s1 s1
                  | _ => let '(s2, out2) := aexit (e_card e) s1 (exit_exn k) in
                         mkR (VAccept t') (out ++ out2) rs k s1 s2
                  end) in
        r_end r <> KHang -> reset_kind (r_end r) = false ->
        silent_exit (e_card e) (r_pre r) (exit_exn (r_end r)) = false ->
        mon_done (mon_run M0 (r_out r)) = true).
    { intros t'. cbn zeta. destruct (run_handler t' e p) as [[[s1 out] rs] k] eqn:Eh.
      pose proof (run_handler_inv _ _ _ _ _ _ _ Eh) as [Hsafe Hinv].
      assert (G : let r := (let '(s2, out2) := aexit (e_card e) s1 (exit_exn k) in
                            mkR (VAccept t') (out ++ out2) rs k s1 s2) in
                  reset_kind (r_end r) = false ->
                  silent_exit (e_card e) (r_pre r) (exit_exn (r_end r)) = false ->
                  mon_done (mon_run M0 (r_out r)) = true).
      { cbn zeta. destruct (aexit (e_card e) s1 (exit_exn k)) as [s2 out2] eqn:Ea. cbn [r_out r_end r_pre].
        intros Hk Hs. rewrite Hk in Hinv. rewrite mon_run_app. eapply aexit_done; eauto. }
      destruct k; try (intros _; exact G). cbn [r_end]. congruence. }
    cbn zeta in Hrun.
    destruct t; try apply Hrun.
    destruct (aexit (e_card e) (init_state e) (Some (EGRPC deadline_status_cancelled None))) as [s1 out] eqn:Ea.
    cbn [r_out r_end r_pre]. intros _ _ _.
    eapply aexit_done; [apply init_inv | exact Ea |].
    unfold silent_exit, init_state. cbn. reflexivity.
Qed.

(* ------------------------------------------------------------------------------------------------ *)
(** * (2) truthfulness: which status the response carries, how many messages *)

Lemma final_status_app a b :
  final_status (a ++ b) = match final_status a with Some x => Some x | None => final_status b end.
Proof.
  induction a as [|f a IH]; [reflexivity|].
  destruct f as [st ct [g|] m [|]| |g m|]; cbn; auto.
Qed.

Lemma count_data_app a b : count_data (a ++ b) = (count_data a + count_data b)%nat.
Proof.
  induction a as [|f a IH]; [reflexivity|]. destruct f; cbn; auto.
Qed.

(* facts about the output so far that the flags stand for *)
Definition K (ops_all : list op) (c : card) (s : sstate) (acc : list frame) : Prop :=
  (trail_done s = false -> final_status acc = None) /\
  (trail_done s = true -> exists st m, In (SendTrailing st m false) ops_all /\ final_status acc = Some (st, m)) /\
  (msg_done s = false -> count_data acc = 0%nat) /\
  (server_streaming c = false -> msg_done s = true -> count_data acc = 1%nat) /\
  (server_streaming c = false -> forall m, final_status acc = Some (status_ok, m) -> msg_done s = true).

Lemma K_ext ops_all c s s' acc out :
  K ops_all c s acc -> trail_done s' = trail_done s -> msg_done s' = msg_done s ->
  final_status out = None -> count_data out = 0%nat -> K ops_all c s' (acc ++ out).
Proof.
  intros (K1 & K2 & K3 & K4 & K5) Ht Hm Hf Hc. unfold K.
  rewrite final_status_app, count_data_app, Hf, Hc, Ht, Hm, Nat.add_0_r.
  split; [|split; [|split; [|split]]].
  - intros H. rewrite (K1 H). reflexivity.
  - intros H. destruct (K2 H) as (st & m & Hin & Hfs). exists st, m. rewrite Hfs. auto.
  - exact K3.
  - exact K4.
  - intros Hu m. destruct (final_status acc) eqn:E; [|discriminate]. intros H. inversion H; subst.
    eapply K5; eauto.
Qed.

Lemma send_initial_shape s s' out r :
  send_initial s = (s', out, r) ->
  trail_done s' = trail_done s /\ msg_done s' = msg_done s /\ final_status out = None /\ count_data out = 0%nat.
Proof. intros H. bust s; cbn in H; inversion H; subst; repeat split. Qed.

Lemma cancel_shape s s' out r :
  cancel s = (s', out, r) ->
  trail_done s' = trail_done s /\ msg_done s' = msg_done s /\ final_status out = None /\ count_data out = 0%nat.
Proof. intros H. bust s; cbn in H; inversion H; subst; repeat split. Qed.

Lemma send_message_shape c s s' out r :
  send_message c s = (s', out, r) ->
  trail_done s' = trail_done s /\ final_status out = None /\
  ((msg_done s' = msg_done s /\ count_data out = 0%nat) \/
   (msg_done s' = true /\ count_data out = 1%nat /\ (server_streaming c = false -> msg_done s = false))).
Proof.
  intros H. bust s; destruct c; cbn in H; inversion H; subst; cbn;
    (repeat split; try reflexivity); ((left; split; reflexivity) || (right; repeat split; congruence)).
Qed.

Lemma send_trailing_shape c s st m s' out r :
  send_trailing c s st m = (s', out, r) ->
  msg_done s' = msg_done s /\ count_data out = 0%nat /\
  ((trail_done s' = trail_done s /\ out = []) \/
   (trail_done s = false /\ trail_done s' = true /\ final_status out = Some (st, m) /\ r = ROk /\
    negb (server_streaming c) && negb (msg_done s) && (st =? status_ok) = false)).
Proof.
  intros H. unfold send_trailing in H.
  bust s; destruct c; cbn in H; destruct (st =? status_ok); cbn in H; inversion H; subst; cbn;
    (repeat split; try reflexivity); ((left; split; reflexivity) || (right; repeat split; reflexivity)).
Qed.

Lemma do_send_initial_shape s f s' out r :
  do_send_initial s f = PDone s' out r ->
  trail_done s' = trail_done s /\ msg_done s' = msg_done s /\ final_status out = None /\ count_data out = 0%nat.
Proof.
  unfold do_send_initial. intros H.
  destruct (init_done s); [inversion H; subst; repeat split|].
  destruct f; [inversion H; subst; repeat split|].
  destruct (paused s); [discriminate|].
  destruct (send_initial s) as [[s1 o1] r1] eqn:E. inversion H; subst. eapply send_initial_shape; eauto.
Qed.

Lemma do_cancel_shape s s' out r :
  do_cancel s = PDone s' out r ->
  trail_done s' = trail_done s /\ msg_done s' = msg_done s /\ final_status out = None /\ count_data out = 0%nat.
Proof.
  unfold do_cancel. intros H.
  destruct (cancel_done s); [inversion H; subst; repeat split|].
  destruct (paused s); [discriminate|].
  destruct (cancel s) as [[s1 o1] r1] eqn:E. inversion H; subst. eapply cancel_shape; eauto.
Qed.

Lemma do_send_message_shape c s f s' out r :
  do_send_message c s f = PDone s' out r ->
  trail_done s' = trail_done s /\ final_status out = None /\
  ((msg_done s' = msg_done s /\ count_data out = 0%nat) \/
   (msg_done s' = true /\ count_data out = 1%nat /\ (server_streaming c = false -> msg_done s = false))).
Proof.
  unfold do_send_message. intros H.
  destruct (paused s).
  { destruct (negb (init_done s)); [discriminate|].
    destruct (negb (server_streaming c) && msg_done s); [inversion H; subst; repeat split; left; split; reflexivity|].
    destruct f; [inversion H; subst; repeat split; left; split; reflexivity | discriminate]. }
  destruct f.
  - destruct (init_done s).
    + destruct (negb (server_streaming c) && msg_done s); inversion H; subst; repeat split; left; split; reflexivity.
    + destruct (send_initial s) as [[s1 o1] r1] eqn:E.
      apply send_initial_shape in E. destruct E as (A & B & C & D).
      assert (Hsh : trail_done s1 = trail_done s /\ final_status o1 = None /\
                ((msg_done s1 = msg_done s /\ count_data o1 = 0%nat) \/
                 (msg_done s1 = true /\ count_data o1 = 1%nat /\ (server_streaming c = false -> msg_done s = false)))).
      { split; [exact A|]. split; [exact C|]. left. split; assumption. }
      destruct r1; try (inversion H; subst; exact Hsh).
      destruct (negb (server_streaming c) && msg_done s1); inversion H; subst; exact Hsh.
  - destruct (send_message c s) as [[s1 o1] r1] eqn:E. inversion H; subst. eapply send_message_shape; eauto.
Qed.

Lemma do_send_trailing_shape c s st m f s' out r :
  do_send_trailing c s st m f = PDone s' out r ->
  msg_done s' = msg_done s /\ count_data out = 0%nat /\
  ((trail_done s' = trail_done s /\ out = []) \/
   (trail_done s = false /\ trail_done s' = true /\ final_status out = Some (st, m) /\ f = false /\
    negb (server_streaming c) && negb (msg_done s) && (st =? status_ok) = false)).
Proof.
  unfold do_send_trailing. intros H.
  destruct (trailing_refused c s st); [inversion H; subst; repeat split; left; split; reflexivity|].
  destruct f; [inversion H; subst; repeat split; left; split; reflexivity|].
  destruct (paused s); [discriminate|].
  destruct (send_trailing c s st m) as [[s1 o1] r1] eqn:E. inversion H; subst.
  apply send_trailing_shape in E. destruct E as (A & B & [C|(C & D & F & _ & G)]); repeat split; auto.
  right. repeat split; auto.
Qed.

Lemma run_ops_K ops_all c : forall ops t e s acc s' out rs stp,
  e_card e = c -> (forall o, In o ops -> In o ops_all) ->
  K ops_all c s acc -> run_ops t e s ops = (s', out, rs, stp) -> K ops_all c s' (acc ++ out).
Proof.
  induction ops as [|o r IH]; intros t e s acc s' out rs stp Hc Hincl HK Hr.
  - cbn in Hr. inversion Hr; subst. rewrite app_nil_r. exact HK.
  - cbn [run_ops] in Hr.
    assert (Hcont : forall s1 out1 r1,
               K ops_all c s1 (acc ++ out1) ->
               (let '(s2, out2, rs0, st0) := run_ops t e s1 r in (s2, out1 ++ out2, r1 :: rs0, st0))
               = (s', out, rs, stp) -> K ops_all c s' (acc ++ out)).
    { intros s1 out1 r1 HK1 Heq.
      destruct (run_ops t e s1 r) as [[[s2 out2] rs0] st0] eqn:Er.
      inversion Heq; subst. rewrite app_assoc. eapply IH; eauto.
      intros o' Ho'. apply Hincl. right. exact Ho'. }
    assert (Hsame : forall s1, trail_done s1 = trail_done s -> msg_done s1 = msg_done s ->
                               K ops_all c s1 (acc ++ [])).
    { intros s1 Ht Hm. eapply K_ext; eauto. }
    assert (Hwait : (let '(s1, oc) := deliver t e s true in
                     match oc with
                     | Some c0 => (s1, [], [RCancelled], Interrupted c0)
                     | None => (s1, [], [], Stuck)
                     end) = (s', out, rs, stp) -> K ops_all c s' (acc ++ out)).
    { intros Hw. destruct (deliver t e s true) as [s1 oc] eqn:Ed.
      apply deliver_spec in Ed. destruct Ed as ((F1 & F2 & F3 & F4) & _).
      destruct oc; inversion Hw; subst; apply Hsame; congruence. }
    assert (Hsend : forall ph,
               (forall s1 out1 r1, ph = PDone s1 out1 r1 -> K ops_all c s1 (acc ++ out1)) ->
               match ph with
               | PDone s1 out1 r1 =>
                   let '(s2, out2, rs0, st0) := run_ops t e s1 r in (s2, out1 ++ out2, r1 :: rs0, st0)
               | PWait =>
                   match deliver t e s true with
                   | (s1, Some c0) => (s1, [], [RCancelled], Interrupted c0)
                   | (s1, None) => (s1, [], [], Stuck)
                   end
               end = (s', out, rs, stp) -> K ops_all c s' (acc ++ out)).
    { intros ph Hph Heq. destruct ph as [s1 out1 r1|].
      - eapply Hcont; [|exact Heq]. eapply Hph; reflexivity.
      - apply Hwait. destruct (deliver t e s true) as [s1 [c0|]]; exact Heq. }
    destruct o as [|f|f|st m f| | |].
    + destruct (recv_outcome e (recvd s)).
      * eapply Hcont; [|exact Hr]. apply Hsame; reflexivity.
      * eapply Hcont; [|exact Hr]. apply Hsame; reflexivity.
      * eapply Hcont; [|exact Hr]. apply Hsame; reflexivity.
      * apply Hwait. destruct (deliver t e s true) as [s1 [c0|]]; exact Hr.
    + apply (Hsend (do_send_initial s f)); [|exact Hr]. intros s1 out1 r1 E.
      apply do_send_initial_shape in E. destruct E as (A & B & C & D). eapply K_ext; eauto.
    + apply (Hsend (do_send_message (e_card e) s f)); [|exact Hr]. intros s1 out1 r1 E.
      apply do_send_message_shape in E. destruct E as (A & B & [(C & D)|(C & D & F)]).
      * eapply K_ext; eauto.
      * destruct HK as (K1 & K2 & K3 & K4 & K5). unfold K.
        rewrite final_status_app, count_data_app, B, D, A, C. split; [|split; [|split; [|split]]].
        -- intros H. rewrite (K1 H). reflexivity.
        -- intros H. destruct (K2 H) as (st & m & Hin & Hfs). exists st, m. rewrite Hfs. auto.
        -- discriminate.
        -- intros Hu _. rewrite Hc in F. rewrite (K3 (F Hu)). reflexivity.
        -- reflexivity.
    + apply (Hsend (do_send_trailing (e_card e) s st m f)); [|exact Hr]. intros s1 out1 r1 E.
      apply do_send_trailing_shape in E. destruct E as (A & B & [(C & D)|(C & D & F & Hf & G)]).
      * subst out1. eapply K_ext; eauto.
      * subst f. destruct HK as (K1 & K2 & K3 & K4 & K5). unfold K.
        rewrite final_status_app, count_data_app, B, D, A, (K1 C), F, Nat.add_0_r.
        split; [|split; [|split; [|split]]].
        -- discriminate.
        -- intros _. exists st, m. split; [|reflexivity]. apply Hincl. left. reflexivity.
        -- exact K3.
        -- exact K4.
        -- intros Hu m' H. injection H as Hst _. rewrite Hc, Hu, Hst, Z.eqb_refl in G. cbn in G.
           destruct (msg_done s); [reflexivity | discriminate].
    + apply (Hsend (do_cancel s)); [|exact Hr]. intros s1 out1 r1 E.
      apply do_cancel_shape in E. destruct E as (A & B & C & D). eapply K_ext; eauto.
    + destruct (deliver t e s false) as [s1 oc] eqn:Ed.
      apply deliver_spec in Ed. destruct Ed as ((F1 & F2 & F3 & F4) & _).
      destruct oc.
      * inversion Hr; subst. apply Hsame; cbn; congruence.
      * eapply Hcont; [|exact Hr]. apply Hsame; cbn; congruence.
    + eapply Hcont; [|exact Hr]. apply Hsame; reflexivity.
Qed.

Lemma K_init ops_all e : K ops_all (e_card e) (init_state e) [].
Proof. unfold K, init_state. cbn. repeat split; try discriminate; reflexivity. Qed.

Lemma tclass_dec (a b : tclass) : {a = b} + {a <> b}.
Proof. decide equality. Qed.

Lemma run_handler_K t e p s1 out rs k :
  run_handler t e p = (s1, out, rs, k) -> K (p_ops p) (e_card e) s1 out.
Proof.
  unfold run_handler. intros H.
  destruct (run_ops t e (init_state e) (p_ops p)) as [[[s0 out0] rs0] st0] eqn:Er.
  pose proof (run_ops_K (p_ops p) (e_card e) _ _ _ _ [] _ _ _ _ eq_refl (fun o H => H) (K_init _ e) Er) as HK.
  cbn [app] in HK.
  assert (Hd : forall s2 oc, deliver t e s0 true = (s2, oc) -> K (p_ops p) (e_card e) s2 out0).
  { intros s2 oc Ed. apply deliver_spec in Ed. destruct Ed as ((F1 & F2 & F3 & F4) & _).
    rewrite <- (app_nil_r out0). eapply K_ext; eauto. }
  destruct st0 as [|c|].
  - destruct (p_fin p).
    + inversion H; subst. exact HK.
    + destruct (deliver t e s0 true) as [s2 oc] eqn:Ed.
      destruct oc; inversion H; subst; eapply Hd; eauto.
  - inversion H; subst. exact HK.
  - inversion H; subst. exact HK.
Qed.

(* the status __aexit__ adds when the handler sent neither trailers nor RST_STREAM *)
Definition implicit_status (c : card) (s : sstate) (e : option exn) : option (Z * option (list Z)) :=
  match e with
  | Some (EGRPC st m) =>
      if (st =? status_ok) && negb (server_streaming c) && negb (msg_done s) then Some aexit_exception
      else Some (st, m)
  | Some EExc => Some aexit_exception
  | Some EBase => None
  | None => if negb (server_streaming c) && negb (msg_done s) then Some aexit_unary_missing else Some aexit_normal
  end.

Lemma aexit_status c s e s' out :
  open_side (hst s) = true -> trail_done s = false -> cancel_done s = false ->
  aexit c s e = (s', out) ->
  final_status out = implicit_status c s e /\ count_data out = 0%nat.
Proof.
  intros Ho Ht Hc H. unfold aexit in H. rewrite Ht, Hc in H. cbn [orb] in H.
  unfold implicit_status.
  bust s; cbn in Ho, Ht, Hc; try discriminate; destruct e as [[st msg| |]|]; destruct c; cbn in H |- *;
    unfold send_trailing in H; cbn in H;
    try (destruct (st =? status_ok); cbn in H |- *); inversion H; subst; split; reflexivity.
Qed.

Lemma aexit_noop c s e : trail_done s || cancel_done s = true -> aexit c s e = (s, []).
Proof. intros H. unfold aexit. rewrite H. reflexivity. Qed.

Lemma inv_open s m : invb s m = true -> trail_done s = false -> cancel_done s = false -> open_side (hst s) = true.
Proof.
  intros Hi Ht Hc. destruct m; unfold invb in Hi; rewrite ?Ht, ?Hc in Hi; cbn in Hi;
    try discriminate; repeat (apply andb_true_iff in Hi; destruct Hi as [Hi ?]); assumption.
Qed.

Definition returned_normally (k : endkind) : bool :=
  match k with KFin Return | KSwallowed CClose Return => true | _ => false end.

Lemma exit_exn_none k : exit_exn k = None -> returned_normally k = true \/ k = KNotRun \/ k = KHang.
Proof.
  destruct k as [|[|st m|[]|]|[]|[] [|st m|[]|]|]; cbn; intros H; try discriminate H; auto.
Qed.

(* the shape of every accepted call whose deadline has not expired on arrival *)
Lemma run_call_accept known hs e p t :
  validate (e_codec e) known hs = VAccept t -> t <> TExpired ->
  let r := run_call known hs e p in
  exists out1 out2,
    r_out r = out1 ++ out2 /\ r_end r <> KNotRun /\
    K (p_ops p) (e_card e) (r_pre r) out1 /\
    mon_safe (mon_run M0 out1) = true /\
    (if reset_kind (r_end r) then hst (r_pre r) = HClosed else invb (r_pre r) (mon_run M0 out1) = true) /\
    (r_end r = KHang -> out2 = []) /\
    (r_end r <> KHang -> aexit (e_card e) (r_pre r) (exit_exn (r_end r)) = (r_state r, out2)).
Proof.
  intros Hv Hne. cbn zeta. unfold run_call. rewrite Hv.
  assert (G : forall t',
    let r := (let '(s1, out, rs, k) := run_handler t' e p in
              match k with
              | KHang => mkR (VAccept t') out rs KHang s1 s1
              | _ => let '(s2, out2) := aexit (e_card e) s1 (exit_exn k) in
                     mkR (VAccept t') (out ++ out2) rs k s1 s2
              end) in
    exists out1 out2,
      r_out r = out1 ++ out2 /\ r_end r <> KNotRun /\
      K (p_ops p) (e_card e) (r_pre r) out1 /\
      mon_safe (mon_run M0 out1) = true /\
      (if reset_kind (r_end r) then hst (r_pre r) = HClosed else invb (r_pre r) (mon_run M0 out1) = true) /\
      (r_end r = KHang -> out2 = []) /\
      (r_end r <> KHang -> aexit (e_card e) (r_pre r) (exit_exn (r_end r)) = (r_state r, out2))).
  { intros t'. cbn zeta. destruct (run_handler t' e p) as [[[s1 out] rs] k] eqn:Eh.
    pose proof (run_handler_inv _ _ _ _ _ _ _ Eh) as [Hsafe Hinv].
    pose proof (run_handler_K _ _ _ _ _ _ _ Eh) as HK.
    assert (Hk : k <> KNotRun).
    { unfold run_handler in Eh.
      destruct (run_ops t' e (init_state e) (p_ops p)) as [[[s0 out0] rs0] st0].
      destruct st0; [destruct (p_fin p); [|destruct (deliver t' e s0 true) as [? [?|]]]| |];
        inversion Eh; subst; try discriminate; destruct (p_policy p); discriminate. }
    assert (G2 : let r := (let '(s2, out2) := aexit (e_card e) s1 (exit_exn k) in
                           mkR (VAccept t') (out ++ out2) rs k s1 s2) in
                 k <> KHang ->
                 exists out1 out2,
                   r_out r = out1 ++ out2 /\ r_end r <> KNotRun /\
                   K (p_ops p) (e_card e) (r_pre r) out1 /\
                   mon_safe (mon_run M0 out1) = true /\
                   (if reset_kind (r_end r) then hst (r_pre r) = HClosed
                    else invb (r_pre r) (mon_run M0 out1) = true) /\
                   (r_end r = KHang -> out2 = []) /\
                   (r_end r <> KHang -> aexit (e_card e) (r_pre r) (exit_exn (r_end r)) = (r_state r, out2))).
    { cbn zeta. intros Hnh. destruct (aexit (e_card e) s1 (exit_exn k)) as [s2 out2] eqn:Ea.
      exists out, out2. cbn [r_out r_end r_pre r_state].
      split; [reflexivity|]. split; [exact Hk|]. split; [exact HK|]. split; [exact Hsafe|].
      split; [exact Hinv|]. split; [intros; congruence | intros _; first [reflexivity | exact Ea]]. }
    destruct k; try (apply G2; discriminate).
    exists out, []. cbn [r_out r_end r_pre r_state]. rewrite app_nil_r.
    split; [reflexivity|]. split; [discriminate|]. split; [exact HK|]. split; [exact Hsafe|].
    split; [exact Hinv|]. split; [intros _; reflexivity | intros; congruence]. }
  destruct t; try apply G. congruence.
Qed.

Lemma KHang_dec (k : endkind) : {k = KHang} + {k <> KHang}.
Proof. destruct k; (left; reflexivity) || (right; discriminate). Qed.

Lemma accept_summary known hs e p t :
  validate (e_codec e) known hs = VAccept t -> t <> TExpired ->
  let r := run_call known hs e p in
  r_end r <> KNotRun /\
  exists out1,
    K (p_ops p) (e_card e) (r_pre r) out1 /\
    ((r_end r = KHang \/ reset_kind (r_end r) = true \/ trail_done (r_pre r) = true \/ cancel_done (r_pre r) = true) ->
     r_out r = out1) /\
    (r_end r <> KHang -> reset_kind (r_end r) = false ->
     trail_done (r_pre r) = false -> cancel_done (r_pre r) = false ->
     final_status (r_out r) = implicit_status (e_card e) (r_pre r) (exit_exn (r_end r)) /\
     count_data (r_out r) = count_data out1).
Proof.
  intros Hv Hne. cbn zeta.
  destruct (run_call_accept known hs e p t Hv Hne) as (out1 & out2 & Ho & Hnr & HK & Hsafe & Hinv & Hh & Ha).
  split; [exact Hnr|]. exists out1. split; [exact HK|]. split.
  - intros [H|[H|[H|H]]].
    + rewrite Ho, (Hh H), app_nil_r. reflexivity.
    + destruct (KHang_dec (r_end (run_call known hs e p))) as [Hk|Hk]; [rewrite Ho, (Hh Hk), app_nil_r; reflexivity|].
      rewrite H in Hinv. pose proof (aexit_closed (e_card e) _ (exit_exn (r_end (run_call known hs e p))) Hinv) as Hc.
      rewrite (Ha Hk) in Hc. cbn in Hc. rewrite Ho, Hc, app_nil_r. reflexivity.
    + destruct (KHang_dec (r_end (run_call known hs e p))) as [Hk|Hk]; [rewrite Ho, (Hh Hk), app_nil_r; reflexivity|].
      pose proof (Ha Hk) as Ha'. rewrite aexit_noop in Ha' by (rewrite H; reflexivity).
      inversion Ha'. rewrite Ho, <- H2, app_nil_r. reflexivity.
    + destruct (KHang_dec (r_end (run_call known hs e p))) as [Hk|Hk]; [rewrite Ho, (Hh Hk), app_nil_r; reflexivity|].
      pose proof (Ha Hk) as Ha'. rewrite aexit_noop in Ha' by (rewrite H; apply orb_true_r).
      inversion Ha'. rewrite Ho, <- H2, app_nil_r. reflexivity.
  - intros Hk Hr Ht Hc. rewrite Hr in Hinv.
    pose proof (aexit_status _ _ _ _ _ (inv_open _ _ Hinv Ht Hc) Ht Hc (Ha Hk)) as [Hf Hn].
    destruct HK as (K1 & _). rewrite Ho, final_status_app, count_data_app, (K1 Ht), Hf, Hn, Nat.add_0_r.
    split; reflexivity.
Qed.

Lemma abort_entries_not_ok :
  forallb (fun e : abort_entry => let '(_, _, gs, _) := e in
             match gs with Some g => negb (g =? status_ok) | None => true end) abort_table = true.
Proof. vm_compute. reflexivity. Qed.

Lemma validate_abort_not_ok cs known hs i h gs m :
  validate cs known hs = VAbort i h gs m -> gs <> Some status_ok.
Proof.
  unfold validate. destruct (first_abort cs known hs abort_table 0) as [[j [[[g h'] gs'] m']]|] eqn:E; [|discriminate].
  intros H. inversion H; subst. apply first_abort_in in E.
  pose proof abort_entries_not_ok as A. rewrite forallb_forall in A. specialize (A _ E). cbn in A.
  intros ->. rewrite Z.eqb_refl in A. discriminate.
Qed.

(* the response to a request whose deadline has expired on arrival *)
Lemma expired_out known hs e p :
  validate (e_codec e) known hs = VAccept TExpired ->
  let r := run_call known hs e p in
  r_out r = FHeaders 200 true (Some 4) None true :: (if e_eof e then [] else [FRst]) /\
  r_end r = KNotRun /\ r_results r = [].
Proof.
  intros Hv. cbn zeta. unfold run_call. rewrite Hv. unfold init_state.
  destruct (e_eof e), (e_card e); vm_compute; repeat split.
Qed.

(* (2a) OK only if the handler returned normally, or said OK itself (explicit OK trailers / GRPCError(OK));
        and a unary reply that is OK carries exactly one message *)
Theorem ok_only_if_normal known hs e p m :
  let r := run_call known hs e p in
  final_status (r_out r) = Some (status_ok, m) ->
  (returned_normally (r_end r) = true \/
   (exists m', In (SendTrailing status_ok m' false) (p_ops p)) \/
   (exists m', exit_exn (r_end r) = Some (EGRPC status_ok m'))) /\
  (server_streaming (e_card e) = false -> count_data (r_out r) = 1%nat).
Proof.
  cbn zeta. intros Hf.
  destruct (validate (e_codec e) known hs) as [i h gs am|t] eqn:Ev.
  - exfalso. pose proof (validate_abort_not_ok _ _ _ _ _ _ _ Ev) as Hn.
    unfold run_call in Hf. rewrite Ev in Hf. cbn [r_out] in Hf. rewrite abort_out in Hf.
    destruct gs as [g|]; destruct (e_eof e); cbn in Hf; try discriminate; inversion Hf; subst; congruence.
  - destruct (tclass_dec t TExpired) as [->|Hne].
    { exfalso. destruct (expired_out known hs e p Ev) as (Ho & _). rewrite Ho in Hf.
      destruct (e_eof e); cbn in Hf; inversion Hf. }
    destruct (accept_summary known hs e p t Ev Hne) as (Hnr & out1 & (K1 & K2 & K3 & K4 & K5) & Hsame & Himp).
    set (r := run_call known hs e p) in *.
    destruct (trail_done (r_pre r)) eqn:Et.
    { rewrite (Hsame (or_intror (or_intror (or_introl eq_refl)))) in *.
      destruct (K2 eq_refl) as (st & sm & Hin & Hfs). rewrite Hfs in Hf. injection Hf as Hst Hm. subst st sm.
      split; [right; left; eauto|].
      intros Hu. apply K4; [exact Hu|]. eapply K5; eauto. }
    destruct (cancel_done (r_pre r)) eqn:Ec.
    { rewrite (Hsame (or_intror (or_intror (or_intror eq_refl)))) in Hf. rewrite (K1 eq_refl) in Hf. discriminate. }
    destruct (KHang_dec (r_end r)) as [Hk|Hk].
    { rewrite (Hsame (or_introl Hk)) in Hf. rewrite (K1 eq_refl) in Hf. discriminate. }
    destruct (reset_kind (r_end r)) eqn:Er.
    { rewrite (Hsame (or_intror (or_introl eq_refl))) in Hf. rewrite (K1 eq_refl) in Hf. discriminate. }
    destruct (Himp Hk eq_refl eq_refl eq_refl) as (Hfs & Hcnt).
    rewrite Hfs in Hf. unfold implicit_status in Hf.
    destruct (exit_exn (r_end r)) as [[st sm| |]|] eqn:Ex.
    + destruct ((st =? status_ok) && negb (server_streaming (e_card e)) && negb (msg_done (r_pre r))) eqn:Eb.
      { exfalso. destruct aexit_constants as (A & _). rewrite A in Hf. inversion Hf. }
      injection Hf as Hst Hm. subst st sm. split; [right; right; eauto|].
      intros Hu. rewrite Hcnt. rewrite Hu, Z.eqb_refl in Eb. cbn in Eb.
      destruct (msg_done (r_pre r)) eqn:Em; [apply K4; auto | discriminate].
    + exfalso. destruct aexit_constants as (A & _). rewrite A in Hf. inversion Hf.
    + discriminate.
    + destruct (exit_exn_none _ Ex) as [Hn|[Hn|Hn]]; try congruence.
      split; [left; exact Hn|]. intros Hu. rewrite Hcnt. rewrite Hu in Hf. cbn in Hf.
      destruct (msg_done (r_pre r)) eqn:Em; [apply K4; auto|].
      exfalso. cbn in Hf. destruct aexit_constants as (_ & A & _). rewrite A in Hf. inversion Hf.
Qed.

(* (2b) the status added at exit, in full: for every accepted call whose handler came to an end without
   having sent trailers or RST_STREAM itself and whose stream the client did not reset *)
Theorem status_at_exit known hs e p t :
  validate (e_codec e) known hs = VAccept t -> t <> TExpired ->
  let r := run_call known hs e p in
  r_end r <> KHang -> reset_kind (r_end r) = false ->
  trail_done (r_pre r) = false -> cancel_done (r_pre r) = false ->
  final_status (r_out r) = implicit_status (e_card e) (r_pre r) (exit_exn (r_end r)).
Proof.
  intros Hv Hne. cbn zeta. intros Hk Hr Ht Hc.
  destruct (accept_summary known hs e p t Hv Hne) as (_ & out1 & _ & _ & Himp).
  apply (Himp Hk Hr Ht Hc).
Qed.

(* ... spelled out per ending *)
Theorem return_status known hs e p t :
  validate (e_codec e) known hs = VAccept t -> t <> TExpired ->
  let r := run_call known hs e p in
  returned_normally (r_end r) = true -> trail_done (r_pre r) = false -> cancel_done (r_pre r) = false ->
  final_status (r_out r) =
    if server_streaming (e_card e) || msg_done (r_pre r) then Some (0, None) else Some (2, Some internal_msg).
Proof.
  intros Hv Hne. cbn zeta. intros Hn Ht Hc.
  rewrite (status_at_exit known hs e p t Hv Hne); auto.
  - destruct (r_end (run_call known hs e p)) as [|[]|c|c []|]; try discriminate Hn;
      try (destruct c; try discriminate Hn); cbn;
      destruct (server_streaming (e_card e)), (msg_done (r_pre (run_call known hs e p))); reflexivity.
  - destruct (r_end (run_call known hs e p)); discriminate.
  - destruct (r_end (run_call known hs e p)) as [|[]|c|c []|]; try discriminate Hn; try reflexivity;
      destruct c; try discriminate Hn; reflexivity.
Qed.

Theorem grpc_error_status known hs e p t st m :
  validate (e_codec e) known hs = VAccept t -> t <> TExpired ->
  let r := run_call known hs e p in
  exit_exn (r_end r) = Some (EGRPC st m) -> reset_kind (r_end r) = false ->
  trail_done (r_pre r) = false -> cancel_done (r_pre r) = false ->
  (st = status_ok -> server_streaming (e_card e) = true \/ msg_done (r_pre r) = true) ->
  final_status (r_out r) = Some (st, m).
Proof.
  intros Hv Hne. cbn zeta. intros Hx Hr Ht Hc Hok.
  rewrite (status_at_exit known hs e p t Hv Hne); auto.
  - rewrite Hx. unfold implicit_status.
    destruct (st =? status_ok) eqn:E; [|reflexivity].
    apply Z.eqb_eq in E. destruct (Hok E) as [H|H]; rewrite H; cbn; try reflexivity.
    rewrite andb_false_r. reflexivity.
  - intros Hk. rewrite Hk in Hx. discriminate.
Qed.

(* repaired defect D42: GRPCError(Status.OK) from a unary-reply handler that sent no message is answered like
   any other exception -- UNKNOWN "Internal Server Error", exactly one terminal *)
Theorem grpc_ok_without_message_status known hs e p t m :
  validate (e_codec e) known hs = VAccept t -> t <> TExpired ->
  let r := run_call known hs e p in
  exit_exn (r_end r) = Some (EGRPC status_ok m) -> reset_kind (r_end r) = false ->
  trail_done (r_pre r) = false -> cancel_done (r_pre r) = false ->
  server_streaming (e_card e) = false -> msg_done (r_pre r) = false ->
  final_status (r_out r) = Some (2, Some internal_msg) /\ accepted (r_out r) = true.
Proof.
  intros Hv Hne. cbn zeta. intros Hx Hr Ht Hc Hu Hm.
  assert (Hk : r_end (run_call known hs e p) <> KHang).
  { intros Hk. rewrite Hk in Hx. discriminate. }
  split.
  - rewrite (status_at_exit known hs e p t Hv Hne); auto.
    rewrite Hx. unfold implicit_status. rewrite Hu, Hm, Z.eqb_refl. reflexivity.
  - apply exactly_one_terminal_partial; auto. rewrite Hx. unfold silent_exit.
    rewrite andb_false_r. reflexivity.
Qed.

Theorem exception_status known hs e p t :
  validate (e_codec e) known hs = VAccept t -> t <> TExpired ->
  let r := run_call known hs e p in
  exit_exn (r_end r) = Some EExc -> reset_kind (r_end r) = false ->
  trail_done (r_pre r) = false -> cancel_done (r_pre r) = false ->
  final_status (r_out r) = Some (2, Some internal_msg).
Proof.
  intros Hv Hne. cbn zeta. intros Hx Hr Ht Hc.
  rewrite (status_at_exit known hs e p t Hv Hne); auto.
  - rewrite Hx. reflexivity.
  - intros Hk. rewrite Hk in Hx. discriminate.
Qed.

Definition deadline_kind (k : endkind) : bool :=
  match k with KCancelled CDeadline | KSwallowed CDeadline _ => true | _ => false end.

(* DEADLINE_EXCEEDED whether the handler honours the cancellation or swallows it and then returns or raises
   anything at all (even a BaseException: Wrapper.__exit__ replaces it) *)
Theorem deadline_status known hs e p t :
  validate (e_codec e) known hs = VAccept t -> t <> TExpired ->
  let r := run_call known hs e p in
  deadline_kind (r_end r) = true -> trail_done (r_pre r) = false -> cancel_done (r_pre r) = false ->
  final_status (r_out r) = Some (4, None) /\ accepted (r_out r) = true.
Proof.
  intros Hv Hne. cbn zeta. intros Hd Ht Hc.
  assert (Hx : exit_exn (r_end (run_call known hs e p)) = Some (EGRPC 4 None) /\
               reset_kind (r_end (run_call known hs e p)) = false /\
               r_end (run_call known hs e p) <> KHang).
  { destruct (r_end (run_call known hs e p)) as [|f|c|c f|]; try discriminate Hd;
      destruct c; try discriminate Hd; try (destruct f as [|? ?|[]|]);
      (split; [reflexivity|]); (split; [reflexivity | discriminate]). }
  destruct Hx as (Hx & Hr & Hk). split.
  - eapply grpc_error_status; eauto. intros H. discriminate H.
  - apply exactly_one_terminal_partial; auto. rewrite Hx. unfold silent_exit.
    rewrite andb_false_r. reflexivity.
Qed.

(* (2c) trailers the handler sent itself stand, whatever it does or raises afterwards *)
Theorem explicit_status_stands known hs e p t :
  validate (e_codec e) known hs = VAccept t -> t <> TExpired ->
  let r := run_call known hs e p in
  trail_done (r_pre r) = true ->
  exists st m, In (SendTrailing st m false) (p_ops p) /\ final_status (r_out r) = Some (st, m).
Proof.
  intros Hv Hne. cbn zeta. intros Ht.
  destruct (accept_summary known hs e p t Hv Hne) as (_ & out1 & (K1 & K2 & _) & Hsame & _).
  rewrite (Hsame (or_intror (or_intror (or_introl Ht)))). apply K2. exact Ht.
Qed.

(* a unary reply never carries two messages *)
Theorem unary_at_most_one_message known hs e p :
  server_streaming (e_card e) = false -> (count_data (r_out (run_call known hs e p)) <= 1)%nat.
Proof.
  intros Hu.
  destruct (validate (e_codec e) known hs) as [i h gs am|t] eqn:Ev.
  - unfold run_call. rewrite Ev. cbn [r_out]. rewrite abort_out. destruct (e_eof e); cbn; lia.
  - destruct (tclass_dec t TExpired) as [->|Hne].
    { destruct (expired_out known hs e p Ev) as (Ho & _). rewrite Ho. destruct (e_eof e); cbn; lia. }
    destruct (accept_summary known hs e p t Ev Hne) as (_ & out1 & (K1 & K2 & K3 & K4 & K5) & Hsame & Himp).
    set (r := run_call known hs e p) in *.
    assert (H1 : (count_data out1 <= 1)%nat).
    { destruct (msg_done (r_pre r)) eqn:Em; [rewrite K4; auto | rewrite K3; auto]. }
    destruct (trail_done (r_pre r)) eqn:Et.
    { rewrite (Hsame (or_intror (or_intror (or_introl eq_refl)))). exact H1. }
    destruct (cancel_done (r_pre r)) eqn:Ec.
    { rewrite (Hsame (or_intror (or_intror (or_intror eq_refl)))). exact H1. }
    destruct (KHang_dec (r_end r)) as [Hk|Hk].
    { rewrite (Hsame (or_introl Hk)). exact H1. }
    destruct (reset_kind (r_end r)) eqn:Er.
    { rewrite (Hsame (or_intror (or_introl eq_refl))). exact H1. }
    destruct (Himp Hk eq_refl eq_refl eq_refl) as (_ & Hcnt). rewrite Hcnt. exact H1.
Qed.

(* ------------------------------------------------------------------------------------------------ *)
(** * (3) requests that are not acceptable gRPC are answered with an error, never left unanswered *)

Theorem unacceptable_rejected known hs e p i h gs m :
  validate (e_codec e) known hs = VAbort i h gs m ->
  let r := run_call known hs e p in
  r_out r = FHeaders h false gs m true :: (if e_eof e then [] else [FRst]) /\
  accepted (r_out r) = true /\ error_response h gs = true /\ count_data (r_out r) = 0%nat /\
  r_results r = [] /\ r_end r = KNotRun.
Proof.
  intros Hv. cbn zeta. unfold run_call. rewrite Hv. cbn [r_out r_results r_end]. rewrite abort_out.
  pose proof (validate_abort_error _ _ _ _ _ _ _ Hv) as He.
  pose proof (error_response_terminal _ _ He) as Ht.
  repeat split; auto.
  - unfold accepted. destruct (e_eof e); cbn; rewrite Ht; reflexivity.
  - destruct (e_eof e); reflexivity.
Qed.

(* the checks in the order of the source: the first one that fails decides *)
Definition opt_is (o : option (list Z)) (v : list Z) : bool :=
  match o with Some x => zlist_eqb x v | None => false end.

Definition te_msg : list Z :=
  [82; 101; 113; 117; 105; 114; 101; 100; 32; 34; 116; 101; 58; 32; 116; 114; 97; 105; 108; 101; 114;
   115; 34; 32; 104; 101; 97; 100; 101; 114; 32; 105; 115; 32; 109; 105; 115; 115; 105; 110; 103].

Definition validate_spec (cs : list Z) (known : list (list Z)) (hs : list header) : verdict :=
  if negb (opt_is (hget (s2z ":method") hs) (s2z "POST")) then VAbort 0 405 None None
  else match hget (s2z "content-type") hs with
  | None => VAbort 1 415 (Some 2) (Some (s2z "Missing content-type header"))
  | Some v =>
    if negb (content_type_ok cs v) then VAbort 2 415 (Some 2) (Some (s2z "Unacceptable content-type header"))
    else if negb (opt_is (hget (s2z "te") hs) (s2z "trailers")) then VAbort 3 400 (Some 2) (Some te_msg)
    else if negb (match hget (s2z ":path") hs with Some p => mem_str p known | None => false end)
         then VAbort 4 200 (Some 12) (Some (s2z "Method not found"))
    else match timeout_class hs with
         | TInvalid => VAbort 5 200 (Some 2) (Some (s2z "Invalid grpc-timeout header"))
         | t => if negb (metadata_ok hs) then VAbort 6 200 (Some 2) (Some (s2z "Invalid metadata"))
                else VAccept t
         end
  end.

Theorem validate_is_spec cs known hs : validate cs known hs = validate_spec cs known hs.
Proof.
  unfold validate, validate_spec. rewrite abort_table_is. cbn [first_abort fst guard_fires].
  change (s2z ":path") with k_path.
  change (zlist_eqb (s2z "Deadline.from_headers") k_deadline_from_headers) with true.
  change (zlist_eqb (s2z "decode_metadata") k_deadline_from_headers) with false.
  change (zlist_eqb (s2z "decode_metadata") k_decode_metadata) with true.
  cbv iota.
  change [99; 111; 110; 116; 101; 110; 116; 45; 116; 121; 112; 101] with (s2z "content-type").
  unfold opt_is.
  destruct (hget (s2z ":method") hs) as [x|]; [destruct (zlist_eqb x (s2z "POST"))|]; cbn [negb]; try reflexivity.
  destruct (hget (s2z "content-type") hs) as [v|]; [|reflexivity].
  destruct (content_type_ok cs v); cbn [negb]; [|reflexivity].
  destruct (hget (s2z "te") hs) as [y|]; [destruct (zlist_eqb y (s2z "trailers"))|]; cbn [negb]; try reflexivity.
  destruct (hget k_path hs) as [q|]; [destruct (mem_str q known)|]; cbn [negb]; try reflexivity.
  destruct (timeout_class hs); try reflexivity; destruct (metadata_ok hs); reflexivity.
Qed.

(* acceptance means every check passed *)
Theorem accepted_request_is_grpc cs known hs t :
  validate cs known hs = VAccept t ->
  opt_is (hget (s2z ":method") hs) (s2z "POST") = true /\
  (exists v, hget (s2z "content-type") hs = Some v /\ content_type_ok cs v = true) /\
  opt_is (hget (s2z "te") hs) (s2z "trailers") = true /\
  (exists q, hget (s2z ":path") hs = Some q /\ mem_str q known = true) /\
  timeout_class hs = t /\ t <> TInvalid /\ metadata_ok hs = true.
Proof.
  rewrite validate_is_spec. unfold validate_spec.
  destruct (opt_is (hget (s2z ":method") hs) (s2z "POST")); cbn [negb]; [|discriminate].
  destruct (hget (s2z "content-type") hs) as [v|]; [|discriminate].
  destruct (content_type_ok cs v) eqn:Ect; cbn [negb]; [|discriminate].
  destruct (opt_is (hget (s2z "te") hs) (s2z "trailers")); cbn [negb]; [|discriminate].
  destruct (hget (s2z ":path") hs) as [q|]; [|discriminate].
  destruct (mem_str q known) eqn:Eq; cbn [negb]; [|discriminate].
  destruct (timeout_class hs) eqn:Et; try discriminate;
    destruct (metadata_ok hs); cbn [negb]; try discriminate;
    intros H; inversion H; subst; repeat split; eauto; discriminate.
Qed.

(* the handler's OWN exceptions -- including its own asyncio.TimeoutError (an inner wait_for, a database
   timeout) and StreamTerminatedError / ProtocolError it lets escape -- are UNKNOWN whatever deadline the request
   carries, as long as that deadline has not fired (then Wrapper.__exit__ has replaced them: deadline_status) *)
Theorem own_exception_is_unknown known hs e p t k :
  validate (e_codec e) known hs = VAccept t -> t <> TExpired ->
  let r := run_call known hs e p in
  (r_end r = KFin (RaiseException k) \/ r_end r = KSwallowed CClose (RaiseException k)) ->
  trail_done (r_pre r) = false -> cancel_done (r_pre r) = false ->
  final_status (r_out r) = Some (2, Some internal_msg) /\ accepted (r_out r) = true.
Proof.
  intros Hv Hne. cbn zeta. intros Hk Ht Hc.
  assert (Hx : exit_exn (r_end (run_call known hs e p)) = Some EExc /\
               reset_kind (r_end (run_call known hs e p)) = false /\
               r_end (run_call known hs e p) <> KHang).
  { destruct Hk as [-> | ->]; destruct k; repeat split; discriminate. }
  destruct Hx as (Hx & Hr & Hh). split.
  - eapply exception_status; eauto.
  - apply exactly_one_terminal_partial; auto. rewrite Hx. unfold silent_exit. rewrite andb_false_r. reflexivity.
Qed.

(* a call that fails part-way (invalid user metadata, a message the codec refuses, a raising listener) or that
   is cancelled while it waits for the paused transport leaves the flags as they were -- so __aexit__ still
   knows that no terminal has been sent.  (send_message may have sent the implicit HEADERS before it fails.) *)
Theorem partway_failure_is_harmless c s :
  (forall s' out r, do_send_initial s true = PDone s' out r -> s' = s /\ out = [] /\ r <> ROk) /\
  (forall st m s' out r, do_send_trailing c s st m true = PDone s' out r -> s' = s /\ out = [] /\ r <> ROk) /\
  (forall s' out r, do_send_message c s true = PDone s' out r ->
     msg_done s' = msg_done s /\ trail_done s' = trail_done s /\ cancel_done s' = cancel_done s /\
     count_data out = 0%nat /\ final_status out = None /\ r <> ROk).
Proof.
  split; [|split].
  - unfold do_send_initial. intros s' out r H. destruct (init_done s); inversion H; subst; repeat split; discriminate.
  - unfold do_send_trailing. intros st m s' out r H.
    destruct (trailing_refused c s st); inversion H; subst; repeat split; discriminate.
  - intros s' out r H. unfold do_send_message in H.
    bust s; destruct pz; destruct c; cbn in H; inversion H; subst; repeat split; discriminate.
Qed.

(* ------------------------------------------------------------------------------------------------ *)
(** * Request classification on ALL strings *)

Lemma zlist_eqb_eq a b : zlist_eqb a b = true <-> a = b.
Proof.
  revert b. induction a as [|x a IH]; destruct b as [|y b]; cbn; split; intros H; try discriminate; auto.
  - apply andb_true_iff in H as [H1 H2]. apply Z.eqb_eq in H1. apply IH in H2. congruence.
  - inversion H; subst. rewrite Z.eqb_refl. cbn. apply IH. reflexivity.
Qed.

Lemma partition_plus_spec v a b :
  partition_plus v = (a, b) -> v = a ++ 43 :: b \/ (v = a /\ b = []).
Proof.
  revert a b. induction v as [|c v IH]; intros a b H; cbn in H.
  - inversion H; subst. right. auto.
  - destruct (c =? 43) eqn:E.
    + apply Z.eqb_eq in E. inversion H; subst. left. reflexivity.
    + destruct (partition_plus v) as [a' b'] eqn:Ep. inversion H; subst.
      destruct (IH _ _ eq_refl) as [->|[-> ->]]; [left|right]; auto.
Qed.

(* which content-type strings a server whose codec has content subtype cs accepts: `application/grpc+cs`, and --
   only when cs is the protocol default 'proto' -- the bare `application/grpc` (and `application/grpc+`) *)
Theorem content_type_partition cs v :
  cs <> [] ->
  (content_type_ok cs v = true <->
   v = content_type_value cs \/
   (cs = proto_subtype /\ (v = s2z "application/grpc" \/ v = s2z "application/grpc+"))).
Proof.
  intros Hcs. split.
  - unfold content_type_ok. destruct (partition_plus v) as [a b] eqn:Ep. intros H.
    apply andb_true_iff in H as [Ha Hb]. apply zlist_eqb_eq in Ha. subst a.
    apply partition_plus_spec in Ep. apply zlist_eqb_eq in Hb. destruct b as [|c b].
    + right. split; [symmetry; exact Hb|]. destruct Ep as [->|[-> _]]; [right | left]; reflexivity.
    + left. subst cs. destruct Ep as [->|[_ E]]; [reflexivity | discriminate].
  - intros [->|[-> [->| ->]]]; try reflexivity.
    unfold content_type_ok, content_type_value. cbn [app]. cbn -[zlist_eqb].
    destruct cs as [|c r]; [congruence|].
    assert (E : zlist_eqb (c :: r) (c :: r) = true) by (apply zlist_eqb_eq; reflexivity).
    rewrite E. reflexivity.
Qed.

(* in particular the proto codec: exactly three strings; any other codec does NOT accept the bare form *)
Corollary content_type_partition_proto v :
  content_type_ok proto_subtype v = true <->
  v = s2z "application/grpc" \/ v = s2z "application/grpc+" \/ v = s2z "application/grpc+proto".
Proof.
  rewrite content_type_partition by discriminate. split.
  - intros [->|[_ [->| ->]]]; auto.
  - intros [->|[->| ->]]; [right; split; auto | right; split; auto | left; reflexivity].
Qed.

Corollary bare_content_type_needs_proto cs :
  cs <> [] -> cs <> proto_subtype -> content_type_ok cs (s2z "application/grpc") = false.
Proof.
  intros H1 H2. destruct (content_type_ok cs (s2z "application/grpc")) eqn:E; [|reflexivity].
  apply content_type_partition in E; [|exact H1]. destruct E as [E|[E _]]; [|congruence].
  exfalso. unfold content_type_value in E. apply (f_equal (@length Z)) in E. rewrite !app_length in E. cbn in E. lia.
Qed.

(* dict(headers): a later duplicate wins *)
Lemma hget_last k v hs : hget k (hs ++ [(k, v)]) = Some v.
Proof.
  induction hs as [|[k' v'] r IH]; cbn.
  - assert (E : zlist_eqb k k = true) by (apply zlist_eqb_eq; reflexivity). rewrite E. reflexivity.
  - rewrite IH. reflexivity.
Qed.

(* grpc-timeout values: 1..8 ASCII digits followed by one unit letter, nothing else *)
Theorem timeout_grammar v z :
  decode_timeout_zero v = Some z ->
  exists ds u, v = ds ++ [u] /\ (1 <= length ds <= 8)%nat /\ forallb is_digit ds = true /\
               In u (s2z "HMSmun") /\ (z = true <-> forallb (fun c => c =? 48) ds = true).
Proof.
  unfold decode_timeout_zero. destruct (rev v) as [|u rd] eqn:Er; [discriminate|].
  destruct (is_unit u && forallb is_digit rd && (1 <=? Z.of_nat (length rd)) && (Z.of_nat (length rd) <=? 8)) eqn:E;
    [|discriminate].
  intros H. inversion H; subst. clear H.
  repeat (apply andb_true_iff in E; destruct E as [E ?]).
  exists (rev rd), u. repeat split.
  - rewrite <- (rev_involutive v), Er. reflexivity.
  - rewrite rev_length. lia.
  - rewrite rev_length. lia.
  - rewrite forallb_forall in *. intros x Hx. apply in_rev in Hx. auto.
  - unfold is_unit in E. apply existsb_exists in E as ([c uv] & Hin & Hc). cbn in Hc. apply Z.eqb_eq in Hc. subst c.
    unfold units in Hin. cbn in Hin.
    repeat (destruct Hin as [Hin|Hin]; [inversion Hin; subst; cbn; tauto|]). destruct Hin.
  - intros Hz. rewrite forallb_forall in *. intros x Hx. apply in_rev in Hx. auto.
  - intros Hz. rewrite forallb_forall in *. intros x Hx. apply Hz. apply -> in_rev. exact Hx.
Qed.

(* a refused call (grpclib's ProtocolError) emits nothing and changes nothing *)
Theorem refusal_is_silent c s :
  (msg_done s = true -> init_done s = true) ->
  (forall s' out, send_initial s = (s', out, RRefused) -> s' = s /\ out = []) /\
  (forall s' out, send_message c s = (s', out, RRefused) -> s' = s /\ out = []) /\
  (forall st m s' out, send_trailing c s st m = (s', out, RRefused) -> s' = s /\ out = []) /\
  (forall s' out, cancel s = (s', out, RRefused) -> s' = s /\ out = []).
Proof.
  intros Hmi. repeat split.
  - bust s; cbn in H; inversion H; reflexivity.
  - bust s; cbn in H; inversion H; reflexivity.
  - bust s; cbn in Hmi; try (specialize (Hmi eq_refl); discriminate Hmi);
      destruct c; cbn in H; inversion H; reflexivity.
  - bust s; cbn in Hmi; try (specialize (Hmi eq_refl); discriminate Hmi);
      destruct c; cbn in H; inversion H; reflexivity.
  - unfold send_trailing in H. bust s; destruct c; cbn in H; destruct (st =? status_ok); cbn in H;
      inversion H; reflexivity.
  - unfold send_trailing in H. bust s; destruct c; cbn in H; destruct (st =? status_ok); cbn in H;
      inversion H; reflexivity.
  - bust s; cbn in H; inversion H; reflexivity.
  - bust s; cbn in H; inversion H; reflexivity.
Qed.

(* ------------------------------------------------------------------------------------------------ *)
(** * The full-strength liveness claim is false of the faithful model: witnesses *)

Definition good_request : list header :=
  [ (s2z ":method", s2z "POST"); (s2z ":scheme", s2z "http"); (s2z ":path", s2z "/v.S/M");
    (s2z ":authority", s2z "x"); (s2z "te", s2z "trailers"); (s2z "content-type", s2z "application/grpc") ].
Definition known_paths : list (list Z) := [s2z "/v.S/M"].
Definition std_env (c : card) (x : extk) : env := mkE c 1 false true x None proto_subtype false.

(* What the repository does on the probe programs of Gen/FactsC03Probes.v (regenerated from its BEHAVIOUR on every
   run: precondition refusals of the four sending calls, HEADERS / trailers vs trailers-only / RST_STREAM after
   non-OK while closable, h2 closing a half-closed stream after a refused send, part-way failures, the exit
   path for return / Exception / GRPCError / BaseException, x {UU, SS} x END_STREAM received or not) is what the
   model computes. *)
Definition request_with (ct : list Z) : list header :=
  [ (s2z ":method", s2z "POST"); (s2z ":scheme", s2z "http"); (s2z ":path", s2z "/v.S/M");
    (s2z ":authority", s2z "x"); (s2z "te", s2z "trailers"); (s2z "content-type", ct) ].

(* a probe: (cardinality, END_STREAM received, content subtype of the server's codec, content-type of the
   request, program, ending) *)
Definition golden_run (g : card * bool * list Z * list Z * list op * fin0) : list frame * list opres :=
  let '(c, eof, cs, ct, ops, f) := g in
  let r := run_call known_paths (request_with ct) (mkE c 1 false eof ENone None cs false) (mkP ops (Fin f) Honour) in
  (r_out r, r_results r).

Lemma golden_probes_agree : map golden_run golden_in = golden_out.
Proof. vm_compute. reflexivity. Qed.

Lemma golden_probes_nonempty : (100 <= length golden_in)%nat.
Proof. vm_compute. repeat constructor. Qed.

(* FULL STATEMENT (false):
     forall known hs e p, let r := run_call known hs e p in
       r_end r <> KHang -> reset_kind (r_end r) = false -> accepted (r_out r) = true.
   D4: a handler ending in a BaseException -- raised by itself, or the CancelledError of Server.close() --
   gets no terminal frame: HEADERS DATA and then silence. *)
Theorem exactly_one_terminal_refuted :
  exists known hs e p, let r := run_call known hs e p in
    r_end r <> KHang /\ reset_kind (r_end r) = false /\ accepted (r_out r) = false /\
    exit_exn (r_end r) = Some EBase /\ r_out r = [resp_headers; FData].
Proof.
  exists known_paths, good_request, (std_env UU ENone), (mkP [Recv; SendMessage false] (Fin RaiseBase) Honour).
  vm_compute. repeat split; discriminate.
Qed.

Theorem cancelled_by_close_refuted :
  exists known hs e p, let r := run_call known hs e p in
    r_end r = KCancelled CClose /\ accepted (r_out r) = false /\ r_out r = [resp_headers; FData].
Proof.
  exists known_paths, good_request, (std_env SS EClose), (mkP [Recv; SendMessage false] Wait Honour).
  vm_compute. repeat split.
Qed.

(* the former second silent ending (D42, repaired): the witness that used to produce no frame at all *)
Example grpc_ok_without_message_answered :
  let r := run_call known_paths good_request (std_env UU ENone) (mkP [Recv] (Fin (RaiseGRPC status_ok None)) Honour) in
  r_end r = KFin (RaiseGRPC status_ok None) /\ accepted (r_out r) = true /\
  r_out r = [FHeaders 200 true (Some 2) (Some internal_msg) true].
Proof. vm_compute. repeat split. Qed.
