(* Non-vacuity examples for C13: the hypotheses of the theorems are satisfiable by non-trivial
   metadata, the encoder produces what Python produces on them, and md_valid really excludes
   the metadata the property calls invalid.  Everything here is decided by vm_compute. *)
From Coq Require Import String ZArith List Bool.
From GV Require Import Lib.Str Gen.Facts Model.Base64 Model.Metadata.
Import ListNotations.
Open Scope Z_scope.

(* a repeated text key, a repeated "-bin" key holding bytes of length 0, 1, 2, 3, and another
   "-bin" key (using every character class of _KEY_RE) holding 4 bytes *)
Definition ex_md : metadata :=
  [ (s2z "x-trace", VStr (s2z "abc 123 ~!"));
    (s2z "blob-bin", VBytes []);
    (s2z "blob-bin", VBytes [255]);
    (s2z "blob-bin", VBytes [0; 16]);
    (s2z "blob-bin", VBytes [77; 97; 110]);                  (* b"Man" *)
    (s2z "other.key_1-bin", VBytes [251; 255; 190; 0]);
    (s2z "x-trace", VStr (s2z "second")) ].

Example ex_md_valid : md_valid ex_md = true.
Proof. vm_compute; reflexivity. Qed.

Example ex_md_typed : md_typed ex_md = true.
Proof. vm_compute; reflexivity. Qed.

(* what b64encode(v).rstrip(b"=") gives in Python for these values *)
Example ex_md_encoded :
  encode_metadata ex_md = Ok
    [ (s2z "x-trace", s2z "abc 123 ~!");
      (s2z "blob-bin", s2z "");
      (s2z "blob-bin", s2z "/w");
      (s2z "blob-bin", s2z "ABA");
      (s2z "blob-bin", s2z "TWFu");
      (s2z "other.key_1-bin", s2z "+/++AA");
      (s2z "x-trace", s2z "second") ].
Proof. vm_compute; reflexivity. Qed.

Example ex_md_decoded :
  match encode_metadata ex_md with
  | Ok hs => decode_metadata hs = Ok ex_md
  | Err _ => False
  end.
Proof. vm_compute; reflexivity. Qed.

(* ... also behind (and interleaved with) protocol headers, and when the sender pads *)
Example ex_md_decoded_behind_protocol_headers :
  decode_metadata
    [ (s2z ":status", s2z "200");
      (s2z "grpc-status", s2z "0");
      (s2z "content-type", s2z "application/grpc");
      (s2z "x-trace", s2z "abc");
      (s2z "te", s2z "trailers");
      (s2z "user-agent", s2z "grpc-python");
      (s2z "blob-bin", s2z "/w==");
      (s2z "blob-bin", s2z "ABA=") ]
  = Ok [ (s2z "x-trace", VStr (s2z "abc"));
         (s2z "blob-bin", VBytes [255]);
         (s2z "blob-bin", VBytes [0; 16]) ].
Proof. vm_compute; reflexivity. Qed.

(* invalid metadata: an uppercase key, a "grpc-" key; both are refused by the encoder *)
Definition ex_bad_upper : metadata := [ (s2z "X-Trace", VStr (s2z "v")) ].
Definition ex_bad_grpc : metadata := [ (s2z "grpc-foo", VStr (s2z "v")) ].

Example ex_bad_upper_invalid : md_valid ex_bad_upper = false.
Proof. vm_compute; reflexivity. Qed.

Example ex_bad_grpc_invalid : md_valid ex_bad_grpc = false.
Proof. vm_compute; reflexivity. Qed.

Example ex_bad_upper_rejected : encode_metadata ex_bad_upper = Err EValueError.
Proof. vm_compute; reflexivity. Qed.

Example ex_bad_grpc_rejected : encode_metadata ex_bad_grpc = Err EValueError.
Proof. vm_compute; reflexivity. Qed.

(* an invalid item after valid ones is still refused, and a type error is a TypeError *)
Example ex_bad_later_rejected :
  encode_metadata (ex_md ++ [ (s2z "te", VStr (s2z "trailers")) ]) = Err EValueError.
Proof. vm_compute; reflexivity. Qed.

Example ex_bad_type_rejected :
  md_valid [ (s2z "blob-bin", VStr (s2z "text")) ] = false /\
  encode_metadata [ (s2z "blob-bin", VStr (s2z "text")) ] = Err ETypeError.
Proof. split; vm_compute; reflexivity. Qed.
