(* Non-vacuity examples for C01: concrete non-trivial inputs satisfy the hypotheses of the theorems
   of Props/C01.v and produce what the theorems say.  Everything is decided by computation. *)
From Coq Require Import ZArith List Bool.
From GV Require Import Model.Framing Model.RecvBuffer Model.SendChunk Proofs.C01Proofs.
Import ListNotations.
Open Scope Z_scope.

Definition hello : bytes := [104; 101; 108; 108; 111].
Definition seven : bytes := [1; 2; 3; 4; 5; 6; 7].

(* what struct.pack gives in Python: b'\x00\x00\x00\x00\x05hello' *)
Example ex_frame : frame hello = [0; 0; 0; 0; 5; 104; 101; 108; 108; 111].
Proof. vm_compute; reflexivity. Qed.

Example ex_frame_big_endian : be32 16909060 = [1; 2; 3; 4].
Proof. vm_compute; reflexivity. Qed.

Example ex_parse : parse_frames (concat (map frame [hello; []; seven])) = Some [hello; []; seven].
Proof. vm_compute; reflexivity. Qed.

Example ex_parse_rejects_truncated : parse_frames (firstn 8 (frame hello)) = None.
Proof. vm_compute; reflexivity. Qed.

(* ---- the input of defect D1 (repaired): a message cut as DATA(3 bytes), empty DATA, DATA(rest),
   with the receiver scheduled between the frames *)
Definition d1_ops : list op :=
  [ORecv; OAdd [0; 0; 0] 3; ORecv; OAdd [] 0; ORecv; OAdd ([0; 5] ++ hello) 7; ORecv; OEof; ORecv].

Example d1_wf : wf_ops false d1_ops.
Proof. cbn. repeat split; discriminate. Qed.

Example d1_stream : concat (payloads d1_ops) = concat (map frame [hello]).
Proof. vm_compute; reflexivity. Qed.

Example d1_ended : ended d1_ops = true.
Proof. reflexivity. Qed.

Example d1_result : snd (run d1_ops rstate_init) = [RMsg hello; REos].
Proof. vm_compute; reflexivity. Qed.

(* ---- three messages (one empty), cut into one-byte, empty un-padded, empty padded and padded
   DATA frames, reads interleaved everywhere *)
Definition ex_ms : list bytes := [hello; []; seven].

Definition ex_ops : list op :=
  [ OAdd [0] 1; ORecv; OAdd [0; 0] 2; OAdd [] 0; ORecv; OAdd [] 4;            (* padded empty frame *)
    OAdd [0; 5; 104; 101] 260; ORecv;                                           (* 256 bytes of padding *)
    OAdd [108; 108; 111; 0; 0; 0] 6; ORecv; ORecv;
    OAdd [0; 0; 0] 3; ORecv;                                                    (* the empty message *)
    OAdd [0; 0; 0; 7; 1; 2; 3] 7; ORecv; OAdd [] 0; OAdd [4; 5; 6; 7] 5; OEof; ORecv ].

Example ex_sizes : sizes_ok ex_ms.
Proof. repeat constructor. Qed.

Example ex_wf : wf_ops false ex_ops.
Proof. cbn. repeat split; discriminate. Qed.

Example ex_stream : concat (payloads ex_ops) = concat (map frame ex_ms).
Proof. vm_compute; reflexivity. Qed.

Example ex_ended : ended ex_ops = true.
Proof. reflexivity. Qed.

(* ... the history itself has returned the first two messages and the third ... *)
Example ex_partial : snd (run ex_ops rstate_init) = [RMsg hello; RMsg []; RMsg seven].
Proof. vm_compute; reflexivity. Qed.

(* ... and with enough further calls, everything followed by end of stream *)
Example ex_result :
  snd (run (ex_ops ++ repeat ORecv 4) rstate_init) = [RMsg hello; RMsg []; RMsg seven; REos].
Proof. vm_compute; reflexivity. Qed.

(* credits: each queued frame is acknowledged once with its flow-controlled length *)
Example ex_blocked_read_then_add :
  let '(s1, o1, c1) := read_start 5 (add [0; 0] 2 buf_init) in
  let '(s2, o2, c2) := read_resume 5 (add [0; 0; 9; 1] 9 s1) in
  (o1, c1, o2, c2, acked_size s2, acked s2) = (RBlocked, [2], RBytes [0; 0; 0; 0; 9], [9], 1, [[1]]).
Proof. vm_compute; reflexivity. Qed.

(* ---- truncation: the stream ends inside the second message *)
Definition tr_tail : bytes := firstn 8 (frame seven).
Definition tr_ops : list op :=
  [OAdd (frame hello ++ firstn 2 tr_tail) 12; ORecv; OAdd (skipn 2 tr_tail) 6; ORecv; OEof].

Example tr_inside : inside_a_frame tr_tail.
Proof.
  exists seven, (skipn 8 (frame seven)).
  split; [reflexivity|]. split; [discriminate|]. split; [discriminate|]. reflexivity.
Qed.

Example tr_wf : wf_ops false tr_ops.
Proof. cbn. repeat split; discriminate. Qed.

Example tr_stream : concat (payloads tr_ops) = concat (map frame [hello]) ++ tr_tail.
Proof. vm_compute; reflexivity. Qed.

Example tr_result :
  snd (run (tr_ops ++ repeat ORecv 2) rstate_init) = [RMsg hello; RFail EAssert].
Proof. vm_compute; reflexivity. Qed.

(* the stream ends after the 5-byte prefix of a non-empty message: the second read returns b'' and
   the length assertion of recv_message fails *)
Example tr_after_prefix :
  snd (run [OAdd (firstn 5 (frame seven)) 5; OEof; ORecv] rstate_init) = [RFail EAssert].
Proof. vm_compute; reflexivity. Qed.

(* compressed flag set *)
Example ex_compressed :
  snd (run [OAdd [1; 0; 0; 0; 1; 9] 6; ORecv] rstate_init) = [RNotImpl].
Proof. vm_compute; reflexivity. Qed.

(* ---- sender: a 12-byte frame under changing windows; a non-positive window waits *)
Definition ex_obs : list (Z * Z) := [(3, 16384); (0, 16384); (-5, 16384); (100, 4); (1, 16384); (65535, 16384)].

Example ex_send :
  send_loop ex_obs (frame seven) =
  ([ mk_emitted [0; 0; 0] 3 16384; mk_emitted [0; 7; 1; 2] 100 4;
     mk_emitted [3] 1 16384; mk_emitted [4; 5; 6; 7] 65535 16384 ], None).
Proof. vm_compute; reflexivity. Qed.

Example ex_send_sizes : send_sizes ex_obs 12 = ([3; 4; 1; 4], None).
Proof. vm_compute; reflexivity. Qed.

Example ex_send_starved : send_loop [(2, 16384); (0, 16384)] hello = ([mk_emitted [104; 101] 2 16384], Some [108; 108; 111]).
Proof. vm_compute; reflexivity. Qed.

Example ex_send_obs_ok : Forall (fun o => 0 < snd o) ex_obs /\ (Nat.max 1 (length hello) <= positive_obs (ex_obs ++ ex_obs))%nat.
Proof. split; [repeat constructor|vm_compute; repeat constructor]. Qed.

(* empty payload (never produced by send_message): one empty DATA frame *)
Example ex_send_empty : send_loop [(10, 16384)] [] = ([mk_emitted [] 10 16384], None).
Proof. vm_compute; reflexivity. Qed.

(* ---- end to end: two messages, each chunked under its own observations, re-cut on the way *)
Definition e2e_obss : list (list (Z * Z)) := [ex_obs; [(4, 16384); (65535, 16384)]].
Definition e2e_ms : list bytes := [seven; hello].

Example e2e_all_sent : all_sent e2e_obss e2e_ms.
Proof. repeat constructor. Qed.

Definition e2e_ops : list op :=
  map (fun d => OAdd d (zlen d + 1)) (send_all e2e_obss e2e_ms) ++ [ORecv; OEof].

Example e2e_wf : wf_ops false e2e_ops.
Proof. cbn. repeat split; discriminate. Qed.

Example e2e_payloads : concat (payloads e2e_ops) = concat (send_all e2e_obss e2e_ms).
Proof. vm_compute; reflexivity. Qed.

Example e2e_result :
  snd (run (e2e_ops ++ repeat ORecv 3) rstate_init) = [RMsg seven; RMsg hello; REos].
Proof. vm_compute; reflexivity. Qed.
