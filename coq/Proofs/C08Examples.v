(* Non-vacuity examples for C08: concrete, non-trivial histories satisfy the hypotheses of the theorems
   (event_ok, legal, live connection, everything released), the model computes on them what the real code
   was observed to do (these histories are in corpus/C08), and the hypotheses are needed.
   Everything here is decided by vm_compute. *)
From Coq Require Import ZArith List Bool.
From GV Require Import Gen.Facts Model.RecvLedger.
Import ListNotations.
Open Scope Z_scope.

(* three streams interleaved:
   1: HEADERS + DATA(1005) + padded DATA(15, pad 7) + RST in one read -- the handler task is cancelled before
      its first step, only the done-callback releases (the repaired defect D9);
   3: a handler reading two messages (5-byte prefix, then the body) while frames, an empty frame and a padded
      empty frame arrive; its read blocks and is woken; released twice (finally + done-callback); DATA after that;
   5: data arrives, handler never reads, stream ends, release; something reads both buffers again afterwards. *)
Definition ex_hist : list event :=
  [ Open 1; Data 1 1005 None; Data 1 15 (Some 7); Release 1;
    Open 3; Open 5; Data 3 500 None; Data 5 300 (Some 0);
    Read 3 5; Read 3 1000; Data 3 0 None; Data 3 0 (Some 3); Data 5 20 None;
    Pause; Data 3 505 None; Data 3 105 None; Wake 3; EndStream 5;
    Release 3; Release 3; Data 3 105 None; Resume;
    Read 3 5; Release 5; Release 5; Read 5 5; Wake 3 ].

Example ex_hist_events_ok : forallb event_ok ex_hist = true.
Proof. vm_compute; reflexivity. Qed.

Example ex_hist_legal : legal init ex_hist = true.
Proof. vm_compute; reflexivity. Qed.

Example ex_hist_final :
  let s := fst (run init ex_hist) in
  closing s = false /\ map (fun x => lookup_live x (reg s)) [1; 3; 5] = [None; None; None] /\
  map (fun x => match lookup x (reg s) with Some b => (bq b, brel b) | None => ([], false) end) [1; 3; 5] =
    [([], true); ([], true); ([], true)].
Proof. vm_compute; repeat split; reflexivity. Qed.

Example ex_hist_reads_after_release :
  filter (fun x => match x with ORead _ _ | OBlock _ => true | _ => false end) (snd (run init ex_hist)) =
  [ORead 3 RData; OBlock 3; ORead 3 RData; OBlock 3; ORead 5 REof].
Proof. vm_compute; reflexivity. Qed.

Example ex_hist_ledger :
  let o := snd (run init ex_hist) in
  (received 1 o, credited 1 o) = (1028, 1028) /\ (received 3 o, credited 3 o) = (1219, 1219) /\
  (received 5 o, credited 5 o) = (321, 321) /\ (received_conn o, credited_conn o) = (2568, 2568).
Proof. vm_compute; repeat split; reflexivity. Qed.

(* the individual acknowledgements, in order: stream 1 in one piece at release; stream 3 frame by frame as the
   reads need them (the 105-byte frame only at release), late data at once; stream 5 at release; all of
   stream 3's credit is returned while the transport is paused; the reads after the releases (Read 3 5 blocks
   on the drained queue, Read 5 5 sees EOF) acknowledge nothing *)
Example ex_hist_acks :
  filter (fun x => match x with OAck _ _ => true | _ => false end) (snd (run init ex_hist)) =
  [OAck 1 1028; OAck 3 500; OAck 3 4; OAck 3 505; OAck 3 105; OAck 3 105; OAck 5 321].
Proof. vm_compute; reflexivity. Qed.

(* back-pressure (hypotheses of C08_read_credits_minimal_prefix): three frames queued, the application reads
   the 5-byte prefix: only the first frame is credited, 610 stay held *)
Definition ex_bp_state : st := fst (run init [Open 1; Data 1 500 None; Data 1 505 None; Data 1 105 None]).

Example ex_bp_hyps :
  exists b, lookup 1 (reg ex_bp_state) = Some b /\ bpend b = None /\
            bq b = [mkItem 500 500; mkItem 505 505; mkItem 105 105].
Proof. eexists. vm_compute. repeat split; reflexivity. Qed.

Example ex_bp_read :
  let '(s', o) := step ex_bp_state (Read 1 5) in
  credited 1 o = 500 /\ held 1 s' = 610 /\ o = [OAck 1 500; ORead 1 RData].
Proof. vm_compute; repeat split; reflexivity. Qed.

(* a read that needs more than is queued blocks; the resumed read (C08_resumed_read_...) pops one more frame *)
Example ex_bp_wake :
  let s1 := fst (step ex_bp_state (Read 1 5)) in
  let s2 := fst (step s1 (Read 1 1200)) in          (* 495 left over + 505 + 105 = 1105 < 1200: blocks *)
  let s3 := fst (step s2 (Data 1 700 None)) in
  let s4 := fst (step s3 (Data 1 50 None)) in
  (exists b, lookup 1 (reg s4) = Some b /\ bpend b = Some 1200 /\ bq b = [mkItem 700 700; mkItem 50 50]) /\
  snd (step s4 (Wake 1)) = [OAck 1 700; ORead 1 RData] /\ held 1 (fst (step s4 (Wake 1))) = 50.
Proof. vm_compute. split; [eexists; repeat split; reflexivity|split; reflexivity]. Qed.

(* `legal` is needed for conservation: were a registered id opened again (h2 never does that), the first
   buffer's credit would be lost *)
Definition ex_illegal : list event := [Open 1; Data 1 100 None; Open 1; Release 1].

Example ex_illegal_not_legal : legal init ex_illegal = false.
Proof. vm_compute; reflexivity. Qed.

Example ex_illegal_leaks :
  let '(s, o) := run init ex_illegal in
  lookup_live 1 (reg s) = None /\ closing s = false /\ received 1 o = 100 /\ credited 1 o = 0 /\
  held 1 s = 0 /\ forfeited 1 s = 0.
Proof. vm_compute; repeat split; reflexivity. Qed.

(* "live connection" is needed for no-leak: after Close the release acknowledges nothing *)
Definition ex_closing : list event := [Open 1; Read 1 5; Data 1 100 (Some 9); Close; Cancel 1; Release 1].

Example ex_closing_forfeits :
  let '(s, o) := run init ex_closing in
  legal init ex_closing = true /\ closing s = true /\ lookup_live 1 (reg s) = None /\
  received 1 o = 110 /\ credited 1 o = 0 /\ dropped 1 o = 110 /\ held 1 s = 0 /\ forfeited 1 s = 110.
Proof. vm_compute; repeat split; reflexivity. Qed.

(* ... and because unacked_size() was not even evaluated, the frames are still in the released buffer: a reader
   that goes on after the release acknowledges them then (conservation still holds: forfeited goes back to 0) *)
Example ex_closing_read_after_release :
  let '(s, o) := run init (ex_closing ++ [Read 1 5]) in
  credited 1 o = 110 /\ forfeited 1 s = 0 /\ received 1 o = credited 1 o + held 1 s + forfeited 1 s.
Proof. vm_compute; repeat split; reflexivity. Qed.

(* an empty un-padded DATA frame is not queued (it could not be told from the EOF marker), a padded empty one is *)
Example ex_empty_frames :
  let s := fst (run init [Open 1; Data 1 0 None; Data 1 0 (Some 0); EndStream 1]) in
  exists b, lookup 1 (reg s) = Some b /\ bq b = [mkItem 0 1; eof_marker] /\ beof b = true.
Proof. eexists. vm_compute. repeat split; reflexivity. Qed.

(* truncated message: the read hits the EOF marker with too few bytes -> AssertionError, the credit is still
   returned frame by frame and the rest at release *)
Example ex_truncated :
  snd (run init [Open 1; Data 1 5 None; Data 1 7 None; EndStream 1; Read 1 5; Read 1 100; Release 1]) =
  [ORecv 1 5; ORecv 1 7; OAck 1 5; ORead 1 RData; OAck 1 7; ORead 1 RAssert].
Proof. vm_compute; reflexivity. Qed.

(* distinct ids (hypothesis of C08_distinct_ids_legal) *)
Example ex_hist_opens : opens ex_hist = [1; 3; 5].
Proof. vm_compute; reflexivity. Qed.

(* windows: both ends of the legal range, the value next to the lower end, the default *)
Example ex_windows :
  connection_made 65535 65535 = Some (mkPreface None None) /\
  connection_made 65536 2147483647 = Some (mkPreface (Some 1) (Some 2147483647)) /\
  connection_made 2147483647 65536 = Some (mkPreface (Some 2147418112) (Some 65536)) /\
  connection_made cfg_4mib cfg_4mib = Some (mkPreface (Some 4128769) (Some 4194304)) /\
  configure 65534 65535 = None /\ configure 65535 2147483648 = None /\
  configure 65535 2147483647 = Some (65535, 2147483647).
Proof. vm_compute; repeat split; reflexivity. Qed.
