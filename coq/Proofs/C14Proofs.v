(* Proofs for Props/C14.v: UTF-8 and percent-escape round trips for every scalar-value string, wire
   safety of the encoded grpc-message, the status round trip through the trailers, validity of
   whatever the decoder returns.  Axiom-free. *)
From Coq Require Import String ZArith List Bool Lia ZifyBool.
From GV Require Import Lib.Str Gen.Facts Model.Base64 Model.Metadata Model.Utf8 Model.Percent
  Model.StatusWire Proofs.C13Proofs.
Import ListNotations.
Open Scope Z_scope.

#[local] Ltac Zify.zify_post_hook ::= Z.div_mod_to_equations.

(* ------------------------------------------------------------------------------------------ *)
(** * UTF-8 *)

Lemma is_scalar_range c :
  is_scalar c = true -> 0 <= c <= 1114111 /\ ~ (55296 <= c <= 57343).
Proof. unfold is_scalar, in_range. lia. Qed.

Lemma dec_ascii1 b r :
  0 <= b < 128 -> utf8_decode_replace (b :: r) = b :: utf8_decode_replace r.
Proof.
  intros Hb. cbn [utf8_decode_replace].
  destruct (b <? 128) eqn:E; [reflexivity | lia].
Qed.

Lemma dec_two b0 b1 r :
  194 <= b0 < 224 -> 128 <= b1 <= 191 ->
  utf8_decode_replace (b0 :: b1 :: r) = ((b0 - 192) * 64 + (b1 - 128)) :: utf8_decode_replace r.
Proof.
  intros H0 H1. cbn [utf8_decode_replace].
  destruct (b0 <? 128) eqn:E1; [lia|].
  destruct (b0 <? 194) eqn:E2; [lia|].
  destruct (b0 <? 224) eqn:E3; [|lia].
  unfold is_cont, in_range.
  destruct ((128 <=? b1) && (b1 <=? 191)) eqn:E4; [reflexivity | lia].
Qed.

Lemma dec_three b0 b1 b2 r :
  224 <= b0 < 240 -> 128 <= b1 <= 191 -> 128 <= b2 <= 191 ->
  (b0 = 224 -> 160 <= b1) -> (b0 = 237 -> b1 < 160) ->
  utf8_decode_replace (b0 :: b1 :: b2 :: r) =
  ((b0 - 224) * 4096 + (b1 - 128) * 64 + (b2 - 128)) :: utf8_decode_replace r.
Proof.
  intros H0 H1 H2 HE0 HED. cbn [utf8_decode_replace].
  destruct (b0 <? 128) eqn:E1; [lia|].
  destruct (b0 <? 194) eqn:E2; [lia|].
  destruct (b0 <? 224) eqn:E3; [lia|].
  destruct (b0 <? 240) eqn:E4; [|lia].
  unfold is_cont, in_range.
  destruct (negb ((128 <=? b1) && (b1 <=? 191)) || (b0 =? 224) && (b1 <? 160)
            || (b0 =? 237) && (160 <=? b1)) eqn:E5; [lia|].
  destruct ((128 <=? b2) && (b2 <=? 191)) eqn:E6; [reflexivity | lia].
Qed.

Lemma dec_four b0 b1 b2 b3 r :
  240 <= b0 < 245 -> 128 <= b1 <= 191 -> 128 <= b2 <= 191 -> 128 <= b3 <= 191 ->
  (b0 = 240 -> 144 <= b1) -> (b0 = 244 -> b1 < 144) ->
  utf8_decode_replace (b0 :: b1 :: b2 :: b3 :: r) =
  ((b0 - 240) * 262144 + (b1 - 128) * 4096 + (b2 - 128) * 64 + (b3 - 128)) :: utf8_decode_replace r.
Proof.
  intros H0 H1 H2 H3 HF0 HF4. cbn [utf8_decode_replace].
  destruct (b0 <? 128) eqn:E1; [lia|].
  destruct (b0 <? 194) eqn:E2; [lia|].
  destruct (b0 <? 224) eqn:E3; [lia|].
  destruct (b0 <? 240) eqn:E4; [lia|].
  destruct (b0 <? 245) eqn:E5; [|lia].
  unfold is_cont, in_range.
  destruct (negb ((128 <=? b1) && (b1 <=? 191)) || (b0 =? 240) && (b1 <? 144)
            || (b0 =? 244) && (144 <=? b1)) eqn:E6; [lia|].
  destruct ((128 <=? b2) && (b2 <=? 191)) eqn:E7; [|lia].
  destruct ((128 <=? b3) && (b3 <=? 191)) eqn:E8; [reflexivity | lia].
Qed.

(* one character: all four length classes *)
Lemma dec_enc1 c rest :
  is_scalar c = true ->
  utf8_decode_replace (utf8_enc1 c ++ rest) = c :: utf8_decode_replace rest.
Proof.
  intros Hs. apply is_scalar_range in Hs. destruct Hs as [Hr Hns].
  unfold utf8_enc1.
  destruct (c <? 128) eqn:E1.
  { cbn [app]. apply dec_ascii1. lia. }
  destruct (c <? 2048) eqn:E2.
  { cbn [app]. rewrite dec_two by lia. f_equal. lia. }
  destruct (c <? 65536) eqn:E3.
  { cbn [app]. rewrite dec_three by lia. f_equal. lia. }
  cbn [app]. rewrite dec_four by lia. f_equal. lia.
Qed.

Lemma enc1_bytes c : is_scalar c = true -> bytes_ok (utf8_enc1 c) = true.
Proof.
  intros Hs. apply is_scalar_range in Hs. destruct Hs as [Hr Hns].
  unfold utf8_enc1, bytes_ok, is_byte, in_range.
  destruct (c <? 128) eqn:E1; [cbn [forallb]; lia|].
  destruct (c <? 2048) eqn:E2; [cbn [forallb]; lia|].
  destruct (c <? 65536) eqn:E3; cbn [forallb]; lia.
Qed.

Lemma bytes_ok_app a b : bytes_ok (a ++ b) = bytes_ok a && bytes_ok b.
Proof. unfold bytes_ok. apply forallb_app. Qed.

Lemma scalars_ok_cons c s : scalars_ok (c :: s) = is_scalar c && scalars_ok s.
Proof. reflexivity. Qed.

(* str.encode succeeds exactly on the strings without lone surrogates ... *)
Lemma utf8_encode_some s :
  scalars_ok s = true ->
  exists b, utf8_encode s = Some b /\ bytes_ok b = true /\ utf8_decode_replace b = s.
Proof.
  induction s as [|c s IH]; intros Hs.
  - exists []. repeat split.
  - rewrite scalars_ok_cons in Hs. apply andb_true_iff in Hs as [Hc Hs].
    destruct (IH Hs) as (b & Hb & Hok & Hdec).
    exists (utf8_enc1 c ++ b). cbn [utf8_encode]. rewrite Hc, Hb. repeat split.
    + rewrite bytes_ok_app, enc1_bytes, Hok by exact Hc. reflexivity.
    + rewrite dec_enc1 by exact Hc. rewrite Hdec. reflexivity.
Qed.

(* ... and raises UnicodeEncodeError on all the others (the error branch of the real code) *)
Lemma utf8_encode_none s : scalars_ok s = false -> utf8_encode s = None.
Proof.
  induction s as [|c s IH]; intros Hs.
  - discriminate.
  - rewrite scalars_ok_cons in Hs. cbn [utf8_encode].
    destruct (is_scalar c) eqn:Hc; [|reflexivity].
    rewrite IH by (destruct (scalars_ok s); [discriminate | reflexivity]). reflexivity.
Qed.

Lemma utf8_encode_some_inv s b : utf8_encode s = Some b -> scalars_ok s = true.
Proof.
  intros H. destruct (scalars_ok s) eqn:E; [reflexivity|].
  rewrite utf8_encode_none in H by exact E. discriminate.
Qed.

Lemma dec_all_ascii l : forallb is_ascii l = true -> utf8_decode_replace l = l.
Proof.
  induction l as [|c l IH]; intros H; [reflexivity|].
  cbn [forallb] in H. apply andb_true_iff in H as [Hc Hl].
  unfold is_ascii, in_range in Hc.
  rewrite dec_ascii1 by lia. rewrite IH by exact Hl. reflexivity.
Qed.

(* Whatever bytes arrive, the decoder returns a valid str: only scalar values, never a surrogate
   or a value above 10FFFF -- for malformed input as well. *)
Lemma is_scalar_repl : is_scalar REPL = true.
Proof. reflexivity. Qed.

Lemma dec_scalars_fuel :
  forall n l, (length l <= n)%nat -> bytes_ok l = true -> scalars_ok (utf8_decode_replace l) = true.
Proof.
  induction n as [|n IH]; intros l Hlen Hok.
  { destruct l; [reflexivity | cbn [length] in Hlen; lia]. }
  destruct l as [|b0 r]; [reflexivity|].
  apply bytes_ok_cons in Hok as [Hb0 Hr].
  cbn [length] in Hlen.
  assert (IHr : scalars_ok (utf8_decode_replace r) = true) by (apply IH; [lia | exact Hr]).
  cbn [utf8_decode_replace].
  destruct (b0 <? 128) eqn:E1.
  { rewrite scalars_ok_cons, IHr. unfold is_scalar, in_range. lia. }
  destruct (b0 <? 194) eqn:E2.
  { rewrite scalars_ok_cons, IHr. reflexivity. }
  destruct r as [|b1 r1].
  { destruct (b0 <? 224); [reflexivity|]. destruct (b0 <? 240); [reflexivity|].
    destruct (b0 <? 245); reflexivity. }
  apply bytes_ok_cons in Hr as [Hb1 Hr1]. cbn [length] in Hlen.
  assert (IHr1 : scalars_ok (utf8_decode_replace r1) = true) by (apply IH; [lia | exact Hr1]).
  unfold is_cont, in_range.
  destruct (b0 <? 224) eqn:E3.
  { destruct ((128 <=? b1) && (b1 <=? 191)) eqn:E4.
    - rewrite scalars_ok_cons, IHr1. unfold is_scalar, in_range. lia.
    - rewrite scalars_ok_cons, IHr. reflexivity. }
  destruct (b0 <? 240) eqn:E4.
  { destruct (negb ((128 <=? b1) && (b1 <=? 191)) || (b0 =? 224) && (b1 <? 160)
              || (b0 =? 237) && (160 <=? b1)) eqn:E5.
    { rewrite scalars_ok_cons, IHr. reflexivity. }
    destruct r1 as [|b2 r2]; [reflexivity|].
    apply bytes_ok_cons in Hr1 as [Hb2 Hr2]. cbn [length] in Hlen.
    destruct ((128 <=? b2) && (b2 <=? 191)) eqn:E6.
    - rewrite scalars_ok_cons. rewrite (IH r2) by (try lia; exact Hr2).
      unfold is_scalar, in_range. lia.
    - rewrite scalars_ok_cons, IHr1. reflexivity. }
  destruct (b0 <? 245) eqn:E5.
  { destruct (negb ((128 <=? b1) && (b1 <=? 191)) || (b0 =? 240) && (b1 <? 144)
              || (b0 =? 244) && (144 <=? b1)) eqn:E6.
    { rewrite scalars_ok_cons, IHr. reflexivity. }
    destruct r1 as [|b2 r2]; [reflexivity|].
    pose proof Hr1 as Hr1'.
    apply bytes_ok_cons in Hr1 as [Hb2 Hr2]. cbn [length] in Hlen.
    destruct ((128 <=? b2) && (b2 <=? 191)) eqn:E7.
    - destruct r2 as [|b3 r3]; [reflexivity|].
      pose proof Hr2 as Hr2'.
      apply bytes_ok_cons in Hr2 as [Hb3 Hr3]. cbn [length] in Hlen.
      destruct ((128 <=? b3) && (b3 <=? 191)) eqn:E8.
      + rewrite scalars_ok_cons. rewrite (IH r3) by (try lia; exact Hr3).
        unfold is_scalar, in_range. lia.
      + rewrite scalars_ok_cons. rewrite (IH (b3 :: r3)) by (try (cbn [length]; lia); exact Hr2').
        reflexivity.
    - rewrite scalars_ok_cons, IHr1. reflexivity. }
  rewrite scalars_ok_cons, IHr. reflexivity.
Qed.

Lemma dec_scalars l : bytes_ok l = true -> scalars_ok (utf8_decode_replace l) = true.
Proof. intros H. apply (dec_scalars_fuel (length l) l); [lia | exact H]. Qed.

(* ------------------------------------------------------------------------------------------ *)
(** * Percent escapes *)

(* The quoting lemmas are proved for an arbitrary `safe` argument of which only two things are
   known -- after quote_from_bytes normalised it, it holds printable ASCII and no '%' -- and are
   instantiated with _UNQUOTED (Gen.Facts.unquoted, regenerated on every run) at the end. *)
Definition safe_fine (safe : list Z) : bool :=
  forallb (fun c => printable c && negb (c =? PCT)) (safe_norm safe).

Lemma unquoted_facts : safe_fine unquoted = true.
Proof. vm_compute; reflexivity. Qed.

Lemma mem_z_in b l : mem_z b l = true -> In b l.
Proof.
  unfold mem_z. intros H. apply existsb_exists in H as (x & Hin & Hx).
  apply Z.eqb_eq in Hx. subst x. exact Hin.
Qed.

Lemma hex_upper_cases v :
  0 <= v < 16 -> 48 <= hex_upper v <= 57 \/ 65 <= hex_upper v <= 70.
Proof. intros Hv. unfold hex_upper. destruct (v <? 10) eqn:E; lia. Qed.

Lemma hexval_hex_upper v : 0 <= v < 16 -> hexval (hex_upper v) = Some v.
Proof.
  intros Hv. unfold hex_upper, hexval, in_range.
  destruct (v <? 10) eqn:E.
  - destruct ((48 <=? 48 + v) && (48 + v <=? 57)) eqn:E1; [f_equal; lia | lia].
  - destruct ((48 <=? 55 + v) && (55 + v <=? 57)) eqn:E1; [lia|].
    destruct ((65 <=? 55 + v) && (55 + v <=? 70)) eqn:E2; [f_equal; lia | lia].
Qed.

Lemma hex_upper_not_pct v : 0 <= v < 16 -> (hex_upper v =? PCT) = false.
Proof. intros Hv. pose proof (hex_upper_cases v Hv). unfold PCT. lia. Qed.

Lemma hex_upper_is_upper_hex v : 0 <= v < 16 -> upper_hex (hex_upper v) = true.
Proof. intros Hv. pose proof (hex_upper_cases v Hv). unfold upper_hex, in_range. lia. Qed.

Lemma hexval_range c a : hexval c = Some a -> 0 <= a < 16.
Proof.
  unfold hexval, in_range.
  destruct ((48 <=? c) && (c <=? 57)) eqn:E1; [intros [= <-]; lia|].
  destruct ((65 <=? c) && (c <=? 70)) eqn:E2; [intros [= <-]; lia|].
  destruct ((97 <=? c) && (c <=? 102)) eqn:E3; [intros [= <-]; lia | discriminate].
Qed.

Lemma unquote_impl_nil : unquote_impl [] = [].
Proof. reflexivity. Qed.

Lemma unquote_impl_cons_plain c r :
  (c =? PCT) = false -> unquote_impl (c :: r) = c :: unquote_impl r.
Proof.
  intros Hc. unfold unquote_impl. cbn [split_pct].
  destruct (split_pct r) as [h t]. rewrite Hc. reflexivity.
Qed.

Lemma unquote_impl_escape h1 h2 a b r :
  hexval h1 = Some a -> hexval h2 = Some b -> (h1 =? PCT) = false -> (h2 =? PCT) = false ->
  unquote_impl (PCT :: h1 :: h2 :: r) = (a * 16 + b) :: unquote_impl r.
Proof.
  intros Ha Hb N1 N2. unfold unquote_impl. cbn [split_pct].
  destruct (split_pct r) as [h t]. rewrite N1, N2.
  replace (PCT =? PCT) with true by reflexivity.
  cbn [app flat_map unquote_item]. rewrite Ha, Hb. reflexivity.
Qed.

Section Quote.
Variable safe : list Z.
Hypothesis Hsafe : safe_fine safe = true.

Definition kept (b : Z) : bool := always_safe b || mem_z b (safe_norm safe).

Lemma kept_props b : kept b = true -> 32 <= b <= 126 /\ b <> 37.
Proof.
  unfold kept. intros H. apply orb_true_iff in H as [H|H].
  - unfold always_safe, in_range in H. lia.
  - apply mem_z_in in H.
    pose proof Hsafe as F. unfold safe_fine in F. rewrite forallb_forall in F. specialize (F b H).
    unfold printable, in_range, PCT in F. lia.
Qed.

(* one byte through quote and back *)
Lemma unquote_quote_byte b rest :
  0 <= b <= 255 ->
  unquote_impl (quote_byte (safe_norm safe) b ++ rest) = b :: unquote_impl rest.
Proof.
  intros Hb. unfold quote_byte. fold (kept b).
  destruct (kept b) eqn:K.
  - apply kept_props in K. cbn [app]. apply unquote_impl_cons_plain. unfold PCT. lia.
  - cbn [app].
    rewrite (unquote_impl_escape _ _ (b / 16) (b mod 16)).
    + f_equal. lia.
    + apply hexval_hex_upper. lia.
    + apply hexval_hex_upper. lia.
    + apply hex_upper_not_pct. lia.
    + apply hex_upper_not_pct. lia.
Qed.

Lemma quote_from_bytes_cons b bs :
  quote_from_bytes safe (b :: bs) = quote_byte (safe_norm safe) b ++ quote_from_bytes safe bs.
Proof. reflexivity. Qed.

Lemma unquote_quote_bytes bs :
  bytes_ok bs = true -> unquote_impl (quote_from_bytes safe bs) = bs.
Proof.
  induction bs as [|b bs IH]; intros Hok; [reflexivity|].
  apply bytes_ok_cons in Hok as [Hb Hbs].
  rewrite quote_from_bytes_cons, unquote_quote_byte by exact Hb.
  rewrite IH by exact Hbs. reflexivity.
Qed.

(* the wire form: printable ASCII, '%' only in front of two upper-case hex digits *)
Lemma well_escaped_quote_byte b rest :
  0 <= b <= 255 ->
  well_escaped (quote_byte (safe_norm safe) b ++ rest) = well_escaped rest.
Proof.
  intros Hb. unfold quote_byte. fold (kept b).
  destruct (kept b) eqn:K.
  - apply kept_props in K. cbn [app well_escaped].
    replace (b =? PCT) with false by (unfold PCT; lia).
    replace (printable b) with true by (unfold printable, in_range; lia). reflexivity.
  - cbn [app well_escaped]. replace (PCT =? PCT) with true by reflexivity.
    rewrite !hex_upper_is_upper_hex by lia. reflexivity.
Qed.

Lemma well_escaped_quote bs :
  bytes_ok bs = true -> well_escaped (quote_from_bytes safe bs) = true.
Proof.
  induction bs as [|b bs IH]; intros Hok; [reflexivity|].
  apply bytes_ok_cons in Hok as [Hb Hbs].
  rewrite quote_from_bytes_cons, well_escaped_quote_byte by exact Hb. apply IH, Hbs.
Qed.

Lemma printable_quote_byte b :
  0 <= b <= 255 -> forallb printable (quote_byte (safe_norm safe) b) = true.
Proof.
  intros Hb. unfold quote_byte. fold (kept b).
  destruct (kept b) eqn:K.
  - apply kept_props in K. cbn [forallb]. unfold printable, in_range. lia.
  - cbn [forallb].
    pose proof (hex_upper_cases (b / 16)) as H1. pose proof (hex_upper_cases (b mod 16)) as H2.
    unfold printable, in_range, PCT. lia.
Qed.

Lemma printable_quote bs :
  bytes_ok bs = true -> forallb printable (quote_from_bytes safe bs) = true.
Proof.
  induction bs as [|b bs IH]; intros Hok; [reflexivity|].
  apply bytes_ok_cons in Hok as [Hb Hbs].
  rewrite quote_from_bytes_cons, forallb_app, printable_quote_byte, IH by assumption. reflexivity.
Qed.

End Quote.

Lemma printable_is_ascii l : forallb printable l = true -> forallb is_ascii l = true.
Proof.
  induction l as [|c l IH]; intros H; [reflexivity|].
  cbn [forallb] in *. apply andb_true_iff in H as [Hc Hl]. rewrite IH by exact Hl.
  unfold printable, is_ascii, in_range in *. lia.
Qed.

(* unquote on an all-ASCII str: the shortcut for strings without '%' and the splitting into
   ASCII runs are transparent *)
Lemma split_no_pct l : mem_z PCT l = false -> split_pct l = (l, []).
Proof.
  induction l as [|c l IH]; intros H; [reflexivity|].
  unfold mem_z in H. cbn [existsb] in H. apply orb_false_iff in H as [Hc Hl].
  cbn [split_pct]. rewrite (IH Hl).
  replace (c =? PCT) with false by lia. reflexivity.
Qed.

Lemma unquote_impl_no_pct l : mem_z PCT l = false -> unquote_impl l = l.
Proof.
  intros H. unfold unquote_impl. rewrite split_no_pct by exact H.
  cbn [flat_map]. apply app_nil_r.
Qed.

Lemma unquote_parts_ascii l run :
  forallb is_ascii l = true -> unquote_parts l run = flush_run (rev_append l run).
Proof.
  revert run. induction l as [|c l IH]; intros run H; [reflexivity|].
  cbn [forallb] in H. apply andb_true_iff in H as [Hc Hl].
  cbn [unquote_parts rev_append]. rewrite Hc. apply IH, Hl.
Qed.

Lemma rev_append_twice {A} (l : list A) : rev_append (rev_append l []) [] = l.
Proof. rewrite !rev_append_rev, !app_nil_r. apply rev_involutive. Qed.

Lemma unquote_ascii e :
  forallb is_ascii e = true -> unquote e = utf8_decode_replace (unquote_impl e).
Proof.
  intros H. unfold unquote. destruct (mem_z PCT e) eqn:M.
  - rewrite unquote_parts_ascii by exact H. unfold flush_run.
    rewrite rev_append_twice. reflexivity.
  - rewrite unquote_impl_no_pct by exact M. symmetry. apply dec_all_ascii, H.
Qed.

(* ---- the message codec ---- *)

Lemma encode_msg_some s :
  scalars_ok s = true ->
  exists b, utf8_encode s = Some b /\ bytes_ok b = true /\ utf8_decode_replace b = s /\
            encode_grpc_message s = Some (quote_from_bytes unquoted b).
Proof.
  intros Hs. destruct (utf8_encode_some s Hs) as (b & Hb & Hok & Hdec).
  exists b. repeat split; try assumption.
  unfold encode_grpc_message, quote. rewrite Hb. reflexivity.
Qed.

Lemma message_roundtrip :
  forall s, scalars_ok s = true ->
  exists e, encode_grpc_message s = Some e /\ decode_grpc_message e = s.
Proof.
  intros s Hs. destruct (encode_msg_some s Hs) as (b & _ & Hok & Hdec & He).
  exists (quote_from_bytes unquoted b). split; [exact He|].
  unfold decode_grpc_message.
  rewrite unquote_ascii by (apply printable_is_ascii, (printable_quote _ unquoted_facts), Hok).
  rewrite (unquote_quote_bytes _ unquoted_facts) by exact Hok. exact Hdec.
Qed.

Lemma encode_msg_inv s e :
  encode_grpc_message s = Some e ->
  scalars_ok s = true /\ exists b, utf8_encode s = Some b /\ bytes_ok b = true /\
                                    e = quote_from_bytes unquoted b.
Proof.
  unfold encode_grpc_message, quote. intros H.
  destruct (utf8_encode s) as [b|] eqn:Hb; [|discriminate].
  injection H as <-.
  pose proof (utf8_encode_some_inv s b Hb) as Hs. split; [exact Hs|].
  destruct (utf8_encode_some s Hs) as (b' & Hb' & Hok & _).
  rewrite Hb in Hb'. injection Hb' as <-.
  exists b. repeat split; assumption.
Qed.

Lemma message_wire_safe :
  forall s e, encode_grpc_message s = Some e ->
  forallb printable e = true /\ well_escaped e = true.
Proof.
  intros s e H. apply encode_msg_inv in H as (_ & b & _ & Hok & ->).
  split; [apply (printable_quote _ unquoted_facts) | apply (well_escaped_quote _ unquoted_facts)]; exact Hok.
Qed.

(* the error branch: UnicodeEncodeError exactly for strings holding a lone surrogate *)
Lemma encode_msg_error_iff :
  forall s, encode_grpc_message s = None <-> scalars_ok s = false.
Proof.
  intros s. split; intros H.
  - destruct (scalars_ok s) eqn:E; [|reflexivity].
    destruct (message_roundtrip s E) as (e & He & _). rewrite He in H. discriminate.
  - unfold encode_grpc_message, quote. rewrite utf8_encode_none by exact H. reflexivity.
Qed.

(* ---- arbitrary received text ---- *)

Lemma split_pct_forallb (P : Z -> bool) l :
  forallb P l = true ->
  forallb P (fst (split_pct l)) = true /\ forallb (forallb P) (snd (split_pct l)) = true.
Proof.
  induction l as [|c l IH]; intros H; [split; reflexivity|].
  cbn [forallb] in H. apply andb_true_iff in H as [Hc Hl].
  destruct (IH Hl) as [Hh Ht]. cbn [split_pct].
  destruct (split_pct l) as [h t]. cbn [fst snd] in *.
  destruct (c =? PCT); cbn [fst snd forallb].
  - split; [reflexivity|]. rewrite Hh, Ht. reflexivity.
  - split; [rewrite Hc, Hh; reflexivity | exact Ht].
Qed.

Lemma ascii_is_byte c : is_ascii c = true -> is_byte c = true.
Proof. unfold is_ascii, is_byte, in_range. lia. Qed.

Lemma forallb_impl {A} (P Q : A -> bool) l :
  (forall x, P x = true -> Q x = true) -> forallb P l = true -> forallb Q l = true.
Proof.
  intros HPQ. induction l as [|x l IH]; intros H; [reflexivity|].
  cbn [forallb] in *. apply andb_true_iff in H as [Hx Hl].
  rewrite (HPQ x Hx), (IH Hl). reflexivity.
Qed.

Lemma is_byte_pct : is_byte PCT = true.
Proof. reflexivity. Qed.

Lemma unquote_item_bytes item :
  forallb is_byte item = true -> forallb is_byte (unquote_item item) = true.
Proof.
  intros H.
  assert (Hlit : forallb is_byte (PCT :: item) = true).
  { cbn [forallb]. rewrite is_byte_pct, H. reflexivity. }
  unfold unquote_item.
  destruct item as [|h1 [|h2 rest]]; [exact Hlit | exact Hlit |].
  destruct (hexval h1) as [a|] eqn:Ha; [|exact Hlit].
  destruct (hexval h2) as [b|] eqn:Hb; [|exact Hlit].
  apply hexval_range in Ha. apply hexval_range in Hb.
  cbn [forallb] in H. apply andb_true_iff in H as [_ H]. apply andb_true_iff in H as [_ H].
  cbn [forallb]. rewrite H. unfold is_byte, in_range. lia.
Qed.

Lemma unquote_impl_bytes l : forallb is_ascii l = true -> bytes_ok (unquote_impl l) = true.
Proof.
  intros H. apply (forallb_impl _ is_byte _ ascii_is_byte) in H.
  destruct (split_pct_forallb is_byte l H) as [Hh Ht].
  unfold unquote_impl. destruct (split_pct l) as [h t]. cbn [fst snd] in *.
  unfold bytes_ok. rewrite forallb_app, Hh. cbn [andb].
  clear Hh H. induction t as [|item t IH]; [reflexivity|].
  cbn [forallb flat_map] in *. apply andb_true_iff in Ht as [Hi Ht].
  rewrite forallb_app, unquote_item_bytes, IH by assumption. reflexivity.
Qed.

Lemma ascii_is_scalar l : forallb is_ascii l = true -> scalars_ok l = true.
Proof.
  apply forallb_impl. intros c. unfold is_ascii, is_scalar, in_range. lia.
Qed.

(* what h2 hands over is ASCII; whatever it is, decoding gives a valid str *)
Lemma decode_yields_valid_str :
  forall v, ascii_ok v = true -> scalars_ok (decode_grpc_message v) = true.
Proof.
  intros v H. unfold decode_grpc_message.
  change (forallb is_ascii v = true) in H.
  rewrite unquote_ascii by exact H.
  apply dec_scalars, unquote_impl_bytes, H.
Qed.

(* ------------------------------------------------------------------------------------------ *)
(** * Status -> trailers -> status *)

Lemma zlist_eqb_eq a b : zlist_eqb a b = true -> a = b.
Proof.
  revert b. induction a as [|x a IH]; intros [|y b] H; try discriminate; [reflexivity|].
  cbn [zlist_eqb] in H. apply andb_true_iff in H as [Hx Hr].
  apply Z.eqb_eq in Hx. subst y. rewrite (IH b Hr). reflexivity.
Qed.

(* the three header names are pairwise different *)
Lemma keys_distinct :
  zlist_eqb grpc_status_key grpc_status_key = true /\
  zlist_eqb grpc_message_key grpc_message_key = true /\
  zlist_eqb status_details_key status_details_key = true /\
  zlist_eqb grpc_status_key grpc_message_key = false /\
  zlist_eqb grpc_status_key status_details_key = false /\
  zlist_eqb grpc_message_key grpc_status_key = false /\
  zlist_eqb grpc_message_key status_details_key = false /\
  zlist_eqb status_details_key grpc_status_key = false /\
  zlist_eqb status_details_key grpc_message_key = false.
Proof. vm_compute. repeat split; reflexivity. Qed.

Lemma keys_ascii :
  ascii_ok grpc_status_key = true /\ ascii_ok grpc_message_key = true /\
  ascii_ok status_details_key = true.
Proof. vm_compute. repeat split; reflexivity. Qed.

Lemma status_ok_is_0 : status_ok = 0.
Proof. vm_compute; reflexivity. Qed.

(* str(status.value) is ASCII and int() reads it back: checked on every member of Status *)
Definition decimal_fine (n : Z) : bool :=
  ascii_ok (decimal n) && match py_int (decimal n) with Some m => m =? n | None => false end.

Lemma decimal_members : forallb decimal_fine status_values = true.
Proof. vm_compute; reflexivity. Qed.

Lemma decimal_member st :
  In st status_values -> ascii_ok (decimal st) = true /\ py_int (decimal st) = Some st.
Proof.
  intros Hin. pose proof decimal_members as F. rewrite forallb_forall in F.
  specialize (F st Hin). unfold decimal_fine in F. apply andb_true_iff in F as [Ha Hp].
  split; [exact Ha|].
  destruct (py_int (decimal st)) as [m|]; [|discriminate].
  apply Z.eqb_eq in Hp. subst m. reflexivity.
Qed.

Lemma in_mem_z b l : In b l -> mem_z b l = true.
Proof.
  intros Hin. unfold mem_z. apply existsb_exists. exists b. split; [exact Hin | apply Z.eqb_refl].
Qed.

(* the status part of the trailers: three optional entries in a fixed order *)
Definition shape (sv : list Z) (mv dv : option (list Z)) : headers :=
  (grpc_status_key, sv)
  :: match mv with Some m => [(grpc_message_key, m)] | None => [] end
  ++ match dv with Some d => [(status_details_key, d)] | None => [] end.

Lemma shape_lookup sv mv dv :
  assoc_last grpc_status_key (shape sv mv dv) = Some sv /\
  assoc_last grpc_message_key (shape sv mv dv) = mv /\
  assoc_last status_details_key (shape sv mv dv) = dv.
Proof.
  destruct keys_distinct as (E11 & E22 & E33 & E12 & E13 & E21 & E23 & E31 & E32).
  unfold shape. destruct mv as [m|], dv as [d|]; cbn [app assoc_last];
    rewrite ?E11, ?E22, ?E33, ?E12, ?E13, ?E21, ?E23, ?E31, ?E32; repeat split; reflexivity.
Qed.

Lemma status_trailers_shape sc st msg det :
  status_trailers sc st msg det =
  match msg with
  | None => Some (shape (decimal st) None
                    (match det with Some b => if sc then Some (encode_bin_value b) else None
                                  | None => None end))
  | Some m => match encode_grpc_message m with
              | Some e => Some (shape (decimal st) (Some e)
                                  (match det with Some b => if sc then Some (encode_bin_value b) else None
                                                | None => None end))
              | None => None
              end
  end.
Proof.
  unfold status_trailers, shape.
  destruct msg as [m|]; [destruct (encode_grpc_message m)|]; destruct det as [b|]; try destruct sc;
    reflexivity.
Qed.

(* headers around the status part that say nothing about the status do not matter *)
Lemma assoc_last_app k a b :
  assoc_last k (a ++ b) = match assoc_last k b with Some v => Some v | None => assoc_last k a end.
Proof.
  induction a as [|[k' v] a IH]; cbn [app assoc_last].
  - destruct (assoc_last k b); reflexivity.
  - rewrite IH. destruct (assoc_last k b); reflexivity.
Qed.

Lemma assoc_last_free k hs :
  status_key k = true -> status_free hs = true -> assoc_last k hs = None.
Proof.
  intros Hk. induction hs as [|[k' v] hs IH]; intros Hf; [reflexivity|].
  unfold status_free in Hf. cbn [forallb fst] in Hf. apply andb_true_iff in Hf as [Hk' Hf].
  cbn [assoc_last]. rewrite (IH Hf).
  destruct (zlist_eqb k k') eqn:E; [|reflexivity].
  apply zlist_eqb_eq in E. subst k'. rewrite Hk in Hk'. discriminate.
Qed.

Lemma assoc_last_around k pre mid post :
  status_key k = true -> status_free pre = true -> status_free post = true ->
  assoc_last k (pre ++ mid ++ post) = assoc_last k mid.
Proof.
  intros Hk Hpre Hpost. rewrite !assoc_last_app.
  rewrite (assoc_last_free k post Hk Hpost), (assoc_last_free k pre Hk Hpre).
  destruct (assoc_last k mid); reflexivity.
Qed.

Lemma status_keys :
  status_key grpc_status_key = true /\ status_key grpc_message_key = true /\
  status_key status_details_key = true.
Proof. vm_compute. repeat split; reflexivity. Qed.

Lemma process_around cc pre mid post :
  status_free pre = true -> status_free post = true ->
  process_grpc_status cc (pre ++ mid ++ post) = process_grpc_status cc mid.
Proof.
  intros Hpre Hpost. destruct status_keys as (K1 & K2 & K3). unfold process_grpc_status.
  rewrite !(assoc_last_around _ pre mid post) by assumption. reflexivity.
Qed.

(* user metadata that encode_metadata accepted never carries one of the three names (C13) *)
Lemma grpc_key_reserved k : status_key k = true -> reserved k = true.
Proof.
  unfold status_key. intros H.
  assert (k = grpc_status_key \/ k = grpc_message_key \/ k = status_details_key) as Hk.
  { apply orb_true_iff in H as [H|H]; [apply orb_true_iff in H as [H|H]|];
      apply zlist_eqb_eq in H; subst k; auto. }
  destruct Hk as [->|[->| ->]]; vm_compute; reflexivity.
Qed.

Lemma wire_safe_status_free hs : forallb wire_safe hs = true -> status_free hs = true.
Proof.
  induction hs as [|[k v] hs IH]; intros H; [reflexivity|].
  cbn [forallb] in H. apply andb_true_iff in H as [Hkv Hr].
  unfold status_free. cbn [forallb fst]. fold (status_free hs). rewrite (IH Hr).
  destruct (status_key k) eqn:E; [|reflexivity].
  apply grpc_key_reserved in E. unfold wire_safe in Hkv. rewrite E in Hkv.
  rewrite andb_false_r in Hkv. discriminate.
Qed.

(* the core computation of the client on the status part *)
Lemma process_shape cc st mv dv :
  In st status_values -> st <> status_ok ->
  process_grpc_status cc (shape (decimal st) mv dv) =
  CStatus st (match mv with Some m => Some (decode_grpc_message m) | None => None end)
             (if cc then match dv with Some d => details_bytes d | None => None end else None).
Proof.
  intros Hin Hnok. destruct (decimal_member st Hin) as [Hascii Hint].
  destruct (shape_lookup (decimal st) mv dv) as (L1 & L2 & L3).
  unfold process_grpc_status. rewrite L1, L2, L3, Hascii. cbn [negb]. rewrite Hint.
  unfold is_status_member. rewrite (in_mem_z st status_values Hin). cbn [negb].
  destruct (st =? status_ok) eqn:E; [apply Z.eqb_eq in E; contradiction|].
  reflexivity.
Qed.

Lemma details_bytes_roundtrip b :
  bytes_ok b = true -> details_bytes (encode_bin_value b) = Some b.
Proof.
  intros Hok. unfold details_bytes. rewrite encode_bin_value_ascii by exact Hok.
  apply b64_roundtrip, Hok.
Qed.

(* THE round trip: every member of Status but OK, every message without lone surrogates
   (None and "" included, and kept apart), every details byte string, with or without a codec
   on either side *)
Lemma status_roundtrip :
  forall sc cc st msg det,
  In st status_values -> st <> status_ok -> msg_valid msg = true -> det_valid det = true ->
  exists hs, status_trailers sc st msg det = Some hs /\
             process_grpc_status cc hs = CStatus st msg (if sc && cc then det else None).
Proof.
  intros sc cc st msg det Hin Hnok Hmsg Hdet.
  rewrite status_trailers_shape.
  destruct msg as [m|].
  - cbn [msg_valid] in Hmsg. destruct (message_roundtrip m Hmsg) as (e & He & Hback).
    rewrite He. eexists. split; [reflexivity|].
    rewrite process_shape by assumption. rewrite Hback.
    destruct det as [b|]; [|destruct sc, cc; reflexivity].
    cbn [det_valid] in Hdet.
    destruct sc, cc; cbn [andb]; rewrite ?details_bytes_roundtrip by exact Hdet; reflexivity.
  - eexists. split; [reflexivity|].
    rewrite process_shape by assumption.
    destruct det as [b|]; [|destruct sc, cc; reflexivity].
    cbn [det_valid] in Hdet.
    destruct sc, cc; cbn [andb]; rewrite ?details_bytes_roundtrip by exact Hdet; reflexivity.
Qed.

(* ... and the same inside a complete trailers / trailers-only block: protocol headers in front,
   the user's trailing metadata (as encode_metadata emitted it, C13) behind *)
Lemma status_roundtrip_in_block :
  forall st msg det pre md hmd,
  In st status_values -> st <> status_ok -> msg_valid msg = true -> det_valid det = true ->
  status_free pre = true -> md_typed md = true -> encode_metadata md = Ok hmd ->
  exists hs, status_trailers true st msg det = Some hs /\
             process_grpc_status true (pre ++ hs ++ hmd) = CStatus st msg det.
Proof.
  intros st msg det pre md hmd Hin Hnok Hmsg Hdet Hpre Htyped Henc.
  destruct (status_roundtrip true true st msg det Hin Hnok Hmsg Hdet) as (hs & Hs & Hp).
  exists hs. split; [exact Hs|].
  rewrite process_around; [exact Hp | exact Hpre |].
  apply wire_safe_status_free. apply (encoded_is_wire_safe md hmd Htyped Henc).
Qed.

(* the wire form of the whole status part is ASCII, so the receiving h2 does not refuse it *)
Lemma forallb_printable_ascii_ok l : forallb printable l = true -> ascii_ok l = true.
Proof. intros H. apply printable_is_ascii in H. exact H. Qed.

Lemma status_trailers_ascii :
  forall sc st msg det hs,
  In st status_values -> det_valid det = true ->
  status_trailers sc st msg det = Some hs -> headers_ascii hs = true.
Proof.
  intros sc st msg det hs Hin Hdet H. rewrite status_trailers_shape in H.
  destruct keys_ascii as (A1 & A2 & A3). destruct (decimal_member st Hin) as [Hascii _].
  assert (Hd : forall b, det = Some b -> ascii_ok (encode_bin_value b) = true).
  { intros b ->. apply encode_bin_value_ascii. exact Hdet. }
  destruct msg as [m|].
  - destruct (encode_grpc_message m) as [e|] eqn:He; [|discriminate].
    apply message_wire_safe in He as [Hp _]. apply forallb_printable_ascii_ok in Hp.
    injection H as <-. unfold shape, headers_ascii.
    destruct det as [b|]; [destruct sc|]; cbn [app forallb fst snd];
      rewrite ?A1, ?A2, ?A3, ?Hascii, ?Hp, ?(Hd _ eq_refl); reflexivity.
  - injection H as <-. unfold shape, headers_ascii.
    destruct det as [b|]; [destruct sc|]; cbn [app forallb fst snd];
      rewrite ?A1, ?A2, ?A3, ?Hascii, ?(Hd _ eq_refl); reflexivity.
Qed.

Lemma status_roundtrip_through_h2 :
  forall st msg det,
  In st status_values -> st <> status_ok -> msg_valid msg = true -> det_valid det = true ->
  exists hs, status_trailers true st msg det = Some hs /\
             client_receive true hs = RStatus (CStatus st msg det).
Proof.
  intros st msg det Hin Hnok Hmsg Hdet.
  destruct (status_roundtrip true true st msg det Hin Hnok Hmsg Hdet) as (hs & Hs & Hp).
  exists hs. split; [exact Hs|].
  pose proof (status_trailers_ascii true st msg det hs Hin Hdet Hs) as Ha.
  unfold client_receive, h2_decode_headers. unfold headers_ascii in Ha. rewrite Ha, Hp. reflexivity.
Qed.

(* status OK is not an error: whatever message / details were sent with it, the client keeps
   none of it and raises nothing *)
Lemma ok_status_carries_nothing :
  forall sc cc msg det, msg_valid msg = true ->
  In status_ok status_values /\
  exists hs, status_trailers sc status_ok msg det = Some hs /\
             process_grpc_status cc hs = CStatus status_ok None None /\
             raises_grpc_error (CStatus status_ok None None) = false.
Proof.
  intros sc cc msg det Hmsg.
  assert (Hin : In status_ok status_values) by (vm_compute; auto).
  split; [exact Hin|].
  rewrite status_trailers_shape.
  assert (Hgen : forall mv dv, process_grpc_status cc (shape (decimal status_ok) mv dv)
                               = CStatus status_ok None None).
  { intros mv dv. destruct (decimal_member status_ok Hin) as [Hascii Hint].
    destruct (shape_lookup (decimal status_ok) mv dv) as (L1 & _ & _).
    unfold process_grpc_status. rewrite L1, Hascii. cbn [negb]. rewrite Hint.
    unfold is_status_member. rewrite (in_mem_z _ _ Hin). cbn [negb].
    rewrite Z.eqb_refl. reflexivity. }
  destruct msg as [m|].
  - cbn [msg_valid] in Hmsg. destruct (message_roundtrip m Hmsg) as (e & He & _). rewrite He.
    eexists. split; [reflexivity|]. split; [apply Hgen|].
    unfold raises_grpc_error. rewrite Z.eqb_refl. reflexivity.
  - eexists. split; [reflexivity|]. split; [apply Hgen|].
    unfold raises_grpc_error. rewrite Z.eqb_refl. reflexivity.
Qed.

(* hence the statement "for EVERY status code the client sees (status, message, details)" is
   false of the code as it is; the witness is replayed on the implementation by the driver *)
Lemma status_roundtrip_all_refuted :
  exists st msg det,
    In st status_values /\ msg_valid msg = true /\ det_valid det = true /\
    exists hs, status_trailers true st msg det = Some hs /\
               process_grpc_status true hs <> CStatus st msg det.
Proof.
  exists 0, (Some [120]), None. split; [vm_compute; auto|]. split; [reflexivity|].
  split; [reflexivity|]. eexists. split; [vm_compute; reflexivity|].
  vm_compute. discriminate.
Qed.

(* a message with a lone surrogate never reaches the wire: UnicodeEncodeError on the server *)
Lemma surrogate_message_error :
  forall sc st m det, scalars_ok m = false -> status_trailers sc st (Some m) det = None.
Proof.
  intros sc st m det H. unfold status_trailers.
  destruct (encode_msg_error_iff m) as [_ He]. rewrite (He H). reflexivity.
Qed.

(* ---- receiving ---- *)

(* every trailers block made of ASCII bytes gets an answer from the client ... *)
Lemma receive_total_partial :
  forall cc raw, headers_ascii raw = true ->
  client_receive cc raw = RStatus (process_grpc_status cc raw).
Proof.
  intros cc raw H. unfold client_receive, h2_decode_headers. unfold headers_ascii in H.
  rewrite H. reflexivity.
Qed.

(* ... but not every block of bytes does: a raw (unescaped) UTF-8 grpc-message makes h2 raise
   UnicodeDecodeError, which costs the connection and the status of the call *)
Lemma receive_total_refuted :
  exists raw, forallb (fun kv => bytes_ok (fst kv) && bytes_ok (snd kv)) raw = true /\
              client_receive true raw = RConnError.
Proof.
  exists [(grpc_status_key, [53]); (grpc_message_key, [195; 169])].
  split; vm_compute; reflexivity.
Qed.

(* whenever the client does return a status with a message, that message is a valid str *)
Lemma received_message_valid :
  forall cc raw st m det,
  client_receive cc raw = RStatus (CStatus st (Some m) det) -> scalars_ok m = true.
Proof.
  intros cc raw st m det H. unfold client_receive, h2_decode_headers in H.
  destruct (forallb (fun kv => ascii_ok (fst kv) && ascii_ok (snd kv)) raw) eqn:Ha; [|discriminate].
  injection H as H. unfold process_grpc_status in H.
  destruct (assoc_last grpc_status_key raw) as [v|]; [|discriminate].
  destruct (negb (ascii_ok v)); [discriminate|].
  destruct (py_int v) as [n|]; [|discriminate].
  destruct (negb (is_status_member n)); [discriminate|].
  destruct (n =? status_ok); [discriminate|].
  destruct (assoc_last grpc_message_key raw) as [mv|] eqn:Hm; [|discriminate].
  injection H as _ Hmsg _. subst m.
  apply decode_yields_valid_str.
  (* the value found by the lookup is one of the ASCII values *)
  clear - Ha Hm. induction raw as [|[k v] raw IH]; [discriminate|].
  cbn [forallb fst snd] in Ha. apply andb_true_iff in Ha as [Hkv Hr].
  cbn [assoc_last] in Hm. destruct (assoc_last grpc_message_key raw) as [v'|] eqn:E.
  - injection Hm as <-. apply IH; [exact Hr | reflexivity].
  - destruct (zlist_eqb grpc_message_key k); [|discriminate].
    injection Hm as <-. apply andb_true_iff in Hkv as [_ Hv]. exact Hv.
Qed.

(* the model's tables are the ones in the source *)
Lemma source_facts :
  unquoted = map Z.of_nat (seq 32 5) ++ map Z.of_nat (seq 38 89) /\
  length status_members = 17%nat /\ status_ok = 0 /\
  status_values = map Z.of_nat (seq 0 17) /\
  status_details_key = s2z "grpc-status-details-bin".
Proof. vm_compute. repeat split; reflexivity. Qed.
