(* C05, client side: a timed kernel for ONE client call (grpclib.client.Stream inside its
   `async with`), its DeadlineWrapper and the tasks that run the stream operations.
   Executable definitions only (proofs: Proofs/C05Proofs.v).

   Clock: Z ticks of 2^-30 s.  The correspondence harness only generates instants that are dyadic
   rationals with <= 47 significant bits (multiples of 2^-29 s below 2^18 s), on which the Python
   float arithmetic of Deadline.from_timeout (monotonic() + timeout), Deadline.time_remaining
   (max(0, ts - monotonic())) and loop.call_later (time() + delay) is EXACT, so that the Z clock
   is a faithful image of it.  asyncio fires a timer as soon as `when < time() + clock_resolution`
   (1 ns): sub-nanosecond earliness is real timer jitter and outside this model.

   Source transcribed (grpclib as it is in /repo now):
     utils.Wrapper.__enter__   : raise self._error if set; else self._tasks.add(current task)
     utils.Wrapper.__exit__    : self._tasks.discard(task); raise self._error if set (whatever
                                 exception is in flight is replaced)
     utils.Wrapper.cancel(e)   : self._error = e; task.cancel() for every member; cancelled = True
     utils.DeadlineWrapper.start(deadline): timeout = deadline.time_remaining();
                                 if not timeout: self.cancel(TimeoutError); raise TimeoutError
                                 else timer = loop.call_later(timeout, cancel(TimeoutError));
                                 at context exit: timer.cancel()
     client.Channel.request    : deadline = from_timeout(timeout) | deadline | min(both)
     client.Stream.__aenter__  : Wrapper() when no deadline, else DeadlineWrapper + start().__enter__()
     client.Stream.__aexit__   : `if not self._send_request_done: return` (the timer is NOT disarmed
                                 on this path), else try: _maybe_finish ... finally: ...
                                 self._wrapper_ctx.__exit__() (disarms the timer)
     client.Stream.send_request: inside `with self._wrapper`: await __connect__(); THEN
                                 headers.append(('grpc-timeout', encode_timeout(time_remaining())));
                                 await dispatch.send_request; await stream.send_request(headers) --
                                 the value is computed BEFORE the last two awaits (defect D8).
   The operations themselves are the GENERATED programs GV.Gen.StreamOps.client_ops: a task runs a
   PATH through such a program (list of actions). *)
From Coq Require Import ZArith List Bool.
From Flocq Require Import Core IEEE754.BinarySingleNaN IEEE754.Binary IEEE754.Bits.
From GV Require Import Model.StreamIR Model.StreamSem Model.Timeout.
Import ListNotations.
Open Scope Z_scope.

(* ---- what an await waits for ---------------------------------------------------------------- *)
Inductive wkind := WConnect | WSendRequest | WSendHeaders | WSendData | WEnd | WReset
                 | WRecvHeaders | WRecvMessage | WRecvTrailers | WHook.

Definition wkind_of_prim (p : prim) : wkind :=
  match p with
  | PConnect => WConnect | PSendRequest _ => WSendRequest | PSendHeaders _ => WSendHeaders
  | PSendData _ => WSendData | PEnd => WEnd | PReset => WReset
  | PRecvHeaders => WRecvHeaders | PRecvMessage => WRecvMessage | PRecvTrailers => WRecvTrailers
  end.

Definition wkind_code (w : wkind) : Z :=
  match w with
  | WConnect => 0 | WSendRequest => 1 | WSendHeaders => 2 | WSendData => 3 | WEnd => 4 | WReset => 5
  | WRecvHeaders => 6 | WRecvMessage => 7 | WRecvTrailers => 8 | WHook => 9
  end.
Definition wkind_eqb (a b : wkind) : bool := wkind_code a =? wkind_code b.

(* ---- exceptions and actions -------------------------------------------------------------------- *)
Inductive kexn :=
| KTimeout                       (* asyncio.TimeoutError('Deadline exceeded') *)
| KCancelled                     (* asyncio.CancelledError *)
| KProg (e : exn)                (* raised by the operation's own code (ProtocolError, GRPCError ..) *)
| KExt (k : nat).                (* an error some other party gave to Wrapper.cancel (C04's events) *)

Inductive act :=
| AEnter                         (* with self._wrapper:  __enter__ *)
| AExit                          (*                      __exit__  *)
| AAwait (w : wkind)
| ARaise (e : exn)
| ACompute                       (* headers.append(('grpc-timeout', encode_timeout(time_remaining()))) *)
| ASent.                         (* protocol.Stream.send_request returned: HEADERS are on the wire *)

Definition exn_eqb (a b : exn) : bool :=
  match a, b with
  | XProtocolError, XProtocolError => true
  | XOther x, XOther y => Nat.eqb x y
  | _, _ => false
  end.
Definition act_eqb (a b : act) : bool :=
  match a, b with
  | AEnter, AEnter | AExit, AExit | ACompute, ACompute | ASent, ASent => true
  | AAwait x, AAwait y => wkind_eqb x y
  | ARaise x, ARaise y => exn_eqb x y
  | _, _ => false
  end.
Fixpoint path_eqb (a b : list act) : bool :=
  match a, b with
  | [], [] => true
  | x :: r, y :: q => act_eqb x y && path_eqb r q
  | _, _ => false
  end.

(* every await of the path happens while the task is a member of the wrapper.  Membership is a SET
   (`self._tasks`): __enter__ adds, __exit__ discards -- also the exit of a nested `with`. *)
Fixpoint guarded_from (ins : bool) (l : list act) : bool :=
  match l with
  | [] => true
  | AEnter :: r => guarded_from true r
  | AExit :: r => guarded_from false r
  | AAwait _ :: r => ins && guarded_from ins r
  | _ :: r => guarded_from ins r
  end.
Definition guarded_path (l : list act) : bool := guarded_from false l.

(* ---- syntactic paths of the generated programs (both ways at every SIf) ---------------------- *)
Inductive term := TFall | TRet | TRaise (e : exn).
Definition pth := (list act * term)%type.

Definition seq_paths (ps k : list pth) : list pth :=
  flat_map (fun p : pth => match snd p with
                           | TFall => map (fun q : pth => (fst p ++ fst q, snd q)) k
                           | _ => [p]
                           end) ps.

(* leaving `with self._wrapper` -- normally, by return or by an exception -- runs __exit__ *)
Definition guard_wrap (p : pth) : pth := (AEnter :: fst p ++ [AExit], snd p).
Definition ret_to_fall (p : pth) : pth := (fst p, match snd p with TRet => TFall | x => x end).

Definition X_HELPER : exn := XOther 2.      (* GRPCError raised by one of the four helper methods, an
                                               exception of a listener, invalid user metadata *)

Section Paths.
  Variable self_paths : opname -> list pth.
  Fixpoint stmt_paths (s : stmt) : list pth :=
    match s with
    | SRaise e => [([], TRaise e)]
    | SHeadersAdd hs => if has HN_grpc_timeout hs then [([ACompute], TFall)] else [([], TFall)]
    | SGuarded body =>
        map guard_wrap
            ((fix go (l : list stmt) : list pth :=
                match l with [] => [([], TFall)] | x :: r => seq_paths (stmt_paths x) (go r) end) body)
    | SAwaitPrim p =>
        match p with
        | PSendRequest _ => [([AAwait WSendRequest; ASent], TFall)]
        | _ => [([AAwait (wkind_of_prim p)], TFall)]
        end
    | SAwaitSelf o => map ret_to_fall (self_paths o)
    | SAwaitHook _ => [([AAwait WHook], TFall); ([AAwait WHook], TRaise X_HELPER)]
    | SHelper _ | SEncodeMetadata => [([], TFall); ([], TRaise X_HELPER)]
    | SIf _ t e =>
        ((fix go (l : list stmt) : list pth :=
            match l with [] => [([], TFall)] | x :: r => seq_paths (stmt_paths x) (go r) end) t)
        ++
        ((fix go (l : list stmt) : list pth :=
            match l with [] => [([], TFall)] | x :: r => seq_paths (stmt_paths x) (go r) end) e)
    | SReturn => [([], TRet)]
    | SSetFlag _ _ | SSetLocal _ _ | SHeadersNew _ | SResetNowait | SOpaque => [([], TFall)]
    end.
  Fixpoint block_paths (l : list stmt) : list pth :=
    match l with [] => [([], TFall)] | x :: r => seq_paths (stmt_paths x) (block_paths r) end.
End Paths.

Fixpoint op_paths (fuel : nat) (tbl : optable) (o : opname) : list pth :=
  match fuel with
  | O => []
  | S f => match lookup o tbl with
           | None => []
           | Some body => block_paths (op_paths f tbl) body
           end
  end.

Definition flat (p : pth) : list act :=
  fst p ++ match snd p with TRaise e => [ARaise e] | _ => [] end.

Definition PATH_FUEL : nat := 4.
Definition client_opnames : list opname :=
  [OpSendRequest; OpSendMessage; OpEnd; OpRecvInitialMetadata; OpRecvMessage;
   OpRecvTrailingMetadata; OpCancel].
Definition op_flat_paths (tbl : optable) (o : opname) : list (list act) :=
  map flat (op_paths PATH_FUEL tbl o).

(* Stream.__aexit__ (hand-modelled): returns at once when the request was never sent; otherwise
   _maybe_finish = [recv_initial_metadata] then [recv_trailing_metadata] (each only when still to
   do; an exception of the first skips the second, is caught and re-raised after the `finally`),
   and the `finally` disarms the timer.  The boolean says whether the `finally` is reached. *)
Definition aexit_paths (tbl : optable) : list (list act * bool) :=
  ([], false) ::
  map (fun p : pth => (flat (ret_to_fall p), true))
      (seq_paths (([], TFall) :: map ret_to_fall (op_paths PATH_FUEL tbl OpRecvInitialMetadata))
                 (([], TFall) :: map ret_to_fall (op_paths PATH_FUEL tbl OpRecvTrailingMetadata))).

Definition all_client_paths (tbl : optable) : list (list act) :=
  flat_map (op_flat_paths tbl) client_opnames ++ map fst (aexit_paths tbl).

(* ---- the concrete path a call takes (conditions evaluated on the flags) --------------------- *)
Record pctx := { x_cs : bool;            (* cardinality.client_streaming *)
                 x_end : bool;           (* the `end` argument *)
                 x_deadline : bool;      (* self._deadline is not None *)
                 x_has_gs : bool;        (* trailers-only response *)
                 x_got_msg : bool;       (* recv_message got a message *)
                 x_status_err : bool }.  (* the grpc-status received is not OK *)
Record cst := { c_fl : flags; c_lend : bool }.

Fixpoint ceval (cx : pctx) (s : cst) (c : cond) : bool :=
  match c with
  | CTrue => true | CFalse => false
  | CFlag f => get_flag (c_fl s) f
  | CParam P_end => x_end cx
  | CLocal L_end_stream => c_lend s
  | CClientStreaming => x_cs cx
  | CServerStreaming => false
  | CStatusOK => negb (x_status_err cx)
  | CEnv E_has_grpc_status => x_has_gs cx
  | CEnv E_got_message => x_got_msg cx
  | CEnv E_closable => false
  | CEnv (E_untracked _) => x_deadline cx     (* the only untracked test of the client programs *)
  | CNot a => negb (ceval cx s a)
  | CAnd a b => ceval cx s a && ceval cx s b
  | COr a b => ceval cx s a || ceval cx s b
  end.

Definition cres := (cst * list act * term)%type.
Definition cseq (r : cres) (k : cst -> cres) : cres :=
  match r with
  | (s, a, TFall) => match k s with (s', a', t') => (s', a ++ a', t') end
  | _ => r
  end.
Definition default_pctx (cx : pctx) : pctx :=
  {| x_cs := x_cs cx; x_end := false; x_deadline := x_deadline cx; x_has_gs := x_has_gs cx;
     x_got_msg := x_got_msg cx; x_status_err := x_status_err cx |}.

Section CPath.
  Variable self_run : opname -> pctx -> cst -> cres.
  Fixpoint cstmt (cx : pctx) (i : stmt) (s : cst) : cres :=
    match i with
    | SRaise e => (s, [], TRaise e)
    | SSetFlag f b => ({| c_fl := set_flag (c_fl s) f b; c_lend := c_lend s |}, [], TFall)
    | SSetLocal L_end_stream c => ({| c_fl := c_fl s; c_lend := ceval cx s c |}, [], TFall)
    | SHeadersAdd hs => (s, if has HN_grpc_timeout hs then [ACompute] else [], TFall)
    | SGuarded body =>
        match (fix go (l : list stmt) (s : cst) : cres :=
                 match l with [] => (s, [], TFall)
                         | x :: r => cseq (cstmt cx x s) (go r) end) body s with
        | (s', a, t) => (s', AEnter :: a ++ [AExit], t)
        end
    | SAwaitPrim p =>
        (s, match p with PSendRequest _ => [AAwait WSendRequest; ASent]
                    | _ => [AAwait (wkind_of_prim p)] end, TFall)
    | SAwaitSelf o =>
        match self_run o (default_pctx cx) s with
        | (s', a, t) => (s', a, match t with TRet => TFall | x => x end)
        end
    | SAwaitHook _ => (s, [AAwait WHook], TFall)
    | SHelper Hp_raise_for_grpc_status =>
        (s, [], if x_status_err cx then TRaise X_HELPER else TFall)
    | SHelper _ => (s, [], TFall)
    | SIf c t e =>
        (fix go (l : list stmt) (s : cst) : cres :=
           match l with [] => (s, [], TFall)
                   | x :: r => cseq (cstmt cx x s) (go r) end) (if ceval cx s c then t else e) s
    | SReturn => (s, [], TRet)
    | SHeadersNew _ | SResetNowait | SOpaque | SEncodeMetadata => (s, [], TFall)
    end.
  Fixpoint cblock (cx : pctx) (l : list stmt) (s : cst) : cres :=
    match l with [] => (s, [], TFall) | x :: r => cseq (cstmt cx x s) (cblock cx r) end.
End CPath.

Fixpoint cop (fuel : nat) (tbl : optable) (o : opname) (cx : pctx) (s : cst) : cres :=
  match fuel with
  | O => (s, [], TRaise (XOther 99))
  | S f => match lookup o tbl with
           | None => (s, [], TRaise (XOther 99))
           | Some body => cblock (cop f tbl) cx body s
           end
  end.

Definition cflat (r : cres) : list act :=
  match r with (_, a, t) => a ++ match t with TRaise e => [ARaise e] | _ => [] end end.

(* the path of `await stream.<op>(end=..)` called with the given flags (listeners do not raise and
   the user metadata is valid: the harness scripts neither) *)
Definition cpath (tbl : optable) (o : opname) (cx : pctx) (fl : flags) : list act :=
  cflat (cop PATH_FUEL tbl o cx {| c_fl := fl; c_lend := false |}).

(* Stream.__aexit__(exc): path and "the finally clause is reached" *)
Definition caexit (tbl : optable) (cx : pctx) (fl : flags) (exc closing : bool) : list act * bool :=
  if negb (f_send_request_done fl) then ([], false)
  else if exc || f_cancel_done fl || closing then ([], true)
  else
    let s0 := {| c_fl := fl; c_lend := false |} in
    let r1 : cres := if f_recv_initial_metadata_done fl then (s0, [], TFall)
                     else match cop PATH_FUEL tbl OpRecvInitialMetadata (default_pctx cx) s0 with
                          | (s', a, t) => (s', a, match t with TRet => TFall | x => x end) end in
    let r2 := cseq r1 (fun s1 =>
                if f_recv_trailing_metadata_done (c_fl s1) then (s1, [], TFall)
                else match cop PATH_FUEL tbl OpRecvTrailingMetadata (default_pctx cx) s1 with
                     | (s', a, t) => (s', a, match t with TRet => TFall | x => x end) end) in
    (cflat r2, true).

(* ---- the kernel -------------------------------------------------------------------------------- *)
Inductive result := RReturn | RRaise (e : kexn).
Inductive tstat := Ready (cancel_pending : bool) | Blocked | Done (r : result) (at_ : Z).

Definition hdrval := option (Z * Z).        (* (instant of computation, time remaining then) *)
Definition wireent := (Z * hdrval)%type.    (* (instant the HEADERS were sent, the grpc-timeout) *)

Record task := { ts : tstat; rest : list act; inside : bool; born : Z;
                 fdis : bool;               (* Stream.__aexit__ past its early return: its end
                                               (normal or not) runs the `finally` = disarms the timer *)
                 hdr : hdrval; waiting : option wkind }.

Inductive phase := NotEntered | Entered | EnterFailed | Exited.

Record state := { now : Z; ph : phase; deadline : option Z; timer : option Z;
                  werr : option kexn; tasks : list task; ext_seen : bool;
                  wire : list wireent }.

Definition init (n0 : Z) (dl : option Z) : state :=
  {| now := n0; ph := NotEntered; deadline := dl; timer := None; werr := None; tasks := [];
     ext_seen := false; wire := [] |}.

(* Channel.request(timeout=, deadline=) evaluated at instant `n0` *)
Definition request_deadline (n0 : Z) (timeout explicit : option Z) : option Z :=
  match timeout, explicit with
  | None, d => d
  | Some t, None => Some (n0 + t)
  | Some t, Some d => Some (Z.min (n0 + t) d)
  end.

Definition is_ready (t : task) : bool := match ts t with Ready _ => true | _ => false end.
Definition is_done (t : task) : bool := match ts t with Done _ _ => true | _ => false end.
Definition is_blocked (t : task) : bool := match ts t with Blocked => true | _ => false end.

Definition raise_in (we : option kexn) (ins : bool) (e : kexn) : kexn :=
  if ins then match we with Some e' => e' | None => e end else e.

Record xres := { x_ts : tstat; x_rest : list act; x_inside : bool; x_hdr : hdrval;
                 x_wait : option wkind; x_wire : list wireent }.

Definition xdone (nw : Z) (h : hdrval) (r : result) : xres :=
  {| x_ts := Done r nw; x_rest := []; x_inside := false; x_hdr := h; x_wait := None; x_wire := [] |}.

(* run a task from where it stands to its next suspension point or its end *)
Fixpoint exec (nw : Z) (dl : option Z) (we : option kexn) (ins : bool) (h : hdrval)
         (l : list act) : xres :=
  match l with
  | [] => xdone nw h RReturn
  | AEnter :: r => match we with
                   | Some e => xdone nw h (RRaise e)
                   | None => exec nw dl we true h r
                   end
  | AExit :: r => match we with
                  | Some e => xdone nw h (RRaise e)
                  | None => exec nw dl we false h r
                  end
  | AAwait w :: r => {| x_ts := Blocked; x_rest := r; x_inside := ins; x_hdr := h;
                        x_wait := Some w; x_wire := [] |}
  | ARaise e :: _ => xdone nw h (RRaise (raise_in we ins (KProg e)))
  | ACompute :: r =>
      exec nw dl we ins (match dl with Some D => Some (nw, Z.max 0 (D - nw)) | None => None end) r
  | ASent :: r =>
      let x := exec nw dl we ins h r in
      {| x_ts := x_ts x; x_rest := x_rest x; x_inside := x_inside x; x_hdr := x_hdr x;
         x_wait := x_wait x; x_wire := (nw, h) :: x_wire x |}
  end.

Definition task_of (t : task) (x : xres) : task :=
  {| ts := x_ts x; rest := x_rest x; inside := x_inside x; born := born t; fdis := fdis t;
     hdr := x_hdr x; waiting := x_wait x |}.

(* one step of task t (it is Ready): deliver a pending cancellation at the await it stands at,
   else continue *)
Definition run_task (s : state) (t : task) : xres :=
  match ts t with
  | Ready true => xdone (now s) (hdr t) (RRaise (raise_in (werr s) (inside t) KCancelled))
  | _ => exec (now s) (deadline s) (werr s) (inside t) (hdr t) (rest t)
  end.

Fixpoint upd {A} (i : nat) (f : A -> A) (l : list A) : list A :=
  match l, i with
  | [], _ => []
  | x :: r, O => f x :: r
  | x :: r, S j => x :: upd j f r
  end.

(* Task.cancel() of a member: wakes it if it waits; collapses with a cancellation still pending *)
Definition cancel_task (t : task) : task :=
  if inside t then
    match ts t with
    | Done _ _ => t
    | _ => {| ts := Ready true; rest := rest t; inside := inside t; born := born t;
              fdis := fdis t; hdr := hdr t; waiting := waiting t |}
    end
  else t.

Definition set_tasks (s : state) (l : list task) : state :=
  {| now := now s; ph := ph s; deadline := deadline s; timer := timer s; werr := werr s;
     tasks := l; ext_seen := ext_seen s; wire := wire s |}.

(* Wrapper.cancel(e) *)
Definition wcancel (e : kexn) (s : state) : state :=
  {| now := now s; ph := ph s; deadline := deadline s; timer := timer s; werr := Some e;
     tasks := map cancel_task (tasks s); ext_seen := ext_seen s; wire := wire s |}.

Definition wake (t : task) : task :=
  match ts t with
  | Blocked => {| ts := Ready false; rest := rest t; inside := inside t; born := born t;
                  fdis := fdis t; hdr := hdr t; waiting := None |}
  | _ => t
  end.

Inductive op :=
| OEnter                              (* Stream.__aenter__ *)
| OSpawn (p : list act) (fd : bool)   (* the application starts an operation of the stream *)
| ORun (i : nat)                      (* the loop runs task i (if it is ready) *)
| OComplete (i : nat)                 (* the environment completes what task i waits for *)
| OTick (n : Z)                       (* time passes, at most up to n and never past an armed timer
                                         nor while a task is ready; a due timer fires *)
| OExt (k : nat).                     (* someone else calls wrapper.cancel(error k) *)

Definition any_ready (s : state) : bool := existsb is_ready (tasks s).

Definition step (s : state) (o : op) : state :=
  match o with
  | OEnter =>
      match ph s with
      | NotEntered =>
          match deadline s with
          | None => {| now := now s; ph := Entered; deadline := deadline s; timer := None;
                       werr := werr s; tasks := tasks s; ext_seen := ext_seen s; wire := wire s |}
          | Some D =>
              if D <=? now s
              then {| now := now s; ph := EnterFailed; deadline := deadline s; timer := None;
                      werr := Some KTimeout; tasks := tasks s; ext_seen := ext_seen s;
                      wire := wire s |}
              else {| now := now s; ph := Entered; deadline := deadline s; timer := Some D;
                      werr := werr s; tasks := tasks s; ext_seen := ext_seen s; wire := wire s |}
          end
      | _ => s
      end
  | OSpawn p fd =>
      match ph s with
      | Entered =>
          set_tasks s (tasks s ++ [{| ts := Ready false; rest := p; inside := false;
                                      born := now s; fdis := fd; hdr := None; waiting := None |}])
      | _ => s
      end
  | ORun i =>
      match nth_error (tasks s) i with
      | Some t =>
          if is_ready t then
            let x := run_task s t in
            let t' := task_of t x in
            let disarm := is_done t' && fdis t in
            {| now := now s; ph := if disarm then Exited else ph s; deadline := deadline s;
               timer := if disarm then None else timer s; werr := werr s;
               tasks := upd i (fun _ => t') (tasks s); ext_seen := ext_seen s;
               wire := wire s ++ x_wire x |}
          else s
      | None => s
      end
  | OComplete i => set_tasks s (upd i wake (tasks s))
  | OTick n =>
      let n1 := if any_ready s then now s
                else Z.max (now s) (match timer s with Some T => Z.min T n | None => n end) in
      let s1 := {| now := n1; ph := ph s; deadline := deadline s; timer := timer s;
                   werr := werr s; tasks := tasks s; ext_seen := ext_seen s; wire := wire s |} in
      match timer s with
      | Some T => if T <=? n1
                  then wcancel KTimeout
                         {| now := n1; ph := ph s; deadline := deadline s; timer := None;
                            werr := werr s; tasks := tasks s; ext_seen := ext_seen s;
                            wire := wire s |}
                  else s1
      | None => s1
      end
  | OExt k =>
      match ph s with
      | Entered => wcancel (KExt k)
                     {| now := now s; ph := ph s; deadline := deadline s; timer := timer s;
                        werr := werr s; tasks := tasks s; ext_seen := true; wire := wire s |}
      | _ => s
      end
  end.

Definition run (ops : list op) (s : state) : state := fold_left step ops s.

Definition timer_due (s : state) : bool :=
  match timer s with Some T => T <=? now s | None => false end.
Definition quiescent (s : state) : bool := negb (any_ready s) && negb (timer_due s).

(* the schedules the theorems quantify over: any operations, every spawned path guarded *)
Definition op_ok (o : op) : bool :=
  match o with OSpawn p _ => guarded_path p | _ => true end.
Definition no_ext (o : op) : bool := match o with OExt _ => false | _ => true end.

(* ---- the grpc-timeout header ------------------------------------------------------------------- *)
(* ticks -> Python float, exact for every tick count with at most 53 significant bits *)
Definition f64_of_ticks (k : Z) : f64 :=
  binary_normalize 53 1024 prec53 emax1024 mode_NE k (-30) false.
(* time_remaining() = max(0, ts - monotonic()): the int 0 when nothing remains, else a float *)
Definition hdr_num (rem : Z) : pynum := if rem <=? 0 then PyInt 0 else PyFloat (f64_of_ticks rem).
Definition hdr_string (rem : Z) : res py_err (list Z) := encode_timeout (hdr_num rem).

(* value(header) > time remaining when the HEADERS were sent, exactly, in Z:
   q = num/den seconds, left = ticks of 2^-30 s *)
Definition exceeds (q : Z * Z) (left : Z) : bool := left * snd q <? fst q * 2 ^ 30.

(* ---- a deterministic environment + FIFO scheduler, used by the correspondence check ----------- *)
(* avail w = Some t: awaits of kind w can complete from instant t on; None: never *)
Record spec := { s_path : list act; s_fd : bool }.

Fixpoint index_ready (l : list task) (i : nat) : option nat :=
  match l with
  | [] => None
  | t :: r => if is_ready t then Some i else index_ready r (S i)
  end.

Definition completable (avail : wkind -> option Z) (nw : Z) (t : task) : bool :=
  is_blocked t &&
  match waiting t with
  | Some w => match avail w with Some a => a <=? nw | None => false end
  | None => false
  end.

Fixpoint index_completable (avail : wkind -> option Z) (nw : Z) (l : list task) (i : nat)
  : option nat :=
  match l with
  | [] => None
  | t :: r => if completable avail nw t then Some i else index_completable avail nw r (S i)
  end.

Definition zmin_opt (a : option Z) (b : Z) : option Z :=
  match a with Some x => Some (Z.min x b) | None => Some b end.

(* the next instant at which something can happen: the armed timer, or an await becoming completable *)
Definition next_instant (avail : wkind -> option Z) (s : state) : option Z :=
  fold_left (fun acc t =>
               if is_blocked t then
                 match waiting t with
                 | Some w => match avail w with
                             | Some a => if now s <? a then zmin_opt acc a else acc
                             | None => acc
                             end
                 | None => acc
                 end
               else acc)
            (tasks s) (timer s).

(* one decision of the scheduler; None = nothing can happen before the horizon *)
Definition next_ops (avail : wkind -> option Z) (horizon : Z) (specs : list spec) (s : state)
  : option (list op * list spec) :=
  if timer_due s then Some ([OTick (now s)], specs)
  else match index_ready (tasks s) 0 with
  | Some i => Some ([ORun i], specs)
  | None =>
    match index_completable avail (now s) (tasks s) 0 with
    | Some i => Some ([OComplete i], specs)
    | None =>
      if forallb is_done (tasks s) then
        match specs with
        | sp :: r => Some ([OSpawn (s_path sp) (s_fd sp)], r)
        | [] => None
        end
      else
        match next_instant avail s with
        | Some n => if n <=? horizon then Some ([OTick n], specs) else None
        | None => None
        end
    end
  end.

Fixpoint play_ops (fuel : nat) (avail : wkind -> option Z) (horizon : Z) (specs : list spec)
         (s : state) : list op :=
  match fuel with
  | O => []
  | S f => match next_ops avail horizon specs s with
           | None => []
           | Some (os, specs') => os ++ play_ops f avail horizon specs' (run os s)
           end
  end.

Definition avail_of (tbl : list (wkind * option Z)) (w : wkind) : option Z :=
  match w with
  | WHook => Some (-(2 ^ 62))        (* dispatch hooks without listeners never suspend *)
  | _ => match find (fun e => wkind_eqb (fst e) w) tbl with
         | Some e => snd e
         | None => Some (-(2 ^ 62))
         end
  end.

(* the whole scenario: request at n0, __aenter__, the listed operations one after the other *)
Definition scenario_ops (fuel : nat) (tbl : list (wkind * option Z)) (horizon n0 : Z)
           (dl : option Z) (specs : list spec) : list op :=
  OEnter :: play_ops fuel (avail_of tbl) horizon specs (step (init n0 dl) OEnter).
Definition scenario (fuel : nat) (tbl : list (wkind * option Z)) (horizon n0 : Z)
           (dl : option Z) (specs : list spec) : state :=
  run (scenario_ops fuel tbl horizon n0 dl specs) (init n0 dl).
