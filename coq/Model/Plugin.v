(* Model of grpclib/plugin/main.py (the protoc plugin), property C20.  Executable definitions only.

   Part 1  the plugin itself, line by line: _strip_proto, _base_module_name, _proto2pb2_module_name,
           _proto2grpc_module_name, _type_names / types_map (dict.update: later entries win),
           _CARDINALITY lookup, main(), render() -- render produces an ABSTRACT MODULE (imports, per
           service the abstract method names, the __mapping__ entries and the Stub attributes) instead
           of text.  Exceptions of the real code are explicit: KeyError (type not in types_map, flags
           not in _CARDINALITY), StopIteration (_get_proto: file_to_generate not in the request),
           TypeError (render: cardinality matched by no branch).
   Part 2  what Python makes of the rendered module when it is executed (trusted transcription of
           Python semantics, exercised by the correspondence only): identifiers must be identifiers
           and not keywords (else SyntaxError), `def`/dict-literal/attribute assignment keep the LAST
           binding of a repeated name at the position of the first, private names `__x` are mangled
           with the class name, a type path `a.b_pb2.M` evaluates iff its first component was bound by
           an import (else NameError when __mapping__() / Stub(channel) runs).

   Strings are lists of code points (Lib/Str.v).  The cardinality tables come from Gen.Facts
   (const.Cardinality, by value) and Gen.FactsC20 (flags -> member, member -> client class, client
   class -> cardinality: OBSERVED by running the plugin of the repository under test on every run).
   The string constants of the naming functions are the model's own; Gen.FactsC20 also holds what the
   real plugin answers on a set of probe paths / routes, and Props/C20.v proves that the model agrees. *)
From Coq Require Import ZArith List Bool.
From GV Require Import Lib.Str Gen.Facts Gen.FactsC20.
Import ListNotations.
Open Scope Z_scope.

Definition str := list Z.

(* ---------------------------------------------------------------------------------------------- *)
(* descriptor sets (the part of CodeGeneratorRequest that main() reads)                              *)

Inductive msg := Msg (name : str) (nested : list msg).

Record method := Method {
  me_name : str; me_cs : bool; me_ss : bool;          (* client_streaming, server_streaming *)
  me_in : str; me_out : str }.                        (* ".pkg.Outer.Inner" *)
Record service := Service { sv_name : str; sv_methods : list method }.
Record file := File {
  f_name : str; f_package : str; f_deps : list str; f_msgs : list msg; f_services : list service }.
Record request := Request { r_files : list file; r_gen : list str }.

Inductive res (E A : Type) := Ok (a : A) | Err (e : E).
Arguments Ok {E A}. Arguments Err {E A}.

Inductive gen_err := EKeyError | EStopIteration | ETypeError.

Fixpoint mapM {E A B} (f : A -> res E B) (l : list A) : res E (list B) :=
  match l with
  | [] => Ok []
  | x :: r => match f x with
              | Err e => Err e
              | Ok y => match mapM f r with Err e => Err e | Ok ys => Ok (y :: ys) end
              end
  end.

Definition nonempty (s : str) : bool := match s with [] => false | _ => true end.

(* sep.join(parts) *)
Fixpoint join (sep : str) (l : list str) : str :=
  match l with
  | [] => []
  | x :: r => match r with [] => x | _ => x ++ sep ++ join sep r end
  end.

Definition dot : str := [46].

(* ---------------------------------------------------------------------------------------------- *)
(* module names                                                                                     *)

(* the constants of the naming functions *)
Definition strip_suffixes : list str :=
  [[46; 112; 114; 111; 116; 111; 100; 101; 118; 101; 108] (* .protodevel *);
   [46; 112; 114; 111; 116; 111] (* .proto *)].
Definition base_replacements : list (Z * Z) := [(45, 95) (* - -> _ *); (47, 46) (* / -> . *)].
Definition pb2_suffix : str := [95; 112; 98; 50].             (* _pb2 *)
Definition grpc_suffix : str := [95; 103; 114; 112; 99].      (* _grpc *)
Definition out_replace : Z * Z := (46, 47).                   (* . -> / *)
Definition out_suffix : str := [46; 112; 121].                (* .py *)

(* for suffix in [...]: if path.endswith(suffix): return path[:-len(suffix)]   (suffixes non-empty) *)
Fixpoint strip_first (sufs : list str) (p : str) : str :=
  match sufs with
  | [] => p
  | suf :: r => if ends_with suf p then firstn (length p - length suf) p else strip_first r p
  end.
Definition strip_proto (p : str) : str := strip_first strip_suffixes p.

Definition replace_char (a b : Z) (s : str) : str := map (fun c => if c =? a then b else c) s.

(* basename.replace("-", "_").replace("/", ".") *)
Definition base_module_name (p : str) : str :=
  fold_left (fun s ab => replace_char (fst ab) (snd ab) s) base_replacements (strip_proto p).
Definition pb2_module_name (p : str) : str := base_module_name p ++ pb2_suffix.
Definition grpc_module_name (p : str) : str := base_module_name p ++ grpc_suffix.
(* module_name.replace(".", "/") + ".py" *)
Definition out_file_name (p : str) : str :=
  replace_char (fst out_replace) (snd out_replace) (grpc_module_name p) ++ out_suffix.

(* ---------------------------------------------------------------------------------------------- *)
(* _type_names and the types_map                                                                    *)

Definition pkg_parts (pkg : str) : list str := if nonempty pkg then [pkg] else [].

(* '.'.join(['', package?] + parents + [name]) *)
Definition proto_name (pkg : str) (path : list str) : str := join dot ([[]] ++ pkg_parts pkg ++ path).
(* '.'.join([pb2 module] + parents + [name]) *)
Definition py_name (modname : str) (path : list str) : str := join dot (modname :: path).

Fixpoint type_names (pkg modname : str) (parents : list str) (m : msg) : list (str * str) :=
  match m with
  | Msg n ns =>
      (proto_name pkg (parents ++ [n]), py_name modname (parents ++ [n])) ::
      (fix go (l : list msg) : list (str * str) :=
         match l with
         | [] => []
         | x :: r => type_names pkg modname (parents ++ [n]) x ++ go r
         end) ns
  end.

Definition msgs_types (pkg modname : str) (parents : list str) (ms : list msg) : list (str * str) :=
  flat_map (type_names pkg modname parents) ms.

Definition file_types (f : file) : list (str * str) :=
  msgs_types (f_package f) (pb2_module_name (f_name f)) [] (f_msgs f).

(* the sequence of (key, value) pairs fed to types_map.update, in order *)
Definition types_entries (files : list file) : list (str * str) := flat_map file_types files.

(* dict lookup after all the updates: the LAST entry with that key *)
Fixpoint lookup_last {A} (k : str) (l : list (str * A)) : option A :=
  match l with
  | [] => None
  | (k', v) :: r => match lookup_last k r with
                    | Some x => Some x
                    | None => if zlist_eqb k k' then Some v else None
                    end
  end.

(* ---------------------------------------------------------------------------------------------- *)
(* cardinality                                                                                      *)

Definition flags_eqb (a b : bool * bool) : bool := Bool.eqb (fst a) (fst b) && Bool.eqb (snd a) (snd b).

(* _CARDINALITY[(client_streaming, server_streaming)]  (the observed table has one row per flag pair) *)
Fixpoint lookup_flags (k : bool * bool) (l : list ((bool * bool) * str)) : option str :=
  match l with
  | [] => None
  | (k', v) :: r => match lookup_flags k r with
                    | Some x => Some x
                    | None => if flags_eqb k k' then Some v else None
                    end
  end.
Definition cardinality_of (cs ss : bool) : option str := lookup_flags (cs, ss) flags_cardinality.

(* the if/elif chain of render: first branch whose member matches *)
Definition method_cls (card : str) : option str := assoc_str card render_method_cls.

(* what the member and the client class mean (const.Cardinality, client.*Method._cardinality) *)
Definition member_flags (card : str) : option (bool * bool) := assoc_str card cardinality_members.
Definition class_cardinality (cls : str) : option str := assoc_str cls client_method_cardinality.

(* ---------------------------------------------------------------------------------------------- *)
(* main(): Method / Service tuples                                                                  *)

Record pmethod := PMethod { pm_name : str; pm_card : str; pm_req : str; pm_rep : str }.
Record pservice := PService { ps_name : str; ps_methods : list pmethod }.

Definition mk_method (tm : list (str * str)) (m : method) : res gen_err pmethod :=
  match cardinality_of (me_cs m) (me_ss m) with
  | None => Err EKeyError
  | Some c =>
      match lookup_last (me_in m) tm with
      | None => Err EKeyError
      | Some rq =>
          match lookup_last (me_out m) tm with
          | None => Err EKeyError
          | Some rp => Ok (PMethod (me_name m) c rq rp)
          end
      end
  end.

Definition mk_service (tm : list (str * str)) (s : service) : res gen_err pservice :=
  match mapM (mk_method tm) (sv_methods s) with
  | Err e => Err e
  | Ok ms => Ok (PService (sv_name s) ms)
  end.

(* ---------------------------------------------------------------------------------------------- *)
(* render(): the abstract module                                                                    *)

Record map_entry := MapEntry {
  e_route : str; e_func : str; e_card : str; e_req : str; e_rep : str }.
Record stub_entry := StubEntry {
  s_attr : str; s_cls : str; s_route : str; s_req : str; s_rep : str }.
Record aservice := AService {
  as_name : str;                       (* classes <name>Base and <name>Stub *)
  as_abstract : list str;              (* @abc.abstractmethod async def <name> *)
  as_mapping : list map_entry;         (* entries of the dict literal returned by __mapping__ *)
  as_stub : list stub_entry }.         (* self.<attr> = grpclib.client.<cls>(channel, route, req, rep) *)
Record amodule := AModule {
  a_source : str;                      (* "# source: ..." *)
  a_imports : list str;                (* import statements executed at import time, in order *)
  a_guarded : list str;                (* imports under `if typing.TYPE_CHECKING:` *)
  a_classes : list aservice }.

Definition service_qual (pkg svc : str) : str := if nonempty pkg then pkg ++ dot ++ svc else svc.
Definition route (pkg svc m : str) : str := [47] ++ service_qual pkg svc ++ [47] ++ m.

(* const.__name__, client.__name__, server.__name__ *)
Definition std_imports : list str :=
  [[97; 98; 99] (* abc *); [116; 121; 112; 105; 110; 103] (* typing *); [103; 114; 112; 99; 108; 105; 98; 46; 99; 111; 110; 115; 116] (* grpclib.const *); [103; 114; 112; 99; 108; 105; 98; 46; 99; 108; 105; 101; 110; 116] (* grpclib.client *)].
Definition guarded_imports : list str := [[103; 114; 112; 99; 108; 105; 98; 46; 115; 101; 114; 118; 101; 114] (* grpclib.server *)].

Definition render_stub_entry (pkg svc : str) (m : pmethod) : res gen_err stub_entry :=
  match method_cls (pm_card m) with
  | None => Err ETypeError
  | Some cls => Ok (StubEntry (pm_name m) cls (route pkg svc (pm_name m)) (pm_req m) (pm_rep m))
  end.

Definition render_service (pkg : str) (s : pservice) : res gen_err aservice :=
  match mapM (render_stub_entry pkg (ps_name s)) (ps_methods s) with
  | Err e => Err e
  | Ok stub =>
      Ok (AService (ps_name s)
            (map pm_name (ps_methods s))
            (map (fun m => MapEntry (route pkg (ps_name s) (pm_name m)) (pm_name m) (pm_card m)
                                    (pm_req m) (pm_rep m)) (ps_methods s))
            stub)
  end.

Definition render (proto_file pkg : str) (imports : list str) (svcs : list pservice)
  : res gen_err amodule :=
  match svcs with
  | [] => Ok (AModule proto_file [] [] [])          (* if not services: return the header only *)
  | _ => match mapM (render_service pkg) svcs with
         | Err e => Err e
         | Ok cs => Ok (AModule proto_file (std_imports ++ imports) guarded_imports cs)
         end
  end.

(* ---------------------------------------------------------------------------------------------- *)
(* main()                                                                                           *)

(* next(f for f in request.proto_file if f.name == name) *)
Definition get_proto (files : list file) (name : str) : option file :=
  find (fun f => zlist_eqb (f_name f) name) files.

Definition gen_file (tm : list (str * str)) (files : list file) (name : str)
  : res gen_err (str * amodule) :=
  match get_proto files name with
  | None => Err EStopIteration
  | Some pf =>
      let imports := map pb2_module_name (f_deps pf ++ [name]) in
      match mapM (mk_service tm) (f_services pf) with
      | Err e => Err e
      | Ok svcs =>
          match render (f_name pf) (f_package pf) imports svcs with
          | Err e => Err e
          | Ok m => Ok (out_file_name name, m)
          end
      end
  end.

Definition main (req : request) : res gen_err (list (str * amodule)) :=
  mapM (gen_file (types_entries (r_files req)) (r_files req)) (r_gen req).

(* ============================================================================================== *)
(* Part 2: the executed module (Python semantics, trusted transcription)                            *)

Definition ident_start (c : Z) : bool := in_range 65 90 c || in_range 97 122 c || (c =? 95).
Definition ident_char (c : Z) : bool := ident_start c || in_range 48 57 c.
Definition ident_shape (s : str) : bool :=
  match s with [] => false | c :: r => ident_start c && forallb ident_char r end.

(* keyword.kwlist of CPython 3.12 (soft keywords are legal identifiers) *)
Definition py_keywords : list str :=
  [[70; 97; 108; 115; 101] (* False *);
   [78; 111; 110; 101] (* None *);
   [84; 114; 117; 101] (* True *);
   [97; 110; 100] (* and *);
   [97; 115] (* as *);
   [97; 115; 115; 101; 114; 116] (* assert *);
   [97; 115; 121; 110; 99] (* async *);
   [97; 119; 97; 105; 116] (* await *);
   [98; 114; 101; 97; 107] (* break *);
   [99; 108; 97; 115; 115] (* class *);
   [99; 111; 110; 116; 105; 110; 117; 101] (* continue *);
   [100; 101; 102] (* def *);
   [100; 101; 108] (* del *);
   [101; 108; 105; 102] (* elif *);
   [101; 108; 115; 101] (* else *);
   [101; 120; 99; 101; 112; 116] (* except *);
   [102; 105; 110; 97; 108; 108; 121] (* finally *);
   [102; 111; 114] (* for *);
   [102; 114; 111; 109] (* from *);
   [103; 108; 111; 98; 97; 108] (* global *);
   [105; 102] (* if *);
   [105; 109; 112; 111; 114; 116] (* import *);
   [105; 110] (* in *);
   [105; 115] (* is *);
   [108; 97; 109; 98; 100; 97] (* lambda *);
   [110; 111; 110; 108; 111; 99; 97; 108] (* nonlocal *);
   [110; 111; 116] (* not *);
   [111; 114] (* or *);
   [112; 97; 115; 115] (* pass *);
   [114; 97; 105; 115; 101] (* raise *);
   [114; 101; 116; 117; 114; 110] (* return *);
   [116; 114; 121] (* try *);
   [119; 104; 105; 108; 101] (* while *);
   [119; 105; 116; 104] (* with *);
   [121; 105; 101; 108; 100] (* yield *)].

Definition py_ident (s : str) : bool := ident_shape s && negb (mem_str s py_keywords).

Fixpoint split_on (c : Z) (s : str) : list str :=
  match s with
  | [] => [[]]
  | x :: r => if x =? c then [] :: split_on c r
              else match split_on c r with
                   | [] => [[x]]
                   | h :: t => (x :: h) :: t
                   end
  end.

Definition dotted_ident (s : str) : bool := forallb py_ident (split_on 46 s).
Definition top_name (s : str) : str := hd [] (split_on 46 s).

Definition base_suffix : str := [66; 97; 115; 101] (* Base *).
Definition stub_suffix : str := [83; 116; 117; 98] (* Stub *).
Definition uu : str := [95; 95].

Definition syntax_ok_service (a : aservice) : bool :=
  py_ident (as_name a ++ base_suffix) && py_ident (as_name a ++ stub_suffix) &&
  forallb py_ident (as_abstract a) &&
  forallb (fun e => py_ident (e_func e) && dotted_ident (e_req e) && dotted_ident (e_rep e)) (as_mapping a) &&
  forallb (fun s => py_ident (s_attr s) && dotted_ident (s_req s) && dotted_ident (s_rep s)) (as_stub a).

Definition syntax_ok (m : amodule) : bool :=
  forallb dotted_ident (a_imports m) && forallb syntax_ok_service (a_classes m).

(* private name mangling inside `class <cls>:` *)
Fixpoint lstrip_uscore (s : str) : str :=
  match s with c :: r => if c =? 95 then lstrip_uscore r else s | [] => [] end.
Definition is_private (n : str) : bool := starts_with uu n && negb (ends_with uu n).
Definition is_dunder (n : str) : bool := starts_with uu n && ends_with uu n.
Definition mangle (cls n : str) : str :=
  if is_private n then
    match lstrip_uscore cls with [] => n | c => [95] ++ c ++ n end
  else n.

(* namespace / dict update: a repeated key keeps its first position and takes the last value *)
Fixpoint dict_set {V} (k : str) (v : V) (d : list (str * V)) : list (str * V) :=
  match d with
  | [] => [(k, v)]
  | (k', v') :: r => if zlist_eqb k k' then (k', v) :: r else (k', v') :: dict_set k v r
  end.
Definition dict_of {V} (l : list (str * V)) : list (str * V) :=
  fold_left (fun d kv => dict_set (fst kv) (snd kv) d) l [].

(* characters that are themselves inside '...' and repr() *)
Definition literal_safe (c : Z) : bool := in_range 32 126 c && negb (c =? 39) && negb (c =? 92).

Definition class_names (m : amodule) : list str :=
  flat_map (fun a => [as_name a ++ base_suffix; as_name a ++ stub_suffix]) (a_classes m).

(* outside the transcription: dunder method names (they collide with __mapping__/__init__/...),
   routes that are not plain string literals, a top-level package of a pb2 import that is shadowed
   by a generated class or shadows abc / typing *)
Definition modelled (m : amodule) : bool :=
  forallb (fun a => forallb (fun n => negb (is_dunder n)) (as_abstract a) &&
                    forallb (fun e => forallb literal_safe (e_route e)) (as_mapping a)) (a_classes m) &&
  forallb (fun i => negb (mem_str (top_name i) (class_names m)) &&
                    negb (mem_str (top_name i) [[97; 98; 99] (* abc *); [116; 121; 112; 105; 110; 103] (* typing *)]))
          (skipn (length std_imports) (a_imports m)).

Inductive exec_err := ESyntaxError | EUnmodelled.
Inductive call_err := ENameError.

Definition bound_names (m : amodule) : list str := map top_name (a_imports m).
Definition evaluable (m : amodule) (path : str) : bool := mem_str (top_name path) (bound_names m).

Record ebase := EBase {
  eb_abstract : list str;                                  (* abstract method keys, class-dict order *)
  eb_mapping : res call_err (list (str * map_entry)) }.    (* Impl().__mapping__() *)
Record estub := EStub {
  es_attrs : res call_err (list (str * stub_entry)) }.     (* vars(Stub(channel)) *)
Inductive eclass := CBase (b : ebase) | CStub (s : estub).

Definition exec_service (m : amodule) (a : aservice) : list (str * eclass) :=
  let bn := as_name a ++ base_suffix in
  let sn := as_name a ++ stub_suffix in
  [ (bn, CBase (EBase
       (map fst (dict_of (map (fun n => (mangle bn n, tt)) (as_abstract a))))
       (if forallb (fun e => evaluable m (e_req e) && evaluable m (e_rep e)) (as_mapping a)
        then Ok (dict_of (map (fun e => (e_route e,
                                        MapEntry (e_route e) (mangle bn (e_func e)) (e_card e)
                                                 (e_req e) (e_rep e))) (as_mapping a)))
        else Err ENameError)));
    (sn, CStub (EStub
       (if forallb (fun s => evaluable m (s_req s) && evaluable m (s_rep s)) (as_stub a)
        then Ok (dict_of (map (fun s => (mangle sn (s_attr s), s)) (as_stub a)))
        else Err ENameError))) ].

Definition exec_module (m : amodule) : res exec_err (list (str * eclass)) :=
  if negb (syntax_ok m) then Err ESyntaxError
  else if negb (modelled m) then Err EUnmodelled
  else Ok (dict_of (flat_map (exec_service m) (a_classes m))).
