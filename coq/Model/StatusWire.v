(* Model of how a status travels from a handler to the caller:
     server:  grpclib/server.py Stream.send_trailing_metadata (reached from __aexit__ with the
              fields of the GRPCError the handler raised)   ->  trailer headers
     wire:    h2 with header_encoding='ascii' on the receiving side (modelled, not verified)
     client:  grpclib/client.py Stream._process_grpc_status  ->  (status, message, details)
   The status-details codec (protobuf google.rpc.Status with Any-packed details) is OPAQUE: the
   model carries the bytes codec.encode produced and says which bytes codec.decode is given.
   Status members, the details key and _UNQUOTED come from Gen.Facts.  Executable; no proofs. *)
From Coq Require Import ZArith List Bool.
From GV Require Import Lib.Str Gen.Facts Model.Base64 Model.Metadata Model.Utf8 Model.Percent.
Import ListNotations.
Open Scope Z_scope.

Definition grpc_status_key : list Z := [103; 114; 112; 99; 45; 115; 116; 97; 116; 117; 115].          (* "grpc-status" *)
Definition grpc_message_key : list Z := [103; 114; 112; 99; 45; 109; 101; 115; 115; 97; 103; 101].    (* "grpc-message" *)

(* ---- Status ------------------------------------------------------------------------------ *)

Definition status_values : list Z := map snd status_members.
Definition is_status_member (n : Z) : bool := mem_z n status_values.          (* Status(n) does not raise *)
Definition status_ok : Z :=                                                   (* Status.OK.value *)
  match assoc_str [79; 75] status_members with Some v => v | None => -1 end.

(* ---- str(int) and int(str) --------------------------------------------------------------- *)

Fixpoint dec_digits (fuel : nat) (n : Z) : list Z :=
  match fuel with
  | O => []
  | S f => if n <? 10 then [48 + n] else dec_digits f (n / 10) ++ [48 + n mod 10]
  end.
(* str(n) for a Python int: enough fuel for every n (one step per decimal digit <= bits + 1) *)
Definition decimal (n : Z) : list Z :=
  if n <? 0 then 45 :: dec_digits (S (Z.to_nat (Z.log2 (- n)))) (- n)
  else dec_digits (S (Z.to_nat (Z.log2 n))) n.

(* int(s) for an ASCII str s (base 10): optional surrounding whitespace " \t\n\v\f\r", optional
   sign, digits with single underscores between digits.  None = ValueError.
   NOT modelled: non-ASCII digits and spaces (the caller checks ascii_ok first) and CPython's
   limit of 4300 digits. *)
Definition is_ws (c : Z) : bool := in_range 9 13 c || (c =? 32).
Fixpoint lstrip_ws (l : list Z) : list Z :=
  match l with
  | c :: r => if is_ws c then lstrip_ws r else l
  | [] => []
  end.
Definition strip_ws (l : list Z) : list Z :=
  rev_append (lstrip_ws (rev_append (lstrip_ws l) [])) [].       (* rev_append _ [] = linear-time rev *)

Fixpoint digits_val (l : list Z) (acc : Z) (prev_digit : bool) : option Z :=
  match l with
  | [] => if prev_digit then Some acc else None
  | c :: r =>
      if in_range 48 57 c then digits_val r (acc * 10 + (c - 48)) true
      else if (c =? 95) && prev_digit then digits_val r acc false
      else None
  end.

Definition py_int (s : list Z) : option Z :=
  match strip_ws s with
  | [] => None
  | c :: r =>
      if c =? 43 then digits_val r 0 false
      else if c =? 45 then
        match digits_val r 0 false with Some v => Some (- v) | None => None end
      else digits_val (c :: r) 0 false
  end.

(* ---- server side ------------------------------------------------------------------------- *)

(* the part of the trailers that carries the status.
     st   : status.value
     msg  : status_message (None | Some str)
     det  : None when status_details is None, else Some (codec.encode(status, message, details))
     server_codec : the server has a status_details_codec
   Result None = UnicodeEncodeError out of encode_grpc_message (a lone surrogate in the message). *)
Definition status_trailers (server_codec : bool) (st : Z) (msg : option (list Z))
           (det : option (list Z)) : option headers :=
  let hdet := match det with
              | Some b => if server_codec then [(status_details_key, encode_bin_value b)] else []
              | None => []
              end in
  match msg with
  | None => Some ((grpc_status_key, decimal st) :: hdet)
  | Some m =>
      match encode_grpc_message m with
      | Some e => Some ((grpc_status_key, decimal st) :: (grpc_message_key, e) :: hdet)
      | None => None
      end
  end.

(* ---- the receiving h2 (header_encoding='ascii') ------------------------------------------- *)

(* Header names and values arrive as bytes; h2 decodes both as ASCII.  A byte >= 0x80 makes
   H2Connection.receive_data raise UnicodeDecodeError, which H2Protocol.data_received treats as a
   protocol error (the connection is closed, every open call ends with StreamTerminatedError):
   None. *)
Definition h2_decode_headers (raw : headers) : option headers :=
  if forallb (fun kv => ascii_ok (fst kv) && ascii_ok (snd kv)) raw then Some raw else None.

(* ---- client side ------------------------------------------------------------------------- *)

(* dict(headers).get(k): the last occurrence wins *)
Fixpoint assoc_last (k : list Z) (hs : headers) : option (list Z) :=
  match hs with
  | [] => None
  | (k', v) :: r =>
      match assoc_last k r with
      | Some v' => Some v'
      | None => if zlist_eqb k k' then Some v else None
      end
  end.

Inductive client_status :=
| CStatus (st : Z) (msg : option (list Z)) (det : option (list Z))
    (* status.value, message, and the bytes handed to codec.decode (None: details stay None) *)
| CMissing        (* GRPCError(UNKNOWN, 'Missing grpc-status header') *)
| CInvalid        (* GRPCError(UNKNOWN, 'Invalid grpc-status: ...')   *)
| CUnmodelled.    (* grpc-status holds a non-ASCII character (int() of those is not modelled) *)

(* decode_bin_value(details_bin.encode('ascii')); UnicodeEncodeError and binascii.Error are both
   swallowed by the `except Exception` around it *)
Definition details_bytes (v : list Z) : option (list Z) :=
  if ascii_ok v then decode_bin_value v else None.

Definition process_grpc_status (client_codec : bool) (hs : headers) : client_status :=
  match assoc_last grpc_status_key hs with
  | None => CMissing
  | Some v =>
      if negb (ascii_ok v) then CUnmodelled
      else match py_int v with
           | None => CInvalid
           | Some n =>
               if negb (is_status_member n) then CInvalid
               else if n =? status_ok then CStatus n None None
               else
                 CStatus n
                   (match assoc_last grpc_message_key hs with
                    | Some m => Some (decode_grpc_message m)
                    | None => None
                    end)
                   (if client_codec then
                      match assoc_last status_details_key hs with
                      | Some d => details_bytes d
                      | None => None
                      end
                    else None)
           end
  end.

Inductive received :=
| RConnError                      (* undecodable header block: connection closed, StreamTerminatedError *)
| RStatus (c : client_status).

(* a trailers block as it arrives from the network *)
Definition client_receive (client_codec : bool) (raw : headers) : received :=
  match h2_decode_headers raw with
  | None => RConnError
  | Some hs => RStatus (process_grpc_status client_codec hs)
  end.

(* _raise_for_grpc_status: a GRPCError is raised iff the status is not OK *)
Definition raises_grpc_error (c : client_status) : bool :=
  match c with
  | CStatus st _ _ => negb (st =? status_ok)
  | CMissing | CInvalid => true
  | CUnmodelled => false
  end.

(* ---- the specification side ---------------------------------------------------------------- *)

(* the inputs the property quantifies over: a message without lone surrogates (or None), details
   bytes that are bytes (or None) *)
Definition msg_valid (msg : option (list Z)) : bool :=
  match msg with Some m => scalars_ok m | None => true end.
Definition det_valid (det : option (list Z)) : bool :=
  match det with Some b => bytes_ok b | None => true end.

(* headers that say nothing about the status (protocol headers before, user metadata after) *)
Definition status_key (k : list Z) : bool :=
  zlist_eqb grpc_status_key k || zlist_eqb grpc_message_key k || zlist_eqb status_details_key k.
Definition status_free (hs : headers) : bool := forallb (fun h => negb (status_key (fst h))) hs.

(* what h2 delivers without an error: ASCII names and values *)
Definition headers_ascii (raw : headers) : bool :=
  forallb (fun kv => ascii_ok (fst kv) && ascii_ok (snd kv)) raw.
