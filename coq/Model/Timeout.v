(* Model of grpclib.metadata.encode_timeout / decode_timeout / Deadline.from_headers.
   Executable definitions only.  Python float = Flocq binary64 (IEEE 754, round to nearest even),
   Python int = Z, Python str = list of code points.  The threshold/unit/exponent chain of
   encode_timeout, the unit table and the regex source come from Gen.Facts (regenerated from the
   source on every run).

   encode_timeout(timeout):                      (source, for reference)
       if timeout > C1:   return '{}U1'.format(int(timeout [* 10 ** k1]))
       elif timeout > C2: return '{}U2'.format(int(timeout * 10 ** k2))
       ...
       else:              return '{}Un'.format(int(timeout * 10 ** kn))
   decode_timeout(value):  m = _TIMEOUT_RE.match(value); None -> ValueError;
                           int(m.group(1)) * _UNITS[m.group(2)]
   Deadline.from_headers:  min(map(decode_timeout, (v for k, v in headers if k == 'grpc-timeout')),
                               default=None);  from_timeout(t) = time.monotonic() + t            *)
From Coq Require Import ZArith List Bool.
From Flocq Require Import Core IEEE754.BinarySingleNaN IEEE754.Binary IEEE754.Bits.
From GV Require Import Lib.Str Gen.Facts.
Import ListNotations.
Open Scope Z_scope.

Definition f64 := binary64.
Definition prec53 : Prec_gt_0 53 := eq_refl.
Definition emax1024 : Prec_lt_emax 53 1024 := eq_refl.

(* a Python number: the argument of encode_timeout may be an int or a float; decode_timeout returns
   an int for the units H, M, S and a float for m, u, n *)
Inductive pynum := PyInt (z : Z) | PyFloat (f : f64).

Inductive res (E A : Type) := Ok (a : A) | Err (e : E).
Arguments Ok {E A}. Arguments Err {E A}.
Inductive py_err := ValueError | OverflowError.

(* ---- float primitives ---------------------------------------------------------------------- *)
Definition fmul (x y : f64) : f64 := Bmult 53 1024 prec53 emax1024 binop_nan_pl64 mode_NE x y.
Definition fadd (x y : f64) : f64 := Bplus 53 1024 prec53 emax1024 binop_nan_pl64 mode_NE x y.
Definition fdiv (x y : f64) : f64 := Bdiv 53 1024 prec53 emax1024 binop_nan_pl64 mode_NE x y.

(* int -> float as CPython's PyLong_AsDouble: correctly rounded (half to even); a value too large
   for a double raises OverflowError *)
Definition f_of_Z (z : Z) : f64 := binary_normalize 53 1024 prec53 emax1024 mode_NE z 0 false.
Definition float_of_int (z : Z) : res py_err f64 :=
  let f := f_of_Z z in if is_finite 53 1024 f then Ok f else Err OverflowError.

(* exact three-way comparison of a float with the rational num/den (den > 0); None for a NaN.
   Python compares float with float by IEEE rules and float with int exactly; for non-NaN operands
   both are the exact comparison of the two values. *)
Definition cmp_float_q (f : f64) (num den : Z) : option comparison :=
  match f with
  | B754_nan _ _ _ _ _ => None
  | B754_infinity _ _ s => Some (if s then Lt else Gt)
  | B754_zero _ _ _ => Some (0 ?= num)
  | B754_finite _ _ s m e _ =>
      let sm := cond_Zopp s (Zpos m) in
      Some (if 0 <=? e then (sm * 2 ^ e * den ?= num) else (sm * den ?= num * 2 ^ (- e)))
  end.

(* timeout > num/den *)
Definition py_gt_q (t : pynum) (num den : Z) : bool :=
  match t with
  | PyInt z => num <? z * den
  | PyFloat f => match cmp_float_q f num den with Some Gt => true | _ => false end
  end.

(* timeout * 10 ** k  (k > 0; 10 ** k is a Python int): int * int is exact; float * int converts
   the int to a float first *)
Definition py_mul_pow10 (t : pynum) (k : Z) : res py_err pynum :=
  match t with
  | PyInt z => Ok (PyInt (z * 10 ^ k))
  | PyFloat f => match float_of_int (10 ^ k) with
                 | Ok p => Ok (PyFloat (fmul f p))
                 | Err e => Err e
                 end
  end.

(* int(x): truncation toward zero; NaN -> ValueError, infinities -> OverflowError *)
Definition py_int (x : pynum) : res py_err Z :=
  match x with
  | PyInt z => Ok z
  | PyFloat f => match f with
                 | B754_nan _ _ _ _ _ => Err ValueError
                 | B754_infinity _ _ _ => Err OverflowError
                 | _ => Ok (Btrunc 53 1024 f)
                 end
  end.

(* ---- decimal rendering and parsing of Python ints ------------------------------------------- *)
(* digits, least significant first *)
Fixpoint le_digits (fuel : nat) (n : Z) : list Z :=
  match fuel with
  | O => []
  | S f => (n mod 10) :: (if n / 10 =? 0 then [] else le_digits f (n / 10))
  end.
Definition dec_of_nonneg (n : Z) : list Z :=
  rev (map (fun d => 48 + d) (le_digits (S (Z.to_nat (Z.log2 n))) n)).
(* str(z) *)
Definition py_str_int (z : Z) : list Z :=
  if z <? 0 then 45 :: dec_of_nonneg (- z) else dec_of_nonneg z.
(* int(s) for a string of ASCII digits (leading zeros allowed) *)
Definition parse_dec (ds : list Z) : Z := fold_left (fun a c => a * 10 + (c - 48)) ds 0.

(* ---- encode_timeout --------------------------------------------------------------------------- *)
(* '{}U'.format(int(timeout [* 10 ** k]))  -- k = 0 stands for the branch without a product *)
Definition enc_branch (t : pynum) (unit k : Z) : res py_err (list Z) :=
  let scaled := if k =? 0 then Ok t else py_mul_pow10 t k in
  match scaled with
  | Err e => Err e
  | Ok x => match py_int x with
            | Err e => Err e
            | Ok n => Ok (py_str_int n ++ [unit])
            end
  end.

Fixpoint enc_chain (chain : list (Z * Z * Z * Z * Z)) (last : Z * Z) (t : pynum)
  : res py_err (list Z) :=
  match chain with
  | [] => enc_branch t (fst last) (snd last)
  | (num, den, _, unit, k) :: r =>
      if py_gt_q t num den then enc_branch t unit k else enc_chain r last t
  end.

Definition encode_timeout (t : pynum) : res py_err (list Z) :=
  enc_chain encode_timeout_chain encode_timeout_last t.

(* ---- decode_timeout --------------------------------------------------------------------------- *)
Definition is_digit (c : Z) : bool := in_range 48 57 c.
Definition unit_chars : list Z := map fst units.
Definition is_unit (c : Z) : bool := existsb (Z.eqb c) unit_chars.

Definition split_last (s : list Z) : option (list Z * Z) :=
  match rev s with
  | [] => None
  | u :: rd => Some (rev rd, u)
  end.

(* _TIMEOUT_RE.match(value) for  ^([0-9]{1,8})([<unit chars>])\Z : the two groups, or None *)
Definition timeout_re_match (s : list Z) : option (list Z * Z) :=
  match split_last s with
  | None => None
  | Some (ds, u) =>
      if (1 <=? Z.of_nat (length ds)) && (Z.of_nat (length ds) <=? 8) &&
         forallb is_digit ds && is_unit u
      then Some (ds, u) else None
  end.

Fixpoint unit_lookup (u : Z) (l : list (Z * unit_val)) : option unit_val :=
  match l with
  | [] => None
  | (c, v) :: r => if u =? c then Some v else unit_lookup u r
  end.

(* 10 ** -k as Python evaluates it: float pow(10.0, -k.0); modelled as the correctly rounded value
   of 1/10^k (the correspondence check compares the bits with the running interpreter) *)
Definition pow10neg_float (k : Z) : f64 := fdiv (f_of_Z 1) (f_of_Z (10 ^ k)).

(* int(digits) * _UNITS[unit] *)
Definition unit_scale (n : Z) (uv : unit_val) : res py_err pynum :=
  match uv with
  | UInt m => Ok (PyInt (n * m))
  | UPow10Neg k => match float_of_int n with
                   | Ok fn => Ok (PyFloat (fmul fn (pow10neg_float k)))
                   | Err e => Err e
                   end
  end.

Definition decode_timeout (s : list Z) : res py_err pynum :=
  match timeout_re_match s with
  | None => Err ValueError
  | Some (ds, u) =>
      match unit_lookup u units with
      | None => Err ValueError          (* unreachable: the unit class is built from the table keys *)
      | Some uv => unit_scale (parse_dec ds) uv
      end
  end.

(* the exact rational value num/den a wire string stands for (specification side) *)
Definition unit_q (uv : unit_val) : Z * Z :=
  match uv with UInt m => (m, 1) | UPow10Neg k => (1, 10 ^ k) end.
Definition wire_q (s : list Z) : option (Z * Z) :=
  match timeout_re_match s with
  | None => None
  | Some (ds, u) => match unit_lookup u units with
                    | None => None
                    | Some uv => Some (parse_dec ds * fst (unit_q uv), snd (unit_q uv))
                    end
  end.

(* ---- Deadline.from_headers ---------------------------------------------------------------------- *)
Definition grpc_timeout_name : list Z := [103; 114; 112; 99; 45; 116; 105; 109; 101; 111; 117; 116].

(* a < b on Python numbers: int/int exact, float/float IEEE, int/float exact *)
Definition py_lt (a b : pynum) : bool :=
  match a, b with
  | PyInt x, PyInt y => x <? y
  | PyFloat f, PyInt y => match cmp_float_q f y 1 with Some Lt => true | _ => false end
  | PyInt x, PyFloat g => match cmp_float_q g x 1 with Some Gt => true | _ => false end
  | PyFloat f, PyFloat g => match b64_compare f g with Some Lt => true | _ => false end
  end.

(* min(iterable): keeps the first of equal elements *)
Fixpoint py_min_from (cur : pynum) (l : list pynum) : pynum :=
  match l with
  | [] => cur
  | x :: r => py_min_from (if py_lt x cur then x else cur) r
  end.
Definition py_min (l : list pynum) : option pynum :=
  match l with [] => None | x :: r => Some (py_min_from x r) end.

Fixpoint decode_all (vs : list (list Z)) : res py_err (list pynum) :=
  match vs with
  | [] => Ok []
  | v :: r => match decode_timeout v with
              | Err e => Err e
              | Ok x => match decode_all r with
                        | Err e => Err e
                        | Ok xs => Ok (x :: xs)
                        end
              end
  end.

Definition timeout_values (hs : list (list Z * list Z)) : list (list Z) :=
  map snd (filter (fun h => zlist_eqb (fst h) grpc_timeout_name) hs).

(* the timeout from_headers hands to from_timeout: None when there is no grpc-timeout header *)
Definition from_headers_timeout (hs : list (list Z * list Z)) : res py_err (option pynum) :=
  match decode_all (timeout_values hs) with
  | Err e => Err e
  | Ok xs => Ok (py_min xs)
  end.

(* Deadline._timestamp = time.monotonic() + timeout *)
Definition py_add_float (now : f64) (t : pynum) : res py_err f64 :=
  match t with
  | PyFloat f => Ok (fadd now f)
  | PyInt z => match float_of_int z with Ok f => Ok (fadd now f) | Err e => Err e end
  end.
Definition from_headers (now : f64) (hs : list (list Z * list Z)) : res py_err (option f64) :=
  match from_headers_timeout hs with
  | Err e => Err e
  | Ok None => Ok None
  | Ok (Some t) => match py_add_float now t with Ok d => Ok (Some d) | Err e => Err e end
  end.
