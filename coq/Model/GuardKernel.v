(* C04, first half: the guard kernel.

   (1) `frag` / `op_paths`: the syntactic PATHS of an IR program (Model/StreamIR.v; the programs come
       from Gen/StreamOps.v, regenerated from /repo on every run).  Every `SIf` branches BOTH ways
       (a superset of the real paths), `SAwaitSelf` is inlined, `SGuarded body` becomes
       AEnter, body, AExit, and a `return` inside guards is expanded to the exits it performs.
   (2) the kernel of ONE call: the call's Wrapper (utils.py: `_error`, `_tasks`, `__enter__`,
       `__exit__`, `cancel`) and the asyncio tasks running operation paths.  Steps:
         Spawn p      a new operation is started as a task (Task created, not yet run)
         Run t ds     the loop schedules task t: it executes actions up to its next suspension.
                      `ds` resolves what the environment decides on the way: at an `AAwait` the
                      awaited primitive completes at once (DGo), fails (DFail) or suspends the task
                      (DBlock / no decision left); at an opaque statement DFail makes it raise.
         Complete t   the primitive task t is suspended on completes: Blocked -> Woken false
         WCancel e    Wrapper.cancel(e): `_error := e`; Task.cancel() on every member:
                      Blocked -> Woken true, Woken _ -> Woken true (cancel wins over a completed
                      wait: asyncio throws CancelledError at the await), Fresh / Done unaffected.
       Entering a guard raises the sticky error when it is set, else joins `_tasks`; leaving a guard
       (normally or by unwinding) discards the task from `_tasks` and, if `_error` is set, replaces
       whatever was in flight by `_error` -- exactly Wrapper.__exit__.
   Executable only; the proofs are in Proofs/C04Proofs.v. *)
From Coq Require Import List Bool Arith.
From GV Require Import Model.StreamIR Model.StreamSem.
Import ListNotations.

(* ---- actions and paths ---- *)
Inductive site := SPrim (p : prim) | SHook (h : hook).

Inductive action :=
| AEnter | AExit                 (* Wrapper.__enter__ / __exit__ of `with self._wrapper` *)
| AAwait (s : site)
| ARaise (e : exn)               (* an explicit `raise` of the operation (a refusal) *)
| AReturn
| ASet                           (* assignment to a flag / local / the headers list: cannot raise, cannot wait *)
| AHelp (h : helper)             (* one of the four helper methods: cannot wait, may raise *)
| AOther.                        (* any other statement (opaque, reset_nowait, encode_metadata): cannot
                                    wait, may raise *)

Definition path := list action.

Scheme Equality for action.      (* action_beq, used only to look a selected path up in a path table *)

Inductive ending := EFall | ERet | EExc.

Definition seq_frag (hs rs : list (path * ending)) : list (path * ending) :=
  flat_map (fun h : path * ending =>
              match snd h with
              | EFall => map (fun r : path * ending => (fst h ++ fst r, snd r)) rs
              | _ => [h]
              end) hs.

(* all syntactic paths of a statement list at static guard depth d; None = fuel exhausted *)
Fixpoint frag (fuel : nat) (tbl : optable) (d : nat) (p : program) : option (list (path * ending)) :=
  match fuel with
  | O => None
  | S f =>
    match p with
    | [] => Some [([], EFall)]
    | i :: rest =>
      let head : option (list (path * ending)) :=
        match i with
        | SRaise e => Some [([ARaise e], EExc)]
        | SSetFlag _ _ | SSetLocal _ _ | SHeadersNew _ | SHeadersAdd _ => Some [([ASet], EFall)]
        | SHelper h => Some [([AHelp h], EFall)]
        | SResetNowait | SOpaque | SEncodeMetadata => Some [([AOther], EFall)]
        | SGuarded body =>
            match frag f tbl (S d) body with
            | None => None
            | Some l =>
                Some (map (fun pe : path * ending =>
                             match snd pe with
                             | EFall => (AEnter :: fst pe ++ [AExit], EFall)
                             | e => (AEnter :: fst pe, e)
                             end) l)
            end
        | SAwaitPrim pr => Some [([AAwait (SPrim pr)], EFall)]
        | SAwaitHook h => Some [([AAwait (SHook h)], EFall)]
        | SAwaitSelf o =>
            match lookup o tbl with
            | None => None
            | Some body =>
                (* the callee's `return` leaves only the callee's own guards: depth 0 inside it *)
                match frag f tbl 0 body with
                | None => None
                | Some l => Some (map (fun pe : path * ending =>
                                         match snd pe with ERet => (fst pe, EFall) | _ => pe end) l)
                end
            end
        | SIf _ t e =>
            match frag f tbl d t, frag f tbl d e with
            | Some a, Some b => Some (a ++ b)
            | _, _ => None
            end
        | SReturn => Some [(repeat AExit d ++ [AReturn], ERet)]
        end in
      match head, frag f tbl d rest with
      | Some hs, Some rs => Some (seq_frag hs rs)
      | _, _ => None
      end
    end
  end.

Definition PATH_FUEL : nat := 60.

Definition prog_paths (tbl : optable) (p : program) : option (list path) :=
  match frag PATH_FUEL tbl 0 p with Some l => Some (map fst l) | None => None end.

Definition op_paths (tbl : optable) (o : opname) : option (list path) :=
  match lookup o tbl with Some p => prog_paths tbl p | None => None end.

(* ---- the static side condition: every await inside exactly one guard ---- *)
Fixpoint wgd (d : nat) (p : path) : bool :=
  match p with
  | [] => d =? 0
  | AEnter :: r => (d =? 0) && wgd 1 r           (* guards are not nested *)
  | AExit :: r => (d =? 1) && wgd 0 r
  | AAwait _ :: r => (d =? 1) && wgd d r         (* every await is inside a guard *)
  | ARaise _ :: _ => true                        (* the exception unwinds through the guards *)
  | AReturn :: _ => d =? 0                       (* `frag` emitted the exits a return performs *)
  | ASet :: r | AHelp _ :: r | AOther :: r => wgd d r
  end.

Definition well_guarded (p : path) : bool := wgd 0 p.

(* does the path reach a guard before it can end on its own (only assignments before the AEnter)? *)
Fixpoint first_enter (p : path) : bool :=
  match p with
  | AEnter :: _ => true
  | ASet :: r => first_enter r
  | _ => false
  end.

(* ---- the kernel ---- *)
Inductive err := ETerminated | ETimeout | EOtherErr (k : nat).  (* what Wrapper.cancel was given *)

Inductive exv :=
| XWrap (e : err)        (* the wrapper's sticky error, raised by __enter__ / __exit__ *)
| XCancelled             (* asyncio.CancelledError *)
| XProg (e : exn)        (* raised by the operation's own `raise` *)
| XAdv.                  (* raised by a primitive or an opaque statement *)

Inductive result := RNormal | RRaise (x : exv).

Inductive tstat :=
| Fresh                  (* task created, not yet run *)
| Blocked                (* suspended at the await at the head of `acts` *)
| Woken (cp : bool)      (* scheduled to resume from that await; cp = a cancellation is pending *)
| Done (r : result).

Inductive tmark := MBefore | MAtCancel | MAfter.   (* ghost: blocked at a cancel / spawned after one *)

Record task := { acts : path; depth : nat; st : tstat; mark : tmark; orig : path }.

Inductive dec := DGo | DBlock | DFail.

Record kstate := {
  werr : option err;           (* Wrapper._error *)
  members : list nat;          (* Wrapper._tasks *)
  tasks : list task;
  sites_done : list site;      (* ghost: awaits that completed (newest first) *)
  errs : list err }.           (* ghost: every error ever passed to Wrapper.cancel *)

Definition kinit : kstate :=
  {| werr := None; members := []; tasks := []; sites_done := []; errs := [] |}.

Inductive klabel :=
| Spawn (p : path) | Run (t : nat) (ds : list dec) | Complete (t : nat) | WCancel (e : err).

Definition drop (i : nat) (mem : list nat) : list nat := filter (fun x => negb (x =? i)) mem.
Definition is_member (i : nat) (mem : list nat) : bool := existsb (Nat.eqb i) mem.

(* what one scheduling step of a task produces *)
Record xres := { x_mem : list nat; x_sd : list site; x_acts : path; x_depth : nat; x_st : tstat }.

(* an exception / return / end of path propagates out of the d enclosing guards: Wrapper.__exit__ *)
Definition finish (we : option err) (i d : nat) (mem : list nat) (sd : list site) (r : result) : xres :=
  match d with
  | O => {| x_mem := mem; x_sd := sd; x_acts := []; x_depth := 0; x_st := Done r |}
  | S _ => {| x_mem := drop i mem; x_sd := sd; x_acts := []; x_depth := 0;
              x_st := Done (match we with Some e => RRaise (XWrap e) | None => r end) |}
  end.

Fixpoint exec (we : option err) (i : nat) (a : path) (d : nat) (mem : list nat) (sd : list site)
         (ds : list dec) : xres :=
  match a with
  | [] => finish we i d mem sd RNormal
  | AEnter :: r =>
      match we with
      | Some e => finish we i d mem sd (RRaise (XWrap e))      (* __enter__ raises the sticky error *)
      | None => exec we i r (S d) (i :: mem) sd ds
      end
  | AExit :: r =>
      match we with
      | Some e => finish we i d mem sd RNormal                  (* __exit__ raises the sticky error *)
      | None => exec we i r (pred d) (drop i mem) sd ds
      end
  | AAwait s :: r =>
      match ds with
      | DGo :: ds' => exec we i r d mem (s :: sd) ds'
      | DFail :: _ => finish we i d mem sd (RRaise XAdv)
      | _ => {| x_mem := mem; x_sd := sd; x_acts := AAwait s :: r; x_depth := d; x_st := Blocked |}
      end
  | ARaise e :: _ => finish we i d mem sd (RRaise (XProg e))
  | AReturn :: _ => finish we i d mem sd RNormal
  | ASet :: r => exec we i r d mem sd ds
  | AHelp _ :: r | AOther :: r =>
      match ds with
      | DFail :: _ => finish we i d mem sd (RRaise XAdv)
      | _ :: ds' => exec we i r d mem sd ds'
      | [] => exec we i r d mem sd []
      end
  end.

Definition run_task (we : option err) (i : nat) (tk : task) (mem : list nat) (sd : list site)
           (ds : list dec) : option xres :=
  match st tk with
  | Fresh => Some (exec we i (acts tk) (depth tk) mem sd ds)
  | Woken false =>
      match acts tk with
      | AAwait s :: r => Some (exec we i r (depth tk) mem (s :: sd) ds)
      | a => Some (exec we i a (depth tk) mem sd ds)
      end
  | Woken true => Some (finish we i (depth tk) mem sd (RRaise XCancelled))
  | Blocked | Done _ => None
  end.

Fixpoint set_nth {A} (n : nat) (x : A) (l : list A) : list A :=
  match l, n with
  | [], _ => []
  | _ :: r, O => x :: r
  | y :: r, S m => y :: set_nth m x r
  end.

Fixpoint mapi_from {A B} (f : nat -> A -> B) (n : nat) (l : list A) : list B :=
  match l with [] => [] | x :: r => f n x :: mapi_from f (S n) r end.

Definition cancel_task (mem : list nat) (i : nat) (tk : task) : task :=
  if is_member i mem then
    match st tk with
    | Blocked => {| acts := acts tk; depth := depth tk; st := Woken true;
                    mark := match mark tk with MBefore => MAtCancel | m => m end; orig := orig tk |}
    | Woken _ => {| acts := acts tk; depth := depth tk; st := Woken true; mark := mark tk;
                    orig := orig tk |}
    | _ => tk
    end
  else tk.

Definition kstep (s : kstate) (l : klabel) : kstate :=
  match l with
  | Spawn p =>
      {| werr := werr s; members := members s;
         tasks := tasks s ++ [{| acts := p; depth := 0; st := Fresh;
                                 mark := match werr s with Some _ => MAfter | None => MBefore end;
                                 orig := p |}];
         sites_done := sites_done s; errs := errs s |}
  | Run t ds =>
      match nth_error (tasks s) t with
      | None => s
      | Some tk =>
          match run_task (werr s) t tk (members s) (sites_done s) ds with
          | None => s
          | Some x =>
              {| werr := werr s; members := x_mem x;
                 tasks := set_nth t {| acts := x_acts x; depth := x_depth x; st := x_st x;
                                       mark := mark tk; orig := orig tk |} (tasks s);
                 sites_done := x_sd x; errs := errs s |}
          end
      end
  | Complete t =>
      match nth_error (tasks s) t with
      | Some tk =>
          match st tk with
          | Blocked =>
              {| werr := werr s; members := members s;
                 tasks := set_nth t {| acts := acts tk; depth := depth tk; st := Woken false;
                                       mark := mark tk; orig := orig tk |} (tasks s);
                 sites_done := sites_done s; errs := errs s |}
          | _ => s
          end
      | None => s
      end
  | WCancel e =>
      {| werr := Some e; members := members s;
         tasks := mapi_from (cancel_task (members s)) 0 (tasks s);
         sites_done := sites_done s; errs := e :: errs s |}
  end.

Definition krun (ls : list klabel) (s : kstate) : kstate := fold_left kstep ls s.

Definition is_ready (t : tstat) : bool :=
  match t with Fresh | Woken _ => true | _ => false end.

(* nothing can happen any more without an outside stimulus *)
Definition quiescent (s : kstate) : bool := forallb (fun tk => negb (is_ready (st tk))) (tasks s).

Definition label_ok (l : klabel) : Prop :=
  match l with Spawn p => well_guarded p = true | _ => True end.
