(* Model of grpclib.health (property C19).  Executable definitions only, no proofs.

   Part 1  service._status on the Python set of check statuses, Health.__init__ / lookup, Health.Check
   Part 2  ServiceStatus.set, _reset_waits and the Health.Watch loop as a state machine with per-check
           asyncio.Event objects and wait tasks, a watcher blocked in send_message, unsubscription;
           plus the FIFO ready-queue scheduler used by the correspondence runs
   Part 3  ServiceCheck.__check__ as a timed state machine on a Z clock (TTL cache, single-flight
           latch, DeadlineWrapper timer), plus the timed runner used by the correspondence runs

   The aggregate table, the answers for unregistered / empty services and the behavioural switches come
   from Gen.FactsC19, which is regenerated on every run by PROBING the code in /repo (tools/facts_C19.py).
   Status codes there: True = 1, False = 0, None = 2. *)
From Coq Require Import ZArith List Bool.
From GV Require Import Gen.FactsC19.
Import ListNotations.
Open Scope Z_scope.

(* ================================================================================================ *)
(** * Part 1: statuses, the aggregate, the registry, Check *)

Inductive st := STrue | SFalse | SNone.          (* Python True / False / None *)

Definition st_eqb (a b : st) : bool :=
  match a, b with
  | STrue, STrue | SFalse, SFalse | SNone, SNone => true
  | _, _ => false
  end.

Definition st_code (a : st) : Z := match a with STrue => 1 | SFalse => 0 | SNone => 2 end.
Definition st_of_code (c : Z) : st := if c =? 1 then STrue else if c =? 0 then SFalse else SNone.

(* HealthCheckResponse.ServingStatus *)
Inductive resp := R_UNKNOWN | R_SERVING | R_NOT_SERVING | R_SERVICE_UNKNOWN | R_INVALID (n : Z).

Definition resp_of_Z (n : Z) : resp :=
  if n =? 0 then R_UNKNOWN else if n =? 1 then R_SERVING else if n =? 2 then R_NOT_SERVING
  else if n =? 3 then R_SERVICE_UNKNOWN else R_INVALID n.

Definition resp_code (r : resp) : Z :=
  match r with R_UNKNOWN => 0 | R_SERVING => 1 | R_NOT_SERVING => 2 | R_SERVICE_UNKNOWN => 3
             | R_INVALID n => n end.

(* the Python set {check.__status__() for check in checks}, as its characteristic vector over
   {True, False, None}: (has True, has False, has None) *)
Definition has (v : st) (l : list st) : bool := existsb (st_eqb v) l.
Definition sig_of (l : list st) : bool * bool * bool := (has STrue l, has SFalse l, has SNone l).

Definition sig_eqb (a b : bool * bool * bool) : bool :=
  match a, b with (a1, a2, a3), (b1, b2, b3) => Bool.eqb a1 b1 && Bool.eqb a2 b2 && Bool.eqb a3 b3 end.

Fixpoint table_lookup (sg : bool * bool * bool) (t : list ((bool * bool * bool) * Z)) : Z :=
  match t with
  | [] => -1
  | (k, r) :: rest => if sig_eqb sg k then r else table_lookup sg rest
  end.

(* the aggregate of the statuses l of the checks of a service (any order, any multiplicity): what Health
   answers for that non-empty set of statuses, as observed on the code (Gen.FactsC19.status_table).
   Health never aggregates an empty collection (a service without checks is answered SERVING before);
   the model value for [] is arbitrary and chosen as NOT_SERVING. *)
Definition agg_status (l : list st) : resp :=
  match l with
  | [] => R_NOT_SERVING
  | _ => resp_of_Z (table_lookup (sig_of l) status_table)
  end.

(* ---- Health.__init__ : service name -> set of check ids; name 0 is OVERALL ('') *)
Definition registry := list (Z * list nat).
Definition overall : Z := 0.

Fixpoint nat_mem (x : nat) (l : list nat) : bool :=
  match l with [] => false | y :: r => Nat.eqb x y || nat_mem x r end.

Fixpoint dedup (l : list nat) : list nat :=
  match l with
  | [] => []
  | x :: r => let s := dedup r in if nat_mem x s then s else x :: s
  end.

Definition health_init (cfg : option (list (Z * list nat))) : registry :=
  match cfg with
  | None => [(overall, [])]
  | Some c =>
    let c' := if existsb (fun kv => fst kv =? overall) c then c
              else c ++ [(overall, concat (map snd c))] in
    map (fun kv => (fst kv, dedup (snd kv))) c'
  end.

(* dict built by a comprehension: a later entry with the same name replaces an earlier one *)
Fixpoint lookup (r : registry) (name : Z) : option (list nat) :=
  match r with
  | [] => None
  | (k, v) :: rest =>
    match lookup rest name with
    | Some x => Some x
    | None => if k =? name then Some v else None
    end
  end.

Definition val_of (vals : list st) (i : nat) : st := nth i vals SNone.

(* Health.Check once every check.__check__() has returned *)
Inductive check_answer :=
| CA_Status (grpc_status : Z)        (* no message, trailers with this grpc-status *)
| CA_Resp (r : resp).

Definition check_rpc (reg : registry) (vals : list st) (name : Z) : check_answer :=
  match lookup reg name with
  | None => CA_Status check_unregistered_grpc_status
  | Some [] => CA_Resp (resp_of_Z check_empty_resp)
  | Some cs => CA_Resp (agg_status (map (val_of vals) cs))
  end.

(* ================================================================================================ *)
(** * Part 2: ServiceStatus.set, _reset_waits, Health.Watch *)

(* one `asyncio.ensure_future(event.wait())` task *)
Inductive wst :=
| WNew          (* created, first step not run yet *)
| WBlocked      (* suspended in Event.wait(): a future in event._waiters *)
| WWoken        (* its future was resolved by Event.set(); the task has not run yet *)
| WDone         (* finished (returned True) *)
| WCancelled.

(* what a watcher holds for one check: the subscribed Event, its wait task, and (ghost, for the
   proofs only) the value of that check as read by the last _status(checks) of this watcher *)
Record slot := mkSlot { sl_check : nat; sl_ev : bool; sl_wait : wst; sl_seen : st }.

Inductive wpc :=
| PSending      (* suspended inside stream.send_message (a watcher that does not read) *)
| PWaiting      (* suspended in asyncio.wait(..., FIRST_COMPLETED), its waiter future unresolved *)
| PWaking       (* asyncio.wait's waiter future resolved: the task is scheduled to run *)
| PIdle         (* unregistered service / no checks: one message, then sleeps forever *)
| PEnded.       (* cancelled / failed: unsubscribed, wait tasks cancelled *)

(* w_sent: the statuses passed to send_message, newest first *)
Record watcher := mkW { w_pc : wpc; w_slow : bool; w_slots : list slot; w_sent : list resp }.

Record wsys := mkSys { s_reg : registry; s_vals : list st; s_ws : list watcher }.

Definition wait_done (x : wst) : bool :=
  match x with WDone | WCancelled => true | _ => false end.

Definition active (pc : wpc) : bool :=
  match pc with PSending | PWaiting | PWaking => true | _ => false end.

Definition cur_status (vals : list st) (sls : list slot) : resp :=
  agg_status (map (fun sl => val_of vals (sl_check sl)) sls).

Definition notifies : bool := set_notifies_on_change && check_notifies_on_change.

(* asyncio.Event.set(): nothing if already set; else set the flag and resolve the waiters' futures *)
Definition ev_set (sl : slot) : slot :=
  if sl_ev sl then sl
  else mkSlot (sl_check sl) true
              (match sl_wait sl with WBlocked => WWoken | x => x end) (sl_seen sl).

(* the value of check i changes (changed = true) or is re-assigned (false): the check calls
   event.set() for every subscribed event when the value changed *)
Definition on_set (i : nat) (changed : bool) (w : watcher) : watcher :=
  if active (w_pc w) && changed && notifies then
    mkW (w_pc w) (w_slow w)
        (map (fun sl => if Nat.eqb (sl_check sl) i then ev_set sl else sl) (w_slots w)) (w_sent w)
  else w.

(* _reset_waits for one event, followed by the read of the check's value by _status(checks) *)
Definition reset_slot (vals : list st) (sl : slot) : slot :=
  if reset_when_absent_or_done && wait_done (sl_wait sl) then
    mkSlot (sl_check sl) (if reset_clears_then_waits then false else sl_ev sl) WNew
           (val_of vals (sl_check sl))
  else mkSlot (sl_check sl) (sl_ev sl) (sl_wait sl) (val_of vals (sl_check sl)).

(* one step of a wait task *)
Definition wait_run (sl : slot) : slot :=
  match sl_wait sl with
  | WNew => mkSlot (sl_check sl) (sl_ev sl) (if sl_ev sl then WDone else WBlocked) (sl_seen sl)
  | WWoken => mkSlot (sl_check sl) (sl_ev sl) WDone (sl_seen sl)
  | _ => sl
  end.

Definition cancel_slot (sl : slot) : slot :=
  mkSlot (sl_check sl) (sl_ev sl)
         (if wait_done (sl_wait sl) then sl_wait sl else WCancelled) (sl_seen sl).

Definition any_done (sls : list slot) : bool := existsb (fun sl => wait_done (sl_wait sl)) sls.
Definition all_done (sls : list slot) : bool := forallb (fun sl => wait_done (sl_wait sl)) sls.
Definition wait_returns (sls : list slot) : bool :=
  if watch_first_completed then any_done sls else all_done sls.

Fixpoint upd_nth {A} (k : nat) (f : A -> A) (l : list A) : list A :=
  match l, k with
  | [], _ => []
  | x :: r, O => f x :: r
  | x :: r, S k' => x :: upd_nth k' f r
  end.

(* the steps of one Watch call and of its wait tasks *)
Inductive lop :=
| LWaitRun (p : nat)      (* the wait task of slot p runs *)
| LCompl                  (* a done-callback of asyncio.wait runs (_on_completion) *)
| LRunW                   (* the Watch task runs: _reset_waits, _status, send_message *)
| LSendDone               (* send_message returns *)
| LSetSlow (b : bool)     (* from now on send_message blocks / does not block *)
| LCancel.                (* the call is cancelled or its stream fails: the finally block *)

Definition pc_eqb (a b : wpc) : bool :=
  match a, b with
  | PSending, PSending | PWaiting, PWaiting | PWaking, PWaking | PIdle, PIdle | PEnded, PEnded => true
  | _, _ => false
  end.

Definition local_step (vals : list st) (op : lop) (w : watcher) : watcher :=
  if negb (active (w_pc w)) then w else
  match op with
  | LWaitRun p => mkW (w_pc w) (w_slow w) (upd_nth p wait_run (w_slots w)) (w_sent w)
  | LCompl =>
    if pc_eqb (w_pc w) PWaiting && wait_returns (w_slots w)
    then mkW PWaking (w_slow w) (w_slots w) (w_sent w) else w
  | LRunW =>
    if pc_eqb (w_pc w) PWaking && watch_segment_atomic then
      let sls := map (reset_slot vals) (w_slots w) in
      mkW (if w_slow w then PSending else PWaiting) (w_slow w) sls (cur_status vals sls :: w_sent w)
    else w
  | LSendDone =>
    if pc_eqb (w_pc w) PSending then mkW PWaiting (w_slow w) (w_slots w) (w_sent w) else w
  | LSetSlow b => mkW (w_pc w) b (w_slots w) (w_sent w)
  | LCancel => mkW PEnded (w_slow w) (map cancel_slot (w_slots w)) (w_sent w)
  end.

(* the first segment of Health.Watch after recv_message: subscribe, _reset_waits(events, {}),
   first message *)
Definition new_watcher (reg : registry) (vals : list st) (name : Z) (slow : bool) : watcher :=
  match lookup reg name with
  | None => mkW PIdle slow [] [resp_of_Z watch_unregistered_resp]
  | Some [] => mkW PIdle slow [] [resp_of_Z watch_empty_resp]
  | Some cs =>
    let sls := map (fun i => mkSlot i false WNew (val_of vals i)) cs in
    mkW (if slow then PSending else PWaiting) slow sls [cur_status vals sls]
  end.

Inductive wop :=
| OSet (i : nat) (v : st)             (* ServiceStatus.set(v) on check i, or the assignment of the
                                         result at the end of ServiceCheck.__check__ *)
| OWatch (name : Z) (slow : bool)     (* a new Watch call runs its first segment *)
| OLocal (k : nat) (op : lop).        (* a step of watcher k *)

Fixpoint set_nth {A} (k : nat) (x : A) (l : list A) : list A :=
  match l, k with
  | [], _ => []
  | _ :: r, O => x :: r
  | y :: r, S k' => y :: set_nth k' x r
  end.

Definition wstep (s : wsys) (op : wop) : wsys :=
  match op with
  | OSet i v =>
    if Nat.ltb i (length (s_vals s)) then
      let changed := negb (st_eqb (val_of (s_vals s) i) v) in
      mkSys (s_reg s) (set_nth i v (s_vals s)) (map (on_set i changed) (s_ws s))
    else s
  | OWatch name slow =>
    mkSys (s_reg s) (s_vals s) (s_ws s ++ [new_watcher (s_reg s) (s_vals s) name slow])
  | OLocal k op => mkSys (s_reg s) (s_vals s) (upd_nth k (local_step (s_vals s) op) (s_ws s))
  end.

Definition wrun (s : wsys) (ops : list wop) : wsys := fold_left wstep ops s.

Definition winit (reg : registry) (vals : list st) : wsys := mkSys reg vals [].

(* internal steps (everything but the application's set / a new call / cancel / slow switch) *)
Definition internal (op : wop) : bool :=
  match op with
  | OLocal _ (LWaitRun _) | OLocal _ LCompl | OLocal _ LRunW | OLocal _ LSendDone => true
  | _ => false
  end.

(* nothing of this watcher can run any more: no wait task is runnable or finished, and the Watch
   task is suspended in asyncio.wait (or the call is idle / over) *)
Definition slot_quiet (sl : slot) : bool :=
  match sl_wait sl with WBlocked => true | _ => false end.

Definition watcher_quiet (w : watcher) : bool :=
  match w_pc w with
  | PWaiting => forallb slot_quiet (w_slots w)
  | PIdle | PEnded => true
  | _ => false
  end.

Definition quiescent (s : wsys) : bool := forallb watcher_quiet (s_ws s).

(* ---- the FIFO ready queue of asyncio, for the correspondence runs ------------------------------- *)

Definition wst_eqb (a b : wst) : bool :=
  match a, b with
  | WNew, WNew | WBlocked, WBlocked | WWoken, WWoken | WDone, WDone | WCancelled, WCancelled => true
  | _, _ => false
  end.

Fixpoint slot_diff (k p : nat) (pre post : list slot) : list wop * nat :=
  (* (wait tasks made runnable, number of wait tasks that finished) *)
  match post with
  | [] => ([], O)
  | b :: post' =>
    let a := match pre with x :: _ => Some x | [] => None end in
    let (ops, fin) := slot_diff k (S p) (match pre with _ :: r => r | [] => [] end) post' in
    let pre_wait := match a with Some x => Some (sl_wait x) | None => None end in
    let runnable :=
        match sl_wait b, pre_wait with
        | WNew, Some WNew => false
        | WNew, _ => true
        | WWoken, Some WBlocked => true
        | _, _ => false
        end in
    let finished :=
        match pre_wait with
        | Some x => negb (wait_done x) && wst_eqb (sl_wait b) WDone
        | None => false
        end in
    ((if runnable then [OLocal k (LWaitRun p)] else []) ++ ops, if finished then S fin else fin)
  end.

Definition registered (pc : wpc) : bool :=
  match pc with PWaiting | PWaking => true | _ => false end.

(* callbacks that one step of watcher k makes ready, in call_soon order *)
Definition watcher_diff (k : nat) (pre : option watcher) (post : watcher) : list wop :=
  let pre_slots := match pre with Some w => w_slots w | None => [] end in
  let pre_pc := match pre with Some w => w_pc w | None => PEnded end in
  let (runs, fin) := slot_diff k O pre_slots (w_slots post) in
  let compl_fin := if registered (w_pc post) && registered pre_pc then repeat (OLocal k LCompl) fin else [] in
  let compl_enter :=
      if pc_eqb (w_pc post) PWaiting && negb (registered pre_pc)
      then repeat (OLocal k LCompl) (length (filter (fun sl => wait_done (sl_wait sl)) (w_slots post)))
      else [] in
  let wake := if pc_eqb (w_pc post) PWaking && negb (pc_eqb pre_pc PWaking) then [OLocal k LRunW] else [] in
  if active (w_pc post) then runs ++ compl_fin ++ compl_enter ++ wake else [].

Fixpoint ws_diff (k : nat) (pre post : list watcher) : list wop :=
  match post with
  | [] => []
  | b :: post' =>
    watcher_diff k (match pre with x :: _ => Some x | [] => None end) b
      ++ ws_diff (S k) (match pre with _ :: r => r | [] => [] end) post'
  end.

Definition sched_new (s : wsys) (op : wop) : list wop := ws_diff O (s_ws s) (s_ws (wstep s op)).

(* one iteration of the event loop: every callback that was ready at its start runs, in order *)
Fixpoint fifo_pass (s : wsys) (q : list wop) : wsys * list wop :=
  match q with
  | [] => (s, [])
  | op :: r =>
    let new := sched_new s op in
    let (s', n) := fifo_pass (wstep s op) r in
    (s', new ++ n)
  end.

Fixpoint fifo_iters (n : nat) (sq : wsys * list wop) : wsys * list wop :=
  match n with
  | O => sq
  | S n' => fifo_iters n' (fifo_pass (fst sq) (snd sq))
  end.

Fixpoint fifo_settle (fuel : nat) (sq : wsys * list wop) : wsys * list wop :=
  match fuel with
  | O => sq
  | S f => match snd sq with [] => sq | _ => fifo_settle f (fifo_pass (fst sq) (snd sq)) end
  end.

(* what the harness does between loop iterations *)
Inductive cmd :=
| CExt (op : wop)         (* a synchronous call from outside the loop: set / cancel / slow switch *)
| CSpawn (op : wop)       (* create_task(Watch(...)): its first segment is queued *)
| CRelease (k : nat)      (* the blocked send_message of watcher k is released (queued) *)
| CIter (n : nat)         (* run n loop iterations *)
| CSettle.                (* run until nothing is ready *)

Definition run_cmd (fuel : nat) (sq : wsys * list wop) (c : cmd) : wsys * list wop :=
  let (s, q) := sq in
  match c with
  | CExt op => (wstep s op, q ++ sched_new s op)
  | CSpawn op => (s, q ++ [op])
  | CRelease k =>
    match nth_error (s_ws s) k with
    | Some w => if pc_eqb (w_pc w) PSending then (s, q ++ [OLocal k LSendDone]) else sq
    | None => sq
    end
  | CIter n => fifo_iters n sq
  | CSettle => fifo_settle fuel sq
  end.

(* ================================================================================================ *)
(** * Part 3: ServiceCheck.__check__ on a Z clock *)

(* how one run of the user function ends by itself *)
Inductive fres := FTrue | FFalse | FNone | FNonBool | FRaise.

Inductive how :=
| HRet (r : fres)         (* the function returned / raised *)
| HTimeout                (* interrupted by the DeadlineWrapper timer *)
| HAborted.               (* the calling task was cancelled from outside *)

(* a task that called __check__ *)
Inductive cst :=
| CWait                       (* suspended in self._check_lock.wait() *)
| CWoken                      (* the latch was set; the task has not run yet *)
| CRun (cancelling : bool)    (* awaiting self._func(); cancelling: Task.cancel() was requested *)
| CRet (v : st) (t : Z)       (* returned v at time t *)
| CCancelled (t : Z).

Record sck := mkK {
  k_ttl : Z; k_tmo : Z;                       (* check_ttl, check_timeout *)
  k_now : Z;                                  (* time.monotonic() *)
  k_value : st; k_last : option Z;            (* _value, _last_check *)
  k_lock : bool;                              (* _check_lock.is_set() *)
  k_run : option (Z * option Z * st);         (* run in flight: start, deadline timer, prev_value *)
  k_callers : list cst;
  k_log : list (Z * Z * how);                 (* finished runs of the function, newest first *)
  k_notes : list (Z * st)                     (* event.set() rounds for the watchers, newest first *)
}.

Definition kinit (ttl tmo now : Z) : sck := mkK ttl tmo now SNone None true None [] [] [].

Definition ttl_test (elapsed ttl : Z) : bool :=
  if ttl_cmp =? 0 then elapsed <? ttl else if ttl_cmp =? 1 then elapsed <=? ttl
  else if ttl_cmp =? 2 then elapsed >? ttl else elapsed >=? ttl.

Definition cached (k : sck) : bool :=
  match k_last k with Some l => ttl_test (k_now k - l) (k_ttl k) | None => false end.

Definition fail_value : st := st_of_code check_failure_value.

Definition value_of_fres (r : fres) : st :=
  match r with
  | FTrue => STrue | FFalse => SFalse | FNone => SNone
  | FNonBool => if nonbool_is_type_error then fail_value else STrue
  | FRaise => fail_value
  end.

Definition note (k : sck) (prev v : st) : list (Z * st) :=
  if negb (st_eqb v prev) && check_notifies_on_change then (k_now k, v) :: k_notes k else k_notes k.

(* the run in flight ends with a value (the except / normal path) *)
Definition finish (k : sck) (v : st) (h : how) : sck :=
  match k_run k with
  | None => k
  | Some (start, _, prev) =>
    mkK (k_ttl k) (k_tmo k) (k_now k) v (Some (k_now k))
        (if latch_set_in_finally then true else k_lock k) None
        (map (fun c => match c with
                       | CRun _ => CRet v (k_now k)
                       | CWait => if latch_set_in_finally then CWoken else CWait
                       | x => x end) (k_callers k))
        ((start, k_now k, h) :: k_log k) (note k prev v)
  end.

(* the calling task is cancelled while the function runs: except CancelledError: raise; finally *)
Definition abort (k : sck) : sck :=
  match k_run k with
  | None => k
  | Some (start, _, _) =>
    mkK (k_ttl k) (k_tmo k) (k_now k) (k_value k) (k_last k)
        (if latch_set_in_finally then true else k_lock k) None
        (map (fun c => match c with
                       | CRun _ => CCancelled (k_now k)
                       | CWait => if latch_set_in_finally then CWoken else CWait
                       | x => x end) (k_callers k))
        ((start, k_now k, HAborted) :: k_log k) (k_notes k)
  end.

Definition add_caller (k : sck) (c : cst) : sck :=
  mkK (k_ttl k) (k_tmo k) (k_now k) (k_value k) (k_last k) (k_lock k) (k_run k)
      (k_callers k ++ [c]) (k_log k) (k_notes k).

(* the first segment of __check__ in a new task *)
Definition k_call (k : sck) : sck :=
  if cached k then add_caller k (CRet (k_value k) (k_now k))
  else if negb (k_lock k) then add_caller k CWait
  else
    let lock' := if latch_cleared_before_run then false else k_lock k in
    if func_guarded && (k_tmo k <=? 0) then
      (* wrapper.start(deadline) raises TimeoutError at once; the function is not called *)
      mkK (k_ttl k) (k_tmo k) (k_now k) fail_value (Some (k_now k))
          (if latch_set_in_finally then true else lock') None
          (k_callers k ++ [CRet fail_value (k_now k)]) (k_log k) (note k (k_value k) fail_value)
    else
      mkK (k_ttl k) (k_tmo k) (k_now k) (k_value k) (k_last k) lock'
          (Some (k_now k, if func_guarded then Some (k_now k + k_tmo k) else None, k_value k))
          (k_callers k ++ [CRun false]) (k_log k) (k_notes k).

Definition runner_state (k : sck) : option bool :=      (* Some cancelling *)
  match k_run k with
  | None => None
  | Some _ =>
    fold_right (fun c acc => match c with CRun b => Some b | _ => acc end) None (k_callers k)
  end.

Definition deadline_of (k : sck) : option Z :=
  match k_run k with Some (_, Some dl, _) => Some dl | _ => None end.

Inductive kop :=
| KCall                   (* a new task calls __check__ *)
| KResume (c : nat)       (* a caller woken from the latch runs *)
| KFuncEnd (r : fres)     (* the function ends by itself *)
| KTimeout                (* the deadline timer has fired and the running caller's task runs *)
| KCancel (c : nat)       (* Task.cancel() on caller c *)
| KDeliver                (* the cancelled running caller's task runs *)
| KAdvance (dt : Z).      (* time passes *)

Definition kstep (k : sck) (op : kop) : sck :=
  match op with
  | KCall => k_call k
  | KResume c =>
    mkK (k_ttl k) (k_tmo k) (k_now k) (k_value k) (k_last k) (k_lock k) (k_run k)
        (upd_nth c (fun x => match x with CWoken => CRet (k_value k) (k_now k) | y => y end)
                 (k_callers k)) (k_log k) (k_notes k)
  | KFuncEnd r =>
    match runner_state k with
    | Some false => finish k (value_of_fres r) (HRet r)
    | _ => k
    end
  | KTimeout =>
    match runner_state k, deadline_of k with
    | Some _, Some dl => if dl <=? k_now k then finish k fail_value HTimeout else k
    | _, _ => k
    end
  | KCancel c =>
    mkK (k_ttl k) (k_tmo k) (k_now k) (k_value k) (k_last k) (k_lock k) (k_run k)
        (upd_nth c (fun x => match x with
                             | CWait | CWoken => CCancelled (k_now k)
                             | CRun _ => CRun true
                             | y => y end) (k_callers k)) (k_log k) (k_notes k)
  | KDeliver =>
    match runner_state k with
    | Some true => abort k
    | _ => k
    end
  | KAdvance dt =>
    if dt <=? 0 then k else
    let t := match deadline_of k with
             | Some dl => Z.min (k_now k + dt) (Z.max (k_now k) dl)   (* the timer fires on time *)
             | None => k_now k + dt
             end in
    mkK (k_ttl k) (k_tmo k) t (k_value k) (k_last k) (k_lock k) (k_run k) (k_callers k)
        (k_log k) (k_notes k)
  end.

Definition krun (k : sck) (ops : list kop) : sck := fold_left kstep ops k.

(* every run of the function: the finished ones and the one in flight (end = None), newest first *)
Definition invocations (k : sck) : list (Z * option Z * option how) :=
  (match k_run k with Some (s, _, _) => [(s, None, None)] | None => [] end)
    ++ map (fun e => match e with (s, e', h) => (s, Some e', Some h) end) (k_log k).

(* ---- timed runner for the correspondence runs ---------------------------------------------------
   script: what the j-th run of the user function does: (d, r) -- d >= 0: sleeps d then ends with r;
   d = -1: ends with r without suspending; d <= -2: never ends by itself.
   Events arrive in time order; before an event at time t everything due at or before t has run. *)
Inductive tev :=
| TCall (cancel_at : option Z)     (* create a task calling __check__; optionally arm, before the
                                       task first runs, a timer that cancels it at that time *)
| TCancel (c : nat).               (* task c .cancel() now *)

Record trun := mkT {
  t_k : sck;
  t_script : list (Z * fres);
  t_pend : option (option Z * fres);      (* the run in flight ends at (Some t) / never, with r *)
  t_timers : list (Z * nat)               (* armed cancel timers *)
}.

Fixpoint resume_all (n : nat) (c : nat) (k : sck) : sck :=
  match n with O => k | S n' => resume_all n' (S c) (kstep k (KResume c)) end.

Definition settle_k (k : sck) : sck := resume_all (length (k_callers k)) O k.

(* after a KCall: if a run has started, take the next script entry *)
Definition start_run (had_run : bool) (t : trun) : trun :=
  match k_run (t_k t), had_run with
  | Some _, false =>
    let (d, r) := match t_script t with x :: _ => x | [] => (-1, FTrue) end in
    let rest := match t_script t with _ :: r' => r' | [] => [] end in
    if d =? -1 then mkT (settle_k (kstep (t_k t) (KFuncEnd r))) rest None (t_timers t)
    else mkT (t_k t) rest (Some (if d <? 0 then None else Some (k_now (t_k t) + d), r)) (t_timers t)
  | _, _ => t
  end.

Definition is_some {A} (o : option A) : bool := match o with Some _ => true | None => false end.

Definition zmin_opt (a : option Z) (b : option Z) : option Z :=
  match a, b with
  | Some x, Some y => Some (Z.min x y)
  | Some x, None => Some x
  | None, y => y
  end.

Definition next_timer (l : list (Z * nat)) : option Z :=
  fold_right (fun e acc => zmin_opt (Some (fst e)) acc) None l.

(* everything that is due at the current instant, cancel timers first *)
Definition fire_now (t : trun) : trun :=
  let now := k_now (t_k t) in
  let due := filter (fun e => fst e <=? now) (t_timers t) in
  let later := filter (fun e => negb (fst e <=? now)) (t_timers t) in
  let k1 := fold_left (fun k e => kstep k (KCancel (snd e))) due (t_k t) in
  let timed_out := match deadline_of k1 with Some dl => dl <=? now | None => false end in
  match runner_state k1 with
  | Some true =>
    mkT (settle_k (if timed_out then kstep k1 KTimeout else kstep k1 KDeliver)) (t_script t) None later
  | Some false =>
    if timed_out then mkT (settle_k (kstep k1 KTimeout)) (t_script t) None later
    else match t_pend t with
         | Some (Some fe, r) =>
           if fe <=? now then mkT (settle_k (kstep k1 (KFuncEnd r))) (t_script t) None later
           else mkT (settle_k k1) (t_script t) (t_pend t) later
         | _ => mkT (settle_k k1) (t_script t) (t_pend t) later
         end
  | None => mkT (settle_k k1) (t_script t) (t_pend t) later
  end.

Definition next_instant (t : trun) : option Z :=
  let a := next_timer (t_timers t) in
  match k_run (t_k t) with
  | None => a
  | Some _ =>
    let fe := match t_pend t with Some (Some e, _) => Some e | _ => None end in
    zmin_opt a (zmin_opt fe (deadline_of (t_k t)))
  end.

Fixpoint advance_to (fuel : nat) (target : Z) (t : trun) : trun :=
  match fuel with
  | O => t
  | S f =>
    match next_instant t with
    | Some ti =>
      if ti <=? target then
        let k' := kstep (t_k t) (KAdvance (ti - k_now (t_k t))) in
        advance_to f target (fire_now (mkT k' (t_script t) (t_pend t) (t_timers t)))
      else mkT (kstep (t_k t) (KAdvance (target - k_now (t_k t)))) (t_script t) (t_pend t) (t_timers t)
    | None => mkT (kstep (t_k t) (KAdvance (target - k_now (t_k t)))) (t_script t) (t_pend t) (t_timers t)
    end
  end.

Definition apply_tev (fuel : nat) (t : trun) (e : Z * tev) : trun :=
  let t1 := advance_to fuel (fst e) t in
  match snd e with
  | TCall cancel_at =>
    let c := length (k_callers (t_k t1)) in
    let had := is_some (k_run (t_k t1)) in
    let t2 := mkT (kstep (t_k t1) KCall) (t_script t1) (t_pend t1)
                  (match cancel_at with Some ta => t_timers t1 ++ [(ta, c)] | None => t_timers t1 end) in
    start_run had t2
  | TCancel c =>
    let k1 := kstep (t_k t1) (KCancel c) in
    (* the loop runs before the next event: a cancelled runner is delivered at once *)
    fire_now (mkT k1 (t_script t1) (t_pend t1) (t_timers t1))
  end.

Definition run_timed (fuel : nat) (ttl tmo : Z) (script : list (Z * fres)) (evs : list (Z * tev))
           (horizon : Z) : trun :=
  advance_to fuel horizon (fold_left (apply_tev fuel) evs (mkT (kinit ttl tmo 0) script None [])).

(* ================================================================================================ *)
(** * Part 4: the poll task of a ServiceCheck (__subscribe__ / __unsubscribe__ / _poll)

   Watch subscribers come and go at any instant, also in adjacent loop iterations: the last one leaves
   (its __unsubscribe__ cancels the poll task and is suspended in `await task`) while the next one
   subscribes.  Only the bookkeeping is modelled here; what a poll task does is `KCall` of part 3 every
   check_ttl. *)

Record pstate := mkP {
  p_events : nat;                     (* len(self._events): subscribed watchers *)
  p_poll : option nat;                (* self._poll_task (a task id) *)
  p_live : list (nat * bool);         (* poll tasks not finished yet, with "cancel requested" *)
  p_next : nat;                       (* next fresh task id *)
  p_waiting : list nat;               (* __unsubscribe__ calls suspended in `await task` *)
  p_err : bool                        (* the assert in __unsubscribe__ failed *)
}.

Definition pinit : pstate := mkP O None [] O [] false.

Inductive pop :=
| PSub                      (* a Watch call runs `await check.__subscribe__()` *)
| PUnsub                    (* a subscribed Watch call runs `await check.__unsubscribe__(event)` up to its await *)
| PTaskEnd (t : nat)        (* a cancelled poll task runs and ends *)
| PUnsubResume (t : nat).   (* the __unsubscribe__ that awaited task t continues *)

Definition mark_cancel (t : nat) (l : list (nat * bool)) : list (nat * bool) :=
  map (fun e : nat * bool => if Nat.eqb (fst e) t then (fst e, true) else e) l.

Definition is_live (t : nat) (l : list (nat * bool)) : bool := existsb (fun e : nat * bool => Nat.eqb (fst e) t) l.

Definition pstep (s : pstate) (op : pop) : pstate :=
  match op with
  | PSub =>
    let start := if subscribe_starts_poll_when_none
                 then match p_poll s with None => true | Some _ => false end else false in
    if start then
      mkP (S (p_events s)) (Some (p_next s)) (p_live s ++ [(p_next s, false)]) (S (p_next s))
          (p_waiting s) (p_err s)
    else mkP (S (p_events s)) (p_poll s) (p_live s) (p_next s) (p_waiting s) (p_err s)
  | PUnsub =>
    match p_events s with
    | O => s
    | S O =>
      match p_poll s with
      | None => mkP O None (p_live s) (p_next s) (p_waiting s) true          (* AssertionError *)
      | Some t =>
        mkP O (if poll_cleared_before_await then None else Some t) (mark_cancel t (p_live s)) (p_next s)
            (p_waiting s ++ [t]) (p_err s)
      end
    | S n => mkP n (p_poll s) (p_live s) (p_next s) (p_waiting s) (p_err s)
    end
  | PTaskEnd t =>
    mkP (p_events s) (p_poll s)
        (filter (fun e : nat * bool => negb (Nat.eqb (fst e) t && snd e)) (p_live s)) (p_next s) (p_waiting s) (p_err s)
  | PUnsubResume t =>
    if nat_mem t (p_waiting s) && negb (is_live t (p_live s)) then
      mkP (p_events s) (if poll_cleared_before_await then p_poll s else None) (p_live s) (p_next s)
          (filter (fun x => negb (Nat.eqb x t)) (p_waiting s)) (p_err s)
    else s
  end.

Definition prun (s : pstate) (ops : list pop) : pstate := fold_left pstep ops s.

(* run everything that is pending: cancelled poll tasks end, suspended unsubscribes continue *)
Definition psettle (s : pstate) : pstate :=
  let s1 := fold_left (fun a (e : nat * bool) => if snd e then pstep a (PTaskEnd (fst e)) else a) (p_live s) s in
  fold_left (fun a t => pstep a (PUnsubResume t)) (p_waiting s1) s1.

Definition live_pollers (s : pstate) : nat := length (p_live s).
