(* C05, server side: the deadline of one request in grpclib.server.request_handler.
   Executable definitions only.  EVERYTHING is in Python floats (Flocq binary64, as in C15's
   Model/Timeout.v, whose Deadline.from_headers model is reused): no exactness assumption is needed
   on this side.

   Source transcribed (server.py request_handler, utils.py, metadata.py as they are in /repo now):
       try: deadline = Deadline.from_headers(headers)         # min over ALL grpc-timeout headers,
       except ValueError: _abort(200, UNKNOWN, 'Invalid grpc-timeout header'); return
       ...
       if deadline is None: wrapper = Wrapper(); deadline_wrapper = nullcontext()
       else: wrapper = DeadlineWrapper(); deadline_wrapper = wrapper.start(deadline)
       try:
           with deadline_wrapper, wrapper:        # start(): timeout = max(0, ts - monotonic());
               await method_func(stream)          #   if not timeout: cancel(TimeoutError); raise it
       except GRPCError: raise                    #   else call_later(timeout, cancel(TimeoutError))
       except asyncio.TimeoutError:
           if wrapper.cancel_failed: raise GRPCError(DEADLINE_EXCEEDED)
           elif wrapper.cancelled:   raise GRPCError(DEADLINE_EXCEEDED)
           else: raise                            # the handler's own TimeoutError -> UNKNOWN
       ...
   Wrapper.__exit__ replaces whatever leaves the `with` (normal end, GRPCError, any exception,
   CancelledError) by the wrapper's error once cancel() ran; server Stream.__aexit__ turns
   GRPCError into its status, any other Exception into UNKNOWN, and sends nothing more when the
   handler had already sent trailers.
   asyncio: a timer and the handler's own wake-up due at the same instant: the cancellation wins
   (Task.cancel on a task whose wait already completed sets must_cancel).
   The ORDER of the two context managers and the statements of start()'s expired branch are
   source facts (Gen/FactsC05.v, regenerated on every run): `wrapper` entered first would make the
   request task a member BEFORE start() calls self.cancel() for an expired deadline, the task would
   cancel ITSELF, and the pending CancelledError would hit the first real suspension of the reply
   path (a listener that awaits, send_headers waiting for write_ready): no answer at all. *)
From Coq Require Import ZArith List Bool.
From Flocq Require Import Core IEEE754.BinarySingleNaN IEEE754.Binary IEEE754.Bits.
From GV Require Import Lib.Str Gen.Facts Gen.FactsC05 Model.Timeout.
Import ListNotations.
Open Scope Z_scope.

Definition fsub (x y : f64) : f64 := Bminus 53 1024 prec53 emax1024 binop_nan_pl64 mode_NE x y.

(* x < y on floats (IEEE; false with a NaN) *)
Definition flt (x y : f64) : bool := match b64_compare x y with Some Lt => true | _ => false end.
(* x > 0 *)
Definition fpos (x : f64) : bool := match cmp_float_q x 0 1 with Some Gt => true | _ => false end.

(* how the handler ends when left alone / after it swallowed the cancellation *)
Inductive fin_kind :=
| FReturn                        (* replies and returns *)
| FRaiseOther                    (* raises some Exception *)
| FRaiseGRPC                     (* raises GRPCError(its own status) *)
| FRaiseTimeout.                 (* raises asyncio.TimeoutError itself *)

Inductive cancel_kind :=
| CHonour                                        (* CancelledError propagates *)
| CSwallow (extra : f64) (then_ : fin_kind).     (* caught; runs `extra` longer, then ends *)

Record handler := { h_dur : f64;                 (* time it needs when left alone *)
                    h_fin : fin_kind;
                    h_cancel : cancel_kind;
                    h_trailers_first : bool }.   (* sends its trailers (OK) before anything else *)

Inductive sstatus :=
| StOK | StUnknown | StDeadline | StOwn          (* StOwn: the status of the handler's GRPCError *)
| StNoAnswer.                                    (* 'Server error': nothing is sent *)

Record sobs := { o_status : sstatus;
                 o_started : bool;               (* the handler coroutine was entered *)
                 o_timer : option f64;           (* instant the deadline timer is armed for *)
                 o_cancel_at : option f64;       (* instant the handler sees CancelledError *)
                 o_end_at : f64 }.               (* instant request_handler leaves the `with` *)

Definition own_status (k : fin_kind) : sstatus :=
  match k with FReturn => StOK | FRaiseOther => StUnknown | FRaiseGRPC => StOwn
          | FRaiseTimeout => StUnknown end.

(* the status finally sent: nothing changes what a handler already sent as trailers *)
Definition final_status (h : handler) (st : sstatus) : sstatus :=
  if h_trailers_first h then StOK else st.

(* ---- an already expired deadline: entering the context managers in the order of the source ---- *)
(* DeadlineWrapper.start with nothing remaining: Some (wrapper.cancelled, the current task cancelled
   itself) at the `raise`; None when the branch does not raise (not the code's shape) *)
Fixpoint expired_start (acts : list start_act) (member cancelled selfc : bool) : option (bool * bool) :=
  match acts with
  | [] => None
  | SA_cancel :: r => expired_start r member true (selfc || member)     (* Task.cancel of the members *)
  | SA_raise :: _ => Some (cancelled, selfc)
  end.
Fixpoint expired_enter (order : list cm) (acts : list start_act) (member : bool) : option (bool * bool) :=
  match order with
  | [] => None
  | CMWrapper :: r => expired_enter r acts true                         (* Wrapper.__enter__: member *)
  | CMDeadline :: _ => expired_start acts member false false
  end.
(* the TimeoutError unwinds through wrapper.__exit__ (replaced by the same error when cancelled);
   `except asyncio.TimeoutError`: cancel_failed / cancelled -> DEADLINE_EXCEEDED, else re-raised ->
   UNKNOWN; a self-cancelled task loses its answer at the first suspension of the reply path *)
Definition expired_status_of (order : list cm) (acts : list start_act) (reply_suspends : bool) : sstatus :=
  match expired_enter order acts false with
  | None => StNoAnswer
  | Some (cancelled, selfc) =>
      if selfc && reply_suspends then StNoAnswer
      else if cancelled then StDeadline else StUnknown
  end.
Definition expired_status (reply_suspends : bool) : sstatus :=
  expired_status_of handler_with_order start_expired reply_suspends.

(* Deadline.time_remaining(): Some x when x = ts - now > 0, None for "nothing remains" (the int 0) *)
Definition time_remaining (ts a : f64) : option f64 :=
  let x := fsub ts a in if fpos x then Some x else None.

(* rs: the reply path suspends (a SendTrailingMetadata listener really awaits, or the transport is
   paused so that send_headers waits for write_ready) *)
Definition serve (a : f64) (hs : list (list Z * list Z)) (h : handler) (rs : bool) : sobs :=
  match from_headers_timeout hs with
  | Err ValueError =>
      {| o_status := StUnknown; o_started := false; o_timer := None; o_cancel_at := None;
         o_end_at := a |}
  | Err OverflowError =>             (* not a ValueError: escapes to 'Server error' (unreachable:
                                        decode_timeout cannot overflow on the grammar) *)
      {| o_status := StNoAnswer; o_started := false; o_timer := None; o_cancel_at := None;
         o_end_at := a |}
  | Ok None =>
      {| o_status := final_status h (own_status (h_fin h)); o_started := true; o_timer := None;
         o_cancel_at := None; o_end_at := fadd a (h_dur h) |}
  | Ok (Some m) =>
      match py_add_float a m with
      | Err _ => {| o_status := StNoAnswer; o_started := false; o_timer := None;
                    o_cancel_at := None; o_end_at := a |}
      | Ok ts =>
          match time_remaining ts a with
          | None =>                  (* already expired: start() marks the wrapper cancelled, raises *)
              {| o_status := expired_status rs; o_started := false; o_timer := None;
                 o_cancel_at := None; o_end_at := a |}
          | Some rem =>
              let when := fadd a rem in           (* loop.call_later(timeout): time() + timeout *)
              let fin_at := fadd a (h_dur h) in   (* asyncio.sleep(d): time() + d *)
              if flt fin_at when then
                {| o_status := final_status h (own_status (h_fin h)); o_started := true;
                   o_timer := Some when; o_cancel_at := None; o_end_at := fin_at |}
              else
                {| o_status := final_status h StDeadline; o_started := true;
                   o_timer := Some when; o_cancel_at := Some when;
                   o_end_at := match h_cancel h with
                               | CHonour => when
                               | CSwallow extra _ => fadd when extra
                               end |}
          end
      end
  end.
