(* Model of the chunk loop of grpclib.protocol.Stream.send_data.  Executable definitions only.

       f = BytesIO(data); f_pos, f_last = 0, len(data)
       while True:
           await self.connection.write_ready.wait()
           window = self._h2_connection.local_flow_control_window(self.id)
           if not window > 0:
               self.window_updated.clear(); await self.window_updated.wait(); continue
           max_frame_size = self._h2_connection.max_outbound_frame_size
           f_chunk = f.read(min(window, max_frame_size, f_last - f_pos))
           f_pos = f.tell()
           if f_pos == f_last:  send_data(f_chunk, end_stream=end_stream); break
           else:                send_data(f_chunk)

   Every iteration observes (window, max_frame_size) once; between iterations other tasks, peer
   WINDOW_UPDATE / SETTINGS frames and other streams change both.  The observation sequence is
   therefore adversarial input: one pair per iteration, any values.  BytesIO.read(k) returns
   min(k, remaining) bytes for k >= 0 and everything for k < 0. *)
From Coq Require Import ZArith List Bool.
From GV Require Import Model.Framing.
Import ListNotations.
Open Scope Z_scope.

Record emitted := mk_emitted { e_chunk : bytes; e_window : Z; e_maxframe : Z }.

(* result: DATA frames emitted, in order, each with the observation under which it was cut;
   None = the loop finished (break), Some rest = observations exhausted with `rest` unsent *)
Fixpoint send_loop (obs : list (Z * Z)) (data : bytes) : list emitted * option bytes :=
  match obs with
  | [] => ([], Some data)
  | (w, mf) :: obs' =>
      if 0 <? w then
        let k := Z.min (Z.min w mf) (zlen data) in
        let chunk := if k <? 0 then data else firstn (Z.to_nat k) data in
        let rest := if k <? 0 then [] else skipn (Z.to_nat k) data in
        match rest with
        | [] => ([mk_emitted chunk w mf], None)
        | _ :: _ => let '(cs, r) := send_loop obs' rest in (mk_emitted chunk w mf :: cs, r)
        end
      else send_loop obs' data          (* waits for window_updated, then starts over *)
  end.

(* the same loop on lengths only (used by the correspondence check for payloads of any size) *)
Fixpoint send_sizes (obs : list (Z * Z)) (remaining : Z) : list Z * option Z :=
  match obs with
  | [] => ([], Some remaining)
  | (w, mf) :: obs' =>
      if 0 <? w then
        let k := Z.min (Z.min w mf) remaining in
        let c := if k <? 0 then remaining else k in
        if remaining - c =? 0 then ([c], None)
        else let '(cs, r) := send_sizes obs' (remaining - c) in (c :: cs, r)
      else send_sizes obs' remaining
  end.

(* all DATA payloads a sender produces for a list of messages, one observation list per message *)
Fixpoint send_all (obss : list (list (Z * Z))) (ms : list bytes) : list bytes :=
  match obss, ms with
  | obs :: obss', m :: ms' => map e_chunk (fst (send_loop obs (frame m))) ++ send_all obss' ms'
  | _, _ => []
  end.
