(* Model of the gRPC length-prefixed message framing of grpclib/stream.py.
   Byte strings are lists of Z (0..255).  Executable definitions only.

   send_message:   reply_data = struct.pack('?', False) + struct.pack('>I', len(reply_bin)) + reply_bin
   recv_message:   5-byte prefix = compressed flag (1 byte, any non-zero value is True) + big-endian
                   unsigned 32-bit length. *)
From Coq Require Import ZArith List Bool.
Import ListNotations.
Open Scope Z_scope.

Notation bytes := (list Z) (only parsing).

Definition zlen {A : Type} (l : list A) : Z := Z.of_nat (length l).

(* struct.pack('>I', n) *)
Definition be32 (n : Z) : bytes :=
  [ (n / 16777216) mod 256; (n / 65536) mod 256; (n / 256) mod 256; n mod 256 ].

(* struct.unpack('>I', b)[0]; struct.error unless len(b) == 4 *)
Definition be32_decode (b : bytes) : option Z :=
  match b with
  | [b3; b2; b1; b0] => Some (((b3 * 256 + b2) * 256 + b1) * 256 + b0)
  | _ => None
  end.

(* struct.pack('>I', n) raises struct.error unless 0 <= n < 2^32 *)
Definition max_len : Z := 4294967296.

Definition frame (m : bytes) : bytes := 0 :: be32 (zlen m) ++ m.

(* what send_message hands to Stream.send_data; None = struct.error (message of 4 GiB or more) *)
Definition send_frame (m : bytes) : option bytes :=
  if zlen m <? max_len then Some (frame m) else None.

(* Reference decoder of a COMPLETE byte stream (specification level, not a transcription of code):
   Some ms iff the stream is exactly a concatenation of uncompressed frames. *)
Fixpoint parse_frames_aux (fuel : nat) (s : bytes) : option (list bytes) :=
  match s with
  | [] => Some []
  | flag :: b3 :: b2 :: b1 :: b0 :: rest =>
      match fuel with
      | O => None
      | S fuel' =>
          if flag =? 0 then
            let n := ((b3 * 256 + b2) * 256 + b1) * 256 + b0 in
            if n <=? zlen rest then
              match parse_frames_aux fuel' (skipn (Z.to_nat n) rest) with
              | Some ms => Some (firstn (Z.to_nat n) rest :: ms)
              | None => None
              end
            else None
          else None
      end
  | _ => None
  end.

Definition parse_frames (s : bytes) : option (list bytes) := parse_frames_aux (length s) s.
