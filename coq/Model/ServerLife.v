(* C09 -- executable model of the server-side handler life-cycle of grpclib:
     grpclib/server.py   Handler.accept/cancel/close/wait_closed/check_closed/__gc_collect__,
                         request_handler (with wrapper ... finally release_stream),
                         Server.close / Server.wait_closed / Server._protocol_factory / __gc_collect__
     grpclib/protocol.py Stream.__terminated__, EventsProcessor.process_stream_reset / close / register
     grpclib/utils.py    Wrapper.cancel, DeadlineWrapper.start, _exit_handler/_first_stage/_second_stage
   No proofs here.  asyncio is modelled, not verified: a task is a state machine whose steps are the
   atomic segments between suspension points; `Task.cancel()` = "throw CancelledError at the current
   await when the task next runs" (flag cancel_req: repeated cancel() calls before the task runs
   collapse into one delivery; no effect on a finished task; a task cancelled before its first step
   never runs its coroutine).  The scheduler is explicit: op `Run c i` runs task (c,i) for one segment,
   so a theorem over all op lists covers all schedules.

   What is NOT in the model (assumptions, repeated in harness/drive_C09.py):
   * the transport is writable while a handler exits, so the epilogue of request_handler
     (Stream.__aexit__ -> send_trailing_metadata -> write_ready.wait()) does not suspend: the segment
     that leaves the user function also releases the stream and ends the task;
   * hyper-h2 emits at most one StreamReset per stream (flag h2reset) and nothing after the
     connection's processors were deleted by EventsProcessor.close;
   * asyncio.Server.wait_closed has the Python 3.12.1 semantics: it returns when the listening sockets
     are closed AND every accepted connection has had connection_lost. *)
From Coq Require Import List Bool Arith.
From GV Require Import Gen.FactsC09.
Import ListNotations.

(* ---- user handler programs -------------------------------------------------------------------- *)
Inductive akind :=
| AR        (* await stream.recv_message()   -- completes when a request message is buffered        *)
| AS        (* await asyncio.sleep(..)       -- completes at the next Tick after it was reached      *)
| AW        (* await stream.send_message(..) with the peer's stream window at 0 -- needs a Credit     *)
| AT.       (* await stream.send_trailing_metadata() -- never blocks (transport writable)             *)

Inductive beh :=
| Honour (c : nat)   (* except CancelledError: c awaits of cleanup (sleep), then re-raise *)
| Swallow.           (* except CancelledError: pass -- carries on with the rest of the program *)

Inductive phase :=
| Created (p : list akind)               (* task object exists, the coroutine has not run yet *)
| Running (k : akind) (rest : list akind)  (* inside `with wrapper`, suspended at await k *)
| Cleanup (n : nat)                      (* inside `with wrapper`, in the except clause, suspended; n+1 sleeps left *)
| Finished.

Record task := mkTask {
  tc : nat; ti : nat;          (* connection number, stream number *)
  tbeh : beh;
  timer : bool;                (* DeadlineWrapper timer exists and has not fired (armed while in the with-block) *)
  ph : phase;
  cancel_req : bool;           (* Task.cancel() called and not yet delivered (_must_cancel / cancelled waiter) *)
  inbox : nat; credit : nat; slept : bool;     (* what the current await may consume *)
  werr : bool;                 (* wrapper._error is set *)
  registered : bool;           (* stream id is in EventsProcessor.streams *)
  in_tasks : bool;             (* stream is a key of Handler._tasks *)
  in_cancelled : bool;         (* task is in Handler._cancelled *)
  h2reset : bool;              (* h2 has emitted StreamReset for this stream *)
  cb_pending : bool;           (* the done-callback that releases a never-run task has not run yet *)
  (* history (what the instrumented handler of the harness counts) *)
  ncancel : nat;               (* CancelledError deliveries seen by the user code *)
  nhit : nat;                  (* ... of which landed inside the cleanup *)
  late : bool;                 (* GHOST: some cancel() call reached the task while it was in Cleanup *)
  cleanup_done : bool;         (* the cleanup ran to its end *)
  nrel : nat                   (* effective releases (registry entry actually removed) *)
}.

Definition set_ph (t : task) (p : phase) : task :=
  mkTask (tc t) (ti t) (tbeh t) (timer t) p (cancel_req t) (inbox t) (credit t) (slept t) (werr t)
         (registered t) (in_tasks t) (in_cancelled t) (h2reset t) (cb_pending t)
         (ncancel t) (nhit t) (late t) (cleanup_done t) (nrel t).
Definition set_cancel_req (t : task) (b : bool) : task :=
  mkTask (tc t) (ti t) (tbeh t) (timer t) (ph t) b (inbox t) (credit t) (slept t) (werr t)
         (registered t) (in_tasks t) (in_cancelled t) (h2reset t) (cb_pending t)
         (ncancel t) (nhit t) (late t) (cleanup_done t) (nrel t).
Definition set_wait (t : task) (i c : nat) (s : bool) : task :=
  mkTask (tc t) (ti t) (tbeh t) (timer t) (ph t) (cancel_req t) i c s (werr t)
         (registered t) (in_tasks t) (in_cancelled t) (h2reset t) (cb_pending t)
         (ncancel t) (nhit t) (late t) (cleanup_done t) (nrel t).
Definition set_werr (t : task) (b : bool) : task :=
  mkTask (tc t) (ti t) (tbeh t) (timer t) (ph t) (cancel_req t) (inbox t) (credit t) (slept t) b
         (registered t) (in_tasks t) (in_cancelled t) (h2reset t) (cb_pending t)
         (ncancel t) (nhit t) (late t) (cleanup_done t) (nrel t).
Definition set_timer (t : task) (b : bool) : task :=
  mkTask (tc t) (ti t) (tbeh t) b (ph t) (cancel_req t) (inbox t) (credit t) (slept t) (werr t)
         (registered t) (in_tasks t) (in_cancelled t) (h2reset t) (cb_pending t)
         (ncancel t) (nhit t) (late t) (cleanup_done t) (nrel t).
Definition set_sets (t : task) (it ic : bool) : task :=
  mkTask (tc t) (ti t) (tbeh t) (timer t) (ph t) (cancel_req t) (inbox t) (credit t) (slept t) (werr t)
         (registered t) it ic (h2reset t) (cb_pending t)
         (ncancel t) (nhit t) (late t) (cleanup_done t) (nrel t).
Definition set_h2reset (t : task) (b : bool) : task :=
  mkTask (tc t) (ti t) (tbeh t) (timer t) (ph t) (cancel_req t) (inbox t) (credit t) (slept t) (werr t)
         (registered t) (in_tasks t) (in_cancelled t) b (cb_pending t)
         (ncancel t) (nhit t) (late t) (cleanup_done t) (nrel t).
Definition set_cb (t : task) (b : bool) : task :=
  mkTask (tc t) (ti t) (tbeh t) (timer t) (ph t) (cancel_req t) (inbox t) (credit t) (slept t) (werr t)
         (registered t) (in_tasks t) (in_cancelled t) (h2reset t) b
         (ncancel t) (nhit t) (late t) (cleanup_done t) (nrel t).
Definition set_late (t : task) (b : bool) : task :=
  mkTask (tc t) (ti t) (tbeh t) (timer t) (ph t) (cancel_req t) (inbox t) (credit t) (slept t) (werr t)
         (registered t) (in_tasks t) (in_cancelled t) (h2reset t) (cb_pending t)
         (ncancel t) (nhit t) b (cleanup_done t) (nrel t).
Definition set_hist (t : task) (nc nh : nat) (cd : bool) : task :=
  mkTask (tc t) (ti t) (tbeh t) (timer t) (ph t) (cancel_req t) (inbox t) (credit t) (slept t) (werr t)
         (registered t) (in_tasks t) (in_cancelled t) (h2reset t) (cb_pending t)
         nc nh (late t) cd (nrel t).
(* release_stream(): idempotent pop from EventsProcessor.streams *)
Definition release (t : task) : task :=
  mkTask (tc t) (ti t) (tbeh t) (timer t) (ph t) (cancel_req t) (inbox t) (credit t) (slept t) (werr t)
         false (in_tasks t) (in_cancelled t) (h2reset t) (cb_pending t)
         (ncancel t) (nhit t) (late t) (cleanup_done t)
         (if registered t then S (nrel t) else nrel t).

Definition unfinished (t : task) : bool := match ph t with Finished => false | _ => true end.
Definition in_wrapper (t : task) : bool :=
  match ph t with Running _ _ | Cleanup _ => true | _ => false end.
Definition is_cleanup (t : task) : bool := match ph t with Cleanup _ => true | _ => false end.
Definition is_key (c i : nat) (t : task) : bool := (tc t =? c) && (ti t =? i).

(* ---- asyncio.Task.cancel() --------------------------------------------------------------------- *)
Definition task_cancel (t : task) : task :=
  if unfinished t
  then set_late (set_cancel_req t true) (late t || is_cleanup t)
  else t.

(* Stream.__terminated__ -> wrapper.cancel(err): _error := err; cancel every task inside `with wrapper`.
   The wrapper exists from the task's first step on; the only task ever inside it is the handler task
   itself, from its first step until the user function is left. *)
Definition terminated (t : task) : task :=
  if in_wrapper t then task_cancel (set_werr t true) else t.

(* Handler.close(): for task in _tasks.values(): task.cancel(); _cancelled.update(_tasks.values()) *)
Definition handler_close_task (t : task) : task :=
  if in_tasks t then task_cancel (set_sets t true true) else t.

(* ---- one segment of the handler task ----------------------------------------------------------- *)
Definition can_pass (k : akind) (t : task) : bool :=
  match k with
  | AR => negb (inbox t =? 0)
  | AS => slept t
  | AW => negb (credit t =? 0)
  | AT => true
  end.
Definition consume (k : akind) (t : task) : task :=
  match k with
  | AR => set_wait t (pred (inbox t)) (credit t) (slept t)
  | AS => set_wait t (inbox t) (credit t) false
  | AW => set_wait t (inbox t) (pred (credit t)) (slept t)
  | AT => t
  end.

(* the user function is left (return or exception): wrapper.__exit__, deadline timer cancelled,
   Stream.__aexit__ (no suspension, see assumptions), finally: release_stream(); the task is done *)
Definition finish (t : task) : task := release (set_timer (set_ph t Finished) false).

Fixpoint advance (p : list akind) (t : task) : task :=
  match p with
  | [] => finish t
  | k :: r => if can_pass k t then advance r (consume k t) else set_ph t (Running k r)
  end.

Definition run_task (t : task) : task :=
  match ph t with
  | Created p =>
      if cancel_req t
      then (* cancelled before the first step: the coroutine body never runs, no finally clause;
              the done-callback added by Handler.accept is scheduled *)
        set_cb (set_cancel_req (set_ph t Finished) false) true
      else advance p t
  | Running k r =>
      if cancel_req t then
        (* CancelledError is thrown at the current await (it wins over a completed wait) *)
        let t1 := set_wait (set_hist (set_cancel_req t false) (S (ncancel t)) (nhit t) (cleanup_done t))
                           (inbox t) (credit t) false in
        match tbeh t with
        | Honour 0 => finish (set_hist t1 (ncancel t1) (nhit t1) true)
        | Honour (S n) => set_ph t1 (Cleanup n)
        | Swallow => advance r t1
        end
      else advance (k :: r) t
  | Cleanup n =>
      if cancel_req t then
        (* a second CancelledError, inside the cleanup: the cleanup is abandoned *)
        finish (set_hist (set_cancel_req t false) (S (ncancel t)) (S (nhit t)) false)
      else if slept t then
        match n with
        | 0 => finish (set_hist (set_wait t (inbox t) (credit t) false) (ncancel t) (nhit t) true)
        | S m => set_ph (set_wait t (inbox t) (credit t) false) (Cleanup m)
        end
      else t
  | Finished =>
      if cb_pending t then set_cb (release t) false else t
  end.

(* ---- connections, server, waiter --------------------------------------------------------------- *)
Record conn := mkConn {
  proc_open : bool;      (* EventsProcessor.processors still exists (events are processed) *)
  lost : bool;           (* connection_lost was called (asyncio detached the transport) *)
  closing : bool;        (* Handler.closing *)
  in_handlers : bool;    (* handler is in Server._handlers *)
  gcn : nat;             (* Handler._gc_counter *)
  crashed : bool         (* an exception escaped H2Protocol.data_received on this connection (no operation
                            of the model sets it any more; the harness reports what it observes) *)
}.

Record server := mkServer {
  started : bool;        (* Server.start() done: _server and _server_closed_fut exist *)
  listening : bool;      (* asyncio server sockets open *)
  latch : bool;          (* _server_closed_fut done *)
  sgc : nat;             (* Server._gc_counter *)
  serr : bool            (* RuntimeError('Server is not started') was raised by close()/wait_closed() *)
}.

Inductive wstage :=
| WNone                          (* nobody called wait_closed *)
| WLatch                         (* await self._server_closed_fut *)
| WServer                        (* await self._server.wait_closed() *)
| WSub (snap : list (nat * nat)) (* await asyncio.wait({h.wait_closed()}): tasks found in the _cancelled sets *)
| WDone
| WErr.

Record state := mkState { tasks : list task; conns : list conn; srv : server; wst : wstage }.

Definition init : state := mkState [] [] (mkServer false false false 0 false) WNone.

(* Handler.__gc_interval__ and Server.__gc_interval__ come from Gen.FactsC09 (regenerated from the
   source on every run): handler_gc_interval, server_gc_interval *)

Definition conn_at (s : state) (c : nat) : option conn := nth_error (conns s) c.
Definition conn_open (s : state) (c : nat) : bool :=
  match conn_at s c with Some k => proc_open k | None => false end.

Fixpoint upd_nth {A} (l : list A) (n : nat) (f : A -> A) : list A :=
  match l, n with
  | [], _ => []
  | x :: r, 0 => f x :: r
  | x :: r, S m => x :: upd_nth r m f
  end.

Definition on_task (c i : nat) (f : task -> task) (l : list task) : list task :=
  map (fun t => if is_key c i t then f t else t) l.
Definition on_conn_tasks (c : nat) (f : task -> task) (l : list task) : list task :=
  map (fun t => if tc t =? c then f t else t) l.
Definition find_task (c i : nat) (l : list task) : option task := find (is_key c i) l.

(* Handler.__gc_collect__: drop finished tasks from _tasks and _cancelled *)
Definition collect_task (t : task) : task := if unfinished t then t else set_sets t false false.

Definition new_task (c i : nat) (p : list akind) (b : beh) (dl : bool) : task :=
  mkTask c i b dl (Created p) false 0 0 false false true true false false false 0 0 false false 0.

(* Handler.check_closed() after its own collect: not _tasks and not _cancelled *)
Definition handler_idle (c : nat) (l : list task) : bool :=
  forallb (fun t => negb ((tc t =? c) && unfinished t && (in_tasks t || in_cancelled t))) l.

(* Server.__gc_collect__: {h for h in _handlers if not (h.closing and h.check_closed())} *)
Fixpoint server_gc (l : list task) (cs : list conn) (n : nat) : list task * list conn :=
  match cs with
  | [] => (l, [])
  | k :: r =>
      if in_handlers k && closing k then
        let l1 := on_conn_tasks n collect_task l in
        let k1 := if handler_idle n l1
                  then mkConn (proc_open k) (lost k) (closing k) false (gcn k) (crashed k) else k in
        let (l2, r2) := server_gc l1 r (S n) in (l2, k1 :: r2)
      else
        let (l2, r2) := server_gc l r (S n) in (l2, k :: r2)
  end.

Definition all_lost (cs : list conn) : bool := forallb lost cs.

Definition snapshot (s : state) : list (nat * nat) :=
  map (fun t => (tc t, ti t))
      (filter (fun t => in_cancelled t &&
                        match conn_at s (tc t) with Some k => in_handlers k | None => false end)
              (tasks s)).

Definition task_done (l : list task) (k : nat * nat) : bool :=
  match find_task (fst k) (snd k) l with Some t => negb (unfinished t) | None => true end.

(* ---- operations -------------------------------------------------------------------------------- *)
Inductive op :=
| Start                                       (* Server.start() *)
| Connect                                     (* a client connects: Server._protocol_factory *)
| Open (c i : nat) (p : list akind) (b : beh) (dl : bool)   (* RequestReceived: Handler.accept *)
| Msg (c i : nat)                             (* DataReceived carrying one whole message *)
| Credit (c i : nat)                          (* WindowUpdated for the stream, one message worth *)
| Tick                                        (* every pending asyncio.sleep of the handlers expires *)
| Rst (c i : nat)                             (* StreamReset: process_stream_reset *)
| Deadline (c i : nat)                        (* the DeadlineWrapper timer fires *)
| Goaway (c : nat)                            (* ConnectionTerminated or h2 ProtocolError: EventsProcessor.close *)
| Lost (c : nat)                              (* connection_lost: EventsProcessor.close *)
| SrvClose                                    (* Server.close() *)
| WaitClosed                                  (* someone starts `await server.wait_closed()` *)
| Run (c i : nat)                             (* the loop runs handler task (c,i) for one segment *)
| RunW.                                       (* the loop runs the wait_closed task for one stage *)

Definition set_conn_flags (k : conn) (po lo cl : bool) : conn :=
  mkConn po lo cl (in_handlers k) (gcn k) (crashed k).

(* EventsProcessor.close(): connection.close(); handler.close(); __terminated__ for every registered
   stream; del self.processors *)
Definition close_task (t : task) : task :=
  let t1 := handler_close_task t in
  if registered t1 then terminated t1 else t1.

Definition processor_close (s : state) (c : nat) (is_lost : bool) : state :=
  match conn_at s c with
  | None => s
  | Some k =>
      if lost k then s          (* nothing is delivered to a protocol after connection_lost *)
      else mkState (on_conn_tasks c close_task (tasks s))
                   (upd_nth (conns s) c (fun k => set_conn_flags k false (is_lost || lost k) true))
                   (srv s) (wst s)
  end.

(* process_stream_reset: stream = streams.get(id); if stream is not None:
   stream.__terminated__(msg); handler.cancel(stream)
   Handler.cancel: task = self._tasks.pop(stream, None); if task is not None: task.cancel();
   self._cancelled.add(task)   -- a stream whose finished task was already collected is tolerated *)
Definition rst_task (t : task) : task :=
  let t1 := terminated (set_h2reset t true) in
  if in_tasks t1 then task_cancel (set_sets t1 false true)   (* pop; task.cancel(); _cancelled.add *)
  else t1.                                                   (* pop(stream, None) gave None *)

Definition step (s : state) (o : op) : state :=
  match o with
  | Start =>
      if started (srv s) then mkState (tasks s) (conns s)
                                      (mkServer true (listening (srv s)) (latch (srv s)) (sgc (srv s)) true) (wst s)
      else mkState (tasks s) (conns s) (mkServer true true false (sgc (srv s)) (serr (srv s))) (wst s)
  | Connect =>
      if listening (srv s) then
        let n := S (sgc (srv s)) in
        let (l, cs) := if n mod server_gc_interval =? 0 then server_gc (tasks s) (conns s) 0
                       else (tasks s, conns s) in
        mkState l (cs ++ [mkConn true false false true 0 false])
                (mkServer (started (srv s)) (listening (srv s)) (latch (srv s)) n (serr (srv s))) (wst s)
      else s
  | Open c i p b dl =>
      match conn_at s c, find_task c i (tasks s) with
      | Some k, None =>
          if proc_open k then
            let n := S (gcn k) in
            let l := if n mod handler_gc_interval =? 0 then on_conn_tasks c collect_task (tasks s) else tasks s in
            mkState (l ++ [new_task c i p b dl])
                    (upd_nth (conns s) c (fun k => mkConn (proc_open k) (lost k) (closing k) (in_handlers k) n (crashed k)))
                    (srv s) (wst s)
          else s
      | _, _ => s
      end
  | Msg c i =>
      if conn_open s c
      then mkState (on_task c i (fun t => if registered t then set_wait t (S (inbox t)) (credit t) (slept t) else t)
                            (tasks s)) (conns s) (srv s) (wst s)
      else s
  | Credit c i =>
      if conn_open s c
      then mkState (on_task c i (fun t => if registered t then set_wait t (inbox t) (S (credit t)) (slept t) else t)
                            (tasks s)) (conns s) (srv s) (wst s)
      else s
  | Tick =>
      mkState (map (fun t => match ph t with
                             | Running AS _ | Cleanup _ => set_wait t (inbox t) (credit t) true
                             | _ => t end) (tasks s)) (conns s) (srv s) (wst s)
  | Rst c i =>
      if conn_open s c then
        match find_task c i (tasks s) with
        | Some t =>
            if registered t && negb (h2reset t) then
              mkState (on_task c i rst_task (tasks s)) (conns s) (srv s) (wst s)
            else s
        | None => s
        end
      else s
  | Deadline c i =>
      mkState (on_task c i (fun t => if timer t && in_wrapper t
                                     then task_cancel (set_werr (set_timer t false) true) else t)
                       (tasks s)) (conns s) (srv s) (wst s)
  | Goaway c => if conn_open s c then processor_close s c false else s   (* no data is read after close() *)
  | Lost c => processor_close s c true
  | SrvClose =>
      if started (srv s) then
        mkState (map (fun t => match conn_at s (tc t) with
                               | Some k => if in_handlers k then handler_close_task t else t
                               | None => t end) (tasks s))
                (map (fun k => if in_handlers k
                               then mkConn (proc_open k) (lost k) true (in_handlers k) (gcn k) (crashed k)
                               else k) (conns s))
                (mkServer true false true (sgc (srv s)) (serr (srv s))) (wst s)
      else mkState (tasks s) (conns s)
                   (mkServer false (listening (srv s)) (latch (srv s)) (sgc (srv s)) true) (wst s)
  | WaitClosed =>
      match wst s with
      | WNone => mkState (tasks s) (conns s) (srv s) (if started (srv s) then WLatch else WErr)
      | _ => s
      end
  | Run c i => mkState (on_task c i run_task (tasks s)) (conns s) (srv s) (wst s)
  | RunW =>
      match wst s with
      | WLatch => if latch (srv s) then mkState (tasks s) (conns s) (srv s) WServer else s
      | WServer =>
          if negb (listening (srv s)) && all_lost (conns s)
          then mkState (tasks s) (conns s) (srv s) (WSub (snapshot s)) else s
      | WSub snap =>
          if forallb (task_done (tasks s)) snap then mkState (tasks s) (conns s) (srv s) WDone else s
      | _ => s
      end
  end.

Definition run_ops (ops : list op) (s : state) : state := fold_left step ops s.

(* the deterministic schedule used by the correspondence runs: every handler task gets two segments
   (the second one runs the done-callback of a never-run task), then the waiter gets three stages *)
Definition settle_ops (s : state) : list op :=
  let rs := map (fun t => Run (tc t) (ti t)) (tasks s) in rs ++ rs ++ [RunW; RunW; RunW].
Definition settle (s : state) : state := run_ops (settle_ops s) s.

(* ops of the harness: either a model op or "run to quiescence" *)
Inductive hop := Do (o : op) | Settle.
Definition hstep (s : state) (h : hop) : state :=
  match h with Do o => step s o | Settle => settle s end.

(* ---- causes (for the cause-pair table) --------------------------------------------------------- *)
Inductive cause := CRst | CDeadline | CGoaway | CLost | CSrvClose.
Definition cause_op (x : cause) : op :=
  match x with
  | CRst => Rst 0 0 | CDeadline => Deadline 0 0 | CGoaway => Goaway 0 | CLost => Lost 0
  | CSrvClose => SrvClose
  end.
Definition is_cause (o : op) : bool :=
  match o with Rst _ _ | Deadline _ _ | Goaway _ | Lost _ | SrvClose => true | _ => false end.

(* one handler (sleeping, honouring cancellation with a 2-step cleanup, request with a deadline):
   first cause, the task enters its cleanup, second cause, the task runs again *)
Definition pair_run (a b : cause) : state :=
  run_ops [Start; Connect; Open 0 0 [AS; AS] (Honour 2) true; Run 0 0;
           cause_op a; Run 0 0; cause_op b; Run 0 0] init.
Definition pair_lands (a b : cause) : bool :=
  match find_task 0 0 (tasks (pair_run a b)) with
  | Some t => negb (nhit t =? 0)
  | None => false
  end.

(* ---- graceful_exit: _exit_handler / _first_stage / _second_stage ------------------------------- *)
Record gserver := mkG { g_started : bool; g_closes : nat }.
Record gstate := mkGS { g_servers : list gserver; g_flag : bool; g_exits : list nat }.
   (* g_flag: the list `flag` is non-empty; g_exits: SystemExit codes raised so far, latest first *)

(* server.close(): RuntimeError when not started *)
Fixpoint first_stage (l : list gserver) : list gserver * bool :=
  match l with
  | [] => ([], false)
  | g :: r =>
      let (r', fail) := first_stage r in
      if g_started g then (mkG true (S (g_closes g)) :: r', fail) else (g :: r', true)
  end.

Definition exit_handler (sig : nat) (st : gstate) : gstate :=
  if g_flag st then mkGS (g_servers st) true ((128 + sig) :: g_exits st)       (* _second_stage *)
  else
    let (l, fail) := first_stage (g_servers st) in
    if fail then mkGS l false ((128 + sig) :: g_exits st)   (* SystemExit leaves before flag.append *)
    else mkGS l true (g_exits st).

(* ---- utils.Wrapper with several tasks (one call driven from more than one task) ------------------- *)
(* __enter__: raise the sticky error if there is one, else _tasks.add(current task);
   __exit__: _tasks.discard(current task) (then raise the error if there is one);
   cancel(err): _error := err; task.cancel() for every task in _tasks *)
Inductive wop := WEnter (t : nat) | WExit (t : nat) | WCancel.

Record wrap := mkWrap {
  wtasks : list nat;         (* Wrapper._tasks (a set) *)
  werror : bool;             (* Wrapper._error is set *)
  wcancelled : list nat;     (* tasks that received task.cancel() from Wrapper.cancel, in order *)
  wrefused : list nat        (* tasks whose __enter__ raised the sticky error *)
}.

Definition wmem (t : nat) (l : list nat) : bool := existsb (Nat.eqb t) l.
Definition wadd (t : nat) (l : list nat) : list nat := if wmem t l then l else l ++ [t].
Definition wdiscard (t : nat) (l : list nat) : list nat := filter (fun u => negb (u =? t)) l.

Definition wstep (w : wrap) (o : wop) : wrap :=
  match o with
  | WEnter t => if werror w then mkWrap (wtasks w) true (wcancelled w) (wrefused w ++ [t])
                else mkWrap (wadd t (wtasks w)) false (wcancelled w) (wrefused w)
  | WExit t => mkWrap (wdiscard t (wtasks w)) (werror w) (wcancelled w) (wrefused w)
  | WCancel => mkWrap (wtasks w) true (wcancelled w ++ wtasks w) (wrefused w)
  end.

Definition wrun (ops : list wop) : wrap := fold_left wstep ops (mkWrap [] false [] []).

(* what ONE task may rely on, whatever the other tasks do: it is guarded from its own __enter__ (that did
   not raise) to its own __exit__ *)
Definition wspec_step (t : nat) (st : bool * bool) (o : wop) : bool * bool :=
  let (err, inside) := st in
  match o with
  | WEnter u => if u =? t then (err, inside || negb err) else st
  | WExit u => if u =? t then (err, false) else st
  | WCancel => (true, inside)
  end.
Definition wspec (t : nat) (ops : list wop) : bool := snd (fold_left (wspec_step t) ops (false, false)).
