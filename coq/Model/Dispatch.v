(* Model of the connection input path of grpclib/protocol.py from the h2-EVENT boundary up:
     H2Protocol.data_received, EventsProcessor.process / process_* / close / register,
     Connection.close / ack, client.Handler and server.Handler (accept / cancel / close).
   Byte-level parsing (frames, HPACK, h2's stream state machines) is hyper-h2's: it is MODELLED as
   "h2 either raises ProtocolError or returns a list of events", NOT verified.
   Executable definitions only.  The dispatch table is Gen.Facts.processors, regenerated from
   /repo on every run: `process` looks the event's class name up in that generated table and then
   interprets the handler NAME found there; a name this file does not know is a fail-closed
   Raises, so every theorem about `process` is a theorem about the table in the source. *)
From Coq Require Import ZArith List Bool.
From GV Require Import Lib.Str Gen.Facts.
Import ListNotations.
Open Scope Z_scope.

(* names as code-point lists (Coq strings are kept out of the model so that the extracted code has
   no `string` type of its own); Proofs/C12Proofs.v proves each equal to s2z of the text in the comment *)
Definition n_AlternativeServiceAvailable : list Z := [65; 108; 116; 101; 114; 110; 97; 116; 105; 118; 101; 83; 101; 114; 118; 105; 99; 101; 65; 118; 97; 105; 108; 97; 98; 108; 101].   (* "AlternativeServiceAvailable" *)
Definition n_ConnectionTerminated : list Z := [67; 111; 110; 110; 101; 99; 116; 105; 111; 110; 84; 101; 114; 109; 105; 110; 97; 116; 101; 100].   (* "ConnectionTerminated" *)
Definition n_DataReceived : list Z := [68; 97; 116; 97; 82; 101; 99; 101; 105; 118; 101; 100].   (* "DataReceived" *)
Definition n_InformationalResponseReceived : list Z := [73; 110; 102; 111; 114; 109; 97; 116; 105; 111; 110; 97; 108; 82; 101; 115; 112; 111; 110; 115; 101; 82; 101; 99; 101; 105; 118; 101; 100].   (* "InformationalResponseReceived" *)
Definition n_PingAckReceived : list Z := [80; 105; 110; 103; 65; 99; 107; 82; 101; 99; 101; 105; 118; 101; 100].   (* "PingAckReceived" *)
Definition n_PingReceived : list Z := [80; 105; 110; 103; 82; 101; 99; 101; 105; 118; 101; 100].   (* "PingReceived" *)
Definition n_PriorityUpdated : list Z := [80; 114; 105; 111; 114; 105; 116; 121; 85; 112; 100; 97; 116; 101; 100].   (* "PriorityUpdated" *)
Definition n_PushedStreamReceived : list Z := [80; 117; 115; 104; 101; 100; 83; 116; 114; 101; 97; 109; 82; 101; 99; 101; 105; 118; 101; 100].   (* "PushedStreamReceived" *)
Definition n_RemoteSettingsChanged : list Z := [82; 101; 109; 111; 116; 101; 83; 101; 116; 116; 105; 110; 103; 115; 67; 104; 97; 110; 103; 101; 100].   (* "RemoteSettingsChanged" *)
Definition n_RequestReceived : list Z := [82; 101; 113; 117; 101; 115; 116; 82; 101; 99; 101; 105; 118; 101; 100].   (* "RequestReceived" *)
Definition n_ResponseReceived : list Z := [82; 101; 115; 112; 111; 110; 115; 101; 82; 101; 99; 101; 105; 118; 101; 100].   (* "ResponseReceived" *)
Definition n_SettingsAcknowledged : list Z := [83; 101; 116; 116; 105; 110; 103; 115; 65; 99; 107; 110; 111; 119; 108; 101; 100; 103; 101; 100].   (* "SettingsAcknowledged" *)
Definition n_StreamEnded : list Z := [83; 116; 114; 101; 97; 109; 69; 110; 100; 101; 100].   (* "StreamEnded" *)
Definition n_StreamReset : list Z := [83; 116; 114; 101; 97; 109; 82; 101; 115; 101; 116].   (* "StreamReset" *)
Definition n_TrailersReceived : list Z := [84; 114; 97; 105; 108; 101; 114; 115; 82; 101; 99; 101; 105; 118; 101; 100].   (* "TrailersReceived" *)
Definition n_UnknownFrameReceived : list Z := [85; 110; 107; 110; 111; 119; 110; 70; 114; 97; 109; 101; 82; 101; 99; 101; 105; 118; 101; 100].   (* "UnknownFrameReceived" *)
Definition n_WindowUpdated : list Z := [87; 105; 110; 100; 111; 119; 85; 112; 100; 97; 116; 101; 100].   (* "WindowUpdated" *)
Definition n_process_connection_terminated : list Z := [115; 101; 108; 102; 46; 112; 114; 111; 99; 101; 115; 115; 95; 99; 111; 110; 110; 101; 99; 116; 105; 111; 110; 95; 116; 101; 114; 109; 105; 110; 97; 116; 101; 100].   (* "self.process_connection_terminated" *)
Definition n_process_data_received : list Z := [115; 101; 108; 102; 46; 112; 114; 111; 99; 101; 115; 115; 95; 100; 97; 116; 97; 95; 114; 101; 99; 101; 105; 118; 101; 100].   (* "self.process_data_received" *)
Definition n_process_ping_ack_received : list Z := [115; 101; 108; 102; 46; 112; 114; 111; 99; 101; 115; 115; 95; 112; 105; 110; 103; 95; 97; 99; 107; 95; 114; 101; 99; 101; 105; 118; 101; 100].   (* "self.process_ping_ack_received" *)
Definition n_process_ping_received : list Z := [115; 101; 108; 102; 46; 112; 114; 111; 99; 101; 115; 115; 95; 112; 105; 110; 103; 95; 114; 101; 99; 101; 105; 118; 101; 100].   (* "self.process_ping_received" *)
Definition n_process_priority_updated : list Z := [115; 101; 108; 102; 46; 112; 114; 111; 99; 101; 115; 115; 95; 112; 114; 105; 111; 114; 105; 116; 121; 95; 117; 112; 100; 97; 116; 101; 100].   (* "self.process_priority_updated" *)
Definition n_process_remote_settings_changed : list Z := [115; 101; 108; 102; 46; 112; 114; 111; 99; 101; 115; 115; 95; 114; 101; 109; 111; 116; 101; 95; 115; 101; 116; 116; 105; 110; 103; 115; 95; 99; 104; 97; 110; 103; 101; 100].   (* "self.process_remote_settings_changed" *)
Definition n_process_request_received : list Z := [115; 101; 108; 102; 46; 112; 114; 111; 99; 101; 115; 115; 95; 114; 101; 113; 117; 101; 115; 116; 95; 114; 101; 99; 101; 105; 118; 101; 100].   (* "self.process_request_received" *)
Definition n_process_response_received : list Z := [115; 101; 108; 102; 46; 112; 114; 111; 99; 101; 115; 115; 95; 114; 101; 115; 112; 111; 110; 115; 101; 95; 114; 101; 99; 101; 105; 118; 101; 100].   (* "self.process_response_received" *)
Definition n_process_settings_acknowledged : list Z := [115; 101; 108; 102; 46; 112; 114; 111; 99; 101; 115; 115; 95; 115; 101; 116; 116; 105; 110; 103; 115; 95; 97; 99; 107; 110; 111; 119; 108; 101; 100; 103; 101; 100].   (* "self.process_settings_acknowledged" *)
Definition n_process_stream_ended : list Z := [115; 101; 108; 102; 46; 112; 114; 111; 99; 101; 115; 115; 95; 115; 116; 114; 101; 97; 109; 95; 101; 110; 100; 101; 100].   (* "self.process_stream_ended" *)
Definition n_process_stream_reset : list Z := [115; 101; 108; 102; 46; 112; 114; 111; 99; 101; 115; 115; 95; 115; 116; 114; 101; 97; 109; 95; 114; 101; 115; 101; 116].   (* "self.process_stream_reset" *)
Definition n_process_trailers_received : list Z := [115; 101; 108; 102; 46; 112; 114; 111; 99; 101; 115; 115; 95; 116; 114; 97; 105; 108; 101; 114; 115; 95; 114; 101; 99; 101; 105; 118; 101; 100].   (* "self.process_trailers_received" *)
Definition n_process_window_updated : list Z := [115; 101; 108; 102; 46; 112; 114; 111; 99; 101; 115; 115; 95; 119; 105; 110; 100; 111; 119; 95; 117; 112; 100; 97; 116; 101; 100].   (* "self.process_window_updated" *)

Inductive role := Client | Server.

(* exceptions that can leave EventsProcessor.process *)
Inductive exn :=
| EH2ProtocolError     (* h2.reset_stream on an h2 connection that is already CLOSED *)
| EH2StreamClosed      (* h2.reset_stream on a stream that is already closed (reset by the peer / by h2) *)
| EAttributeError      (* handler reads a field the event class does not have; flush on a deleted transport *)
| EValueError          (* h2.acknowledge_received_data: negative size / stream id <= 0 *)
| EUnknownHandler.     (* the generated table names a method this model has no transcription of *)

(* StreamTerminatedError(reason): which text __terminated__ was called with (the last call wins,
   Wrapper.cancel overwrites _error) *)
Inductive reason :=
| RProtocolError                 (* 'Protocol error' *)
| RRemoteReset (code : Z)        (* 'Stream reset by remote party, error_code: {}' *)
| RGoaway (code : Z)             (* 'Received GOAWAY frame, closing connection; error_code: {}' *)
| RConnLost                      (* 'Connection lost' *)
| RConnClosed                    (* 'Connection closed' (default of close()) *)
| ROther.                        (* set by somebody else: deadline, application cancel *)

(* One constructor per public h2.events.Event subclass of h2 4.3.0 (the driver enumerates the
   module and fails closed on a class that is not in this list), with the fields the handlers read;
   OtherEvent stands for an instance of any other class (h2's private _*Sent events, a class of a
   future h2) and carries its class name. *)
Inductive event :=
| RequestReceived (sid : Z)
| ResponseReceived (sid : Z)
| TrailersReceived (sid : Z)
| InformationalResponseReceived (sid : Z)
| DataReceived (sid len fcl : Z)            (* len(event.data), event.flow_controlled_length *)
| WindowUpdated (sid delta : Z)
| StreamEnded (sid : Z)
| StreamReset (sid code : Z) (remote : bool)
| RemoteSettingsChanged (iws mcs : bool)    (* INITIAL_WINDOW_SIZE / MAX_CONCURRENT_STREAMS in changed_settings *)
| SettingsAcknowledged
| PingReceived
| PingAckReceived
| PriorityUpdated (sid : Z)
| PushedStreamReceived (parent pushed : Z)
| ConnectionTerminated (code : Z)
| AlternativeServiceAvailable
| UnknownFrameReceived (ftype sid : Z)
| OtherEvent (cls : list Z).

Definition class_name (e : event) : list Z :=
  match e with
  | RequestReceived _ => n_RequestReceived
  | ResponseReceived _ => n_ResponseReceived
  | TrailersReceived _ => n_TrailersReceived
  | InformationalResponseReceived _ => n_InformationalResponseReceived
  | DataReceived _ _ _ => n_DataReceived
  | WindowUpdated _ _ => n_WindowUpdated
  | StreamEnded _ => n_StreamEnded
  | StreamReset _ _ _ => n_StreamReset
  | RemoteSettingsChanged _ _ => n_RemoteSettingsChanged
  | SettingsAcknowledged => n_SettingsAcknowledged
  | PingReceived => n_PingReceived
  | PingAckReceived => n_PingAckReceived
  | PriorityUpdated _ => n_PriorityUpdated
  | PushedStreamReceived _ _ => n_PushedStreamReceived
  | ConnectionTerminated _ => n_ConnectionTerminated
  | AlternativeServiceAvailable => n_AlternativeServiceAvailable
  | UnknownFrameReceived _ _ => n_UnknownFrameReceived
  | OtherEvent cls => cls
  end.

(* the 17 public class names: an OtherEvent is by definition an instance of none of them *)
Definition public_classes : list (list Z) :=
  [ n_RequestReceived; n_ResponseReceived; n_TrailersReceived;
    n_InformationalResponseReceived; n_DataReceived; n_WindowUpdated;
    n_StreamEnded; n_StreamReset; n_RemoteSettingsChanged; n_SettingsAcknowledged;
    n_PingReceived; n_PingAckReceived; n_PriorityUpdated; n_PushedStreamReceived;
    n_ConnectionTerminated; n_AlternativeServiceAvailable; n_UnknownFrameReceived ].

(* attribute access on an event: None = the class has no such attribute (AttributeError in Python) *)
Definition f_stream_id (e : event) : option Z :=
  match e with
  | RequestReceived s | ResponseReceived s | TrailersReceived s | InformationalResponseReceived s
  | DataReceived s _ _ | WindowUpdated s _ | StreamEnded s | StreamReset s _ _ | PriorityUpdated s => Some s
  | _ => None
  end.
Definition f_headers (e : event) : bool :=
  match e with
  | RequestReceived _ | ResponseReceived _ | TrailersReceived _ | InformationalResponseReceived _
  | PushedStreamReceived _ _ => true
  | _ => false
  end.
Definition f_data (e : event) : option (Z * Z) :=
  match e with DataReceived _ l f => Some (l, f) | _ => None end.
Definition f_error_code (e : event) : option Z :=
  match e with StreamReset _ c _ => Some c | ConnectionTerminated c => Some c | _ => None end.
Definition f_remote_reset (e : event) : option bool :=
  match e with StreamReset _ _ r => Some r | _ => None end.
Definition f_changed (e : event) : option (bool * bool) :=
  match e with RemoteSettingsChanged a b => Some (a, b) | _ => None end.

(* what h2 guarantees about the events it hands out (part of the h2 model, checked on every
   observed trace by the driver): data lengths are not negative, DataReceived is for a real stream,
   and an OtherEvent really is of another class *)
Definition event_wf (e : event) : bool :=
  match e with
  | DataReceived sid len fcl => (0 <? sid) && (0 <=? len) && (0 <=? fcl)
  | OtherEvent cls => negb (mem_str cls public_classes)
  | _ => true
  end.

(* ---- per-stream record: protocol.Stream as far as the input path touches it *)
Record srec := mk_srec {
  s_wrapper : bool;            (* stream.wrapper is not None *)
  s_cancel : option reason;    (* wrapper._error set by __terminated__ (None: never) *)
  s_headers : bool;            (* stream.headers is not None *)
  s_trailers : bool;
  s_hev : bool;                (* headers_received.is_set() *)
  s_tev : bool;                (* trailers_received.is_set() *)
  s_wev : bool;                (* window_updated.is_set() *)
  s_queue : Z;                 (* buffer._unacked.qsize() *)
  s_eof : bool;                (* buffer._eof *)
  s_drecv : Z                  (* stream.data_received *)
}.

Definition fresh_srec (wrapper : bool) : srec :=
  mk_srec wrapper None false false false false false 0 false 0.

(* ---- handler: client.Handler (connection_lost) / server.Handler (_tasks, _cancelled, closing).
   One table row per handler task, keyed by the stream id of its Stream object (exact while request
   stream ids are not reused, which h2 guarantees): in _tasks?, in _cancelled? (a task gets there only
   together with a task.cancel() call).  How often a task is cancelled is C09's subject, not tracked. *)
Record trec := mk_trec { t_sid : Z; t_live : bool; t_cancelled : bool }.
Record hstate := mk_hstate {
  h_flag : bool;               (* client: connection_lost; server: closing *)
  h_tasks : list trec
}.

Record state := mk_state {
  st_role : role;
  st_closed : bool;            (* EventsProcessor.processors deleted by close() *)
  st_tclosed : bool;           (* Connection.close() ran: transport.close() called, _transport deleted *)
  st_h : hstate;
  st_reg : list (Z * srec);    (* EventsProcessor.streams, insertion order *)
  st_drecv : Z;                (* connection.data_received *)
  st_succ : Z;                 (* connection.streams_succeeded *)
  st_fail : Z;                 (* connection.streams_failed *)
  st_waiter : bool;            (* connection.stream_close_waiter.is_set() *)
  st_ping : bool;              (* _close_by_ping_handler armed and not cancelled *)
  st_credit : list (Z * Z);    (* connection.ack(stream_id, size) calls with size <> 0, in order *)
  st_rst : list Z              (* h2.reset_stream calls made from the input path (client accept), in order *)
}.

Definition init (r : role) : state :=
  mk_state r false false (mk_hstate false []) [] 0 0 0 false false [] [].

Inductive result := Ok (s : state) | Raises (e : exn).

(* ---- registry (a Python dict keyed by stream id) *)
Fixpoint lookup (sid : Z) (l : list (Z * srec)) : option srec :=
  match l with
  | [] => None
  | (k, v) :: r => if k =? sid then Some v else lookup sid r
  end.
Fixpoint upd (sid : Z) (v : srec) (l : list (Z * srec)) : list (Z * srec) :=   (* d[sid] = v *)
  match l with
  | [] => [(sid, v)]
  | (k, w) :: r => if k =? sid then (k, v) :: r else (k, w) :: upd sid v r
  end.
(* d.pop(sid, None).  A dict has one entry per key; `upd` keeps that true of every list built from
   [] and this definition drops every entry with the key, so the two agree on all such lists *)
Fixpoint remove (sid : Z) (l : list (Z * srec)) : list (Z * srec) :=
  match l with
  | [] => []
  | (k, w) :: r => if k =? sid then remove sid r else (k, w) :: remove sid r
  end.
Definition map_reg (f : srec -> srec) (l : list (Z * srec)) : list (Z * srec) :=
  map (fun kv => (fst kv, f (snd kv))) l.

Definition set_reg (s : state) (r : list (Z * srec)) : state :=
  mk_state (st_role s) (st_closed s) (st_tclosed s) (st_h s) r (st_drecv s) (st_succ s) (st_fail s)
           (st_waiter s) (st_ping s) (st_credit s) (st_rst s).
Definition set_h (s : state) (h : hstate) : state :=
  mk_state (st_role s) (st_closed s) (st_tclosed s) h (st_reg s) (st_drecv s) (st_succ s) (st_fail s)
           (st_waiter s) (st_ping s) (st_credit s) (st_rst s).
Definition set_stats (s : state) (d su f : Z) : state :=
  mk_state (st_role s) (st_closed s) (st_tclosed s) (st_h s) (st_reg s) d su f
           (st_waiter s) (st_ping s) (st_credit s) (st_rst s).
Definition set_waiter (s : state) (b : bool) : state :=
  mk_state (st_role s) (st_closed s) (st_tclosed s) (st_h s) (st_reg s) (st_drecv s) (st_succ s)
           (st_fail s) b (st_ping s) (st_credit s) (st_rst s).
Definition set_ping (s : state) (b : bool) : state :=
  mk_state (st_role s) (st_closed s) (st_tclosed s) (st_h s) (st_reg s) (st_drecv s) (st_succ s)
           (st_fail s) (st_waiter s) b (st_credit s) (st_rst s).
Definition add_rst (s : state) (sid : Z) : state :=
  mk_state (st_role s) (st_closed s) (st_tclosed s) (st_h s) (st_reg s) (st_drecv s) (st_succ s)
           (st_fail s) (st_waiter s) (st_ping s) (st_credit s) (st_rst s ++ [sid]).
Definition set_credit (s : state) (c : list (Z * Z)) : state :=
  mk_state (st_role s) (st_closed s) (st_tclosed s) (st_h s) (st_reg s) (st_drecv s) (st_succ s)
           (st_fail s) (st_waiter s) (st_ping s) c (st_rst s).

(* Stream.__terminated__(reason): wrapper.cancel(StreamTerminatedError(reason)) if there is a wrapper *)
Definition terminated (why : reason) (r : srec) : srec :=
  if s_wrapper r
  then mk_srec true (Some why) (s_headers r) (s_trailers r) (s_hev r) (s_tev r) (s_wev r)
               (s_queue r) (s_eof r) (s_drecv r)
  else r.
Definition set_wev (r : srec) : srec :=
  mk_srec (s_wrapper r) (s_cancel r) (s_headers r) (s_trailers r) (s_hev r) (s_tev r) true
          (s_queue r) (s_eof r) (s_drecv r).
Definition set_headers (r : srec) : srec :=
  mk_srec (s_wrapper r) (s_cancel r) true (s_trailers r) true (s_tev r) (s_wev r)
          (s_queue r) (s_eof r) (s_drecv r).
Definition set_trailers (r : srec) : srec :=
  mk_srec (s_wrapper r) (s_cancel r) (s_headers r) true (s_hev r) true (s_wev r)
          (s_queue r) (s_eof r) (s_drecv r).
(* Buffer.add(data, ack_size): nothing for ack_size = 0; stream.data_received += len(data) *)
Definition add_data (len fcl : Z) (r : srec) : srec :=
  mk_srec (s_wrapper r) (s_cancel r) (s_headers r) (s_trailers r) (s_hev r) (s_tev r) (s_wev r)
          (if fcl =? 0 then s_queue r else s_queue r + 1) (s_eof r) (s_drecv r + len).
(* Stream.__ended__: buffer.eof() (the marker is queued and _eof set), then trailers_received.set()
   (no trailers can follow the end of a stream; recv_trailers then returns [] if none came) *)
Definition set_eof (r : srec) : srec :=
  mk_srec (s_wrapper r) (s_cancel r) (s_headers r) (s_trailers r) (s_hev r) true (s_wev r)
          (s_queue r + 1) true (s_drecv r).

(* ---- handler operations *)
Definition live_task (sid : Z) (t : trec) : bool := (t_sid t =? sid) && t_live t.
Definition has_live_task (sid : Z) (h : hstate) : bool := existsb (live_task sid) (h_tasks h).
(* server Handler.cancel(stream): the task of the stream, if it is still in _tasks, leaves _tasks, is
   cancelled and joins _cancelled; nothing happens otherwise (pop with a default) *)
Fixpoint pop_task (sid : Z) (l : list trec) : list trec :=
  match l with
  | [] => []
  | t :: r => if live_task sid t
              then mk_trec (t_sid t) false true :: r
              else t :: pop_task sid r
  end.
(* server Handler.close(): every task in _tasks is cancelled and added to _cancelled; closing = True *)
Definition close_task (t : trec) : trec :=
  if t_live t then mk_trec (t_sid t) true true else t.
Definition handler_close (ro : role) (h : hstate) : hstate :=
  match ro with
  | Client => mk_hstate true (h_tasks h)                       (* connection_lost = True *)
  | Server => mk_hstate true (map close_task (h_tasks h))
  end.

(* ---- EventsProcessor.close(reason):
     connection.close()  (transport.close(); del _transport; both ping timers cancelled)
     handler.close()
     every registered stream: __terminated__(reason)
     del self.processors *)
Definition close_conn (why : reason) (s : state) : state :=
  mk_state (st_role s) true true (handler_close (st_role s) (st_h s))
           (map_reg (terminated why) (st_reg s))
           (st_drecv s) (st_succ s) (st_fail s) (st_waiter s) false (st_credit s) (st_rst s).

(* ---- connection.ack(stream_id, size) for an unregistered stream:
     if size: h2.acknowledge_received_data(size, stream_id)  -- ValueError for size < 0 or id <= 0
              self.flush()                                    -- self._transport is gone after Connection.close() *)
Definition conn_ack (s : state) (sid size : Z) : result :=
  if size =? 0 then Ok s
  else if (size <? 0) || (sid <=? 0) then Raises EValueError
  else if st_tclosed s then Raises EAttributeError
  else Ok (set_credit s (st_credit s ++ [(sid, size)])).

(* ---- the thirteen process_* methods, transcribed one by one *)
(* What h2 answers to reset_stream(sid) while the events of a batch are being processed.  h2 has
   consumed the WHOLE chunk before grpclib sees the first event, so its state already reflects the
   events that come LATER in the same batch: after a GOAWAY the connection state machine is CLOSED
   and SEND_RST_STREAM is a ProtocolError; after a reset of that stream (by the peer, or by h2 itself
   on a stream error) the stream is CLOSED and sending on it is a StreamClosedError.  (part of the
   h2 model; compared with the real h2 on every observed batch) *)
Definition is_goaway (e : event) : bool := match e with ConnectionTerminated _ => true | _ => false end.
Definition is_reset_of (sid : Z) (e : event) : bool :=
  match e with StreamReset s _ _ => s =? sid | _ => false end.
Definition h2_conn_closed (rest : list event) : bool := existsb is_goaway rest.
Definition h2_stream_closed (rest : list event) (sid : Z) : bool := existsb (is_reset_of sid) rest.
Definition h2_reset_stream (rest : list event) (sid : Z) : option exn :=
  if h2_conn_closed rest then Some EH2ProtocolError
  else if h2_stream_closed rest sid then Some EH2StreamClosed
  else None.

(* protocol.Stream.closable: transport not closing, h2 connection state not CLOSED, the h2 stream
   present and not closed (h2 drops closed streams from its table lazily: missing = closed) *)
Definition closable (rest : list event) (s : state) (sid : Z) : bool :=
  negb (st_tclosed s) && negb (h2_conn_closed rest) && negb (h2_stream_closed rest sid).

(* Stream.reset_nowait: h2.reset_stream(id, error_code) and, if write_ready, transport.write *)
Definition reset_nowait (rest : list event) (s : state) (sid : Z) : result :=
  match h2_reset_stream rest sid with
  | Some x => Raises x
  | None => Ok (add_rst s sid)
  end.

(* EventsProcessor.release_stream closure: streams.pop(id); stream_close_waiter.set(); ack of the
   unacked buffer content (nothing for a stream that never got data) *)
Definition release (s : state) (sid : Z) : state :=
  match lookup sid (st_reg s) with
  | None => s
  | Some _ => set_waiter (set_reg s (remove sid (st_reg s))) true
  end.

Definition process_request_received (rest : list event) (s : state) (e : event) : result :=
  match f_stream_id e with
  | None => Raises EAttributeError
  | Some sid =>
      (* stream = connection.create_stream(stream_id=...) (wrapper None); release = self.register(stream) *)
      let s1 := set_reg s (upd sid (fresh_srec false) (st_reg s)) in
      if f_headers e then
        match st_role s with
        | Client =>
            (* client Handler.accept:
                 if stream.closable: stream.reset_nowait(ErrorCodes.REFUSED_STREAM)
                 release_stream() *)
            match (if closable rest s1 sid then reset_nowait rest s1 sid else Ok s1) with
            | Ok s2 => Ok (release s2 sid)
            | Raises x => Raises x
            end
        | Server => Ok (set_h s1 (mk_hstate (h_flag (st_h s1))
                                            (h_tasks (st_h s1) ++ [mk_trec sid true false])))
        end
      else Raises EAttributeError
  end.

Definition process_response_received (s : state) (e : event) : result :=
  match f_stream_id e with
  | None => Raises EAttributeError
  | Some sid =>
      match lookup sid (st_reg s) with
      | None => Ok s
      | Some r => if f_headers e then Ok (set_reg s (upd sid (set_headers r) (st_reg s)))
                  else Raises EAttributeError
      end
  end.

Definition process_trailers_received (s : state) (e : event) : result :=
  match f_stream_id e with
  | None => Raises EAttributeError
  | Some sid =>
      match lookup sid (st_reg s) with
      | None => Ok s
      | Some r => if f_headers e then Ok (set_reg s (upd sid (set_trailers r) (st_reg s)))
                  else Raises EAttributeError
      end
  end.

Definition process_remote_settings_changed (s : state) (e : event) : result :=
  match f_changed e with
  | None => Raises EAttributeError
  | Some (iws, mcs) =>
      let s1 := if iws then set_reg s (map_reg set_wev (st_reg s)) else s in
      Ok (if mcs then set_waiter s1 true else s1)
  end.

Definition process_data_received (s : state) (e : event) : result :=
  match f_data e with
  | None => Raises EAttributeError
  | Some (len, fcl) =>
      match f_stream_id e with
      | None => Raises EAttributeError
      | Some sid =>
          let after :=
            match lookup sid (st_reg s) with
            | Some r => Ok (set_reg s (upd sid (add_data len fcl r) (st_reg s)))
            | None => conn_ack s sid fcl
            end in
          match after with
          | Ok s1 => Ok (set_stats s1 (st_drecv s1 + len) (st_succ s1) (st_fail s1))
          | Raises x => Raises x
          end
      end
  end.

Definition process_window_updated (s : state) (e : event) : result :=
  match f_stream_id e with
  | None => Raises EAttributeError
  | Some sid =>
      if sid =? 0 then Ok (set_reg s (map_reg set_wev (st_reg s)))
      else match lookup sid (st_reg s) with
           | None => Ok s
           | Some r => Ok (set_reg s (upd sid (set_wev r) (st_reg s)))
           end
  end.

Definition process_stream_ended (s : state) (e : event) : result :=
  match f_stream_id e with
  | None => Raises EAttributeError
  | Some sid =>
      let s1 := match lookup sid (st_reg s) with
                | None => s
                | Some r => set_reg s (upd sid (set_eof r) (st_reg s))
                end in
      Ok (set_stats s1 (st_drecv s1) (st_succ s1 + 1) (st_fail s1))
  end.

Definition process_stream_reset (s : state) (e : event) : result :=
  match f_stream_id e with
  | None => Raises EAttributeError
  | Some sid =>
      let after :=
        match lookup sid (st_reg s) with
        | None => Ok s
        | Some r =>
            match f_remote_reset e, f_error_code e with
            | Some remote, Some code =>
                let why := if remote then RRemoteReset code else RProtocolError in
                let s1 := set_reg s (upd sid (terminated why r) (st_reg s)) in
                match st_role s with
                | Client => Ok s1                                    (* Handler.cancel: pass *)
                | Server =>
                    (* server Handler.cancel: task = self._tasks.pop(stream, None)
                                              if task is not None: task.cancel(); self._cancelled.add(task)
                       pop_task leaves the table alone when the stream has no task in _tasks *)
                    Ok (set_h s1 (mk_hstate (h_flag (st_h s1)) (pop_task sid (h_tasks (st_h s1)))))
                end
            | _, _ => Raises EAttributeError
            end
        end in
      match after with
      | Ok s2 => Ok (set_stats s2 (st_drecv s2) (st_succ s2) (st_fail s2 + 1))
      | Raises x => Raises x
      end
  end.

Definition process_connection_terminated (s : state) (e : event) : result :=
  match f_error_code e with
  | None => Raises EAttributeError
  | Some code => Ok (close_conn (RGoaway code) s)
  end.

Definition process_ping_ack_received (s : state) (e : event) : result :=
  Ok (set_ping s false).            (* connection.ping_ack_process(): close timer cancelled *)

Definition process_nop (s : state) (e : event) : result := Ok s.   (* `pass` bodies *)

(* interpretation of the handler NAME found in the generated table *)
Definition handlers (rest : list event) : list (list Z * (state -> event -> result)) :=
  [ (n_process_request_received, process_request_received rest);
    (n_process_response_received, process_response_received);
    (n_process_remote_settings_changed, process_remote_settings_changed);
    (n_process_settings_acknowledged, process_nop);
    (n_process_data_received, process_data_received);
    (n_process_window_updated, process_window_updated);
    (n_process_trailers_received, process_trailers_received);
    (n_process_stream_ended, process_stream_ended);
    (n_process_stream_reset, process_stream_reset);
    (n_process_priority_updated, process_nop);
    (n_process_connection_terminated, process_connection_terminated);
    (n_process_ping_received, process_nop);
    (n_process_ping_ack_received, process_ping_ack_received) ].

Definition run_handler (rest : list event) (name : list Z) (s : state) (e : event) : result :=
  match assoc_str name (handlers rest) with
  | Some f => f s e
  | None => Raises EUnknownHandler
  end.

(* EventsProcessor.process:
     try: proc = self.processors[event.__class__]
     except KeyError: log.debug(...)            -- no processor: ignored
     except AttributeError: pass                -- processors deleted by close()
     else: proc(event)
   `rest` = the events that follow in the same batch (h2 has already digested them, see
   h2_reset_stream); only the client's accept depends on it *)
Definition process (rest : list event) (s : state) (e : event) : result :=
  if st_closed s then Ok s
  else match assoc_str (class_name e) processors with
       | None => Ok s
       | Some name => run_handler rest name s e
       end.

Fixpoint run_events (s : state) (evs : list event) : result :=
  match evs with
  | [] => Ok s
  | e :: r => match process r s e with
              | Ok s1 => run_events s1 r
              | Raises x => Raises x
              end
  end.

(* H2Protocol.data_received, given what h2 made of the bytes:
     try: events = self.connection.feed(data)
     except (ProtocolError, UnicodeDecodeError): self.processor.close('Protocol error')
        (h2 reports a header block it cannot decode with header_encoding='ascii' as UnicodeDecodeError)
     else: flush; for event in events: self.processor.process(event); flush
   The two flushes write what h2 queued; between them only connection.ack makes h2 queue bytes and
   it flushes itself, and nothing runs after a close in mid-batch, so they are no-ops here. *)
Inductive batch := H2ProtocolError | H2UnicodeDecodeError | H2Events (evs : list event).

Definition data_received (s : state) (b : batch) : result :=
  match b with
  | H2ProtocolError | H2UnicodeDecodeError => Ok (close_conn RProtocolError s)
  | H2Events evs => run_events s evs
  end.

(* ---- everything else that changes the modelled state (the environment of the input path);
   used to say which states are reachable *)
Inductive input :=
| IData (b : batch)          (* transport delivers bytes *)
| IConnLost                  (* H2Protocol.connection_lost: processor.close('Connection lost') *)
| IRegister (sid : Z)        (* client Stream.send_request: processor.register(stream), wrapper present *)
| IRelease (sid : Z)         (* release_stream(): streams.pop(id); stream_close_waiter.set() *)
| ISetWrapper (sid : Z)      (* server request_handler: _stream.wrapper = Wrapper() *)
| IFinish (sid : Z)          (* server handler task ends: finally release_stream(); task leaves the tables *)
| IRead (sid : Z)            (* the application takes one item from the stream's buffer *)
| IAppCancel (sid : Z)       (* wrapper.cancel by a deadline or by the application *)
| IServerClose.              (* Server.close(): handler.close() on a live connection *)

Definition step (s : state) (i : input) : result :=
  match i with
  | IData b =>
      (* asyncio delivers nothing after transport.close() (selector and SSL transports) *)
      if st_tclosed s then Ok s else data_received s b
  | IConnLost => Ok (close_conn RConnLost s)
  | IRegister sid =>
      match st_role s with
      | Client => Ok (set_reg s (upd sid (fresh_srec true) (st_reg s)))
      | Server => Ok s
      end
  | IRelease sid => Ok (release s sid)
  | ISetWrapper sid =>
      match lookup sid (st_reg s) with
      | Some r => Ok (set_reg s (upd sid (mk_srec true None (s_headers r) (s_trailers r) (s_hev r)
                                                (s_tev r) (s_wev r) (s_queue r) (s_eof r) (s_drecv r))
                                      (st_reg s)))
      | None => Ok s
      end
  | IFinish sid =>
      let s1 := release s sid in
      Ok (set_h s1 (mk_hstate (h_flag (st_h s1))
                              (filter (fun t => negb (t_sid t =? sid)) (h_tasks (st_h s1)))))
  | IRead sid =>
      match lookup sid (st_reg s) with
      | Some r => if 0 <? s_queue r
                  then Ok (set_reg s (upd sid (mk_srec (s_wrapper r) (s_cancel r) (s_headers r) (s_trailers r)
                                                       (s_hev r) (s_tev r) (s_wev r) (s_queue r - 1)
                                                       (s_eof r) (s_drecv r)) (st_reg s)))
                  else Ok s
      | None => Ok s
      end
  | IAppCancel sid =>
      match lookup sid (st_reg s) with
      | Some r => Ok (set_reg s (upd sid (terminated ROther r) (st_reg s)))
      | None => Ok s
      end
  | IServerClose =>
      match st_role s with
      | Server => Ok (set_h s (handler_close Server (st_h s)))
      | Client => Ok s
      end
  end.

Fixpoint run (s : state) (h : list input) : result :=
  match h with
  | [] => Ok s
  | i :: r => match step s i with
              | Ok s1 => run s1 r
              | Raises x => Raises x
              end
  end.

(* ---- boolean state predicates used by the theorems and evaluated by the driver on every real
   pre-state *)
(* a live processor has a live transport (close() is the only modelled way to close either) *)
Definition inv_b (s : state) : bool := st_closed s || negb (st_tclosed s).
Definition events_of (i : input) : list event :=
  match i with IData (H2Events evs) => evs | _ => [] end.
Definition input_wf (i : input) : bool := forallb event_wf (events_of i).

(* shutdown predicates *)
Definition stream_terminated (why : reason) (r : srec) : bool :=
  negb (s_wrapper r) ||
  match s_cancel r, why with
  | Some RProtocolError, RProtocolError => true
  | Some (RGoaway a), RGoaway b => a =? b
  | Some RConnLost, RConnLost => true
  | Some RConnClosed, RConnClosed => true
  | Some (RRemoteReset a), RRemoteReset b => a =? b
  | Some ROther, ROther => true
  | _, _ => false
  end.
(* popped by Handler.cancel (which cancels it) or member of _cancelled *)
Definition task_cancelled (t : trec) : bool := negb (t_live t) || t_cancelled t.
Definition shut_down (why : reason) (s : state) : bool :=
  st_closed s && st_tclosed s && h_flag (st_h s) && negb (st_ping s) &&
  forallb (fun kv => stream_terminated why (snd kv)) (st_reg s) &&
  match st_role s with
  | Client => true                                        (* client.Handler has no tasks *)
  | Server => forallb task_cancelled (h_tasks (st_h s))
  end.
