(* Mux -- demultiplexing of HTTP/2 events onto the calls of one connection (property C11).

   Executable model ONLY (no proofs).  Transcribed from /repo/grpclib/protocol.py
   (EventsProcessor.register / close / process / process_*, H2Protocol.data_received / pause_writing /
   resume_writing / connection_lost, Stream.__ended__ / __terminated__, Buffer.add / eof / unacked_size),
   /repo/grpclib/server.py (Handler.accept / cancel / close, request_handler attaching the wrapper),
   /repo/grpclib/client.py (Handler.accept / cancel / close, Stream.send_request registering the stream
   with the call's wrapper) and /repo/grpclib/utils.py (Wrapper.cancel storing the error).

   State = registry (EventsProcessor.streams, an insertion-ordered dict) + a connection-level part.
   One component of the registry = everything ONE call can observe of its protocol.Stream object.
   h2 itself (windows, stream life-cycle) is not modelled here: the model starts at the h2-event
   boundary, as process() does.  Header lists are opaque payloads (process_* only stores them). *)
From Coq Require Import ZArith List Bool.
Import ListNotations.
Open Scope Z_scope.

Definition sid := Z.
Definition payload := list Z.            (* opaque bytes (a header list serialised by the harness, or DATA) *)

Inductive side := Client | Server.

(* the `reason` handed to Wrapper.cancel(...) *)
Inductive reason :=
| RRemoteReset (code : Z)   (* StreamTerminatedError('Stream reset by remote party, error_code: ..') *)
| RProtocolError            (* StreamTerminatedError('Protocol error'): local reset, or h2 ProtocolError *)
| RGoaway (code : Z)        (* 'Received GOAWAY frame, closing connection; error_code: ..' *)
| RConnLost                 (* 'Connection lost' *)
| RConnClosed               (* 'Connection closed' (EventsProcessor.close default, Channel.close) *)
| RDeadline.                (* asyncio.TimeoutError('Deadline exceeded') from DeadlineWrapper *)

(* items of Buffer._unacked *)
Inductive qitem := QData (d : payload) (ack : Z) | QEof.

Record call := mkCall {
  cs_req : option payload;        (* server: the header list handed to Handler.accept for this stream *)
  cs_headers : option payload;    (* Stream.headers *)
  cs_queue : list qitem;          (* Stream.buffer._unacked, oldest first *)
  cs_eof : bool;                  (* Stream.buffer._eof *)
  cs_trailers : option payload;   (* Stream.trailers *)
  cs_wu : bool;                   (* Stream.window_updated.is_set() *)
  cs_hr : bool;                   (* Stream.headers_received.is_set() *)
  cs_tr : bool;                   (* Stream.trailers_received.is_set() *)
  cs_wrapper : bool;              (* Stream.wrapper is not None *)
  cs_error : option reason;       (* Stream.wrapper._error *)
  cs_in_tasks : bool;             (* server: stream is a key of Handler._tasks *)
  cs_cancels : nat                (* server: number of task.cancel() calls on the handler task (by Handler or Wrapper) *)
}.

Definition new_call (req : option payload) (wrapper in_tasks : bool) : call :=
  mkCall req None [] false None false false false wrapper None in_tasks 0.

Definition registry := list (sid * call).

Record conn := mkConn {
  c_side : side;
  c_closed : bool;        (* EventsProcessor.close ran: processors deleted, transport closed *)
  c_write_ready : bool;   (* Connection.write_ready.is_set() *)
  c_slot_wake : bool      (* Connection.stream_close_waiter.is_set()  (a wake-up flag only) *)
}.

Record state := mkState { st_reg : registry; st_conn : conn }.

Definition init (sd : side) : state := mkState [] (mkConn sd false true false).

(* ---- events --------------------------------------------------------------------------------- *)
Inductive event :=
(* h2 events carrying a stream id *)
| ERequest (i : sid) (hs : payload)
| EResponse (i : sid) (hs : payload)
| EData (i : sid) (d : payload) (fcl : Z)      (* fcl = flow_controlled_length *)
| ETrailers (i : sid) (hs : payload)
| EEnded (i : sid)
| EReset (i : sid) (remote : bool) (code : Z)
| EWindow (i : sid)                            (* i = 0: the connection window *)
(* h2 events of the connection *)
| ESettings (initial_window max_streams : bool)   (* which codes are in changed_settings *)
| ESettingsAck
| EPriority
| EPing
| EPingAck
| EUnknown           (* any h2 event class that is not a key of `processors` (ALTSVC, unknown frame, 1xx, push) *)
| EGoaway (code : Z) (* ConnectionTerminated *)
(* transport / channel level *)
| EProtocolError     (* h2 raised ProtocolError inside Connection.feed: processor.close('Protocol error') *)
| EConnLost          (* H2Protocol.connection_lost *)
| EChannelClose      (* Channel.close(): processor.close() *)
| EPause | EResume   (* pause_writing / resume_writing *)
(* local per-call actions *)
| ARegister (i : sid)   (* client Stream.send_request: init_stream + processor.register, with the call's wrapper *)
| ARelease (i : sid)    (* release_stream() *)
| AAttach (i : sid)     (* server request_handler: _stream.wrapper = Wrapper() / DeadlineWrapper() *)
| ADeadline (i : sid)   (* the call's DeadlineWrapper timer fires: wrapper.cancel(TimeoutError) *)
| ACancel (i : sid)     (* Stream.reset / reset_nowait: h2.reset_stream only *)
| ARead (i : sid)       (* Buffer.read takes one item from _unacked *)
| AWaitWindow (i : sid). (* Stream.send_data found no window: window_updated.clear() before waiting on it *)

(* the stream an event is addressed to; None = it concerns the connection *)
Definition addr (e : event) : option sid :=
  match e with
  | ERequest i _ | EResponse i _ | EData i _ _ | ETrailers i _ | EEnded i | EReset i _ _ => Some i
  | EWindow i => if i =? 0 then None else Some i
  | ARegister i | ARelease i | AAttach i | ADeadline i | ACancel i | ARead i | AWaitWindow i => Some i
  | _ => None
  end.

(* is it an event coming out of h2 (dispatched by EventsProcessor.process, hence ignored once
   `processors` is deleted) rather than a transport callback or a local action *)
Definition is_h2 (e : event) : bool :=
  match e with
  | ERequest _ _ | EResponse _ _ | EData _ _ _ | ETrailers _ _ | EEnded _ | EReset _ _ _ | EWindow _
  | ESettings _ _ | ESettingsAck | EPriority | EPing | EPingAck | EUnknown | EGoaway _ => true
  | _ => false
  end.

(* connection-fatal events: the ones that run EventsProcessor.close *)
Definition fatal (e : event) : bool :=
  match e with
  | EGoaway _ | EProtocolError | EConnLost | EChannelClose => true
  | _ => false
  end.

Definition close_reason (e : event) : reason :=
  match e with
  | EGoaway code => RGoaway code
  | EProtocolError => RProtocolError
  | EConnLost => RConnLost
  | _ => RConnClosed
  end.

(* what the step hands to h2 / the transport (only what C11 needs to name) *)
Inductive out :=
| OAck (i : sid) (n : Z)     (* Connection.ack(i, n) with n <> 0: acknowledge_received_data + flush *)
| ORst (i : sid).            (* h2.reset_stream(i) *)

(* ---- registry ------------------------------------------------------------------------------- *)
Fixpoint lookup (i : sid) (r : registry) : option call :=
  match r with
  | [] => None
  | (k, c) :: t => if k =? i then Some c else lookup i t
  end.

(* dict assignment: an existing key keeps its position, a new key goes last *)
Fixpoint put (i : sid) (c : call) (r : registry) : registry :=
  match r with
  | [] => [(i, c)]
  | (k, c') :: t => if k =? i then (i, c) :: t else (k, c') :: put i c t
  end.

Definition remove (i : sid) (r : registry) : registry :=
  filter (fun kc => negb (fst kc =? i)) r.

Definition set_opt (i : sid) (oc : option call) (r : registry) : registry :=
  match oc with Some c => put i c r | None => remove i r end.

Definition map_calls (f : call -> call) (r : registry) : registry :=
  map (fun kc => (fst kc, f (snd kc))) r.

Definition project (i : sid) (s : state) : option call := lookup i (st_reg s).

(* ---- field updates -------------------------------------------------------------------------- *)
Definition set_wu (b : bool) (c : call) : call :=
  mkCall (cs_req c) (cs_headers c) (cs_queue c) (cs_eof c) (cs_trailers c) b (cs_hr c) (cs_tr c)
         (cs_wrapper c) (cs_error c) (cs_in_tasks c) (cs_cancels c).
Definition set_headers (h : payload) (c : call) : call :=
  mkCall (cs_req c) (Some h) (cs_queue c) (cs_eof c) (cs_trailers c) (cs_wu c) true (cs_tr c)
         (cs_wrapper c) (cs_error c) (cs_in_tasks c) (cs_cancels c).
Definition set_trailers (h : payload) (c : call) : call :=
  mkCall (cs_req c) (cs_headers c) (cs_queue c) (cs_eof c) (Some h) (cs_wu c) (cs_hr c) true
         (cs_wrapper c) (cs_error c) (cs_in_tasks c) (cs_cancels c).
Definition set_tr (b : bool) (c : call) : call :=
  mkCall (cs_req c) (cs_headers c) (cs_queue c) (cs_eof c) (cs_trailers c) (cs_wu c) (cs_hr c) b
         (cs_wrapper c) (cs_error c) (cs_in_tasks c) (cs_cancels c).
Definition set_queue (q : list qitem) (eof : bool) (c : call) : call :=
  mkCall (cs_req c) (cs_headers c) q eof (cs_trailers c) (cs_wu c) (cs_hr c) (cs_tr c)
         (cs_wrapper c) (cs_error c) (cs_in_tasks c) (cs_cancels c).
Definition set_wrapper (w : bool) (err : option reason) (c : call) : call :=
  mkCall (cs_req c) (cs_headers c) (cs_queue c) (cs_eof c) (cs_trailers c) (cs_wu c) (cs_hr c) (cs_tr c)
         w err (cs_in_tasks c) (cs_cancels c).
Definition set_task (in_tasks : bool) (n : nat) (c : call) : call :=
  mkCall (cs_req c) (cs_headers c) (cs_queue c) (cs_eof c) (cs_trailers c) (cs_wu c) (cs_hr c) (cs_tr c)
         (cs_wrapper c) (cs_error c) in_tasks n.

(* Stream.__terminated__(reason): `if self.wrapper is not None: self.wrapper.cancel(...)`.
   Wrapper.cancel stores the error and cancels the tasks that are inside `with wrapper`: on the server
   that is the handler task from the moment request_handler attached the wrapper (`with deadline_wrapper,
   wrapper:` around the whole handler) until it releases the stream; on the client the member tasks are
   the application's own tasks, which this model does not follow (cs_cancels stays 0 there). *)
Definition terminated (sd : side) (r : reason) (c : call) : call :=
  if cs_wrapper c then
    let c1 := set_wrapper true (Some r) c in
    match sd with
    | Server => set_task (cs_in_tasks c1) (S (cs_cancels c1)) c1
    | Client => c1
    end
  else c.

(* Buffer.unacked_size(): the sum of the ack sizes still queued *)
Fixpoint unacked (q : list qitem) : Z :=
  match q with
  | [] => 0
  | QData _ a :: t => a + unacked t
  | QEof :: t => unacked t
  end.

(* Connection.ack(i, n): `if size:` *)
Definition ack_out (i : sid) (n : Z) : list out := if n =? 0 then [] else [OAck i n].

(* ---- one call's reaction to an event addressed to it ------------------------------------------ *)
Record cres := mkCres {
  r_call : option call;    (* the component afterwards (None = not in the registry) *)
  r_out : list out;
  r_raise : bool;          (* an exception leaves process(): the rest of the read is dropped.  No branch of
                              the code as it is now does that (see Proofs: never_raises); the field and
                              run_batch stay so that the claim is a theorem and not a modelling choice *)
  r_slot : bool            (* stream_close_waiter.set() *)
}.
Definition same (oc : option call) : cres := mkCres oc [] false false.

Definition call_step (cn : conn) (i : sid) (oc : option call) (e : event) : cres :=
  if is_h2 e && c_closed cn then same oc      (* process(): AttributeError branch, event ignored *)
  else match e with
  | ERequest _ hs =>
      (* process_request_received: create_stream, register (overwrites), handler.accept *)
      match c_side cn with
      | Server => same (Some (new_call (Some hs) false true))
      | Client => mkCres None [] false true
          (* client Handler.accept refuses the stream:
               if stream.closable: stream.reset_nowait(REFUSED_STREAM)
               release_stream()
             -- the entry just registered (overwriting any older one with that id) is popped again,
             stream_close_waiter is set, nothing is queued so nothing is credited.  Whether the RST_STREAM
             goes out depends on h2's state (`closable`), which is not part of this model: when it does,
             it is the separate local action ACancel i (h2.reset_stream), which changes no component *)
      end
  | EResponse _ hs =>
      match oc with Some c => same (Some (set_headers hs c)) | None => same None end
  | EData _ d fcl =>
      match oc with
      | Some c => (* Buffer.add: zero credit frames are skipped *)
          same (Some (if fcl =? 0 then c else set_queue (cs_queue c ++ [QData d fcl]) (cs_eof c) c))
      | None => mkCres None (ack_out i fcl) false false     (* only credited *)
      end
  | ETrailers _ hs =>
      match oc with Some c => same (Some (set_trailers hs c)) | None => same None end
  | EEnded _ =>
      match oc with
      | Some c => (* Stream.__ended__: buffer.eof(); trailers_received.set() -- no trailers will follow *)
          same (Some (set_tr true (set_queue (cs_queue c ++ [QEof]) true c)))
      | None => same None
      end
  | EReset _ remote code =>
      match oc with
      | Some c =>
          let c1 := terminated (c_side cn) (if remote then RRemoteReset code else RProtocolError) c in
          match c_side cn with
          | Client => same (Some c1)                                    (* Handler.cancel: pass *)
          | Server =>                   (* task = self._tasks.pop(stream, None); if task is not None: task.cancel() *)
              if cs_in_tasks c1 then same (Some (set_task false (S (cs_cancels c1)) c1))
              else same (Some c1)
          end
      | None => same None
      end
  | EWindow _ =>
      match oc with Some c => same (Some (set_wu true c)) | None => same None end
  | ARegister _ => same (Some (new_call None true false))
  | ARelease _ =>
      match oc with
      | Some c => mkCres None (if c_closed cn then [] else ack_out i (unacked (cs_queue c))) false true
      | None => same None                                               (* already released *)
      end
  | AAttach _ =>
      match oc with Some c => same (Some (set_wrapper true None c)) | None => same None end
  | ADeadline _ =>
      match oc with Some c => same (Some (terminated (c_side cn) RDeadline c)) | None => same None end
  | ACancel _ => mkCres oc [ORst i] false false
  | ARead _ =>
      match oc with
      | Some c =>
          match cs_queue c with
          | QData _ a :: q => mkCres (Some (set_queue q (cs_eof c) c)) (ack_out i a) false false
          | QEof :: q => same (Some (set_queue q (cs_eof c) c))
          | [] => same oc
          end
      | None => same None
      end
  | AWaitWindow _ =>
      match oc with Some c => same (Some (set_wu false c)) | None => same None end
  | _ => same oc
  end.

(* ---- events of the connection --------------------------------------------------------------- *)
(* what such an event does to every registered call *)
Definition bcast (cn : conn) (e : event) (c : call) : call :=
  if is_h2 e && c_closed cn then c
  else match e with
  | EWindow _ => set_wu true c
  | ESettings iw _ => if iw then set_wu true c else c
  | EGoaway _ | EProtocolError | EConnLost | EChannelClose =>
      (* EventsProcessor.close: handler.close() cancels every task still in _tasks (server),
         then every registered stream is terminated *)
      let c1 := match c_side cn with
                | Server => if cs_in_tasks c then set_task true (S (cs_cancels c)) c else c
                | Client => c
                end in
      terminated (c_side cn) (close_reason e) c1
  | _ => c
  end.

Definition conn_step (cn : conn) (e : event) : conn :=
  if is_h2 e && c_closed cn then cn
  else match e with
  | ESettings _ mcs => if mcs then mkConn (c_side cn) (c_closed cn) (c_write_ready cn) true else cn
  | EGoaway _ | EProtocolError | EConnLost | EChannelClose =>
      mkConn (c_side cn) true (c_write_ready cn) (c_slot_wake cn)
  | EPause => mkConn (c_side cn) (c_closed cn) false (c_slot_wake cn)
  | EResume => mkConn (c_side cn) (c_closed cn) true (c_slot_wake cn)
      (* Connection.resume_writing also flushes what h2 queued while paused (unless closing): bytes of
         frames already accounted for by the steps that produced them, no state of this model *)
  | _ => cn
  end.

(* ---- the step --------------------------------------------------------------------------------- *)
Record sres := mkSres { s_state : state; s_out : list out; s_raise : bool }.

Definition step_r (s : state) (e : event) : sres :=
  match addr e with
  | Some i =>
      let r := call_step (st_conn s) i (lookup i (st_reg s)) e in
      let cn := st_conn s in
      mkSres (mkState (set_opt i (r_call r) (st_reg s))
                      (if r_slot r then mkConn (c_side cn) (c_closed cn) (c_write_ready cn) true else cn))
             (r_out r) (r_raise r)
  | None =>
      mkSres (mkState (map_calls (bcast (st_conn s) e) (st_reg s)) (conn_step (st_conn s) e)) [] false
  end.

Definition step (s : state) (e : event) : state := s_state (step_r s e).
Definition raises (s : state) (e : event) : bool := s_raise (step_r s e).

Fixpoint run (es : list event) (s : state) : state :=
  match es with [] => s | e :: t => run t (step s e) end.

(* H2Protocol.data_received: the events of one read are processed in order; an exception leaving
   process() drops the remaining events of that read *)
Fixpoint run_batch (es : list event) (s : state) (acc : list out) : state * list out * bool :=
  match es with
  | [] => (s, acc, false)
  | e :: t => let r := step_r s e in
              if s_raise r then (s_state r, acc ++ s_out r, true)
              else run_batch t (s_state r) (acc ++ s_out r)
  end.

Fixpoint run_batches (bs : list (list event)) (s : state) (acc : list out) (nraised : nat)
  : state * list out * nat :=
  match bs with
  | [] => (s, acc, nraised)
  | b :: t => match run_batch b s acc with
              | (s', acc', r) => run_batches t s' acc' (if r then S nraised else nraised)
              end
  end.

(* ---- observations ----------------------------------------------------------------------------- *)
(* a call's state without the window wake-up flag *)
Definition strip (c : call) : call := set_wu false c.

(* the part of the connection that decides how calls are treated (stream_close_waiter is never read
   by any step) *)
Definition conn_core (cn : conn) : side * bool * bool := (c_side cn, c_closed cn, c_write_ready cn).

(* an event call i can see: addressed to it, or to the connection *)
Definition relevant (i : sid) (e : event) : bool :=
  match addr e with Some j => j =? i | None => true end.
Definition addressed (i : sid) (e : event) : bool :=
  match addr e with Some j => j =? i | None => false end.

(* what a reader of this call is waiting on (recv_headers / Buffer.read / recv_trailers, and the
   wrapper that wakes all of them) *)
Definition recv_ready (c : call) : bool * bool * bool * bool :=
  (match cs_headers c with Some _ => true | None => cs_hr c end,
   match cs_queue c with [] => false | _ => true end,
   match cs_trailers c with Some _ => true | None => cs_tr c end,
   match cs_error c with Some _ => true | None => false end).

(* ---- a sender waking up (the head of the Stream.send_data loop) -------------------------------
   `window` is what h2.local_flow_control_window(id) reports at that moment. *)
Inductive sender_action := SWaitWriteReady | SWaitWindow | SSend (n : Z).

Definition sender_wake (write_ready : bool) (window max_frame remaining : Z) (c : call)
  : call * sender_action :=
  if negb write_ready then (c, SWaitWriteReady)              (* await write_ready.wait() *)
  else if negb (0 <? window) then (set_wu false c, SWaitWindow)   (* window_updated.clear(); wait() *)
  else (c, SSend (Z.min window (Z.min max_frame remaining))).

Definition frames_of (a : sender_action) : list Z := match a with SSend n => [n] | _ => [] end.

(* the same, for one call alone: the solo run the correspondence compares with *)
Definition solo (i : sid) (sd : side) (es : list event) : option call :=
  project i (run (filter (relevant i) es) (init sd)).
