(* Model/Channel.v -- executable model of grpclib.client.Channel connection management (property C16).
   No proofs here.

   Source modelled (read line by line, /repo as repaired for D16):
     client.py   Channel.__connect__ / _connected / _create_connection / close, Handler.close,
                 Stream.send_request (the part between __connect__ and registration)
     protocol.py EventsProcessor.close / process_connection_terminated, H2Protocol.connection_lost,
                 Connection.close / is_closing, Stream.send_request (write_ready wait, register)
     asyncio     Lock.acquire / release / _wake_up_first (CPython 3.12.1), Task.cancel, Event.set, call_soon

   A coroutine is a defunctionalised state machine; one `Run k` is the atomic segment of caller k between
   two suspension points.  `step` is total; theorems quantify over ALL op lists (all schedules); the FIFO
   ready queue `rq` only serves `drain`, the deterministic asyncio order used by the correspondence check. *)
From Coq Require Import List Bool Arith.
Import ListNotations.

Inductive wfut := WPending | WWoken | WCancelled.          (* the future of a Lock waiter *)
Inductive outcome := OOk | OFail.
(* the `await self._create_connection()` of the lock holder *)
Inductive astate :=
| AFlight (o : outcome)   (* in flight; will finish with o *)
| AOk (c : nat)           (* finished: connection c was made; the awaiting task has not resumed yet *)
| AFail                   (* finished: raised OSError; the awaiting task has not resumed yet *)
| AAbort.                 (* the awaiting task was cancelled while the attempt was in flight *)
Inductive exn :=
| EOSError | ECancelled
| ETerminated             (* StreamTerminatedError *)
| EAttr                   (* AttributeError: a protocol whose Connection.close() already ran was used *)
| EProto.                 (* h2 ProtocolError: send_headers on a connection that received GOAWAY *)
Inductive result := ROk (c : nat) | RExn (e : exn).
Inductive phase :=
| PNew                          (* task created, first step not run *)
| PWait                         (* inside Lock.acquire, its future is in `waiters` *)
| PAttempt (a : astate)         (* holds the lock, awaiting _create_connection *)
| PGot (c : nat) (woken : bool) (* __connect__ returned c; blocked on write_ready in protocol.Stream.send_request,
                                   NOT registered in processor.streams *)
| PReg (c : nat)                (* stream registered on c; waiting for the response *)
| PEnd (r : result).

Record caller := { ph : phase; cancelp : bool; answered : bool; term : bool }.
(* cancelp: Task.cancel() called, CancelledError not delivered yet;  term: the call's Wrapper was cancelled
   with StreamTerminatedError;  answered: the complete response arrived *)

Record conn := {
  lost : bool;        (* handler.connection_lost *)
  closing : bool;     (* Connection.close() ran: transport closing, Connection._transport deleted *)
  delivered : bool;   (* asyncio has called H2Protocol.connection_lost *)
  paused : bool;      (* write_ready cleared *)
  goaway : bool;      (* GOAWAY received: h2 state machine CLOSED *)
  held : bool;        (* the transport withholds connection_lost after close() (e.g. an unflushed write
                         buffer towards a dead peer): it is delivered only by an explicit `Lose` *)
  calls : list nat;   (* processor.streams: registered callers, registration order *)
  wrw : list nat      (* callers waiting on write_ready, FIFO *)
}.

Inductive chstate := Idle | Connecting | Ready | TransientFailure.
Inductive item := IRun (k : nat) | ILost (c : nat).

Record state := {
  protocol : option nat;              (* Channel._protocol (None = the class attribute) *)
  conns : list conn;                  (* every connection ever made, index = id *)
  locked : bool;                      (* Lock._locked *)
  waiters : list (nat * wfut);        (* Lock._waiters, FIFO *)
  callers : list caller;              (* index = caller id *)
  script : list (outcome * bool);     (* per _create_connection invocation: outcome, inline (no suspension) *)
  creates : nat;                      (* number of _create_connection invocations *)
  fails : list nat;                   (* callers in whose task _create_connection raised OSError *)
  chst : chstate;                     (* Channel._state *)
  rq : list item                      (* loop._ready, FIFO *)
}.

Definition init (sc : list (outcome * bool)) : state :=
  {| protocol := None; conns := []; locked := false; waiters := []; callers := []; script := sc;
     creates := 0; fails := []; chst := Idle; rq := [] |}.

(* ---- plain accessors / updaters ------------------------------------------------------------- *)
Definition dead_conn : conn :=
  {| lost := true; closing := true; delivered := true; paused := false; goaway := false; held := false;
     calls := []; wrw := [] |}.
Definition fresh_conn : conn :=
  {| lost := false; closing := false; delivered := false; paused := false; goaway := false; held := false;
     calls := []; wrw := [] |}.
Definition no_caller : caller := {| ph := PEnd (RExn ECancelled); cancelp := false; answered := false; term := false |}.
Definition new_caller : caller := {| ph := PNew; cancelp := false; answered := false; term := false |}.

Fixpoint upd {A} (n : nat) (f : A -> A) (l : list A) : list A :=
  match l, n with
  | [], _ => []
  | x :: r, O => f x :: r
  | x :: r, S m => x :: upd m f r
  end.

Definition getc (s : state) (c : nat) : conn := nth c (conns s) dead_conn.
Definition getk (s : state) (k : nat) : caller := nth k (callers s) no_caller.

Definition set_protocol p s := {| protocol := p; conns := conns s; locked := locked s; waiters := waiters s;
  callers := callers s; script := script s; creates := creates s; fails := fails s; chst := chst s; rq := rq s |}.
Definition set_conns v s := {| protocol := protocol s; conns := v; locked := locked s; waiters := waiters s;
  callers := callers s; script := script s; creates := creates s; fails := fails s; chst := chst s; rq := rq s |}.
Definition set_locked v s := {| protocol := protocol s; conns := conns s; locked := v; waiters := waiters s;
  callers := callers s; script := script s; creates := creates s; fails := fails s; chst := chst s; rq := rq s |}.
Definition set_waiters v s := {| protocol := protocol s; conns := conns s; locked := locked s; waiters := v;
  callers := callers s; script := script s; creates := creates s; fails := fails s; chst := chst s; rq := rq s |}.
Definition set_callers v s := {| protocol := protocol s; conns := conns s; locked := locked s; waiters := waiters s;
  callers := v; script := script s; creates := creates s; fails := fails s; chst := chst s; rq := rq s |}.
Definition set_script v s := {| protocol := protocol s; conns := conns s; locked := locked s; waiters := waiters s;
  callers := callers s; script := v; creates := creates s; fails := fails s; chst := chst s; rq := rq s |}.
Definition set_creates v s := {| protocol := protocol s; conns := conns s; locked := locked s; waiters := waiters s;
  callers := callers s; script := script s; creates := v; fails := fails s; chst := chst s; rq := rq s |}.
Definition set_fails v s := {| protocol := protocol s; conns := conns s; locked := locked s; waiters := waiters s;
  callers := callers s; script := script s; creates := creates s; fails := v; chst := chst s; rq := rq s |}.
Definition set_chst v s := {| protocol := protocol s; conns := conns s; locked := locked s; waiters := waiters s;
  callers := callers s; script := script s; creates := creates s; fails := fails s; chst := v; rq := rq s |}.
Definition set_rq v s := {| protocol := protocol s; conns := conns s; locked := locked s; waiters := waiters s;
  callers := callers s; script := script s; creates := creates s; fails := fails s; chst := chst s; rq := v |}.

Definition updk k f s := set_callers (upd k f (callers s)) s.
Definition updc c f s := set_conns (upd c f (conns s)) s.

Definition c_ph v (x : caller) := {| ph := v; cancelp := cancelp x; answered := answered x; term := term x |}.
Definition c_cancelp v (x : caller) := {| ph := ph x; cancelp := v; answered := answered x; term := term x |}.
Definition c_answered v (x : caller) := {| ph := ph x; cancelp := cancelp x; answered := v; term := term x |}.
Definition c_term v (x : caller) := {| ph := ph x; cancelp := cancelp x; answered := answered x; term := v |}.

Definition n_lost v (x : conn) := {| lost := v; closing := closing x; delivered := delivered x; paused := paused x;
  goaway := goaway x; held := held x; calls := calls x; wrw := wrw x |}.
Definition n_closing v (x : conn) := {| lost := lost x; closing := v; delivered := delivered x; paused := paused x;
  goaway := goaway x; held := held x; calls := calls x; wrw := wrw x |}.
Definition n_delivered v (x : conn) := {| lost := lost x; closing := closing x; delivered := v; paused := paused x;
  goaway := goaway x; held := held x; calls := calls x; wrw := wrw x |}.
Definition n_paused v (x : conn) := {| lost := lost x; closing := closing x; delivered := delivered x; paused := v;
  goaway := goaway x; held := held x; calls := calls x; wrw := wrw x |}.
Definition n_goaway v (x : conn) := {| lost := lost x; closing := closing x; delivered := delivered x; paused := paused x;
  goaway := v; held := held x; calls := calls x; wrw := wrw x |}.
Definition n_held v (x : conn) := {| lost := lost x; closing := closing x; delivered := delivered x; paused := paused x;
  goaway := goaway x; held := v; calls := calls x; wrw := wrw x |}.
Definition n_calls v (x : conn) := {| lost := lost x; closing := closing x; delivered := delivered x; paused := paused x;
  goaway := goaway x; held := held x; calls := v; wrw := wrw x |}.
Definition n_wrw v (x : conn) := {| lost := lost x; closing := closing x; delivered := delivered x; paused := paused x;
  goaway := goaway x; held := held x; calls := calls x; wrw := v |}.

Definition setph k v s := updk k (c_ph v) s.
Definition endc k r s := setph k (PEnd r) s.

Definition item_eqb (a b : item) : bool :=
  match a, b with
  | IRun x, IRun y => Nat.eqb x y
  | ILost x, ILost y => Nat.eqb x y
  | _, _ => false
  end.
Fixpoint remove1 (a : item) (l : list item) : list item :=
  match l with
  | [] => []
  | x :: r => if item_eqb a x then r else x :: remove1 a r
  end.
Definition enq (i : item) s := set_rq (rq s ++ [i]) s.
Definition deq (i : item) s := set_rq (remove1 i (rq s)) s.
Definition remove_nat (k : nat) (l : list nat) : list nat := filter (fun x => negb (Nat.eqb x k)) l.

(* transport.close(): `call_soon(connection_lost)` -- unless the transport withholds it *)
Definition sched_lost (c : nat) (s : state) : state :=
  if held (nth c (conns s) dead_conn) then s else enq (ILost c) s.

(* ---- Channel._connected ---------------------------------------------------------------------- *)
Definition conn_live (x : conn) : bool := negb (lost x) && negb (closing x).
Definition connected (s : state) : bool :=
  match protocol s with
  | None => false
  | Some c => conn_live (getc s c)
  end.

(* ---- asyncio.Lock ---------------------------------------------------------------------------- *)
Definition is_wcancelled (f : wfut) : bool := match f with WCancelled => true | _ => false end.
Definition is_wwoken (f : wfut) : bool := match f with WWoken => true | _ => false end.
Fixpoint wlookup (k : nat) (l : list (nat * wfut)) : option wfut :=
  match l with
  | [] => None
  | (j, f) :: r => if Nat.eqb j k then Some f else wlookup k r
  end.
Definition wremove (k : nat) (l : list (nat * wfut)) : list (nat * wfut) :=
  filter (fun e => negb (Nat.eqb (fst e) k)) l.
Fixpoint wset (k : nat) (f : wfut) (l : list (nat * wfut)) : list (nat * wfut) :=
  match l with
  | [] => []
  | (j, g) :: r => if Nat.eqb j k then (j, f) :: r else (j, g) :: wset k f r
  end.

(* Lock._wake_up_first: only the FIRST waiter is looked at; a done future is left alone *)
Definition wake_first (s : state) : state :=
  match waiters s with
  | (k, WPending) :: r => enq (IRun k) (set_waiters ((k, WWoken) :: r) s)
  | _ => s
  end.
(* Lock.release (called only by a holder; on an unlocked lock Python raises RuntimeError -- the model
   calls it only right after an acquire in the same step or from PAttempt) *)
Definition release (s : state) : state := wake_first (set_locked false s).
(* the non-blocking branch of Lock.acquire *)
Definition lock_free (s : state) : bool :=
  negb (locked s) && forallb (fun e => is_wcancelled (snd e)) (waiters s).

(* ---- after __connect__ returned protocol c (client.Stream.send_request, protocol.Stream.send_request) *)
Definition register (k c : nat) (s : state) : state :=
  setph k (PReg c) (updc c (fun x => n_calls (calls x ++ [k]) x) s).

Definition proceed (k c : nat) (s : state) : state :=
  let x := getc s c in
  if closing x then endc k (RExn EAttr) s            (* connection.create_stream reads Connection._transport *)
  else if paused x then setph k (PGot c false) (updc c (fun x => n_wrw (wrw x ++ [k]) x) s)
  else register k c s.

(* `return cast(H2Protocol, self._protocol)` -- re-reads the attribute, no re-check *)
Definition ret (k : nat) (s : state) : state :=
  match protocol s with
  | Some c => proceed k c s
  | None => endc k (RExn EAttr) s                    (* None.processor *)
  end.

Definition new_conn (s : state) : nat * state := (length (conns s), set_conns (conns s ++ [fresh_conn]) s).

(* the lock holder resumes after a successful / failed _create_connection *)
Definition finish_ok (k c : nat) (s : state) : state :=
  ret k (release (set_chst Ready (set_protocol (Some c) s))).
Definition finish_fail (k : nat) (s : state) : state :=
  endc k (RExn EOSError) (release (set_chst TransientFailure s)).

(* `self._protocol = await self._create_connection()` *)
Definition attempt (k : nat) (s : state) : state :=
  let '(o, inline) := hd (OOk, false) (script s) in
  let s := set_creates (S (creates s)) (set_script (tl (script s)) s) in
  if inline then
    match o with
    | OOk => let '(c, s1) := new_conn s in finish_ok k c s1
    | OFail => finish_fail k (set_fails (fails s ++ [k]) s)
    end
  else setph k (PAttempt (AFlight o)) s.

(* body of `async with self._connect_lock:` *)
Definition locked_section (k : nat) (s : state) : state :=
  let s := set_chst Connecting s in
  if negb (connected s) then attempt k s else ret k (release s).

(* Channel.__connect__ from its first line *)
Definition enter (k : nat) (s : state) : state :=
  if connected s then ret k s
  else if lock_free s then locked_section k (set_locked true s)
  else setph k PWait (set_waiters (waiters s ++ [(k, WPending)]) s).

(* ---- readiness (is a wake-up of task k already scheduled?) ------------------------------------ *)
Definition enabled (s : state) (k : nat) : bool :=
  let x := getk s k in
  match ph x with
  | PNew => true
  | PWait => match wlookup k (waiters s) with Some WPending => false | Some _ => true | None => false end
  | PAttempt a => cancelp x || match a with AOk _ | AFail => true | _ => false end
  | PGot _ w => w || cancelp x
  | PReg _ => answered x || term x || cancelp x
  | PEnd _ => false
  end.
(* apply f (which makes k runnable) and schedule the wake-up unless one is already scheduled *)
Definition mark (k : nat) (f : state -> state) (s : state) : state :=
  if enabled s k then f s else enq (IRun k) (f s).

(* ---- processor.close and friends ------------------------------------------------------------- *)
Definition terminate1 (c : nat) (s : state) (k : nat) : state :=
  let x := getk s k in
  match ph x with
  | PReg c' => if Nat.eqb c' c && negb (term x) then mark k (updk k (c_term true)) s else s
  | _ => s
  end.
Definition terminate (c : nat) (s : state) : state := fold_left (terminate1 c) (calls (getc s c)) s.

(* EventsProcessor.close(): connection.close(); handler.close(); every registered stream terminated *)
Definition proc_close (c : nat) (s : state) : state :=
  let s := if closing (getc s c) then s
           else sched_lost c (updc c (n_closing true) s) in     (* transport.close() *)
  terminate c (updc c (n_lost true) s).

(* asyncio calls H2Protocol.connection_lost (at most once per transport) *)
Definition conn_lost (c : nat) (s : state) : state :=
  let s := deq (ILost c) s in
  if Nat.ltb c (length (conns s)) then
    if delivered (getc s c) then s
    else terminate c (updc c (fun x => n_lost true (n_closing true (n_delivered true x))) s)
  else s.

(* ---- one task step --------------------------------------------------------------------------- *)
Definition run_caller (k : nat) (s : state) : state :=
  let s := deq (IRun k) s in
  let x := getk s k in
  match ph x with
  | PNew => if cancelp x then endc k (RExn ECancelled) s else enter k s
  | PWait =>
      match wlookup k (waiters s) with
      | None => s
      | Some f =>
          if cancelp x then
            (* CancelledError at `await fut`: finally remove; `if not self._locked: self._wake_up_first()` *)
            let s := set_waiters (wremove k (waiters s)) s in
            let s := if locked s then s else wake_first s in
            endc k (RExn ECancelled) s
          else if is_wwoken f then
            locked_section k (set_locked true (set_waiters (wremove k (waiters s)) s))
          else s
      end
  | PAttempt a =>
      if cancelp x then
        (* CancelledError is not an Exception: _state stays; the lock is released by `async with`;
           a connection already made is closed by the connector *)
        let s := match a with
                 | AOk c => if closing (getc s c) then s else sched_lost c (updc c (n_closing true) s)
                 | _ => s
                 end in
        endc k (RExn ECancelled) (release s)
      else match a with
           | AOk c => finish_ok k c s
           | AFail => finish_fail k s
           | _ => s
           end
  | PGot c w =>
      if cancelp x then endc k (RExn ECancelled) (updc c (fun y => n_wrw (remove_nat k (wrw y)) y) s)
      else if w then
        let s := updc c (fun y => n_wrw (remove_nat k (wrw y)) y) s in
        let y := getc s c in
        if goaway y then endc k (RExn EProto) s                 (* h2: send_headers on a closed connection *)
        else if closing y then                                   (* registered, then get_peer() -> AttributeError *)
          endc k (RExn EAttr) (updc c (fun y => n_calls (calls y ++ [k]) y) s)
        else register k c s
      else s
  | PReg c =>
      let rel s := updc c (fun y => n_calls (remove_nat k (calls y)) y) s in
      if term x then endc k (RExn ETerminated) (rel s)
      else if cancelp x then endc k (RExn ECancelled) (rel s)
      else if answered x then endc k (ROk c) (rel s)
      else s
  | PEnd _ => s
  end.

(* Task.cancel() from outside *)
Definition cancel_caller (k : nat) (s : state) : state :=
  let x := getk s k in
  if cancelp x then s else
  match ph x with
  | PNew => updk k (c_cancelp true) s
  | PWait =>
      match wlookup k (waiters s) with
      | Some WPending => enq (IRun k) (updk k (c_cancelp true) (set_waiters (wset k WCancelled (waiters s)) s))
      | Some WWoken => updk k (c_cancelp true) s
      | _ => s
      end
  | PAttempt a =>
      match a with
      | AFlight _ => enq (IRun k) (updk k (fun y => c_cancelp true (c_ph (PAttempt AAbort) y)) s)
      | AOk _ | AFail => updk k (c_cancelp true) s
      | AAbort => s
      end
  | PGot _ _ | PReg _ => mark k (updk k (c_cancelp true)) s
  | PEnd _ => s
  end.

Inductive op :=
| Start                 (* a new call: task created (id = number of callers so far) *)
| Run (k : nat)         (* the loop runs one step of caller k's task (no effect unless it is runnable) *)
| Resolve (k : nat)     (* k's in-flight _create_connection finishes with its scripted outcome *)
| Cancel (k : nat)
| Lose (c : nat)        (* asyncio calls connection_lost on c *)
| GoAway (c : nat)      (* GOAWAY arrives: process_connection_terminated -> processor.close *)
| KAClose (c : nat)     (* keepalive timeout: Connection.close() only *)
| ChClose               (* Channel.close() *)
| Pause (c : nat) | Resume (c : nat)
| Answer (k : nat)      (* the peer's complete response to k's call arrives *)
| Hold (c : nat).       (* from now on c's transport withholds connection_lost after close() *)

Definition valid_open (s : state) (c : nat) : bool :=
  Nat.ltb c (length (conns s)) && negb (closing (getc s c)) && negb (delivered (getc s c)).

Definition step (s : state) (o : op) : state :=
  match o with
  | Start => enq (IRun (length (callers s))) (set_callers (callers s ++ [new_caller]) s)
  | Run k => run_caller k s
  | Resolve k =>
      let x := getk s k in
      match ph x with
      | PAttempt (AFlight OOk) =>
          let '(c, s1) := new_conn s in enq (IRun k) (setph k (PAttempt (AOk c)) s1)
      | PAttempt (AFlight OFail) =>
          enq (IRun k) (setph k (PAttempt AFail) (set_fails (fails s ++ [k]) s))
      | _ => s
      end
  | Cancel k => cancel_caller k s
  | Lose c => conn_lost c s
  | GoAway c => if valid_open s c then proc_close c (updc c (n_goaway true) s) else s
  | KAClose c => if valid_open s c then sched_lost c (updc c (n_closing true) s) else s
  | ChClose =>
      set_chst Idle
        match protocol s with
        | Some c => set_protocol None (proc_close c s)
        | None => s
        end
  | Pause c => if valid_open s c then updc c (n_paused true) s else s
  | Resume c =>
      if valid_open s c && paused (getc s c) then
        fold_left (fun s k => match ph (getk s k) with
                              | PGot c' false => if Nat.eqb c' c then mark k (setph k (PGot c true)) s else s
                              | _ => s
                              end)
                  (wrw (getc s c)) (updc c (n_paused false) s)
      else s
  | Answer k =>
      let x := getk s k in
      match ph x with
      | PReg c => if valid_open s c && negb (answered x) then mark k (updk k (c_answered true)) s else s
      | _ => s
      end
  | Hold c => updc c (n_held true) s
  end.

Definition run (ops : list op) (s : state) : state := fold_left step ops s.

(* ---- observables of the property ------------------------------------------------------------- *)
Definition is_attempting (x : caller) : bool := match ph x with PAttempt _ => true | _ => false end.
Definition is_inflight (x : caller) : bool := match ph x with PAttempt (AFlight _) => true | _ => false end.
Definition count {A} (p : A -> bool) (l : list A) : nat := length (filter p l).
Definition attempting (s : state) : nat := count is_attempting (callers s).
Definition attempts_in_flight (s : state) : nat := count is_inflight (callers s).
Definition live_connections (s : state) : nat := count conn_live (conns s).
Definition has_result (s : state) (k : nat) (r : result) : Prop := ph (getk s k) = PEnd r.

(* ---- the deterministic FIFO schedule of the correspondence check ----------------------------- *)
Inductive stim :=
| SStart | SResolve | SCancel (k : nat) | SLose (c : nat) | SGoAway (c : nat) | SKAClose | SChClose
| SPause (c : nat) | SResume (c : nat) | SAnswer (k : nat) | SHold (c : nat).

Fixpoint first_inflight (l : list caller) (i : nat) : option nat :=
  match l with
  | [] => None
  | x :: r => if is_inflight x then Some i else first_inflight r (S i)
  end.

Definition stim_ops (s : state) (t : stim) : list op :=
  match t with
  | SStart => [Start]
  | SResolve => match first_inflight (callers s) 0 with Some k => [Resolve k] | None => [] end
  | SCancel k => [Cancel k]
  | SLose c => [Lose c]
  | SGoAway c => [GoAway c]
  | SKAClose => map KAClose (seq 0 (length (conns s)))      (* time passes: every open connection times out *)
  | SChClose => [ChClose]
  | SPause c => [Pause c]
  | SResume c => [Resume c]
  | SAnswer k => [Answer k]
  | SHold c => [Hold c]
  end.

Definition item_op (i : item) : op := match i with IRun k => Run k | ILost c => Lose c end.

(* run the ready queue in FIFO order until it is empty; returns the ops performed *)
Fixpoint drain (fuel : nat) (s : state) : list op * state :=
  match fuel with
  | O => ([], s)
  | S f => match rq s with
           | [] => ([], s)
           | i :: _ => let '(l, s') := drain f (step s (item_op i)) in (item_op i :: l, s')
           end
  end.

Definition apply_stims (s : state) (b : list stim) : list op * state :=
  fold_left (fun acc t => let ops := stim_ops (snd acc) t in (fst acc ++ ops, run ops (snd acc))) b ([], s).

Definition batch (s : state) (b : list stim) : list op * state :=
  let '(l1, s1) := apply_stims s b in
  let '(l2, s2) := drain 4000 s1 in (l1 ++ l2, s2).

(* all states after each batch (for the observation vector) and the complete op list *)
Fixpoint batches (s : state) (bs : list (list stim)) : list op * list state :=
  match bs with
  | [] => ([], [])
  | b :: r => let '(l, s1) := batch s b in let '(l', ss) := batches s1 r in (l ++ l', s1 :: ss)
  end.
