(* Model of grpclib.metadata.encode_metadata / decode_metadata.  Strings are lists of code points.
   The reserved-name set is Gen.Facts.special (copied from the source on every run). *)
From Coq Require Import ZArith List Bool.
From GV Require Import Lib.Str Gen.Facts Model.Base64.
Import ListNotations.
Open Scope Z_scope.

Inductive mval :=
| VStr (s : list Z)          (* a Python str *)
| VBytes (b : list Z)        (* a Python bytes *)
| VOther.                    (* any other type (int, None, ...) *)

Definition metadata := list (list Z * mval).
Definition headers := list (list Z * list Z).

Inductive enc_err := EValueError | ETypeError.
Inductive dec_err := DUnicode | DBinascii.
Inductive res (E A : Type) := Ok (a : A) | Err (e : E).
Arguments Ok {E A}. Arguments Err {E A}.

Definition grpc_prefix : list Z := [103; 114; 112; 99; 45].          (* "grpc-" *)
Definition bin_suffix : list Z := [45; 98; 105; 110].                 (* "-bin" *)

(* _KEY_RE = ^[0-9a-z_.\-]+$ used with fullmatch *)
Definition key_char (c : Z) : bool :=
  in_range 48 57 c || in_range 97 122 c || (c =? 95) || (c =? 46) || (c =? 45).
Definition key_re_fullmatch (k : list Z) : bool :=
  match k with [] => false | _ => forallb key_char k end.
(* _VALUE_RE = ^[ !-~]+$ used with fullmatch *)
Definition value_char (c : Z) : bool := in_range 32 126 c.
Definition value_re_fullmatch (v : list Z) : bool :=
  match v with [] => false | _ => forallb value_char v end.

Definition is_bin_key (k : list Z) : bool := ends_with bin_suffix k.

(* key in _SPECIAL or key.startswith('grpc-') or not _KEY_RE.fullmatch(key) *)
Definition enc_key_bad (k : list Z) : bool :=
  mem_str k special || starts_with grpc_prefix k || negb (key_re_fullmatch k).

Fixpoint encode_metadata (md : metadata) : res enc_err headers :=
  match md with
  | [] => Ok []
  | (k, v) :: r =>
      if enc_key_bad k then Err EValueError
      else
        let item :=
          if is_bin_key k then
            match v with
            | VBytes b => Ok (k, encode_bin_value b)
            | _ => Err ETypeError
            end
          else
            match v with
            | VStr s => if value_re_fullmatch s then Ok (k, s) else Err EValueError
            | _ => Err ETypeError
            end in
        match item with
        | Err e => Err e
        | Ok h => match encode_metadata r with
                  | Ok hs => Ok (h :: hs)
                  | Err e => Err e
                  end
        end
  end.

(* key.startswith((':', 'grpc-')) or key in _SPECIAL *)
Definition dec_skip (k : list Z) : bool :=
  starts_with [58] k || starts_with grpc_prefix k || mem_str k special.

Definition ascii_ok (s : list Z) : bool := forallb (in_range 0 127) s.

Fixpoint decode_metadata (hs : headers) : res dec_err metadata :=
  match hs with
  | [] => Ok []
  | (k, v) :: r =>
      if dec_skip k then decode_metadata r
      else
        let item :=
          if is_bin_key k then
            if ascii_ok v then
              match decode_bin_value v with
              | Some b => Ok (k, VBytes b)
              | None => Err DBinascii
              end
            else Err DUnicode
          else Ok (k, VStr v) in
        match item with
        | Err e => Err e
        | Ok m => match decode_metadata r with
                  | Ok ms => Ok (m :: ms)
                  | Err e => Err e
                  end
        end
  end.

(* ---- the specification side: what "valid" means in the property statement ---- *)
Definition reserved (k : list Z) : bool :=
  starts_with [58] k || starts_with grpc_prefix k || mem_str k special.

Definition item_valid (kv : list Z * mval) : bool :=
  let '(k, v) := kv in
  key_re_fullmatch k && negb (reserved k) &&
  (if is_bin_key k then match v with VBytes b => bytes_ok b | _ => false end
   else match v with VStr s => value_re_fullmatch s | _ => false end).

Definition md_valid (md : metadata) : bool := forallb item_valid md.

(* what may appear on the wire *)
Definition b64_alphabet (c : Z) : bool :=
  in_range 65 90 c || in_range 97 122 c || in_range 48 57 c || (c =? 43) || (c =? 47).
Definition wire_safe (h : list Z * list Z) : bool :=
  let '(k, v) := h in
  key_re_fullmatch k && negb (reserved k) &&
  (if is_bin_key k then forallb b64_alphabet v else value_re_fullmatch v).

(* typing invariant of the inputs: a Python bytes object holds bytes *)
Definition md_typed (md : metadata) : bool :=
  forallb (fun kv => match snd kv with VBytes b => bytes_ok b | _ => true end) md.
