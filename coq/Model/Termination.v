(* C04, second half: how a termination event reaches the wrappers, what the context exit does with
   it, and the scenario interpreter used by the correspondence check.

   HAND-MODELLED from grpclib/protocol.py and client.py (tied by the correspondence runs):
   * `EventsProcessor.streams` -- a call is REGISTERED from the moment protocol.Stream.send_request
     returns (`_processor.register(self)` is its last action) until `release_stream` at context exit.
     A call that is still INSIDE protocol.Stream.send_request (waiting for `write_ready` or for
     `stream_close_waiter`) is not registered.
   * RST_STREAM(sid), or a stream-level protocol violation by the peer that makes h2 reset the stream
     itself (StreamReset with remote_reset = False) -> process_stream_reset -> `__terminated__` of that
     registered stream only (both kinds).
     GOAWAY -> process_connection_terminated -> close;  h2 ProtocolError in data_received -> close;
     connection_lost -> close;  Channel.close -> processor.close:
     `EventsProcessor.close` calls `__terminated__` (= wrapper.cancel(StreamTerminatedError)) of
     EVERY stream in `streams` -- and of no other.
   * DeadlineWrapper's timer: wrapper.cancel(TimeoutError).
   * `Stream.__aexit__`: `_maybe_finish` (an IR program over the GENERATED recv_initial_metadata /
     recv_trailing_metadata, below), `_maybe_raise` (error upgrade), no await in the epilogue.
   Executable only; proofs in Proofs/C04Proofs.v. *)
From Coq Require Import List Bool Arith ZArith.
From GV Require Import Model.StreamIR Model.StreamSem Model.GuardKernel.
Import ListNotations.

(* ---- _maybe_finish, as a program over the generated operations ---- *)
(* (the repaired code no longer skips the finish when the transport is closing) *)
Definition maybe_finish_prog : program :=
  [SIf (CNot (CFlag F_cancel_done))
       [SIf (CNot (CFlag F_recv_initial_metadata_done)) [SAwaitSelf OpRecvInitialMetadata] [];
        SIf (CNot (CFlag F_recv_trailing_metadata_done)) [SAwaitSelf OpRecvTrailingMetadata] []]
       []].

Definition client_op_names : list opname :=
  [OpSendRequest; OpSendMessage; OpEnd; OpRecvInitialMetadata; OpRecvMessage; OpRecvTrailingMetadata;
   OpCancel].

Fixpoint collect (l : list (option (list path))) : option (list path) :=
  match l with
  | [] => Some []
  | None :: _ => None
  | Some a :: r => match collect r with Some b => Some (a ++ b) | None => None end
  end.

(* every path of every operation in the table, and of the implicit finish of the context exit *)
Definition call_paths_opt (tbl : optable) : option (list path) :=
  collect (map (fun op : opname * program => prog_paths tbl (snd op)) tbl
           ++ [prog_paths tbl maybe_finish_prog]).

Definition call_paths (tbl : optable) : list path :=
  match call_paths_opt tbl with Some l => l | None => [] end.

Definition has_all_ops (tbl : optable) : bool :=
  forallb (fun o => match lookup o tbl with Some _ => true | None => false end) client_op_names.

(* ---- the system: the calls multiplexed on one connection ---- *)
Record call := {
  ck : kstate;                 (* the call's wrapper and the tasks running its operations *)
  released : bool;             (* release_stream ran (context exit) *)
  has_deadline : bool;
  hit : bool;                  (* ghost: a termination event reached the wrapper *)
  missed : bool }.             (* ghost: a connection-level event happened while the call was inside
                                  protocol.Stream.send_request and not registered *)

Definition sys := list call.

Inductive cev := CGoaway | CProtoErr | CLost | CChanClose.

Inductive slabel :=
| LNewCall (deadline : bool)
| LK (c : nat) (l : klabel)    (* application / scheduler / primitive completion on call c *)
| LRst (c : nat) (remote : bool)  (* StreamReset event for the stream of call c: RST_STREAM from the peer
                                     (remote) or h2 resetting the stream ITSELF after a stream-level
                                     protocol violation by the peer (not remote); process_stream_reset
                                     terminates the registered stream in both cases *)
| LConn (e : cev)              (* -> EventsProcessor.close *)
| LRelease (c : nat)           (* release_stream at the end of __aexit__ *)
| LDeadline (c : nat).         (* the DeadlineWrapper timer fires *)

Definition is_open_site (s : site) : bool :=
  match s with SPrim (PSendRequest _) => true | _ => false end.

Definition opened (k : kstate) : bool := existsb is_open_site (sites_done k).

Definition registered (c : call) : bool := opened (ck c) && negb (released c).

Definition at_open (tk : task) : bool :=
  match st tk, acts tk with
  | Blocked, AAwait s :: _ | Woken _, AAwait s :: _ => is_open_site s
  | _, _ => false
  end.

(* some task of the call is inside protocol.Stream.send_request *)
Definition opening (c : call) : bool := existsb at_open (tasks (ck c)).

Definition with_k (c : call) (k : kstate) : call :=
  {| ck := k; released := released c; has_deadline := has_deadline c; hit := hit c;
     missed := missed c |}.

Definition terminate (c : call) : call :=
  {| ck := kstep (ck c) (WCancel ETerminated); released := released c;
     has_deadline := has_deadline c; hit := true; missed := missed c |}.

Definition conn_event (c : call) : call :=
  if registered c then terminate c
  else if opening c then
    {| ck := ck c; released := released c; has_deadline := has_deadline c; hit := hit c;
       missed := true |}
  else c.

Definition upd (n : nat) (f : call -> call) (s : sys) : sys :=
  match nth_error s n with Some c => set_nth n (f c) s | None => s end.

Definition new_call (dl : bool) : call :=
  {| ck := kinit; released := false; has_deadline := dl; hit := false; missed := false |}.

Definition sstep (s : sys) (l : slabel) : sys :=
  match l with
  | LNewCall dl => s ++ [new_call dl]
  | LK _ (WCancel _) => s           (* only the protocol and the deadline timer cancel a wrapper *)
  | LK c kl => upd c (fun cl => with_k cl (kstep (ck cl) kl)) s
  | LRst c _ => upd c (fun cl => if registered cl then terminate cl else cl) s
  | LConn _ => map conn_event s
  | LRelease c =>
      upd c (fun cl => {| ck := ck cl; released := true; has_deadline := has_deadline cl;
                          hit := hit cl; missed := missed cl |}) s
  | LDeadline c =>
      upd c (fun cl => if has_deadline cl then with_k cl (kstep (ck cl) (WCancel ETimeout)) else cl) s
  end.

Definition srun (ls : list slabel) (s : sys) : sys := fold_left sstep ls s.

Definition slabel_ok (tbl : optable) (l : slabel) : Prop :=
  match l with LK _ (Spawn p) => In p (call_paths tbl) | _ => True end.

(* ---- the error upgrade at context exit: _maybe_raise ---- *)
Inductive gstat := GMissing | GInvalid | GCode (k : Z).   (* the grpc-status header: absent / not a Status / Status k *)

Record hinfo := {
  h_ok : bool;               (* :status == '200' *)
  h_mapped : Z;              (* _H2_TO_GRPC_STATUS_MAP.get(:status, UNKNOWN) *)
  h_gs : gstat }.            (* GMissing: no grpc-status among the headers *)

Definition UNKNOWN : Z := 2%Z.

(* _process_grpc_status followed by _raise_for_grpc_status: Some code = GRPCError(code) raised *)
Definition grpc_status_raises (g : gstat) : option Z :=
  match g with
  | GMissing | GInvalid => Some UNKNOWN
  | GCode k => if Z.eqb k 0 then None else Some k
  end.

Definition maybe_raise (h : option hinfo) (t : option gstat) : option Z :=
  match (match h with
         | Some hh => if h_ok hh then None else Some (h_mapped hh)      (* _raise_for_status *)
         | None => None
         end) with
  | Some k => Some k
  | None =>
      match t with
      | Some g => grpc_status_raises g
      | None =>
          match h with
          | Some hh => match h_gs hh with GMissing => None | g => grpc_status_raises g end
          | None => None
          end
      end
  end.

(* what the caller of `async with stream:` gets *)
Inductive outcome :=
| OOk | OTerminated | OTimeout | OGrpc (code : Z) | OProtocol | OCancelled | OOther | OPending.

Definition outcome_of (r : result) : outcome :=
  match r with
  | RNormal => OOk
  | RRaise (XWrap ETerminated) => OTerminated
  | RRaise (XWrap ETimeout) => OTimeout
  | RRaise (XWrap (EOtherErr _)) => OOther
  | RRaise XCancelled => OCancelled
  | RRaise (XProg XProtocolError) => OProtocol
  | RRaise (XProg (XOther _)) => OOther
  | RRaise XAdv => OOther
  end.

(* __aexit__ once `_maybe_finish` (if it ran) is over: `x` = the exception in flight (from the body,
   or caught from _maybe_finish), OOk = none *)
Definition aexit_outcome (x : outcome) (h : option hinfo) (t : option gstat) : outcome :=
  match x with
  | OTerminated => match maybe_raise h t with Some k => OGrpc k | None => OTerminated end
  | o => o
  end.

(* ---- deterministic selection of the path an operation takes (for the scenario interpreter) ---- *)
Record tcx := { x_cs : bool; x_ss : bool; x_end : bool; x_env : envpred -> bool }.

Fixpoint evalc (cx : tcx) (fl : flags) (le : bool) (c : cond) : bool :=
  match c with
  | CTrue => true | CFalse => false
  | CFlag f => get_flag fl f
  | CParam P_end => x_end cx
  | CLocal L_end_stream => le
  | CClientStreaming => x_cs cx
  | CServerStreaming => x_ss cx
  | CStatusOK => true
  | CEnv q => x_env cx q
  | CNot a => negb (evalc cx fl le a)
  | CAnd a b => evalc cx fl le a && evalc cx fl le b
  | COr a b => evalc cx fl le a || evalc cx fl le b
  end.

Record tres := { t_path : path; t_end : ending; t_fl : flags; t_le : bool }.

Definition no_end (cx : tcx) : tcx :=
  {| x_cs := x_cs cx; x_ss := x_ss cx; x_end := false; x_env := x_env cx |}.

Fixpoint trace (fuel : nat) (tbl : optable) (cx : tcx) (d : nat) (p : program) (fl : flags) (le : bool)
  : option tres :=
  match fuel with
  | O => None
  | S f =>
    match p with
    | [] => Some {| t_path := []; t_end := EFall; t_fl := fl; t_le := le |}
    | i :: rest =>
      let one (a : action) := Some {| t_path := [a]; t_end := EFall; t_fl := fl; t_le := le |} in
      let head : option tres :=
        match i with
        | SRaise e => Some {| t_path := [ARaise e]; t_end := EExc; t_fl := fl; t_le := le |}
        | SSetFlag g b => Some {| t_path := [ASet]; t_end := EFall; t_fl := set_flag fl g b; t_le := le |}
        | SSetLocal L_end_stream c =>
            Some {| t_path := [ASet]; t_end := EFall; t_fl := fl; t_le := evalc cx fl le c |}
        | SHeadersNew _ | SHeadersAdd _ => one ASet
        | SHelper h => one (AHelp h)
        | SResetNowait | SOpaque | SEncodeMetadata => one AOther
        | SGuarded body =>
            match trace f tbl cx (S d) body fl le with
            | None => None
            | Some r =>
                Some {| t_path := match t_end r with
                                  | EFall => AEnter :: t_path r ++ [AExit]
                                  | _ => AEnter :: t_path r
                                  end;
                        t_end := t_end r; t_fl := t_fl r; t_le := t_le r |}
            end
        | SAwaitPrim pr => one (AAwait (SPrim pr))
        | SAwaitHook h => one (AAwait (SHook h))
        | SAwaitSelf o =>
            match lookup o tbl with
            | None => None
            | Some body =>
                match trace f tbl (no_end cx) 0 body fl false with
                | None => None
                | Some r =>
                    Some {| t_path := t_path r;
                            t_end := match t_end r with ERet => EFall | e => e end;
                            t_fl := t_fl r; t_le := le |}
                end
            end
        | SIf c t e => trace f tbl cx d (if evalc cx fl le c then t else e) fl le
        | SReturn => Some {| t_path := repeat AExit d ++ [AReturn]; t_end := ERet; t_fl := fl; t_le := le |}
        end in
      match head with
      | None => None
      | Some h =>
          match t_end h with
          | EFall =>
              match trace f tbl cx d rest (t_fl h) (t_le h) with
              | None => None
              | Some r => Some {| t_path := t_path h ++ t_path r; t_end := t_end r;
                                  t_fl := t_fl r; t_le := t_le r |}
              end
          | _ => Some h
          end
      end
    end
  end.

(* ---- the scenario interpreter: one cell of the correspondence matrix ---- *)
Inductive cop := KSr | KSm | KEn | KRi | KRm | KRt | KCa | KAx
               | KCall (client_streaming : bool).   (* the stub-style call, one request message *)
Inductive creason := RPaused | RWindow | RSlot | RSilent.
Inductive cevent := VRst | VGoaway | VGarbage | VLost | VClose
                  | VSerr.   (* stream-level protocol violation by the peer: h2 resets the stream locally *)
Inductive cstatus := StNone | StH503 | StTonly (k : Z) | StTrailers (k : Z)
                   | StH200              (* response headers (200) only *)
                   | StH200Msg.          (* response headers and one message *)
Inductive cvariant := VaBase | VaImplicit | VaAfterHeaders.

Record cell := {
  c_op : cop; c_reason : creason; c_event : cevent; c_during : bool; c_deadline : bool;
  c_status : cstatus; c_variant : cvariant }.

Definition opens_in_op (c : cell) : bool :=
  match c_op c, c_variant c with
  | KSr, _ | KSm, VaImplicit | KCall _, _ => true
  | _, _ => false
  end.

Definition need_headers (c : cell) : bool :=
  match c_op c, c_variant c with
  | KRt, _ | _, VaAfterHeaders => true
  | _, _ => false
  end.

Definition hdr_arrived (c : cell) : bool :=
  need_headers c || match c_status c with StNone => false | _ => true end.
Definition trl_arrived (c : cell) : bool :=
  match c_status c with StTrailers _ => true | _ => false end.
Definition eof_arrived (c : cell) : bool :=
  match c_status c with StTonly _ | StTrailers _ => true | _ => false end.

Definition cell_hinfo (c : cell) : option hinfo :=
  match c_status c with
  | StH503 => Some {| h_ok := false; h_mapped := 14%Z; h_gs := GMissing |}
  | StTonly k => Some {| h_ok := true; h_mapped := 0%Z; h_gs := GCode k |}
  | StTrailers _ | StH200 | StH200Msg => Some {| h_ok := true; h_mapped := 0%Z; h_gs := GMissing |}
  | StNone => if need_headers c then Some {| h_ok := true; h_mapped := 0%Z; h_gs := GMissing |}
              else None
  end.
Definition msg_arrived (c : cell) : bool :=
  match c_status c with StH200Msg => true | _ => false end.
Definition cell_tinfo (c : cell) : option gstat :=
  match c_status c with StTrailers k => Some (GCode k) | _ => None end.

Definition is_reason (a b : creason) : bool :=
  match a, b with
  | RPaused, RPaused | RWindow, RWindow | RSlot, RSlot | RSilent, RSilent => true
  | _, _ => false
  end.

(* does the primitive suspend the task, in the state of the connection that the cell sets up? *)
Definition blocks (c : cell) (s : site) : bool :=
  match s with
  | SPrim (PSendRequest _) =>
      is_reason (c_reason c) RPaused || (is_reason (c_reason c) RSlot && opens_in_op c)
  | SPrim (PSendData _) => is_reason (c_reason c) RPaused || is_reason (c_reason c) RWindow
  | SPrim PEnd | SPrim PReset => is_reason (c_reason c) RPaused
  | SPrim PRecvHeaders => negb (hdr_arrived c)
  | SPrim PRecvTrailers => negb (trl_arrived c || eof_arrived c)   (* __ended__ sets trailers_received *)
  | SPrim PRecvMessage => negb (eof_arrived c || msg_arrived c)
  | SPrim PConnect | SPrim (PSendHeaders _) | SHook _ => false
  end.

(* which helper raises GRPCError on what the server had already sent *)
Definition helper_fails (c : cell) (h : helper) : bool :=
  match h, c_status c with
  | Hp_raise_for_status, StH503 => true
  | Hp_raise_for_grpc_status, StTonly k | Hp_raise_for_grpc_status, StTrailers k => negb (Z.eqb k 0)
  | _, _ => false
  end.

Fixpoint decisions (c : cell) (p : path) : list dec :=
  match p with
  | [] => []
  | AAwait s :: r => if blocks c s then [DBlock] else DGo :: decisions c r
  | AHelp h :: r => if helper_fails c h then [DFail] else DGo :: decisions c r
  | AOther :: r => DGo :: decisions c r
  | _ :: r => decisions c r
  end.

Definition cell_env (c : cell) (closing : bool) (q : envpred) : bool :=
  match q with
  | E_has_grpc_status => match c_status c with StTonly _ => true | _ => false end
  | E_got_message => msg_arrived c
  | E_closable => false
  | E_untracked _ => c_deadline c      (* (`closing` is no longer read by any modelled condition) *)
  end.

Definition cell_cx (c : cell) (e closing : bool) : tcx :=
  {| x_cs := match c_op c with KCall cs => cs | _ => true end; x_ss := true; x_end := e;
     x_env := cell_env c closing |}.

Definition TRACE_FUEL : nat := 60.

Definition op_program (tbl : optable) (o : cop) : option program :=
  match o with
  | KSr => lookup OpSendRequest tbl | KSm => lookup OpSendMessage tbl | KEn => lookup OpEnd tbl
  | KRi => lookup OpRecvInitialMetadata tbl | KRm => lookup OpRecvMessage tbl
  | KRt => lookup OpRecvTrailingMetadata tbl | KCa => lookup OpCancel tbl
  | KAx => Some maybe_finish_prog
  | KCall _ => lookup OpSendMessage tbl
  end.

(* The operations a cell's task performs one after the other, each with its `end` argument.  The
   stub-style call (UnaryUnaryMethod.__call__ and its siblings, one request message) is
       send_message(m, end=True)  -- implicit send_request;   recv_message()  -- implicit
       recv_initial_metadata;   the context exit's implicit finish.
   Between two operations the asyncio task is outside every guard and not a member of the wrapper,
   exactly like a fresh kernel task, so the sequence is run as successive kernel tasks. *)
Definition op_sequence (tbl : optable) (o : cop) : option (list (program * bool)) :=
  match o with
  | KCall _ =>
      match lookup OpSendMessage tbl, lookup OpRecvMessage tbl with
      | Some a, Some b => Some [(a, true); (b, false); (maybe_finish_prog, false)]
      | _, _ => None
      end
  | _ => match op_program tbl o with Some p => Some [(p, false)] | None => None end
  end.

Definition one_call (s : sys) : call := nth 0 s (new_call false).
Definition last_task (s : sys) : nat := pred (length (tasks (ck (one_call s)))).
Definition task_st (s : sys) (t : nat) : tstat :=
  match nth_error (tasks (ck (one_call s))) t with Some tk => st tk | None => Fresh end.
Definition task_head (s : sys) (t : nat) : option site :=
  match nth_error (tasks (ck (one_call s))) t with
  | Some tk => match acts tk with AAwait x :: _ => Some x | _ => None end
  | None => None
  end.

Fixpoint path_beq (a b : path) : bool :=
  match a, b with
  | [], [] => true
  | x :: r, y :: q => action_beq x y && path_beq r q
  | _, _ => false
  end.

Definition in_paths (tbl : optable) (p : path) : bool := existsb (path_beq p) (call_paths tbl).

(* the environment lets everything through (used for the operations that set the call up) *)
Fixpoint all_go (p : path) : list dec :=
  match p with
  | [] => []
  | AAwait _ :: r | AHelp _ :: r | AOther :: r => DGo :: all_go r
  | _ :: r => all_go r
  end.

(* start an operation as a task and schedule it once; returns the system, the flags after the
   selected path, and whether that path is one of the syntactic paths the theorems quantify over *)
Definition start_op (tbl : optable) (cx : tcx) (ds : path -> list dec) (s : sys) (fl : flags)
           (prog : program) : option (sys * flags * bool) :=
  match trace TRACE_FUEL tbl cx 0 prog fl false with
  | None => None
  | Some r =>
      let p := t_path r in
      let s1 := sstep s (LK 0 (Spawn p)) in
      let s2 := sstep s1 (LK 0 (Run (last_task s1) (ds p))) in
      Some (s2, t_fl r, in_paths tbl p)
  end.

Fixpoint start_seq (tbl : optable) (c : cell) (closing : bool) (s : sys) (fl : flags) (ok : bool)
         (ps : list (program * bool)) : option (sys * flags * bool) :=
  match ps with
  | [] => Some (s, fl, ok)
  | (prog, e) :: r =>
      match start_op tbl (cell_cx c e closing) (decisions c) s fl prog with
      | None => None
      | Some (s', fl', ok') =>
          match task_st s' (last_task s'), r with
          | Done RNormal, _ :: _ => start_seq tbl c closing s' fl' (ok && ok') r
          | _, _ => Some (s', fl', ok && ok')
          end
      end
  end.

(* the loop runs every task once more (a task that is not ready is left alone) *)
Definition drain (s : sys) : sys :=
  fold_left (fun s t => sstep s (LK 0 (Run t []))) (seq 0 (length (tasks (ck (one_call s))))) s.

Inductive setup :=
| SOk
| SNotBlocked          (* 'during': the operation was over before the event *)
| SNoStreamForRst      (* RST_STREAM needs a stream; the call has none yet *)
| SRstInfeasible       (* both sides have ended the stream: a peer cannot reset it any more *)
| SUnaffected          (* the call had not touched the connection: a later send_request reconnects *)
| SStatusInfeasible    (* the set-up has consumed the (200) response headers: no other headers can follow *)
| SError.              (* the interpreter could not run the cell (fuel / unknown operation) *)

Record prediction := {
  p_setup : setup;
  p_blocked : option site;     (* 'during': where the operation was suspended when the event came *)
  p_registered : bool;         (* was the call in EventsProcessor.streams when the event came *)
  p_werr : outcome;            (* Wrapper._error after the event (OOk = None) *)
  p_op : outcome;              (* the operation, at quiescence after the event *)
  p_ctx : outcome;             (* the `async with` of the call *)
  p_late : outcome;            (* OPending at quiescence: what the deadline (if any) makes of it *)
  p_inpaths : bool;            (* every selected path is in `call_paths` *)
  p_missed : bool }.

Definition no_prediction (su : setup) : prediction :=
  {| p_setup := su; p_blocked := None; p_registered := false; p_werr := OOk; p_op := OPending;
     p_ctx := OPending; p_late := OPending; p_inpaths := true; p_missed := false |}.

Definition conn_level (e : cevent) : bool := match e with VRst | VSerr => false | _ => true end.

Definition fire (c : cell) (fl : flags) (s : sys) : sys + setup :=
  match c_event c with
  | VRst | VSerr =>
      if negb (registered (one_call s)) then inr SNoStreamForRst
      else if (get_flag fl F_end_done && eof_arrived c) || get_flag fl F_cancel_done
      then inr SRstInfeasible   (* the stream is closed on both sides / the client has reset it *)
      else inl (sstep s (LRst 0 (match c_event c with VRst => true | _ => false end)))
  | VGoaway => inl (sstep s (LConn CGoaway))
  | VGarbage => inl (sstep s (LConn CProtoErr))
  | VLost => inl (sstep s (LConn CLost))
  | VClose => inl (sstep s (LConn CChanClose))
  end.

(* GRPCError raised by a helper on what the server had sent *)
Definition helper_outcome (c : cell) : outcome :=
  match c_status c with
  | StH503 => OGrpc 14
  | StTonly k | StTrailers k => OGrpc k
  | StNone | StH200 | StH200Msg => OOther
  end.

Definition res_outcome (c : cell) (r : result) : outcome :=
  match r with RRaise XAdv => helper_outcome c | _ => outcome_of r end.

(* the operation is (or ends with) the context exit: its outcome is the call's *)
Definition is_ax (o : cop) : bool := match o with KAx | KCall _ => true | _ => false end.

Definition op_outcome (c : cell) (s : sys) (t : nat) : outcome :=
  match task_st s t with
  | Done r =>
      if is_ax (c_op c) then
        (* the task is _maybe_finish inside __aexit__: `except Exception` then _maybe_raise *)
        aexit_outcome (res_outcome c r) (cell_hinfo c) (cell_tinfo c)
      else res_outcome c r
  | _ => OPending
  end.

Definition ctx_outcome (c : cell) (o : outcome) : outcome :=
  if is_ax (c_op c) then o
  else match o with
       | OPending => OPending
       | OOk => OOther        (* the body would go on: not part of any cell *)
       | x => aexit_outcome x (cell_hinfo c) (cell_tinfo c)
       end.

Definition conclude (c : cell) (s : sys) (t : nat) (blocked : option site) (reg ok : bool) : prediction :=
  let k := ck (one_call s) in
  let o := op_outcome c s t in
  let late :=
    match o with
    | OPending =>
        if c_deadline c then op_outcome c (drain (sstep s (LDeadline 0))) t else OPending
    | _ => o
    end in
  {| p_setup := SOk; p_blocked := blocked; p_registered := reg;
     p_werr := match werr k with None => OOk | Some e => outcome_of (RRaise (XWrap e)) end;
     p_op := o; p_ctx := ctx_outcome c o; p_late := late; p_inpaths := ok;
     p_missed := missed (one_call s) |}.

Definition wants_end (o : cop) : bool := match o with KRt | KAx => true | _ => false end.

Definition predict (tbl : optable) (c : cell) : prediction :=
  let s0 : sys := [new_call (c_deadline c)] in
  let pre_cx (e : bool) := cell_cx c e false in
  (* the operations that bring the call to the point where the cell's operation starts *)
  let pre1 : option (sys * flags * bool) :=
    if opens_in_op c then Some (s0, no_flags, true)
    else match lookup OpSendRequest tbl with
         | Some p => start_op tbl (pre_cx (wants_end (c_op c))) all_go s0 no_flags p
         | None => None
         end in
  let pre2 : option (sys * flags * bool) :=
    match pre1 with
    | None => None
    | Some (s1, fl1, ok1) =>
        if need_headers c then
          match lookup OpRecvInitialMetadata tbl with
          | Some p =>
              match start_op tbl (pre_cx false) all_go s1 fl1 p with
              | Some (s2, fl2, ok2) => Some (s2, fl2, ok1 && ok2)
              | None => None
              end
          | None => None
          end
        else pre1
    end in
  match pre2, op_sequence tbl (c_op c) with
  | Some (s1, fl1, ok1), Some progs =>
      if need_headers c && match c_status c with StH503 | StTonly _ => true | _ => false end
      then no_prediction SStatusInfeasible
      else if c_during c then
        match start_seq tbl c false s1 fl1 true progs with
        | None => no_prediction SError
        | Some (s2, _, ok2) =>
            let t := last_task s2 in
            let reg := registered (one_call s2) in
            match task_st s2 t with
            | Blocked =>
                match fire c fl1 s2 with
                | inr su =>
                    {| p_setup := su; p_blocked := task_head s2 t; p_registered := reg; p_werr := OOk;
                       p_op := OPending; p_ctx := OPending; p_late := OPending;
                       p_inpaths := ok1 && ok2; p_missed := false |}
                | inl s3 => conclude c (drain s3) t (task_head s2 t) reg (ok1 && ok2)
                end
            | Done _ =>
                {| p_setup := SNotBlocked; p_blocked := None; p_registered := reg; p_werr := OOk;
                   p_op := op_outcome c s2 t; p_ctx := OPending; p_late := OPending;
                   p_inpaths := ok1 && ok2; p_missed := false |}
            | _ => no_prediction SError
            end
        end
      else if opens_in_op c && conn_level (c_event c) then no_prediction SUnaffected
      else
        let reg := registered (one_call s1) in
        match fire c fl1 s1 with
        | inr su => no_prediction su
        | inl s2 =>
            match start_seq tbl c (conn_level (c_event c)) (drain s2) fl1 true progs with
            | None => no_prediction SError
            | Some (s3, _, ok2) => conclude c s3 (last_task s3) None reg (ok1 && ok2)
            end
        end
  | _, _ => no_prediction SError
  end.

(* ---- one call driven by several tasks at once (the scripted / PRNG part of the correspondence) ---- *)
(* what happens between the start of the operations and the termination event *)
Inductive mstep :=
| MReply                 (* the server sends the response headers (if not yet) and one message *)
| MCredit                (* the server grants exactly the credit the blocked send_message needs *)
| MResume                (* the transport resumes writing *)
| MStart (o : cop).      (* the application starts another operation (e.g. the receiver loops) *)

Record mspec := {
  m_ops : list cop;            (* started concurrently, each as its own task, in this order *)
  m_mid : list mstep;          (* then, before the event *)
  m_after : list cop;          (* started after the event *)
  m_paused : bool; m_window : bool; m_headers : bool;
  m_event : cevent; m_deadline : bool }.

Definition with_env (m : mspec) (pa wi he : bool) : mspec :=
  {| m_ops := m_ops m; m_mid := m_mid m; m_after := m_after m; m_paused := pa; m_window := wi;
     m_headers := he; m_event := m_event m; m_deadline := m_deadline m |}.

(* the state of the connection / of the server's answer as a cell, for `blocks` and `decisions` *)
Definition env_cell (m : mspec) (msg : bool) : cell :=
  {| c_op := KSm;
     c_reason := if m_paused m then RPaused else if m_window m then RWindow else RSilent;
     c_event := m_event m; c_during := true; c_deadline := m_deadline m;
     c_status := if msg then StH200Msg else StNone;
     c_variant := if m_headers m then VaAfterHeaders else VaBase |}.

Definition all_flags : list flag :=
  [F_send_request_done; F_send_message_done; F_end_done; F_recv_initial_metadata_done;
   F_recv_trailing_metadata_done; F_cancel_done; F_trailers_only; F_send_initial_metadata_done;
   F_send_trailing_metadata_done].

Definition flags_or (a b : flags) : flags :=
  fold_left (fun f g => if get_flag b g then set_flag f g true else f) all_flags a.

Record mst := {
  q_sys : sys;
  q_fl0 : flags;                       (* the flags after the set-up *)
  q_ok : bool;
  q_started : list (nat * flags);      (* the tasks started, each with the flags its path sets *)
  q_env : mspec }.

(* the flags as the operations that have COMPLETED leave them *)
Definition cur_flags (q : mst) : flags :=
  fold_left (fun f (tf : nat * flags) =>
               match task_st (q_sys q) (fst tf) with Done RNormal => flags_or f (snd tf) | _ => f end)
            (q_started q) (q_fl0 q).

Definition q_start (tbl : optable) (closing : bool) (q : mst) (o : cop) : option mst :=
  match op_program tbl o with
  | None => None
  | Some prog =>
      let c := env_cell (q_env q) false in
      match start_op tbl (cell_cx c false closing) (decisions c) (q_sys q) (cur_flags q) prog with
      | Some (s', fl', ok') =>
          Some {| q_sys := s'; q_fl0 := q_fl0 q; q_ok := q_ok q && ok';
                  q_started := q_started q ++ [(last_task s', fl')]; q_env := q_env q |}
      | None => None
      end
  end.

(* the state of the connection changed: every suspended task whose primitive no longer suspends is
   completed and scheduled *)
Definition wake (c : cell) (s : sys) : sys :=
  fold_left (fun s t =>
               match nth_error (tasks (ck (one_call s))) t with
               | Some tk =>
                   match st tk, acts tk with
                   | Blocked, AAwait x :: rest =>
                       if blocks c x then s
                       else sstep (sstep s (LK 0 (Complete t))) (LK 0 (Run t (decisions c rest)))
                   | _, _ => s
                   end
               | None => s
               end) (seq 0 (length (tasks (ck (one_call s))))) s.

Definition q_with (q : mst) (s : sys) (m : mspec) : mst :=
  {| q_sys := s; q_fl0 := q_fl0 q; q_ok := q_ok q; q_started := q_started q; q_env := m |}.

Definition q_step (tbl : optable) (q : mst) (x : mstep) : option mst :=
  let m := q_env q in
  match x with
  | MStart o => q_start tbl false q o
  | MReply =>
      let m' := with_env m (m_paused m) (m_window m) true in
      Some (q_with q (wake (env_cell m' true) (q_sys q)) m')
  | MCredit =>
      Some (q_with q (wake (env_cell (with_env m (m_paused m) false (m_headers m)) false) (q_sys q)) m)
  | MResume =>
      let m' := with_env m false (m_window m) (m_headers m) in
      Some (q_with q (wake (env_cell m' false) (q_sys q)) m')
  end.

Definition q_fold {A} (f : mst -> A -> option mst) (l : list A) (q : option mst) : option mst :=
  fold_left (fun acc x => match acc with Some q => f q x | None => None end) l q.

Definition task_outcome (c : cell) (s : sys) (t : nat) : outcome :=
  match task_st s t with Done r => res_outcome c r | _ => OPending end.

Definition is_blocked_task (s : sys) (t : nat) : bool :=
  match task_st s t with Blocked => true | _ => false end.

Record mprediction := {
  mp_setup : setup;
  mp_blocked : list bool;      (* per task started before the event: suspended when the event came *)
  mp_during : list outcome;    (* ... its outcome at quiescence after the event *)
  mp_after : list outcome;
  mp_inpaths : bool }.

Definition predict_multi (tbl : optable) (m : mspec) : mprediction :=
  let c0 := env_cell m false in
  let bad su := {| mp_setup := su; mp_blocked := []; mp_during := []; mp_after := [];
                   mp_inpaths := true |} in
  let s0 : sys := [new_call (m_deadline m)] in
  let pre1 :=
    match lookup OpSendRequest tbl with
    | Some p => start_op tbl (cell_cx c0 false false) all_go s0 no_flags p
    | None => None
    end in
  let pre2 :=
    match pre1 with
    | Some (s1, fl1, ok1) =>
        if m_headers m then
          match lookup OpRecvInitialMetadata tbl with
          | Some p => match start_op tbl (cell_cx c0 false false) all_go s1 fl1 p with
                      | Some (s2, fl2, ok2) => Some (s2, fl2, ok1 && ok2)
                      | None => None
                      end
          | None => None
          end
        else pre1
    | None => None
    end in
  match pre2 with
  | None => bad SError
  | Some (s1, fl1, ok1) =>
      let q0 := {| q_sys := s1; q_fl0 := fl1; q_ok := ok1; q_started := []; q_env := m |} in
      match q_fold (q_step tbl) (m_mid m) (q_fold (q_start tbl false) (m_ops m) (Some q0)) with
      | None => bad SError
      | Some q1 =>
          let ts := map fst (q_started q1) in
          match fire (env_cell (q_env q1) false) (cur_flags q1) (q_sys q1) with
          | inr su => bad su
          | inl s3 =>
              let s4 := drain s3 in
              let q2 := {| q_sys := s4; q_fl0 := q_fl0 q1; q_ok := q_ok q1; q_started := q_started q1;
                           q_env := q_env q1 |} in
              match q_fold (q_start tbl (conn_level (m_event m))) (m_after m) (Some q2) with
              | None => bad SError
              | Some q3 =>
                  {| mp_setup := SOk;
                     mp_blocked := map (is_blocked_task (q_sys q1)) ts;
                     mp_during := map (task_outcome c0 s4) ts;
                     mp_after := map (task_outcome c0 (q_sys q3))
                                     (skipn (length ts) (map fst (q_started q3)));
                     mp_inpaths := q_ok q3 |}
              end
          end
      end
  end.
